"""C01 — JS minification preserves program behaviour (engines JsPrint + jsoracle)."""
import json, os
import vcheck


def run(c):
    c.build(['jsoracle'])
    c.props()
    if c.replay_file and c.replay_file.get("failing_input"):
        v = c.replay_file["failing_input"]
        w = os.path.join(c.outdir, "witness.json")
        json.dump({"input": v.get("input", ""), "options": v.get("options", {}), "strict": v.get("options", {}).get("strict") == "true"}, open(w, "w"))
        c.tool("jsoracle", ["-witness", w], sub="replay")
        return c.finish()
    n = 1500 if c.tier == "quick" else 40000
    res, d = c.tool("jsoracle", ["-seed", c.seed + 100, "-tier", c.tier, "-n", n, "-cases", "print"])
    if res is not None:
        c.corr("Js.render (the writer's spaces: every expression case also BYTE FOR BYTE) ; Js.print (parenthesis decisions of the expression printer over the regenerated precedence maps and constant guards) and Js.print_rw (the same printer with the on-the-fly rewrites optimizeUnaryExpr / optimizeBooleanExpr / optimizeCondExpr applied at every node) vs the token sequence of the real js.Minify on 6,000 + 6,000 random expressions; Js.optimize_body (the statement optimiser of stmtlist.go: if / else, return, throw, break, blocks, empty and expression statements) vs the AST the real optimizeStmtList returns (verif hook) on 6,000 parsed statement lists; Js.print_body (optimiser + statement printer + expression printer) vs the tokens js.Minify writes for ~3,000 function bodies; on the same bodies the statement of parse_print evaluated (printable, parses back to the tree the printer means); Js.NumLit (numeric literals: separators, BigInt suffix, 0b / 0o / 0x to decimal) vs the real functions on 6,000 literals; Js.StrLit (minifyString + replaceEscapes) vs the real function on 20,000 string literals, with the statement of the string-value theorem (decode of input = decode of output, output valid for its delimiter and in strict mode) evaluated on each; Js.merge_strings (mergeBinaryExpr + appendStringPart: the literal built for a string concatenation) vs the real function (hook) on 2,500 concatenations, with the statement 'value of the merged and minified literal = concatenation of the parts' values' evaluated on each", d, max_report=400)
        # a disagreement is searched for a failing input: the disagreeing expressions go to the node oracle as programs
        exs = getattr(c, "corr_examples", None) or []
        srcp = os.path.join(d, "cases.src")
        if exs and os.path.exists(srcp):
            raw = open(srcp, "rb").read().split(b"\n")    # string-literal cases hold arbitrary bytes
            srcs = [x.decode("utf-8", "replace") for x in raw]
            for k, exm in enumerate(exs[:5] + exs[5:400:5]):  # the first disagreements and a spread over the rest (often the first ones sit in dead code)
                ln = exm.get("line", 0) - 1
                if 0 <= ln < len(srcs) and srcs[ln].strip() and exm.get("case", "").startswith("jsstr"):
                    # a string literal: its value is observed in sloppy and in strict code (legacy octal escapes are
                    # errors there and inside templates)
                    for variant, strict in enumerate([False, True]):
                        w = os.path.join(c.outdir, "corrwitness%d_s%d.json" % (k, variant))
                        json.dump({"input": "", "input_hex": (b"var x0;" + raw[ln] + b";h0(x0,x0.length)").hex(), "options": {}, "strict": strict}, open(w, "w"))
                        c.tool("jsoracle", ["-witness", w], sub="corr-search-%d-s%d" % (k, variant), count=False)
                        if c.new_violations:
                            break
                    if c.new_violations:
                        break
                    continue
                if 0 <= ln < len(srcs) and srcs[ln].strip():
                    # every identifier gets a value and the result is observed through the host; several assignments of
                    # truthy / falsy values, since a mis-grouped && / || / ?: only shows for some of them
                    for variant in range(6):
                        vals = []
                        for i in range(1, 40):
                            if variant == 0:
                                v = i + 2
                            elif variant == 1:
                                v = 0 if i % 2 else i + 2
                            elif variant == 2:
                                v = i + 2 if i % 2 else 0
                            elif variant == 3:
                                v = 0
                            else:
                                v = (i * 7 + variant * 3) % 5
                            vals.append("v%d=%d" % (i, v))
                        fdecl = "function f1(x){h2('f1',x);return x}function f2(x){h2('f2',x);return x?0:1}"
                        prog = fdecl + "var " + ",".join(vals) + ",x0;try{" + srcs[ln] + "}catch(e){h1(String(e))}h0(x0," + ",".join("v%d" % i for i in range(1, 6)) + ")"
                        w = os.path.join(c.outdir, "corrwitness%d_%d.json" % (k, variant))
                        json.dump({"input": prog, "options": {"KeepVarNames": "true"}, "strict": False}, open(w, "w"))
                        c.tool("jsoracle", ["-witness", w], sub="corr-search-%d-%d" % (k, variant), count=False)
                        if c.new_violations:
                            break
                    if c.new_violations:
                        break
        ex = res.get("extra") or {}
        c.cov["printer_fragment"] = {k: v for k, v in ex.items() if k.startswith("jsprint")}
        c.cov["statement_fragment"] = {k: v for k, v in ex.items() if k.startswith("jsstmt")}
        c.cov["literal_fragment"] = {k: v for k, v in ex.items() if k.startswith("jsnum") or k.startswith("jsstr")}
    c.replay_known(None)
    c.cov["trusted_base"] += [
        "C01: PARTIAL — the theorem covers the printer's parenthesis decisions on the operator fragment; the on-the-fly rewrites of js.go/util.go/stmtlist.go, literals and statements are decided by search only (node 20 vm: recorded host calls, final globals, completion, sloppy+strict, all Version/KeepVarNames settings)",
        "C01: Js/PrintSpec.v (ECMA-262 clause 13 levels, with the one documented relaxation for && / ||) is trusted as the grammar; its unambiguity is assumed",
        "C01: parse/js (the front end) is run, not modelled",
    ]
    return c.finish(explanation="proof for the printer's precedence logic over all parser-shaped trees and the regenerated maps; search (node) for behaviour")
