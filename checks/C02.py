"""C02 — JS identifier shortening is capture-free and leaves public names alone (engine JsRename)."""
import json, os
import vcheck


def run(c):
    c.build(['jsoracle'])
    c.props()
    if c.replay_file and c.replay_file.get("failing_input"):
        v = c.replay_file["failing_input"]
        w = os.path.join(c.outdir, "witness.json")
        json.dump({"input": v.get("input", ""), "options": v.get("options", {}), "strict": v.get("options", {}).get("strict") == "true"}, open(w, "w"))
        c.tool("jsoracle", ["-witness", w], sub="replay")
        return c.finish()
    n = 700 if c.tier == "quick" else 12000
    d = os.path.join(c.outdir, "jsoracle")
    res, err = vcheck.run_tool("jsoracle", ["-seed", c.seed, "-tier", c.tier, "-n", n, "-cases", "rename"], d)
    if res is None:
        c.broken.append("harness: " + err)
    else:
        ex = res.get("extra") or {}
        c.cov["evaluations"] += res["evaluations"] + ex.get("rename_programs", 0)
        c.cov["distinct_nontrivial"] += ex.get("rename_renamed_scopes", 0)
        c.rules.append("[jsoracle] distinct_nontrivial = scopes of real parse/js scope forests that the minifier renamed and whose names the model had to predict; evaluations = node-oracle runs + forests")
        c.cov["samples"] += [{"tool": "jsoracle", "case": s} for s in res.get("samples", [])[:3]]
        c.cov["tools"].append({"tool": "jsoracle", "evaluations": res["evaluations"], "violations": len(res["violations"]),
                               "rename": {k: v for k, v in ex.items() if k.startswith("rename") or k.startswith("wf")}, "histograms": None})
        c.cov["hypothesis_wf_prog"] = {"forests_checked": ex.get("rename_programs"), "violations": ex.get("wf_prog_violations"), "kinds": ex.get("wf_prog_violation_kinds")}
        if ex.get("wf_prog_violations"):
            c.notes.append("wf_prog (hypothesis of rename_capture_free) does not hold on %s generated forests: %s" % (ex.get("wf_prog_violations"), ex.get("wf_prog_violation_kinds")))
        # behaviour differences found by the node oracle: a capture is one; differences with the signature of an open finding of
        # another JS property are reported by that property's check
        allknown = json.load(open(os.path.join(vcheck.ROOT, "known_findings.json")))["findings"]
        for v in res["violations"]:
            sig = v.get("signature", "")
            if vcheck.match_known(sig, c.known) is None and vcheck.match_known(sig, allknown) is not None:
                continue
            c.violation(v, "jsoracle")
        c.corr("Js.rename_program / get_name (F1 model of the renamer) vs the names the real minifier assigned on the real parser's scope forest; getName on 8,400 indices", d)
    c.replay_known(None)
    c.cov["trusted_base"] += [
        "C02: parse/js scope analysis (which identifiers are declarations/uses, Scope.Declared/Undeclared/Link/HasWith) is run, not modelled; its invariants (wf_prog: parents first, declared once, closure of Undeclared, no kept-name scope below a renamed one) are measured on every generated forest; wf_orig (the input resolves correctly) and wf_small are not measured",
        "C02: verif-tagged hook js/verif_export.go (VerifMinifyAST duplicates the tail of Minify; VerifGetName) gives the harness the AST the minifier renamed",
        "C02: node 20 (vm) is the independent search oracle for capture (behavioural difference)",
    ]
    return c.finish(explanation="proof over all scope forests satisfying the parser's invariants; correspondence on real forests; K14/K15 (`with`) excluded by hypothesis and listed as known finding")
