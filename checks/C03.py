"""C03 — HTML minification preserves the parsed document (engine Html)."""
import json, os, subprocess
import vcheck


def run(c):
    c.build(['htmloracle'])
    c.props()
    if c.replay_file and c.replay_file.get("failing_input"):
        return c.replay_any()
    n = 30000 if c.tier == "quick" else 600000
    mn = 3000 if c.tier == "quick" else 60000
    res, d = c.tool("htmloracle", ["-seed", c.seed, "-tier", c.tier, "-n", n, "-model-n", mn])
    if res is not None:
        c.corr("Html.html_minify (token-level model of html.Minify on attribute-free documents: white-space machine, pre/raw text, tag omission, document tags, options) vs html.Minify on the token stream of the real parse/html lexer; html_escape_attr_val vs parse/html.EscapeAttrVal; Html.attrs_out (attribute loop: value processing by trait, empty / default omission by the regenerated rules, boolean attributes, quoting) vs the attributes html.Minify writes for generated start tags", d)
        ex = res.get("extra") or {}
        # on how many of the real token lists does html_words_preserved apply?  (wf_tokens_b, proved sound, extracted)
        try:
            lines = [l.replace("htmlws", "htmlwf", 1) for l in open(os.path.join(d, "cases.in")) if l.startswith("htmlws\t")]
            p = subprocess.run([os.path.join(vcheck.BIN, "mvmodel")], input="".join(lines), stdout=subprocess.PIPE, text=True, timeout=600)
            outs = p.stdout.split()
            c.cov["hypothesis_wf_tokens_decided"] = {"documents": len(lines), "wf_tokens_b_true": outs.count("1"), "wf_tokens_b_false": outs.count("0")}
        except Exception as e:
            c.notes.append("wf_tokens_b measurement failed: %r" % e)
        c.cov["hypothesis_wf_tokens"] = {"text_tokens_checked": ex.get("htmlws_text_tokens_checked"), "violations": ex.get("htmlws_wf_tokens_violations")}
        if ex.get("htmlws_wf_tokens_violations"):
            c.notes.append("wf_tokens (hypothesis of html_words_preserved) was violated by %s of %s real text tokens: the theorem does not apply to those documents" % (ex.get("htmlws_wf_tokens_violations"), ex.get("htmlws_text_tokens_checked")))
    c.replay_known(None)
    c.cov["trusted_base"] += [
        "C03: the parse/v2/html lexer and parse.ReplaceMultipleWhitespaceAndEntities are RUN by the harness, not modelled: the theorems start from the token list with the helper's result attached to every text token",
        "C03: Html/HtmlWsSpec.v (items, inter-word boundaries, which tags are boundaries) is trusted as the token-level meaning of 'same rendered words'; golang.org/x/net/html (tree builder) is the independent search oracle for the parsed document",
        "C03: attributes other than their quoting (default-value removal, boolean attributes, URL / media-type / style / event-handler rewriting), the tag-omission rules against the tree builder, svg/math and template handling are decided by search (htmloracle), not by theorems",
    ]
    return c.finish(explanation="proof over all attribute-free token lists for the white-space state machine and over all values for the attribute quoting; search (x/net/html tree comparison, stub and real registries) for everything else")
