"""C04 — CSS minification preserves the cascade input (engines CssBox/Tables/Num + cssoracle)."""
import json, os
import vcheck


def run(c):
    c.build(['cssoracle'])
    c.props()
    if c.replay_file and c.replay_file.get("failing_input"):
        v = c.replay_file["failing_input"]
        w = os.path.join(c.outdir, "witness.json")
        o = v.get("options", {})
        json.dump({"input": v.get("input", ""), "input_hex": v.get("input_hex", ""), "options": o, "inline": o.get("inline") == "true"}, open(w, "w"))
        c.tool("cssoracle", ["-witness", w], sub="replay")
        return c.finish()
    n = 40000 if c.tier == "quick" else 600000
    res, d = c.tool("cssoracle", ["-seed", c.seed, "-tier", c.tier, "-n", n])
    if res is not None:
        c.corr("Css.box_collapse (four-sides shorthand) vs css.Minify on EVERY list of 1-4 values over four lengths for margin, padding, border-width; Css.hex_color_minify (hash colours: every table key with alpha variants + 4,000 structured random 3/4/6/8-digit tokens) vs css.Minify in a color declaration; Css.number_token / percentage_token / dimension_token (numeric tokens of a value: Number or Decimal, unit split and lower-casing, optional unit of a zero; KeepCSS2 on and off, integer properties, inside known / unknown functions) vs css.Minify on 8,000 generated tokens; Css.min_number_percentage (alpha values written in the shorter of .X / X%) vs the alpha token css.Minify writes on 2,000 values", d)
        # a disagreement on a numeric token is searched for a failing input: the token inside a declaration goes to the oracle
        for k, exm in enumerate((getattr(c, "corr_examples", None) or [])[:8]):
            f = exm.get("case", "").split("\t")
            try:
                if f[0] == "cssalpha":
                    src = "a{color:rgba(1,2,3," + bytes.fromhex(f[3]).decode("latin-1") + ")}"
                elif f[0] == "cssdim":
                    src = "a{x:" + bytes.fromhex(f[4]).decode("latin-1") + "}"
                else:
                    continue
            except Exception:
                continue
            w = os.path.join(c.outdir, "corrwitness%d.json" % k)
            json.dump({"input": src, "options": {}, "inline": False}, open(w, "w"))
            c.tool("cssoracle", ["-witness", w], sub="corr-search-%d" % k, count=False)
            if c.new_violations:
                break
        c.cov["numeric_tokens"] = {k: v for k, v in (res.get("extra") or {}).items() if k.startswith("cssdim") or k.startswith("cssalpha")}
        c.cov["exhaustive_subrun"] = (res.get("extra") or {}).get("cssbox_cases_exhaustive")
    allk = c.known
    c.known = [e for e in allk if e.get("tool") == "cssoracle"]
    c.replay_known(None)
    c.known = allk
    c.cov["trusted_base"] += [
        "C04: PARTIAL — proved: the four-sides shorthand, the colour/unit tables (C17), number shortening (C08). Every other value rewrite of css.go, selectors and at-rules are decided by search only: an independent css-syntax-3 tokenizer + rule walk + value interpreter (numbers+units, sRGBA, shorthand-to-longhand expansion, unicode-range sets, data: URLs) over 40,000 generated stylesheets/declarations per quick run",
        "C04: parse/css (the front end) is run, not modelled",
    ]
    return c.finish(explanation="proof for the box shorthand and table facts; search (independent value interpreter) for the other rewrites")
