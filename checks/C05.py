"""C05 — SVG minification preserves geometry, references and structure (engines Svg/PathSep + svgoracle)."""
import json, os
import vcheck


def run(c):
    c.build(['svgoracle'])
    c.props()
    if c.replay_file and c.replay_file.get("failing_input"):
        v = c.replay_file["failing_input"]
        w = os.path.join(c.outdir, "witness.json")
        json.dump({"input": v.get("input", ""), "input_hex": v.get("input_hex", ""), "options": v.get("options", {}), "mode": v.get("options", {}).get("mode", "doc")}, open(w, "w"))
        c.tool("svgoracle", ["-witness", w], sub="replay")
        return c.finish()
    n = 30000 if c.tier == "quick" else 600000
    res, d = c.tool("svgoracle", ["-seed", c.seed, "-tier", c.tier, "-n", n])
    if res is not None:
        c.corr("Svg.PathSep.emit (F1 model of copyNumber/copyFlag) vs the real separator logic on random item sequences (verif hook svg.VerifEmitItems)", d)
        ex = res.get("extra") or {}
        c.cov["hypothesis_ok_item"] = {"coordinates_checked": ex.get("pathsep_coordinates_checked"), "violations": ex.get("pathsep_ok_item_violations")}
        if ex.get("pathsep_ok_item_violations"):
            c.notes.append("ok_item' (hypothesis of path_separators_sound) failed on %s coordinates returned by minify.Number" % ex.get("pathsep_ok_item_violations"))
    # known findings whose witnesses live with the xml oracle are replayed by C06
    allk = c.known
    c.known = [e for e in allk if e.get("tool") == "svgoracle"]
    c.replay_known(None)
    c.known = allk
    c.cov["trusted_base"] += [
        "C05: PARTIAL — only the separator logic of path data is proved; geometry (float64 relative/absolute conversion, command merging) and the document-level rewriting of svg.go are decided by search only (independent SVG 1.1 path interpreter with tolerance 1e-9, encoding/xml tree walk with typed attribute comparison)",
        "C05: verif-tagged hook svg/verif_export.go exposes copyNumber/copyFlag; the parse/xml lexer and svg TokenBuffer are run, not modelled",
    ]
    return c.finish(explanation="proof for the separator state machine over all item sequences; search for geometry and document structure")
