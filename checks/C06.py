"""C06 — XML minification preserves the infoset up to insignificant whitespace (engine Xml)."""
import json, os


def run(c):
    c.build(['xmloracle'])
    c.props()
    if c.replay_file and c.replay_file.get("failing_input"):
        v = c.replay_file["failing_input"]
        w = os.path.join(c.outdir, "witness.json")
        json.dump({"input": v.get("input", ""), "input_hex": v.get("input_hex", ""), "options": v.get("options", {})}, open(w, "w"))
        c.tool("xmloracle", ["-witness", w], sub="replay")
        return c.finish()
    n = 20000 if c.tier == "quick" else 400000
    res, d = c.tool("xmloracle", ["-seed", c.seed, "-tier", c.tier, "-n", n])
    if res is not None:
        c.corr("Xml.xml_minify (token-level model) vs xml.Minify on the token stream of the real parse/xml lexer; escape_attr_val / escape_cdata_val / collapse vs the real helpers", d)
        ex = res.get("extra") or {}
        c.cov["hypothesis_wf_tokens"] = {"tokens_checked": ex.get("wf_tokens_checked"), "violations": ex.get("wf_tokens_violations")}
        if ex.get("wf_tokens_violations"):
            c.notes.append("wf_tokens (hypothesis of xml_runs_preserved) was violated by %s of %s real text tokens: the theorem does not apply to those documents" % (ex.get("wf_tokens_violations"), ex.get("wf_tokens_checked")))
    c.replay_known(None)
    c.cov["trusted_base"] += [
        "C06: the parse/v2/xml lexer and the helpers parse.ReplaceMultipleWhitespaceAndEntities / parse.ReplaceEntities are RUN by the harness, not modelled: the theorems start from the token list with those helpers' results attached",
        "C06: Xml/XmlSpec.v (items, runs, words) is trusted as the meaning of 'same infoset up to insignificant white space' at token level; encoding/xml + a strict scanner are the independent search oracle",
    ]
    return c.finish(explanation="proof over all token lists for the white-space state machine and the two escapers; search (encoding/xml walk) for everything else")
