"""C07 — JSON minification preserves the value (engine Json, uses Num)."""
import json, os


def run(c):
    c.build(['jsoncheck'])
    c.props()
    if c.replay_file and c.replay_file.get("failing_input"):
        v = c.replay_file["failing_input"]
        w = os.path.join(c.outdir, "witness.json")
        json.dump({"input": v.get("input", ""), "input_hex": v.get("input_hex", ""), "options": v.get("options", {})}, open(w, "w"))
        c.tool("jsoncheck", ["-witness", w], sub="replay")
        return c.finish()
    n = 4000 if c.tier == "quick" else 80000
    res, d = run_filtered(c, n)
    if res is not None:
        c.corr("Json.json_minify_events vs json.Minify (real parser events -> bytes); JsonSpec.events_of vs the real parse/json parser; Json.parse_events (model of Parser.Next: events and verdict) vs the real parser on every valid, mutated, malformed and corpus text", d)
    c.replay_known(None)
    c.cov["trusted_base"] += [
        "C07: the parse/v2/json parser is run, not modelled; the statement is over its event stream, and events_of (spec) is compared with the real parser on every generated document",
        "C07: numeric equality of rewritten number lexemes rests on C08 (Number) — proved there for Decimal, decided by exhaustive enumeration for Number until number_exact is added",
        "C07: spec side Json/JsonSpec.v (jvalue, events_of, compact) is trusted as the statement of 'same value'",
    ]
    return c.finish()


def run_filtered(c, n):
    """C07 is about valid RFC 8259 input: violations found on the malformed stream belong to C09/C10."""
    import vcheck
    d = os.path.join(c.outdir, "jsoncheck")
    res, err = vcheck.run_tool("jsoncheck", ["-seed", c.seed, "-tier", c.tier, "-n", n], d)
    if res is None:
        c.broken.append("harness: " + err)
        return None, d
    c.cov["evaluations"] += res["evaluations"]
    c.cov["distinct_nontrivial"] += res["distinct_nontrivial"]
    c.rules.append("[jsoncheck] " + res["rule"])
    c.cov["samples"] += [{"tool": "jsoncheck", "case": s} for s in res["samples"][:3]]
    c.cov["tools"].append({"tool": "jsoncheck", "evaluations": res["evaluations"], "distinct_nontrivial": res["distinct_nontrivial"],
                           "violations_all_streams": len(res["violations"]), "histograms": res.get("histograms")})
    for v in res["violations"]:
        if v.get("options", {}).get("stream") == "valid" or v.get("kind") == "panic":
            c.violation(v, "jsoncheck")
    return res, d
