"""C08 — Number/Decimal shortening keeps the numeric value (engine Num)."""


def run(c):
    c.build(['numcheck'])
    c.props()
    if c.replay_file and c.replay_file.get("failing_input"):
        import json, os
        v = c.replay_file["failing_input"]
        w = os.path.join(c.outdir, "witness.json")
        json.dump({"input": v["input"], "options": v.get("options", {})}, open(w, "w"))
        c.tool("numcheck", ["-witness", w], sub="replay")
        return c.finish()
    res, d = c.tool("numcheck", ["-seed", c.seed, "-tier", c.tier])
    if res is not None:
        c.corr("Num.number0/decimal0 (F2 model, precision 0) vs minify.Number/minify.Decimal", d)
        if res.get("extra", {}).get("enumeration_exhaustive"):
            c.cov["exhaustive_subrun"] = "all strings of the number grammar up to length %s over 01459.eE+-" % res["extra"]["enumeration_length"]
    c.replay_known(None)
    c.cov["trusted_base"] += [
        "C08: the F2 model covers precision 0 (and -1) on the number grammar; precision > 0 and arbitrary bytes are decided by the exhaustive/random oracle run only (math/big rationals, canary bytes, recover) and are labelled search, not proof",
        "C08: spec side = the recogniser lex_number and value function of Num/Spec (trusted as the statement of the number grammar and its value)",
    ]
    return c.finish()
