"""C09 — accepted input yields syntactically valid output that is accepted again (composite: all engines + validcheck)."""
import json, os
import vcheck

WORDS = ("second-pass", "second", "reaccept", "syntax", "invalid-output", "c09", "well-formed", "wellformed", "rejected", "reparse", "ill-formed", "malformed:nul", "output-malformed", "panic")


def about_validity(v):
    s = (v.get("signature", "") + " " + v.get("detail", "")[:40] + " " + v.get("kind", "")).lower()
    return any(w in s for w in WORDS)


def run(c):
    c.build(['validcheck', 'jsoracle', 'htmloracle', 'xmloracle', 'cssoracle', 'svgoracle', 'jsoncheck'])
    c.props()
    if c.replay_file and c.replay_file.get("failing_input"):
        return c.replay_any()
    q = c.tier == "quick"
    c.tool_filtered("validcheck", ["-seed", c.seed, "-tier", c.tier, "-n", 1500 if q else 40000])
    c.tool_filtered("jsoracle", ["-seed", c.seed + 900, "-tier", c.tier, "-n", 500 if q else 12000, "-cases", "none"], keep=about_validity)
    c.tool_filtered("htmloracle", ["-seed", c.seed + 900, "-tier", c.tier, "-n", 8000 if q else 200000, "-model-n", 0], keep=about_validity)
    c.tool_filtered("xmloracle", ["-seed", c.seed + 900, "-tier", c.tier, "-n", 6000 if q else 100000], keep=about_validity)
    c.tool_filtered("cssoracle", ["-seed", c.seed + 900, "-tier", c.tier, "-n", 8000 if q else 200000], keep=about_validity)
    c.tool_filtered("svgoracle", ["-seed", c.seed + 900, "-tier", c.tier, "-n", 6000 if q else 150000], keep=about_validity)
    c.tool_filtered("jsoncheck", ["-seed", c.seed + 900, "-tier", c.tier, "-n", 1000 if q else 20000], keep=about_validity)
    c.replay_known(None)
    c.cov["trusted_base"] += [
        "C09: validity judges: V8 (node 20, vm.Script, syntax only), encoding/json, encoding/xml (strict, HTML entity table, charset not decoded), golang.org/x/net/html for the script/style elements of HTML, a css-syntax-3 level checker (bad-string, bad-url, unterminated, bracket balance); validity of the output is judged only when the same judge accepts the input",
        "C09: the theorems cover the output of the modelled fragments only (printer precedence, JSON serialisation, XML/HTML attribute literals and CDATA, SVG path separators, CSS box / hash colours); everything else is search",
    ]
    return c.finish(explanation="validity / fixed-point theorems of the modelled fragments; search: independent parsers + second pass inside every oracle, validcheck over the repository's real-world documents and their mutations")
