"""C10 — minifiers are total: no panic, no hang, input handed back on error."""
import json, os


def run(c):
    c.build(['totalcheck'])
    c.props()
    if c.replay_file and c.replay_file.get("failing_input"):
        v = c.replay_file["failing_input"]
        w = os.path.join(c.outdir, "witness.json")
        json.dump({"input_hex": v.get("input_hex", ""), "options": v.get("options", {})}, open(w, "w"))
        c.tool("totalcheck", ["-witness", w], sub="replay")
        return c.finish()
    res, d = c.tool("totalcheck", ["-seed", c.seed, "-tier", c.tier])
    if res is not None:
        c.corr("Buf.peek/shift (F1 TokenBuffer model) vs html/xml/svg TokenBuffer.Peek/Shift on real lexers", d)
    c.replay_known(None)
    c.cov["trusted_base"] += [
        "C10: only the look-ahead buffers and the entry-point contract are proved; panics/hangs inside the parse/v2 front ends and the unmodelled printers are SEARCHED (mutation sweep under recover, time limit proportional to size, 12 GiB memory ceiling), not proved",
        "C10: Go stack growth on deeply nested JavaScript (recursive-descent parser of the dependency) is outside the model; JS nesting probes are capped at depth 2000",
    ]
    return c.finish(explanation="proof for the modelled index arithmetic (TokenBuffer, entry points); search (not proof) for the six minifiers as a whole")
