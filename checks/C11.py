"""C11 — embedded resources are minified exactly as their own minifier would (composite: engines Html, DataUri, Dispatch)."""
import json, os
import vcheck

EMBED_WORDS = ("stub", "payload", "verbatim-content", "error:", "second-pass", "datauri", "data-uri", "url:", "style", "css", "script", "embedded", "type-", "N03", "N04", "N13", "K30")


def about_embedding(v):
    sig = v.get("signature", "")
    return any(w in sig for w in EMBED_WORDS)


def run(c):
    c.build(['htmloracle', 'svgoracle', 'cssoracle', 'dataurichk'])
    c.props()
    if c.replay_file and c.replay_file.get("failing_input"):
        return c.replay_any()
    q = c.tier == "quick"
    res, d = c.tool_filtered("htmloracle", ["-seed", c.seed + 1100, "-tier", c.tier, "-n", 15000 if q else 300000, "-model-n", 3000 if q else 60000], keep=about_embedding)
    if res is not None:
        c.corr("Html.html_minify_reg (loop with a registry: every subset of stub minifiers for js/css/html/svg/mathml, failing stubs) vs html.Minify with the same stubs registered; Html.html_select vs the minifier html.Minify dispatches on for every (element, type attribute) pair of the table, with and without KeepDefaultAttrVals", d)
    c.tool_filtered("svgoracle", ["-seed", c.seed + 1100, "-tier", c.tier, "-n", 8000 if q else 150000], keep=about_embedding)
    c.tool_filtered("cssoracle", ["-seed", c.seed + 1100, "-tier", c.tier, "-n", 8000 if q else 200000], keep=about_embedding)
    c.tool_filtered("dataurichk", ["-seed", c.seed + 1100, "-tier", c.tier])
    c.replay_known(None)
    c.cov["trusted_base"] += [
        "C11: the registry is an arbitrary function in the theorems; the correspondence instantiates it with pure stub minifiers (wrap the payload / fail on FAIL) in every subset of the five media types html.go dispatches on",
        "C11: attribute contexts (style / on* attributes, data: URLs in attributes), the re-escaping of sub-minifier output for the host syntax, SVG style elements / attributes and CSS url() are decided by search (htmloracle stub and real registries, svgoracle with and without a css minifier, cssoracle, dataurichk)",
    ]
    return c.finish(explanation="proof of the commutation law, pass-through and failure location over all attribute-free token lists and all registries; data: URI re-encoding theorems (C18); selection by type attribute tied exhaustively over a table; search for attribute contexts, escaping, svg and css hosts")
