"""C12 — all entry points produce the same bytes for any chunking of the stream (engine Stream)."""
import json, os


def run(c, mode="chunk", name="C12"):
    c.build(['streamcheck'])
    c.props()
    if c.replay_file and c.replay_file.get("failing_input"):
        v = c.replay_file["failing_input"]
        w = os.path.join(c.outdir, "witness.json")
        json.dump({"input": v.get("input", ""), "options": v.get("options", {})}, open(w, "w"))
        c.tool("streamcheck", ["-witness", w, "-mode", mode], sub="replay")
        return c.finish()
    res, d = c.tool("streamcheck", ["-seed", c.seed, "-tier", c.tier, "-mode", mode])
    if res is not None:
        c.corr("Stream.entry_minify/entry_reader/entry_writer vs (*M).Minify/Reader/Writer on the same reader scripts and writer failures (run and skeleton flags observed from the plain call)", d)
        if os.path.exists(os.path.join(d, "cases_http.in")):
            c.corr("Stream.serve/close_err (model of responseWriter + Middleware) vs the real MiddlewareWithError on random handler scripts over a stub registry (tables from the plain Minify call)",
                   d, cases="cases_http.in", impl="cases_http.go.out")
    c.replay_known(None)
    c.cov["trusted_base"] += [
        "%s: io.ReadAll / io.Pipe / sync.WaitGroup semantics as modelled in Stream/StreamModel.v and StreamPipe.v (Go runtime and scheduler are not modelled; the runs sample real schedules with GOMAXPROCS=16 and Gosched jitter)" % name,
        "%s: a minifier run is abstract (payloads of its writes + ending); net/http (ResponseWriter, Middleware) is exercised with httptest only" % name,
    ]
    return c.finish()
