"""C13 — a shared minifier registry is safe and deterministic under concurrency (engine Conc)."""
import json, os
import vcheck


def run(c):
    c.build([])
    # the concurrency harness is built with the race detector
    p = vcheck.sh("go build -race -tags verif -o %s/conccheck ./cmd/conccheck" % vcheck.BIN, cwd=os.path.join(vcheck.ROOT, "harness"), timeout=1200)
    if p.returncode != 0:
        c.broken.append("harness does not build against /repo (conccheck -race): " + (p.stdout or "")[-1500:])
    c.props()
    args = ["-seed", c.seed, "-tier", c.tier]
    # (the schedule of a race cannot be replayed exactly: a replay repeats the whole run with the same seed)
    d = os.path.join(c.outdir, "conccheck")
    res, err = vcheck.run_tool("conccheck", args, d, 3000)
    if res is None:
        if "DATA RACE" in (err or ""):
            # the race detector makes the process exit with status 66: its report is the failing history
            rep = err[err.index("WARNING: DATA RACE"):][:1800] if "WARNING: DATA RACE" in err else err[-1800:]
            frames = [l.strip() for l in rep.splitlines() if l.strip().startswith("github.com/tdewolff/minify") or l.strip().startswith("main.")][:3]
            c.violation({"kind": "oracle", "signature": "race:" + ";".join(frames)[:200], "input": "conccheck -seed %s -tier %s (N goroutines on one registry, race detector)" % (c.seed, c.tier),
                         "observed": rep, "expected": "no data race", "detail": "go race detector report"}, "conccheck")
        else:
            c.broken.append("harness: " + err)
    else:
        c.cov["evaluations"] += res.get("evaluations", 0)
        c.cov["distinct_nontrivial"] += res.get("distinct_nontrivial", 0)
        if res.get("rule"):
            c.rules.append("[conccheck] " + res["rule"])
        c.cov["samples"] += [{"tool": "conccheck", "case": x} for x in res.get("samples", [])[:3]]
        c.cov["tools"].append({"tool": "conccheck", "evaluations": res.get("evaluations", 0), "violations": len(res.get("violations", [])), "histograms": res.get("histograms")})
        for v in res.get("violations", []):
            c.violation(v, "conccheck")
    c.replay_known(None)
    c.cov["trusted_base"] += [
        "C13: the frame premise (calls write only goroutine-local state) is read off the source by the translator (go/ast: assignments, inc/dec, append on package-level variables, writes through un-copied option structs) — writes through other pointers/aliases would not be seen by that reading; they are the race detector's job",
        "C13: Go's memory model, scheduler and the race detector are trusted as runtime; RWMutex modelled with writer preference as documented",
    ]
    return c.finish(explanation="proof for the interleaving and lock protocol given the generated frame facts; race detector + result comparison as search")
