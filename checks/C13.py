"""C13 — a shared minifier registry is safe and deterministic under concurrency (engine Conc)."""
import json, os
import vcheck


def run(c):
    c.build([])
    # the concurrency harness is built with the race detector
    p = vcheck.sh("go build -race -tags verif -o %s/conccheck ./cmd/conccheck" % vcheck.BIN, cwd=os.path.join(vcheck.ROOT, "harness"), timeout=1200)
    if p.returncode != 0:
        c.broken.append("harness does not build against /repo (conccheck -race): " + (p.stdout or "")[-1500:])
    c.props()
    if c.broken:
        return c.finish()
    args = ["-seed", c.seed, "-tier", c.tier]
    if c.replay_file and c.replay_file.get("failing_input"):
        pass  # the schedule of a race cannot be replayed exactly: the whole run is repeated with the same seed
    res, d = c.tool("conccheck", args, timeout=3000)
    c.replay_known(None)
    c.cov["trusted_base"] += [
        "C13: the frame premise (calls write only goroutine-local state) is read off the source by the translator (go/ast: assignments, inc/dec, append on package-level variables, writes through un-copied option structs) — writes through other pointers/aliases would not be seen by that reading; they are the race detector's job",
        "C13: Go's memory model, scheduler and the race detector are trusted as runtime; RWMutex modelled with writer preference as documented",
    ]
    return c.finish(explanation="proof for the interleaving and lock protocol given the generated frame facts; race detector + result comparison as search")
