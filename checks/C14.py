"""C14 — I/O failures surface as errors, never as silent truncation or deadlock (engine Stream, T-gen skeletons)."""
from checks import C12


def run(c):
    return C12.run(c, mode="fault", name="C14")
