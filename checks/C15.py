"""C15 — media type dispatch follows the documented matching rules (engine Dispatch)."""
import json, os


def run(c):
    c.build(['dispatchcheck'])
    c.props()
    if c.replay_file and c.replay_file.get("failing_input"):
        v = c.replay_file["failing_input"]
        w = os.path.join(c.outdir, "witness.json")
        o = v.get("options", {})
        json.dump({"history": json.loads(o.get("history", "[]")), "mediatype": o.get("mediatype", "")}, open(w, "w"))
        c.tool("dispatchcheck", ["-witness", w], sub="replay")
        return c.finish()
    res, d = c.tool("dispatchcheck", ["-seed", c.seed, "-tier", c.tier])
    if res is not None:
        c.corr("Dispatch.served/match_q/mediatype vs (*M).Minify/Match/Bytes/String and parse.Mediatype", d)
    c.replay_known(None)
    c.cov["trusted_base"] += [
        "C15: Go's regexp is a section parameter (pmatch); the harness supplies its answers on the split mimetype",
        "C15: exec'd command minifiers are stubbed by sh -c printf; concurrency of the registry is C13's subject",
    ]
    return c.finish()
