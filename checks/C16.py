"""C16 — options only restrict minification and are honoured (composite: engines Html, Xml, Json, JsRename, JsPrint, Cli)."""
import json, os
import vcheck


def non_default(v):
    """violations that concern an option: found under a non-default option set, or about a kept construct / version gate"""
    sig = v.get("signature", "")
    if any(k in sig for k in ("keep-", "Keep", "version", "ungated", "cli-", "flag-", "-kept", "c16")):
        return True
    o = v.get("options") or {}
    for k, val in o.items():
        if k in ("registry", "fragment", "mode", "inline", "strict", "Precision", "stubAmpersand"):
            continue
        if str(val).lower() not in ("false", "0", "", "none"):
            return True
    return False


def run(c):
    c.build(['optcheck', 'jsoracle', 'htmloracle', 'xmloracle', 'cssoracle', 'svgoracle', 'jsoncheck'])
    c.props()
    if c.replay_file and c.replay_file.get("failing_input"):
        return c.replay_any()
    q = c.tier == "quick"
    c.tool_filtered("optcheck", ["-seed", c.seed, "-tier", c.tier])
    c.tool_filtered("jsoracle", ["-seed", c.seed + 1600, "-tier", c.tier, "-n", 500 if q else 12000, "-cases", "none"], keep=non_default)
    c.tool_filtered("htmloracle", ["-seed", c.seed + 1600, "-tier", c.tier, "-n", 8000 if q else 200000, "-model-n", 0], keep=non_default)
    c.tool_filtered("xmloracle", ["-seed", c.seed + 1600, "-tier", c.tier, "-n", 5000 if q else 100000], keep=non_default)
    c.tool_filtered("cssoracle", ["-seed", c.seed + 1600, "-tier", c.tier, "-n", 8000 if q else 200000], keep=non_default)
    c.tool_filtered("svgoracle", ["-seed", c.seed + 1600, "-tier", c.tier, "-n", 6000 if q else 150000], keep=non_default)
    c.tool_filtered("jsoncheck", ["-seed", c.seed + 1600, "-tier", c.tier, "-n", 1000 if q else 20000], keep=non_default)
    c.replay_known(None)
    c.cov["trusted_base"] += [
        "C16: the site extraction of translator/jsgates.go (which statements introduce newer syntax, which minVersion test dominates them) and translator/cli.go (configuration events of run()) is trusted to be complete for the patterns it documents; gates_complete / the flag table guard against an extraction that silently finds nothing",
        "C16: ECMA-262 edition of each construct (PrintGroup.intro_year) and the documented flag table (CliOpts.ref_cli_flags) are pinned by hand",
        "C16: the symbolic execution of run()'s configuration events models flag parsing as 'every registered field receives its flag's value at f.Parse()' and registrations as by-pointer; optcheck compares that prediction with the real binary for every flag x type",
    ]
    return c.finish(explanation="theorems per option over the engines' models + regenerated site facts (version gates, CLI configuration order); search: every oracle over option products, optcheck on the real CLI binary")
