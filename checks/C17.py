"""C17 — built-in replacement tables agree with the standards (engine Tables, T-gen)."""
import json, os


def run(c):
    c.build(['tablecheck'])
    c.props()
    if c.replay_file and c.replay_file.get("failing_input"):
        v = c.replay_file["failing_input"]
        w = os.path.join(c.outdir, "witness.json")
        json.dump({"input": v.get("input", "")}, open(w, "w"))
        c.tool("tablecheck", ["-witness", w], sub="replay")
        return c.finish()
    res, d = c.tool("tablecheck", ["-seed", c.seed, "-tier", c.tier])
    if res is not None and res.get("exhaustive"):
        c.cov["exhaustive"] = True
    c.replay_known(None)
    c.cov["trusted_base"] += [
        "C17: the translator transcribes the literal tables of html/table.go, xml/table.go, css/table.go, svg/table.go (go/ast, no evaluation); Hash constant -> name by lower-casing the identifier ('_' -> '-')",
        "C17: pinned references Ref/RefHtml5Entities.v, Ref/RefCssColors.v (generated once by harness/cmd/refgen from Go's html package, x/net/html, x/image/colornames) and the hand-written standard lists Ref/RefHtmlLists.v are trusted as the standards",
        "C17: the in-context behaviour of entity replacement (what follows the reference) belongs to C03 (known finding K18)",
    ]
    return c.finish()
