"""C18 — data URI and media type helpers preserve what they encode (engine DataUri)."""
import json, os


def run(c):
    c.build(['dataurichk'])
    c.props()
    if c.replay_file and c.replay_file.get("failing_input"):
        v = c.replay_file["failing_input"]
        w = os.path.join(c.outdir, "witness.json")
        json.dump({"input": v.get("input", ""), "options": v.get("options", {})}, open(w, "w"))
        c.tool("dataurichk", ["-witness", w], sub="replay")
        return c.finish()
    res, d = c.tool("dataurichk", ["-seed", c.seed, "-tier", c.tier])
    if res is not None:
        c.corr("DataUri.datauri_encode/b64_encode/needs_escape/mediatype_min vs minify.DataURI (after the real parse.DataURI), base64.StdEncoding, parse.DataURIEncodingTable (all 256 bytes), minify.Mediatype", d)
    c.replay_known(None)
    c.cov["trusted_base"] += [
        "C18: parse.DataURI / DecodeURL (dependency) are run, not modelled; RFC 2397/3986/4648 decoders of DataUriSpec.v are the trusted statement of 'decodes to'",
        "C18: sub-minifiers are stubs (none, identity, space-dropping, failing, growing)",
    ]
    return c.finish()
