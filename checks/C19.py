"""C19 — the CLI writes the library's output to the right place and never harms inputs (engine Cli)."""
import json, os, random, subprocess
import vcheck
from checks import cli_common


def concat_cases(c, d, n):
    """Correspondence of Cli/ConcatModel.v with the real concatFileReader through the verif-tagged test hook."""
    os.makedirs(d, exist_ok=True)
    rnd = random.Random(c.seed * 7919 + 19)
    cin, cgo = os.path.join(d, "cases.in"), os.path.join(d, "cases.go.out")
    hist = {}
    with open(cin, "w") as f:
        for i in range(n):
            nf = rnd.choice([0, 1, 1, 2, 2, 3, 3, 4, 6])
            files = []
            for _ in range(nf):
                ln = rnd.choice([0, 0, 1, 2, 3, 5, 8, 17, 40])
                files.append(bytes(rnd.randrange(256) for _ in range(ln)))
            sep = rnd.choice([b"", b";", b";\n", b";\n", b"abc", b"\n\n\n\n"])
            total = sum(len(x) for x in files) + len(sep) * max(0, nf - 1)
            mode = rnd.randrange(4)
            caps = []
            for _ in range(total + nf + 4):
                caps.append({0: 1, 1: rnd.choice([1, 2, 3]), 2: rnd.choice([1, 2, 3, 4, 7, 16]), 3: rnd.choice([64, 512])}[mode])
            hist["files=%d" % nf] = hist.get("files=%d" % nf, 0) + 1
            hist["sep=%d" % len(sep)] = hist.get("sep=%d" % len(sep), 0) + 1
            f.write("concat\t%d\t%s\t%s\t%s\n" % (nf, ",".join(x.hex() or "-" for x in files), sep.hex() or "-", ",".join(map(str, caps))))
    env = dict(vcheck.GOENV, VERIF_CONCAT_IN=cin, VERIF_CONCAT_OUT=cgo)
    p = subprocess.run("go test -tags verif -vet=off -count=1 -run TestVerifConcat ./cmd/minify", shell=True, cwd=vcheck.REPO, env=env,
                       stdout=subprocess.PIPE, stderr=subprocess.STDOUT, text=True, timeout=900)
    if p.returncode != 0 or not os.path.exists(cgo):
        c.broken.append("harness: verif hook TestVerifConcat failed: " + p.stdout[-1200:])
        return
    c.cov["tools"].append({"tool": "hook:TestVerifConcat", "evaluations": n, "histograms": {"concat": hist}})
    c.cov["evaluations"] += n
    c.corr("Cli.cread (F1 model of concatFileReader.Read) vs the real reader on real files, Read call by Read call", d)


def pattern_cases(c, d, n):
    """Correspondence of Cli/GlobModel.v with the real compilePattern / fileFilter through the verif-tagged test hook."""
    os.makedirs(d, exist_ok=True)
    rnd = random.Random(c.seed * 104729 + 23)
    cin, cgo = os.path.join(d, "cases.in"), os.path.join(d, "cases.go.out")
    hx = lambda s: s.encode("utf-8").hex() or "-"   # ASCII only: `?` matches one character in Go, one byte in the model
    pieces = ["a", "b", "ab", "x", ".", ".js", ".css", "/", "/", "*", "*", "**", "**", "?", "src", "foo", "\\", "~", "+", "(", ")", "[", "]", "{", "}", "^", "$", "|", "-", "\n", " "]
    def glob():
        k = rnd.choice([1, 2, 3, 4, 5, 7])
        g = "".join(rnd.choice(pieces) for _ in range(k))
        if g.startswith("~"):
            g = rnd.choice(["\\", "a"]) + g       # a leading ~ selects a regular expression: outside the model
        return g
    def path_for(g):
        # a path that has a chance to match: literals kept, wildcards filled in
        out = []
        i = 0
        while i < len(g):
            ch = g[i]
            if g.startswith("**", i):
                out.append(rnd.choice(["", "a", "a/b", "x/y/z", "q.js"])); i += 2
            elif ch == "*":
                out.append(rnd.choice(["", "a", "ab", "x.y", "a/b"])); i += 1
            elif ch == "?":
                out.append(rnd.choice(["a", "", "/", "xy"])); i += 1
            elif ch == "\\" and i == 0 and g.startswith("\\~"):
                i += 1
            else:
                out.append(ch); i += 1
        return "".join(out)
    paths_pool = ["a", "ab", "a.js", "ab.js", "src/a.js", "src/foo/a.js", "src/foo/bar/a.css", "x/y", "", "a/b", ".js", "src/", "a\nb"]
    kinds = {}
    with open(cin, "w") as f:
        for i in range(n):
            if rnd.random() < 0.6:
                g = glob()
                ps = [path_for(g) for _ in range(3)] + [rnd.choice(paths_pool) for _ in range(3)]
                f.write("glob\t%s\t%s\n" % (hx(g), ",".join(hx(p) for p in ps)))
                kinds["glob"] = kinds.get("glob", 0) + 1
            elif rnd.random() < 0.45:
                # destinations: filepath.Clean / Dir / Join / Rel and NewTask (Cli/PathModel.v); mostly an input inside its root
                pcs = ["a", "b", "src", "sub", ".", "..", "", ".x", ".a.json", "a.js", "..y", "...", "c d", "out"]
                def gp():
                    s = "/".join(rnd.choice(pcs) for _ in range(rnd.choice([0, 1, 1, 2, 2, 3, 5])))
                    if rnd.random() < 0.2:
                        s = "/" + s
                    if rnd.random() < 0.2:
                        s += "/"
                    return s
                plain = ["a", "src", "sub", ".x", ".a.json", "a.js", "b.css", "..y", "c d"]
                def clean_path(k):
                    return "/".join(rnd.choice(plain) for _ in range(k))
                if rnd.random() < 0.6:
                    k = rnd.choice([0, 1, 2])
                    root = clean_path(k) or "."
                    if rnd.random() < 0.2 and k:
                        root = "/" + root
                    rest = clean_path(rnd.choice([0, 1, 1, 2, 3]))
                    inp = (root + "/" + rest if rest else root) if root != "." else (rest or ".")
                    outp = rnd.choice(["out/", "../out/", ".", "./", "/tmp/o/", "out", "a/../b/", "../", "out//", ""])
                else:
                    root, inp, outp = gp(), gp(), gp()
                f.write("path\t%s\t%s\t%s\n" % (hx(root), hx(inp), hx(outp)))
                kinds["path"] = kinds.get("path", 0) + 1
            else:
                ms = [rnd.choice(["*.js", "*.css", "a*", "*", "a?.js", "*.*"]) for _ in range(rnd.choice([0, 0, 1, 2]))]
                fs = [rnd.choice("+-") + rnd.choice(["src/*/**", "src/foo/**", "**/a.js", "src/**", "*.css", "**", "src/*", "**/foo/**", "src/?oo/*"]) for _ in range(rnd.choice([0, 1, 2, 3]))]
                ps = [rnd.choice(["src/a.js", "src/foo/a.js", "src/foo/b.css", "src/bar/a.js", "a.js", "b.css", "src/foo/bar/a.js", "src/boo/a.js", "ab.js", "src/a.css"]) for _ in range(6)]
                f.write("filter\t%s\t%s\t%s\n" % (",".join(hx(m) for m in ms) or "-", ",".join(hx(x) for x in fs) or "-", ",".join(hx(p) for p in ps)))
                kinds["filter"] = kinds.get("filter", 0) + 1
    env = dict(vcheck.GOENV, VERIF_PATTERN_IN=cin, VERIF_PATTERN_OUT=cgo)
    p = subprocess.run("go test -tags verif -vet=off -count=1 -run TestVerifPattern ./cmd/minify", shell=True, cwd=vcheck.REPO, env=env,
                       stdout=subprocess.PIPE, stderr=subprocess.STDOUT, text=True, timeout=900)
    if p.returncode != 0 or not os.path.exists(cgo):
        c.broken.append("harness: verif hook TestVerifPattern failed: " + p.stdout[-1200:])
        return
    c.cov["tools"].append({"tool": "hook:TestVerifPattern", "evaluations": n, "histograms": {"pattern": kinds}})
    c.cov["evaluations"] += n
    c.corr("Cli.compile_src / glob_matches / file_filter (glob patterns of --match / --include / --exclude) vs the real compilePattern (source of the regular expression it builds, and what Go's regexp matches) and fileFilter; Cli.PathModel (filepath.Clean / Dir / Join / Rel and the destination NewTask computes for an input below an output directory) vs the real functions", d)
    # a disagreement is searched for a failing input: the disagreeing pattern and paths become a scratch tree and an
    # invocation of the built command, judged by the reference of the documented rules
    exs = getattr(c, "corr_examples", None) or []
    unh = lambda h: "" if h == "-" else bytes.fromhex(h).decode("utf-8", "replace")
    for k, exm in enumerate(exs[:40]):
        f = exm["case"].split("\t")
        if f[0] == "path":
            # a destination disagreement: the input file named on the command line, written below the output directory
            inp, outp = unh(f[2]), unh(f[3])
            comps = inp.split("/")
            if not inp or inp.startswith("/") or any(cc in ("", ".", "..") for cc in comps) or outp not in ("out/", ".", "./", "out", "out//"):
                continue
            w = os.path.join(c.outdir, "patwitness%d.json" % k)
            json.dump({"mode": "fs", "tree": {inp: {"kind": "file", "data": "var a = 1 ;\n"}}, "argv": ["--type", "js", "-o", outp, inp]}, open(w, "w"))
            c.tool("clifs", ["-mode", "fs", "-witness", w], sub="patsearch%d" % k, count=False)
            if c.new_violations:
                break
            continue
        if f[0] == "glob":
            opts = ["--exclude", "**", "--include", unh(f[1])]
            paths = [unh(x) for x in f[2].split(",")]
        else:
            opts = []
            for m in (f[1].split(",") if f[1] != "-" else []):
                opts += ["--match", unh(m)]
            for x in (f[2].split(",") if f[2] != "-" else []):
                x = unh(x)
                opts += ["--include" if x[0] == "+" else "--exclude", x[1:]]
            paths = [unh(x) for x in f[3].split(",")]
        tree, tops = {}, []
        for q in paths:
            comps = q.split("/")
            if not q or any(cc in ("", ".", "..") or "\n" in cc or "\\" in cc for cc in comps) or q.startswith("out/") or q == "out":
                continue
            if any(t == q or t.startswith(q + "/") or q.startswith(t + "/") for t in tree):
                continue
            tree[q] = {"kind": "file", "data": "var a = 1 ;\n"}
            if comps[0] not in tops:
                tops.append(comps[0])
        if not tree or any(o.startswith("-") for o in opts[1::2]):
            continue     # (a list option is followed by another option: it takes every following word up to the next option, K51)
        w = os.path.join(c.outdir, "patwitness%d.json" % k)
        json.dump({"mode": "fs", "tree": tree, "argv": opts + ["-r", "--type", "js", "-o", "out/"] + tops}, open(w, "w"))
        c.tool("clifs", ["-mode", "fs", "-witness", w], sub="patsearch%d" % k, count=False)
        if c.new_violations:
            break


def run(c):
    c.build(['clifs'])
    c.props()
    if c.replay_file and c.replay_file.get("failing_input"):
        v = c.replay_file["failing_input"]
        w = os.path.join(c.outdir, "witness.json")
        open(w, "w").write(v.get("witness_json") or v.get("detail") or "{}")
        c.tool("clifs", ["-mode", "fs", "-witness", w], sub="replay")
        return c.finish()
    res, d = c.tool("clifs", ["-mode", "trace", "-seed", c.seed, "-tier", c.tier], sub="trace", count=False)
    if res is not None:
        n, problems = cli_common.trace_cases(os.path.join(d, "traces.json"), d)
        for p in problems:
            c.broken.append("corr:Cli.ops_of — " + p)
        c.corr("Cli.ops_of (operation list per task shape) vs strace skeleton of the real cmd/minify, per destination", d)
    concat_cases(c, os.path.join(c.outdir, "concat"), 600 if c.tier == "quick" else 6000)
    pattern_cases(c, os.path.join(c.outdir, "pattern"), 3000 if c.tier == "quick" else 30000)
    # search: generated trees x invocation shapes against the reference of the documented rules
    n = 4000 if c.tier == "quick" else 40000
    c.tool("clifs", ["-mode", "fs", "-seed", c.seed, "-tier", c.tier, "-n", n], sub="fs")
    c.replay_known(None)
    c.cov["trusted_base"] += [
        "C19: proved = effect of a complete task on the file system (all payloads / write splits) and the bundle reader for all read sizes; filters (GlobModel) and the destination computation of NewTask (PathModel) are modelled, proved and tied through the verif test hook; the rest of task planning (flag parsing, which root createTasks derives, attribute preservation) is NOT modelled: it is compared by clifs -mode fs with a Go reference of the documented rules (search, not proof)",
        "C19: strace output trusted as the record of system calls; verif-tagged test hook cmd/minify/verif_concat_test.go drives the real concatFileReader",
    ]
    return c.finish(explanation="proof for the effect sequences and the bundle reader; search for task planning")
