"""C20 — killing the CLI at any instant never loses the user's only copy (engine Cli)."""
import json, os
from checks import cli_common


def run(c):
    c.build(['clifs'])
    c.props()
    if c.replay_file and c.replay_file.get("failing_input"):
        v = c.replay_file["failing_input"]
        w = os.path.join(c.outdir, "witness.json")
        open(w, "w").write(v.get("witness_json") or v.get("detail") or "{}")
        c.tool("clifs", ["-mode", "crash", "-witness", w], sub="replay")
        return c.finish()
    # correspondence: strace skeletons of the real command vs ops_of
    res, d = c.tool("clifs", ["-mode", "trace", "-seed", c.seed, "-tier", c.tier], sub="trace", count=False)
    if res is not None:
        n, problems = cli_common.trace_cases(os.path.join(d, "traces.json"), d)
        for p in problems:
            c.broken.append("corr:Cli.ops_of — " + p)
        c.corr("Cli.ops_of (operation list per task shape) vs strace skeleton of the real cmd/minify, per destination", d)
    # search: real SIGKILLs at every traced system-call boundary
    n = 150 if c.tier == "quick" else 1500
    c.tool("clifs", ["-mode", "crash", "-seed", c.seed, "-tier", c.tier, "-n", n], sub="crash")
    c.replay_known(None)
    c.cov["trusted_base"] += [
        "C20: the file system is modelled as path -> option bytes with rename/open-truncate/append/unlink; a kill point is a prefix of the operation list (the kernel completes or does not start each call); page-cache durability / power loss is outside the property",
        "C20: strace (ptrace) output is trusted as the record of what the command did; clifs canonicalises it (fd -> path)",
        "C20: directory creation, attribute calls (chmod/chown/utimes) and reads are not content-changing and are not part of the model",
    ]
    return c.finish(explanation="theorems over all contents, outputs, write splits and kill points for the four task shapes; the shapes' operation lists are validated against strace of the real command; real kills at every boundary are the search")
