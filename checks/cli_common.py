"""Shared by C19 and C20: strace skeletons of the real command vs the operation lists of Cli/CliModel.v."""
import json, os

# family of invocation shapes (clifs -mode trace) -> tasks (model shape kind, destination path)
FAMILIES = {
    "inplace-file": [("inplace", "a.js")],
    "stdout-file(no -o is stdout, not in place)": [],
    "separate-output-absent": [("separate", "out.js")],
    "separate-output-existing": [("separate", "out.js")],
    "dir-to-dir": [("separate", "out/a.js"), ("separate", "out/sub/b.css")],
    "dir-to-dir-serial(-v)": [("separate", "out/a.js"), ("separate", "out/sub/b.css")],
    "inplace-dir": [("inplace", "src/a.js"), ("inplace", "src/sub/b.css")],
    "inplace-dir-serial(-v)": [("inplace", "src/a.js"), ("inplace", "src/sub/b.css")],
    "inplace-dir-without-o(usage error)": [],
    "bundle": [("separate", "out.js")],
    "bundle-onto-input": [("bundleonto", "a.js")],
    "bundle-onto-second-input": [("bundleonto", "b.js")],
    "bundle-onto-last-input": [("bundleonto", "b.js")],
    "inplace-source-is-symlink": [("inplace", "app.js")],
    "inplace-destination-is-symlink": [("inplace", "latest.js")],
    "inplace-destination-is-hardlink": [("inplace", "other.js")],
    "inplace-other-spelling": [("inplace", "d/a.js")],
    "sync": [("separate", "out/a.js"), ("separate", "out/readme.txt")],
    "sync-serial(-v)": [("separate", "out/a.js"), ("separate", "out/readme.txt")],
    "fail-inplace": [("inplace", "bad.js")],
    "fail-separate-output": [("separate", "out.js")],
    "preserve-explicit": [("separate", "out.js")],
    "preserve-all-dir": [("separate", "out/sub/a.js")],
    "preserve-links-sync": [("separate", "out/a.js")],
}
MUTATING = ("rename", "openw", "write", "unlink", "copy", "truncate", "link", "ftruncate")


def project(ops, dst):
    """mutating operations of the trace that touch dst or dst.bak, in order, in the model's spelling"""
    paths = (dst, dst + ".bak")
    out, rest = [], []
    for o in ops:
        f = o.split()
        if f[0] not in MUTATING:
            rest.append(o)
            continue
        if f[0] == "copy":            # copy_file_range / sendfile src dst n: n bytes appended to dst
            if f[2] in paths:
                out.append("write %s %s" % (f[2], f[3]))
            else:
                rest.append(o)
        elif f[0] == "rename":
            if f[1] in paths or f[2] in paths:
                out.append(o)
            else:
                rest.append(o)
        elif f[1] in paths:
            out.append(" ".join(f[:3]) if f[0] == "write" else " ".join(f[:2]))
        else:
            rest.append(o)
    return out, rest


def trace_cases(traces_json, d):
    """writes cases.in / cases.go.out into d; returns (number of cases, problems)"""
    traces = json.load(open(traces_json))
    problems = []
    n = 0
    with open(os.path.join(d, "cases.in"), "w") as fi, open(os.path.join(d, "cases.go.out"), "w") as fo:
        for t in traces:
            fam = t["shape"].rsplit("/", 1)[0]
            if fam not in FAMILIES:
                problems.append("unknown trace family %r" % fam)
                continue
            ops = t["ops"]
            for kind, dst in FAMILIES[fam]:
                mine, ops = project(ops, dst)
                sizes = [o.split()[2] for o in mine if o.startswith("write ")]
                if kind == "separate" and not mine and t.get("exit", 0) != 0:
                    continue
                fi.write("cliops\t%s\t%s\t%s\n" % (kind, dst.encode().hex(), ",".join(sizes) or "-"))
                fo.write("|".join(mine) + "\n")
                n += 1
            # nothing else may be mutated: leftover mutating calls on files (not the terminal) are compared with "none"
            left = [o for o in ops if o.split()[0] in MUTATING and not (o.split()[0] == "write" and o.split()[1] in ("STDOUT", "STDERR"))]
            fi.write("cliops\tnone\t-\t-\n")
            fo.write("|".join(left) + "\n")
            n += 1
    return n, problems
