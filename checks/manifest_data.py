"""Data for MANIFEST.json (bin/mkmanifest)."""
HOOK_COMMITS = ["ed34141", "9ae5561", "4ea2e60", "1c8a90d", "5804a2b", "ed6bb5f", "a8f0024", "2ae9299", "170fb96"]
NOTES = ("Machine-checked proof in Coq 8.16 over executable Gallina models of the back-end logic; each model is tied to /repo on every run "
         "by a correspondence run (extracted OCaml model vs the Go code on generated inputs) and/or by facts regenerated from the source "
         "(translator -> coq/gen). Oracles (math/big, encoding/*, x/net/html, node, strace) only search for failing inputs. "
         "fix: commits and open findings are listed in known_findings.json.")
ENGINES = [
    {"name": "Buf", "path": "coq/theories/Buf", "serves_properties": ["C10"],
     "kind_free_text": "F1 Gallina model of the look-ahead TokenBuffer (html/xml/svg buffer.go); harness/cmd/totalcheck (buffers, hostile-input sweep, scaling probes)"},
    {"name": "Stream", "path": "coq/theories/Stream + coq/gen/IoSkeleton_gen.v", "serves_properties": ["C12", "C14", "C10"],
     "kind_free_text": "Gallina model of the streaming entry points and of the Writer wrapper's pipe system; I/O skeletons from the translator; harness/cmd/streamcheck"},
    {"name": "Tables", "path": "coq/theories/Tables + coq/gen/Tables_gen.v + translator/", "serves_properties": ["C17", "C04", "C03"],
     "kind_free_text": "tables regenerated from /repo by the go/ast translator, checked in Coq against pinned references; harness/cmd/tablecheck"},
    {"name": "DataUri", "path": "coq/theories/DataUri", "serves_properties": ["C18", "C11"],
     "kind_free_text": "Gallina models of minify.DataURI's re-encoding half, base64/percent encoders, minify.Mediatype (F1) + RFC decoders as spec; harness/cmd/dataurichk"},
    {"name": "Dispatch", "path": "coq/theories/Dispatch", "serves_properties": ["C15"],
     "kind_free_text": "Gallina model of the registry (Add*/Match/MinifyMimetype) and of parse.Mediatype; harness/cmd/dispatchcheck"},
    {"name": "Json", "path": "coq/theories/Json", "serves_properties": ["C07", "C09", "C10"],
     "kind_free_text": "F2 Gallina model of json.Minify over parser events + JSON value spec; harness/cmd/jsoncheck"},
    {"name": "Num", "path": "coq/theories/Num", "serves_properties": ["C08", "C07", "C04", "C05"],
     "kind_free_text": "F2 Gallina model of minify.Number/Decimal (precision 0) + lexeme grammar and value spec; extracted to OCaml; harness/cmd/numcheck"},
]
ENGINES.append({"name": "Cli", "path": "coq/theories/Cli", "serves_properties": ["C19", "C20"],
     "kind_free_text": "Gallina model of minify(Task)'s file-system effects per task shape (rename/truncate/write/unlink lists) over path -> option bytes, and F1 model of concatFileReader; harness/cmd/clifs (strace skeletons, real kills, fs images) + verif-tagged hook test for the reader"})
ENGINES.append({"name": "Xml", "path": "coq/theories/Xml + coq/theories/Base/Ws.v", "serves_properties": ["C06", "C09", "C16"],
     "kind_free_text": "F2 Gallina model of xml.Minify's loop over the real lexer's tokens (white-space state machine, CDATA, attribute re-quoting), words/runs specification; harness/cmd/xmloracle (token dump + encoding/xml oracle)"})
ENGINES.append({"name": "JsRename", "path": "coq/theories/Js/Rename*.v + coq/gen/JsTables_gen.v", "serves_properties": ["C02", "C01", "C16"],
     "kind_free_text": "F1 Gallina model of getName/isReserved/renameScope and of whole-program renaming over the parser's scope forest; lexical resolver as specification; alphabets regenerated from source; harness/cmd/jsoracle (forest dump through the verif hook, node vm oracle)"})
ENGINES.append({"name": "Conc", "path": "coq/theories/Conc + coq/gen/SharedWrites_gen.v", "serves_properties": ["C13"],
     "kind_free_text": "Gallina model of N goroutines over read-only shared state and of the writer-preferring RWMutex; shared-write facts regenerated from source; harness/cmd/conccheck built with -race"})
ENGINES.append({"name": "SvgPath", "path": "coq/theories/Svg", "serves_properties": ["C05", "C09"],
     "kind_free_text": "F1 Gallina model of the path-data separator logic (copyNumber/copyFlag) + SVG number grammar lexer as specification; harness/cmd/svgoracle (hooked separator correspondence, independent path interpreter, encoding/xml tree oracle)"})
ENGINES.append({"name": "JsPrint", "path": "coq/theories/Js/Print*.v + Rewrite*.v + Stmt*.v + NumLit*.v + StrLit*.v + coq/gen/JsTables_gen.v", "serves_properties": ["C01", "C09", "C16"],
     "kind_free_text": "F2 Gallina model of the expression printer's parenthesis decisions, parametric in the precedence maps (regenerated from js/util.go); ECMA-262 expression grammar as derivation relation; harness/cmd/jsoracle (token correspondence, node vm oracle)"})
ENGINES.append({"name": "CssVal", "path": "coq/theories/Css", "serves_properties": ["C04", "C16"],
     "kind_free_text": "F2 Gallina models of the four-sides shorthand rewrite (CSS 2.1 box semantics), of the hash-colour rewrite (sRGBA) and of the numeric tokens of a value (Number / Decimal, unit split, zero unit); harness/cmd/cssoracle (exhaustive box correspondence, independent CSS tokenizer/value interpreter as search oracle)"})
ENGINES.append({"name": "Html", "path": "coq/theories/Html + coq/gen/Tables_gen.v", "serves_properties": ["C03", "C16", "C09"],
     "kind_free_text": "F2 Gallina model of html.Minify's token loop on attribute-free documents (white-space state machine, pre/raw text, tag omission, document tags, Keep* options; traits regenerated from html/table.go) and F1 model of parse/html.EscapeAttrVal; rendered-words specification and the HTML tokenizer's attribute-value states; harness/cmd/htmloracle (token dump + x/net/html tree oracle, stub and real registries)"})
ENGINES.append({"name": "Options", "path": "coq/theories/Cli/CliOpts.v + coq/theories/Js/PrintGroup.v + coq/theories/Html/HtmlOpts.v + coq/gen/JsGates_gen.v + coq/gen/CliOpts_gen.v", "serves_properties": ["C16", "C01"],
     "kind_free_text": "site facts regenerated from js/*.go (version gates, groupExpr operand sites) and cmd/minify/main.go (configuration events of run()), checked in Coq against pinned ECMA-262 editions / the documented flag table and executed symbolically; option theorems over the Html/Xml/Json/JsRename models; harness/cmd/optcheck (real CLI binary vs library for every flag x type)"})
ENGINES.append({"name": "Embed", "path": "coq/theories/Html/HtmlEmbed*.v + coq/theories/Html/HtmlSelect.v + coq/theories/DataUri", "serves_properties": ["C11"],
     "kind_free_text": "F2 Gallina model of html.Minify's token loop with an arbitrary registry of sub-minifiers (dispatch of script/style/iframe text and svg/math tokens, ErrNotExist tolerance, failure propagation) and of the media-type selection from the type attribute (on top of the Dispatch model of parse.Mediatype); harness/cmd/htmloracle (32 stub registries, type-attribute table, recording stubs, real minifiers), svgoracle, cssoracle, dataurichk"})
ENGINES.append({"name": "Validity", "path": "coq/theories/Props/C09.v (theorems of the JsPrint, Json, Xml, SvgPath, Html, CssVal engines) + harness/cmd/validcheck", "serves_properties": ["C09"],
     "kind_free_text": "validity / fixed-point theorems of the modelled fragments restated per language; harness/cmd/validcheck: the repository's benchmark samples and fuzz corpora (68 documents up to 1.6 MB) and byte-level mutations / splices of them under three option sets, judged by V8, encoding/json, encoding/xml, x/net/html and a css-syntax-3 checker, plus second pass; every oracle of C01-C07 re-used with a validity filter"})
CHECKS = {
    "C09": {
        "engine": "Validity", "design_ref": "DESIGN.md section 4 / C09",
        "technique": "Coq theorems on validity and second-pass stability of the modelled output fragments (printer tokens derive in the ECMA-262 grammar and are a fixed point; JSON output is the compact serialisation; attribute literals read back; path data re-lexes) + search with independent parsers and second pass over generated inputs, the repository's real-world documents and their mutations",
        "text": ("Theorems (Props/C09.v), each for all inputs of its model: printed JS expression tokens derive the paren-stripped tree in the ECMA-262 grammar and "
                 "printing the re-parsed tree gives the same tokens; every groupExpr site of js/*.go (regenerated) keeps rewritten trees parser-shaped; JSON "
                 "output is the compact serialisation with valid numbers; XML and HTML attribute literals are well-delimited and read back as one value; CDATA "
                 "turned into text has no `<`; emitted SVG path data re-lexes to exactly the written numbers and flags; the CSS box rewrite is idempotent and a "
                 "rewritten hash colour is a colour. Ties: the correspondences of C01-C07. PARTIAL — the property is mostly decided by search: every oracle "
                 "parses each output with an independent parser and feeds it back (about 60,000 judged outputs per quick run), and validcheck runs the six "
                 "minifiers under three option sets over the 68 benchmark / corpus documents (up to 1.6 MB) and 1,500 byte-level mutants and splices per quick "
                 "run, judged by V8, encoding/json, encoding/xml, x/net/html and a css-syntax-3 checker (output validity required whenever the judge accepts "
                 "the input) plus the second pass. Repaired from these runs: K103, K114, K115, K116; 18 open findings (K28, K30, K42, K43, K62, K63, K66, "
                 "K68-K70, K75-K77, K86, K98, K99 ...)."),
        "note": ("Partial. Trusted: Coq kernel, the independent parsers named above as judges of validity, the mutation generator's coverage (printed in the "
                 "evidence: documents per language, origin, rejected inputs)."),
    },
    "C11": {
        "engine": "Embed", "design_ref": "DESIGN.md section 4 / C11",
        "technique": "Coq proof of the commutation law minify(host[payload]) = host'[minify(payload)], pass-through and failure location for all registries, options and attribute-free token lists + byte correspondence with stub registries and an exhaustive type-attribute table; search for attribute contexts, escaping, svg/css hosts, data: URIs",
        "text": ("Theorems (Props/C11.v): for EVERY registry (function from media types to optional partial minifiers), option setting and token list, "
                 "minifying with the registry equals rewriting each embedded payload (script/style/iframe text, svg and math tokens, on their documented "
                 "default types) by its own minifier's result and then minifying the host with no sub-minifier (hypothesis raw_tmpl_ok shown necessary by a "
                 "Coq counterexample, true for all streams without template actions); unregistered types pass through and the loop is the plain one; the "
                 "outer call fails iff a dispatched payload's minifier fails, at the token holding that payload; data: URI encoders round-trip (C18). "
                 "Refuted: dispatch on the type attribute is not case-insensitive (K103). Tie: extracted loop vs html.Minify under 32 stub registries on "
                 "3,000 documents per run (bytes and failure), html_select vs the real dispatch on a 224-row (element, type, KeepDefaultAttrVals) table. "
                 "PARTIAL: style/on* attributes, data: URLs in attributes, re-escaping for the host syntax, SVG style elements and attributes, CSS url() "
                 "are decided by search: htmloracle with recording stubs and the real minifiers, svgoracle with and without a css minifier, cssoracle, "
                 "dataurichk; open findings K30, K40, K49, K87, K90, K102-K104, K113."),
        "note": ("Partial. Trusted: Coq kernel, extraction, driver (the OCaml stub registry mirrors the Go one), the Dispatch model of parse.Mediatype "
                 "(tied by C15), the oracles."),
    },
    "C16": {
        "engine": "Options", "design_ref": "DESIGN.md section 4 / C16",
        "technique": "Coq proofs per option over the engines' models + proof obligations over site facts regenerated from source (every newer-syntax site dominated by a sufficient minVersion gate; every CLI flag reaches every type of its family) + search by all oracles over option products and by optcheck on the real binary",
        "text": ("Theorems (Props/C16.v): KeepEndTags / KeepDocumentTags / KeepQuotes / KeepWhitespace are honoured by the HTML token loop and the attribute "
                 "quoting for all inputs; text handling ignores the tag options; XML KeepWhitespace keeps leading space; JSON KeepNumbers gives the compact "
                 "text with every number lexeme unchanged; scopes the renamer does not act on (KeepVarNames) keep every name; every site of js/*.go that "
                 "introduces ES2015+ syntax (6 kinds, 17 sites, regenerated on every run) is dominated by a minVersion test of at least the introducing "
                 "edition; executing run()'s 42 configuration events symbolically, each of the 17 flags reaches the option struct of every registered "
                 "media type of its family, and the flag table equals the documented one. Tie: T-gen (facts regenerated from source on every run) + the "
                 "model correspondences of C01-C07 + optcheck (CLI binary vs library, 119 flag x type x sample runs, exhaustive). PARTIAL: that the "
                 "semantic guarantees hold under every option combination is decided by search: all six oracles run over option products (js: "
                 "KeepVarNames x Version 5..2022 with a newer-syntax scanner; html: all Keep* combinations and template delimiters; css KeepCSS2/precision; "
                 "xml, svg, json options); open findings K59, K81, K105, K108, K112."),
        "note": ("Partial. Trusted: Coq kernel, the site extraction of the translator (patterns documented in translator/jsgates.go, cli.go), pinned edition "
                 "years and flag table, the oracles of C01-C07."),
    },
    "C03": {
        "engine": "Html", "design_ref": "DESIGN.md section 4 / C03",
        "technique": "Coq proof (white-space state machine keeps the rendered words, all token lists and options; attribute quoting reads back the same value, all values) + token correspondence against the real lexer and minifier; x/net/html tree comparison as search for tag omission, attribute rewriting, references and embedded content",
        "text": ("Theorems (Props/C03.v): for every attribute-free token list satisfying wf_tokens and every option setting the output has the same block-level items "
                 "and, run by run, exactly the same rendered words (no join, split or drop; pre/textarea/raw text unchanged); wf_tokens' three exclusions are each "
                 "shown necessary by Coq counterexamples that reproduce on the real minifier, and a sound decision procedure reports how many real documents meet "
                 "it (about 93%); for every non-empty attribute value, original quote and mustQuote, the HTML tokenizer reads back one value that decodes to the "
                 "same text and ends where it should; quotes are dropped only when no byte needs them; KeepQuotes/KeepEndTags/KeepDocumentTags are honoured. "
                 "Tie: the extracted loop must reproduce html.Minify's bytes on 3,000 generated documents per quick run from the real lexer's tokens, "
                 "html_escape_attr_val must equal parse/html.EscapeAttrVal on 3,000 values, tag traits are regenerated from html/table.go. PARTIAL: whether omitted "
                 "tags are re-inferred at the same place, attribute rewriting other than quoting, references in context, embedded content and template "
                 "delimiters are decided by search only: 30,000 generated conforming documents per quick run x option sets x registries, both texts parsed by "
                 "golang.org/x/net/html and compared as trees with typed attribute comparison; 16 open findings there (K16-K19, K30, K101-K113 except K103/K108)."),
        "note": ("Partial. Trusted: Coq kernel, translator, extraction, driver, HtmlWsSpec.v as the meaning of 'same rendered words', x/net/html as the reference "
                 "tree builder (its DOCTYPE-case quirk normalised); the parse/html lexer and parse.ReplaceMultipleWhitespaceAndEntities are run, not modelled."),
    },
    "C04": {
        "engine": "CssVal", "design_ref": "DESIGN.md section 4 / C04 and section 10",
        "technique": "Coq proofs for the box shorthand (all value lists), hash colours (sRGBA kept, never longer), numeric tokens (number / percentage / dimension keep value and unit for every lexeme, the unit of a zero dropped only where allowed) and table facts over regenerated tables + exhaustive / generated byte correspondence with css.Minify; independent CSS value interpreter as search for all other rewrites",
        "text": ("Alpha values: the rewrite of a minified number / percentage into the shorter of .X and X% (minifyNumberPercentage, Css/CssAlpha) keeps the value, is never longer and stays in the grammar for every token of the grammar (the proof's missing hypothesis was the real defect K137, repaired; tied on 2,000 alpha values per run). Theorems (Props/C04.v): the four-sides collapse of margin/padding/border-width keeps top, right, bottom, left for every value list, is minimal and "
                 "never longer; a rewritten hash colour has the same sRGBA and is not longer; every hex/keyword pair of the regenerated colour tables denotes the "
                 "same sRGB colour (K21 excepted); for EVERY numeric lexeme and either setting of KeepCSS2 a number token keeps its value, a percentage stays a "
                 "percentage of the same value, a dimension is written as a number of the same value followed by its lower-cased unit or as the bare 0 - the "
                 "latter only for a zero value with a unit of optionalZeroDimension (all lengths) outside flex and known functions "
                 "(css_dimensions_keep_value_and_unit; its proof first needed `the exponent fits an int64`, and the counterexample width:0.5e9223372036854775808px "
                 "-> width:0 is K129 on the real code, repaired). Ties: 1,020 exhaustive box cases, every colour-table key + 4,000 hash tokens, 8,000 numeric tokens "
                 "(KeepCSS2 on / off, integer properties, known / unknown functions, out-of-range exponents) through the real css.Minify and the extracted models. "
                 "PARTIAL: all other rewrites (background*, font*, flex, border*, box-shadow, colour functions, unicode-range, selectors, at-rules, token "
                 "separation) are decided by search only - 40,000 generated stylesheets / declaration lists per quick run (stylesheet and inline mode, KeepCSS2 "
                 "on/off, precisions) judged by an independent css-syntax-3 tokenizer and value interpreter; repaired from this work: K20, K79, K80, K81, K85, K88, "
                 "K116, K129; open: K21-K23, K40, K45, K82-K84, K86, K87, K89-K99."),
        "note": ("Partial. Trusted: Coq kernel, translator, extraction, driver, the oracle's interpreter of CSS values; parse/css is run, not modelled. The "
                 "under-applied unit drop (a slice overwritten in minifyDimension) breaks no property; the model takes the implementation's choice as an input."),
    },
    "C01": {
        "engine": "JsPrint", "design_ref": "DESIGN.md section 4 / C01 and section 10",
        "technique": "Coq proofs: (1) printed tokens derive the stripped tree in the ECMA-262 grammar for all parser-shaped trees, parametric in the regenerated precedence maps and constant guards; (2) the on-the-fly expression rewrites preserve value and side effects for every expression, store and interpretation of the abstract operators; (3) the statement optimiser of stmtlist.go preserves the completion and store of every statement list, and the statement printer's tokens parse back (clause-14 grammar, else to nearest if) to the tree it means; (4) numeric literals keep their mathematical value with no int64 overflow, string literals keep their string value and stay valid for the chosen delimiter; token / AST / byte correspondence with the real minifier for all four; node vm differential execution as search",
        "text": ("Theorems (Props/C01.v): the precedence maps and constant guards regenerated from js/util.go / js.go satisfy prec_tables_ok; for every "
                 "expression tree a conforming parser can produce, at every context level, the printer's tokens derive in the ECMA-262 expression grammar "
                 "(own level tables) the same tree with exactly the dropped parentheses removed, incl. the replaced constants true/false/undefined/Infinity; "
                 "the output is a fixed point; every groupExpr operand site of js/*.go (26, regenerated) passes a sufficient level; && / || re-association is "
                 "value-preserving; and the rewrites of optimizeUnaryExpr, optimizeBooleanExpr and optimizeCondExpr (12 forms: !!, != for !(==), De Morgan, "
                 "a?true:false, a?a:b, a?b:a, a?b:b, a?f(x):f(y), nested conditionals, !a?x:y, constant conditions, comma hoisting) evaluate to the same value "
                 "and leave the same store for EVERY expression, store and interpretation of calls / == / relational / arithmetic operators as arbitrary "
                 "state transformers (identifier reads effect-free: the minifier's own assumption); the one excluded shape (const_assign_hazard) is finding "
                 "K118 on the real code; the call-merge defect K02 was found while writing this semantics and repaired. WHOLE PIPELINE: the token model "
                 "print_rw is emit of the as-written tree rw; that tree is parser-shaped at its position, so the tokens derive it in the grammar "
                 "(pipeline_output_parses_back), and it evaluates like the input (pipeline_preserves_value_and_effects) — the proof of the middle step "
                 "failed on the pinned code and exposed K119 ((l,!(a&&b))&&f() written as l,!a||!b&&f()), repaired in /repo. Ties: T-gen for maps, guards and "
                 "sites + the extracted print / print_rw must reproduce the token sequence of the real js.Minify on 6,000 operator expressions and 6,000 "
                 "rewrite-fragment expressions per run (a disagreement is handed to node as a program). "
                 "STATEMENTS: optimizeStmt / optimizeStmtList (if->expression rewrites, !-swap, both-branches "
                 "return / throw, else flattening after flow statements, merging into return / throw / if, if-return chains, trailing return) transcribed on "
                 "if / else, return, throw, break, continue, blocks, empty and expression statements; for EVERY list, store and fuel the optimised list has "
                 "the same completion and store (statement_optimiser_preserves_behaviour), under two hypotheses shown necessary by counterexamples that "
                 "are findings on the real code (hasSideEffects trusted: K03, repaired for calls; trailing `return a,b,undefined`: K01, open, pinned by "
                 "js_test.go); minifyStmt / minifyBlockStmt / endsInIf with the pending semicolon transcribed, and what they write parses back to the "
                 "intended tree with the intended behaviour (printed_statements_parse_back / _behave; the dangling-else hypothesis else_safe is evaluated on "
                 "the optimiser's output for every body of the run). Ties: AST of the real optimizeStmtList (hook) on 6,000 parsed lists and tokens of the "
                 "real js.Minify on ~3,000 function bodies per run. LITERALS: 0b / 0o / 0x / decimal / BigInt literals with separators keep their value, the "
                 "int64 accumulator never overflows and the decimal text fits the bytes it overwrites (for all literals the guards 65 / 23 / 12 let through); "
                 "string literals: for every valid literal, either allowTemplate, sloppy and strict mode, the written literal is valid for its delimiter and "
                 "has the same string value (string_literals_keep_their_value) - validating this statement exposed K122 (a NUL escape before a digit), K09 "
                 "(a substitution opened by a decoded escape) and K30 (decoded </script>), all repaired. Ties: 6,000 numeric and 20,000 string literals per "
                 "run through hooks. CONCATENATIONS: the literal mergeBinaryExpr + appendStringPart build for \"a\" + 'b' + ... is modelled (Js/StrCat, tied "
                 "through a hook on 2,500 concatenations per run) and, for all valid literals, its minified form has the concatenation of the parts' "
                 "values (string_concatenation_keeps_its_value; the one hypothesis - no appended part starts with a UTF-8 continuation byte - is shown "
                 "necessary by a computed counterexample and holds for well-formed source). BYTES: Js/PrintRender and Js/StmtRender restate the writer (write with needsSpace / spaceBefore, keywords, raw semicolons); for "
                 "every expression with identifier atoms and for every function body meeting conditions on the INPUT list only, the written bytes lex "
                 "back (longest match over the ECMA-262 punctuators) to exactly the printer's tokens: no two tokens fuse, no word joins a word "
                 "(written_bytes_lex_back_to_the_tokens, rewriting_printer_bytes_lex_back, statement_printer_never_joins_words, "
                 "function_body_bytes_lex_back_closed). Ties: bytes of the real js.Minify on every expression case (~12,000) and ~3,000 function bodies "
                 "per run, the closed statement evaluated on each body. PARTIAL: loops, declarations, hoisting, classes, renaming interplay, regular expressions, templates with substitutions "
                 "are decided by search only: 1,500 generated programs per quick run executed in node 20 (vm) before and after minification under several "
                 "configurations. Repaired in /repo from this work (fix: commits): K02-K04, K06-K13, K37, K38, K74, K75, K77, K78, K114, K117, K119-K122, "
                 "K125, K126; open: K01, K04, K05, K07, K14, K73, K76, K118."),
        "note": ("Partial (printer precedence, expression rewrites, statement optimiser / printer and literals proved on the stated fragments; behaviour of "
                 "everything else searched). Trusted: Coq kernel, translator, extraction, driver, PrintSpec.v / StmtParse.v / StrLitSpec.v / NumLitSpec.v as "
                 "the grammar and value definitions (expression-grammar unambiguity assumed; the link evt_etoks between statement and expression level is a "
                 "hypothesis of the statement theorems), RewriteSem.v / StmtSem.v as the meaning of the fragment, node 20 as reference engine."),
    },
    "C05": {
        "engine": "SvgPath", "design_ref": "DESIGN.md section 4 / C05",
        "technique": "Coq proof (maximal-munch lexer inverts the separator state machine, all item sequences) + hooked correspondence; geometry and document structure by search (independent interpreters)",
        "text": ("Theorems (Props/C05.v), for item sequences of any length and every consistent printer state: lexing the emitted path data by the SVG 1.1 number "
                 "grammar with maximal munch (flags as single characters) returns exactly the written lexemes — numbers and flags never fuse; every written "
                 "lexeme is the coordinate, its e2 spelling or .0 for 0; the 00->e2 rewrite hits plain integers only; the hypothesis on coordinates is "
                 "necessary (-00 refuted) and is measured on every coordinate minify.Number returns. Tie: the real copyNumber/copyFlag (verif hook) and the "
                 "extracted model write the same 6,000 random item sequences. PARTIAL: geometry (float64 conversion, command merging), lengths/viewBox/colours and "
                 "document structure are decided by search only: 30,000 generated paths/documents per quick run through an independent SVG 1.1 path interpreter "
                 "(tolerance 1e-9) and an encoding/xml tree walk with typed attribute comparison; 12 open findings there (K25, K26, K43, K44, K63-K71)."),
        "note": ("Partial (proof covers the separator state machine only). Trusted: Coq kernel, extraction, driver, hook, the oracle's interpreters."),
    },
    "C13": {
        "engine": "Conc", "design_ref": "DESIGN.md section 4 / C13",
        "technique": "Coq proof over all schedules (interleaving independence, lock protocol) on frame facts regenerated from source + race-detector harness as search",
        "text": ("Theorems (Props/C13.v), for any number of goroutines and every schedule: each call's final state depends only on the number of its own steps, "
                 "so any interleaving equals the sequential run; with no registration in flight RLock is enabled in every reachable lock state (no call "
                 "blocks another, nested re-entry included), and the excluded case (a waiting writer) really blocks. The premise that calls write only "
                 "goroutine-local state is regenerated from /repo on every run (assignments/inc-dec/appends to package-level variables outside init, writes "
                 "through an un-copied option struct) and checked by shared_writes_ok. Search: one registered registry used from 2/8/64 goroutines through "
                 "Minify/Bytes/String/Reader/Writer/Match on all media types incl. re-entrant documents under the race detector; every result compared with "
                 "the sequential one, option structs deep-compared, command minifiers repeated."),
        "note": ("Partial: the Go memory model is not modelled (races are visible only to the race detector); the translator sees direct writes, not writes "
                 "through aliases. Trusted: Coq kernel, translator, race detector, harness."),
    },
    "C02": {
        "engine": "JsRename", "design_ref": "DESIGN.md section 4 / C02",
        "technique": "Coq proof (injective numeral, pigeonhole for reserved names, induction over the scope forest against a lexical resolver) + correspondence on real scope forests; node vm as search",
        "text": ("Theorems (Props/C02.v): getName is injective and produces identifier-shaped names; within a scope the assigned names are pairwise different, "
                 "never a keyword and never the current name of a variable used from outside, however many reserved names intervene; for every scope forest "
                 "with the parser's invariants (any nesting, any number of bindings) every use resolves after renaming to its own declaration and globals stay "
                 "unbound; names outside renamed scopes are unchanged; with name keeping nothing changes; the regenerated alphabets have no duplicates. The "
                 "`with` case is refuted on the model (K14/K15) and excluded by hypothesis. Tie: the extracted model must predict every name the real minifier "
                 "assigned on the real parser's forest (700 programs per quick run incl. scopes with 3,600 bindings and globals named like generated names; "
                 "8,400 getName indices); the theorem's hypotheses are measured on every forest."),
        "note": ("Trusted: Coq kernel, extraction, driver, harness, the verif hook; parse/js scope analysis is run, not modelled (invariants measured); labels, "
                 "property names and import/export names are outside the model (node oracle only)."),
    },
    "C06": {
        "engine": "Xml", "design_ref": "DESIGN.md section 4 / C06",
        "technique": "Coq proof (invariant over token lists: words per run preserved; escapers invert) + correspondence on real lexer tokens; encoding/xml walk as search",
        "text": ("Theorems (Props/C06.v), for every token list meeting the lexer's guarantees and both KeepWhitespace settings: the output has the same markup "
                 "items in order and, run by run, the same words — the white-space state machine with look-ahead never joins, splits or drops a word; with "
                 "KeepWhitespace a text after a tag keeps its leading space; the re-quoted attribute literal contains no raw quote of its kind, decodes to "
                 "the same value and is the shorter quoting; CDATA turned into text decodes to exactly its characters, has no '<', and is not longer than the "
                 "section; the model of white-space collapsing keeps words. Tie: the extracted model consumes the real parse/xml token stream of every "
                 "generated or mutated document (20,000 per quick run) and must reproduce xml.Minify's bytes; the escapers and collapse are compared with the "
                 "real helpers; the theorem's hypothesis wf_tokens is measured on every real text token. Partial: reference decoding inside a token "
                 "(parse.ReplaceEntities) and the lexer are run, not modelled; output well-formedness across pieces is search-only (open findings K28, K42, K43, K59-K61)."),
        "note": ("Trusted: Coq kernel, extraction, driver, harness; XmlSpec.v as the token-level meaning of the property; parse/xml lexer and entity helpers "
                 "(dependency) are run, not modelled."),
    },
    "C20": {
        "engine": "Cli", "design_ref": "DESIGN.md section 4 / C20",
        "technique": "Coq proof (invariant over every prefix of the system-call list, any write split) + strace skeleton correspondence + real SIGKILL injection as search",
        "text": ("Theorems (Props/C20.v), for every file content, output, split of the output into write calls and EVERY kill point k (prefix of the operation "
                 "list): for a file minified onto itself, a failed write with restore, and a bundle written onto one of its sources, the original bytes are at "
                 "p, or at p.bak, or p holds the complete new output; files that are only read (and every other path) are never modified. Tie: the model's "
                 "operation list per task shape is compared with strace skeletons of the real command (18 families of invocations x 4 sizes, per "
                 "destination, plus 'nothing else is mutated'). Search: SIGKILL injected at every traced system-call boundary, disk inspected afterwards."),
        "note": ("Trusted: Coq kernel, extraction, driver, strace, the abstraction of the file system as path -> option bytes (atomic rename/unlink, append-only "
                 "writes); durability under power loss is outside the property. Attribute calls and directory creation are not modelled."),
    },
    "C19": {
        "engine": "Cli", "design_ref": "DESIGN.md section 4 / C19 and section 10",
        "technique": "Coq proof of the complete-task effect, of the bundle reader for all read sizes, and of the file filters (the regular expression built for a glob is its item-wise translation and matches what the glob means; fileFilter decides as documented) + strace and hook correspondence; the rest of task planning by search against a reference",
        "text": ("Theorems (Props/C19.v): after a complete task - for every file system, payload and split into writes - the destination holds exactly the "
                 "payload (library output, or the original bytes on library failure), an in-place run leaves no backup, a failed write restores the original, "
                 "every other path is unchanged; the F1 model of concatFileReader delivers exactly the inputs in order separated by the separator for every "
                 "sequence of read-buffer sizes and short reads, and reaches EOF; for EVERY glob pattern the string-level pipeline of compilePattern "
                 "(QuoteMeta + three ReplaceAll + anchors) equals the item-wise translation, its anchored match is the meaning of the glob (** any string, * "
                 "no slash, ? exactly one character), and fileFilter accepts a path iff a --match pattern matches the base name and the last matching "
                 "--include / --exclude pattern is an include (K130: `?` was compiled to an optional character; repaired). Ties: strace skeletons vs ops_of; the "
                 "extracted reader vs the real concatFileReader Read call by Read call; compile_src / glob_matches / file_filter vs the real compilePattern "
                 "(regexp source bytes, Go regexp matches) and fileFilter on 3,000 cases (verif-tagged hooks). DESTINATIONS: Cli/PathModel transcribes "
                 "filepath.Clean / Join / Dir / Rel and NewTask; for every clean root, every input below it and every spelling of the output directory, "
                 "Rel returns exactly the components below the root, the destination is the cleaned output directory followed by exactly these components "
                 "(hidden names kept), two inputs below one root never share a destination, and the destination never leaves the output directory "
                 "(destination_mirrors_the_input_tree, no_two_inputs_share_a_destination, destination_stays_below_the_output_directory); tied to the "
                 "real functions and the real NewTask on ~550 triples per run. Partial: which root createTasks derives for each input, flag parsing and "
                 "attribute preservation are not modelled; they are decided by search only - generated trees x invocation shapes compared with a Go "
                 "reference of the documented rules, every untouched path hashed."),
        "note": ("Partial (path planning is search-only). Trusted: Coq kernel, extraction, driver, strace, the verif hook tests, Go's regexp on the fragment "
                 "^ literal .* [^/]* [^/] $, the reference implementation of the documented rules in harness/cmd/clifs/ref.go."),
    },
    "C10": {
        "engine": "Buf", "design_ref": "DESIGN.md section 4 / C10",
        "technique": "Coq proof of index safety for the F1 look-ahead buffer model and the Bytes contract + mutation sweep as search",
        "text": ("Theorems (Props/C10.v): the F1 model of the html/xml/svg TokenBuffer (length, capacity, position, reallocation, compaction) executes any "
                 "sequence of Peek(i)/Shift on any token stream without an out-of-range access and keeps pos <= len <= cap; Bytes/String report an error "
                 "together with the caller's original data. Tie: the extracted buffer model is driven with the same random operation sequences as the real "
                 "TokenBuffers over real lexers and must return the same token types. Everything else of this property — panics, hangs, memory, linear "
                 "time of the six minifiers as a whole, incl. the unmodelled parse/v2 front ends — is decided by search only: every corpus/benchmark file "
                 "and deterministic mutations/splices/truncations under recover with size-proportional time limits, deep nesting, 16x scaling probes."),
        "note": ("Partial by nature: a theorem covers the modelled index arithmetic; totality of unmodelled Go code cannot be proved here and is labelled search. "
                 "Trusted: Coq kernel, extraction, driver, harness."),
    },
    "C12": {
        "engine": "Stream", "design_ref": "DESIGN.md section 4 / C12",
        "technique": "Coq proof: functional model of the entry points + small-step system of the Writer wrapper (invariant, progress, measure) + correspondence over partitions",
        "text": ("Theorems (Props/C12.v): for every minifier, input and partition into chunks, Minify on a chunked reader, Reader, Writer, Bytes and String give "
                 "the plain call's bytes and error; for the Writer wrapper's producer/goroutine/pipe system every reachable non-final state has an enabled "
                 "step (no deadlock in any interleaving), every step decreases a measure (termination), and when Close has returned the goroutine has read "
                 "exactly the concatenation of the chunks and finished. Tie: the extracted entry-point functions are run on the same reader scripts as the "
                 "code (all partitions of 8 short inputs, random partitions of samples and benchmark documents of all six types) and must predict result and "
                 "delivered bytes; Middleware/ResponseWriter are exercised with httptest (type selection, Content-Length)."),
        "note": ("Trusted: Coq kernel, extraction, driver; io.ReadAll/io.Pipe/WaitGroup semantics as written in the model; the Go scheduler, memory model and "
                 "net/http are runtime behaviour the model cannot exhibit (sampled by the runs, labelled partial)."),
    },
    "C14": {
        "engine": "Stream", "design_ref": "DESIGN.md section 4 / C14",
        "technique": "Coq proof over I/O skeletons regenerated from source + fault injection at every position as correspondence",
        "text": ("Theorems (Props/C14.v): the I/O skeleton of the six Minify methods, regenerated from /repo on every run, satisfies skeletons_ok (every success "
                 "return passes the final probe write, the lexer's non-EOF error is returned); under such a skeleton a reader failing after any number of "
                 "bytes yields that error through Minify and Reader, a writer failing from its k-th call on yields the writer's error whenever k is at most "
                 "the number of calls incl. the probe, later k change nothing, accepted bytes are a prefix of the output, an embedded minifier's failure is "
                 "still an error; Close always returns (C12's system). Tie: fault-injecting doubles at EVERY k for each sample of each media type, plain and "
                 "through Reader/Writer with a watchdog; the extracted model must predict each outcome."),
        "note": ("Trusted: Coq kernel, extraction, driver, the translator's structural reading of the Minify methods (go/ast); front-end fact 'failed ReadAll = "
                 "empty input whose Err() is the read error' is a section hypothesis checked by the harness for every k."),
    },
    "C17": {
        "engine": "Tables", "design_ref": "DESIGN.md section 4 / C17",
        "technique": "Coq proof over tables regenerated from source (finite sweep lifted with forallb_forall) + exhaustive public-API oracle",
        "text": ("The literal tables of html/xml/css/svg table.go are transcribed into Coq by the translator on every run and the theorems of Props/C17.v are "
                 "re-checked against them: every entity replacement decodes to the same text as its reference and is not longer, every colour pair is the "
                 "same sRGB colour and a real CSS keyword (lightslateblue excluded by name and refuted: K21), boolean/URL attributes, raw-text and "
                 "whitespace-dropping elements, zero units, svg colour attributes and JS types are subsets of the standards' lists. The domain is finite, so "
                 "the sweep is a proof for the current table. A changed entry breaks the obligation; tablecheck then exercises every entry directly and "
                 "through the public minifiers against Go's html package, x/net/html and x/image/colornames to produce the replay."),
        "note": ("Trusted: Coq kernel (vm_compute), the translator's transcription (go/ast, no evaluation; Hash identifier -> name by lower-casing), the pinned "
                 "reference tables and hand-written standard lists under coq/theories/Ref."),
    },
    "C18": {
        "engine": "DataUri", "design_ref": "DESIGN.md section 4 / C18",
        "technique": "Coq proof (round trips for all byte strings, result shape) on extracted models + correspondence after the real parse.DataURI",
        "text": ("minify.Mediatype, modelled as the in-place array algorithm it is, EQUALS 'drop white space and lower-case outside double-quoted strings' for every input below its own 1024 guard with an even number of quotes (mediatype_is_strip_and_lower_outside_quotes; the odd case and the guard are stated exactly; provable only since the repair of K135, found by the multi-seed sweep). Theorems (Props/C18.v), for every payload over all 256 byte values: percent-encoding and base64 as emitted decode back to exactly the "
                 "encoded bytes (RFC 3986/4648 decoders as spec); the helper's result is the original (only if shorter than both encodings) or "
                 "data:<stripped type>[;base64],<payload> in the shorter encoding; the lengths compared are the real lengths; 'never longer' is refuted "
                 "(K50). Tie: extracted models vs minify.DataURI (fed by the real parse.DataURI and stub sub-minifiers), base64.StdEncoding, the real "
                 "encoding table for all 256 bytes, and minify.Mediatype (F1 transliteration). Oracle: independent RFC 2397 reader."),
        "note": ("Trusted: Coq kernel, extraction, driver, DataUriSpec.v decoders as the meaning of 'decodes to', harness. The decoding half lives in the "
                 "parse dependency and is run, not modelled (known findings K40, K49 are there)."),
    },
    "C15": {
        "engine": "Dispatch", "design_ref": "DESIGN.md section 4 / C15",
        "technique": "Coq refinement proof over all registration histories + correspondence on generated histories",
        "text": ("Theorems (Props/C15.v), for every registration history and mimetype: the registry model serves a call exactly as the documented rules say "
                 "(last literal registration, else first-registered matching pattern, else ErrNotExist), Match agrees with Minify, re-registration replaces. "
                 "Tie: the extracted model (registry + parse.Mediatype transliteration) is run on random histories and media type strings and must reproduce "
                 "what Minify/Match/Bytes/String did with recording stubs; an independent Go reference of the rules is the search oracle."),
        "note": ("Trusted: Coq kernel, extraction, driver, Go regexp (section parameter pmatch), the harness. minify.go is modelled, not verified."),
    },
    "C07": {
        "engine": "Json", "design_ref": "DESIGN.md section 4 / C07",
        "technique": "Coq proofs (induction over JSON values) on extracted models of the separator state machine AND of the dependency's pull parser + correspondence on real parser events and verdicts",
        "text": ("Theorems (Props/C07.v), for every JSON value of any depth: the model of json.Minify's loop renders exactly the compact form of the same "
                 "tree (nesting, member order, duplicate keys, byte-identical strings/literals; numbers through Number + zero repair), and with KeepNumbers "
                 "every lexeme is byte-identical; the pull parser of the parse/v2 dependency (Parser.Next with its state stack, comma handling and scanners) is modelled too and, for every value and every white-space layout, delivers exactly the assumed event stream (parser_delivers_the_events_of_the_value), so that minifying ANY text of a value gives its compact rendering (json_text_to_compact); the output is never longer than the compact rendering with the original number lexemes (a theorem since the repair of K48; before, the model refuted it with witness 7E-3). Tie: the extracted model consumes the "
                 "event stream of the real parse/json parser for each generated document and must reproduce json.Minify's bytes; the spec's events_of is "
                 "compared with the real parser's events. Oracle: encoding/json token walk with math/big numbers."),
        "note": ("Trusted: Coq kernel, extraction, driver, JsonSpec.v as the meaning of 'same value', harness, encoding/json. The parse/json parser is "
                 "modelled by hand (Json/JsonParse.v) and compared with the real one on every text of a run, malformed ones included; numeric "
                 "equality of rewritten numbers rests on C08."),
    },
    "C08": {
        "engine": "Num", "design_ref": "DESIGN.md section 4 / C08",
        "technique": "Coq proof over an extracted F2 model + exhaustive correspondence/oracle enumeration",
        "text": ("Theorems (Props/C08.v): the lexeme recogniser is sound and complete, and Decimal at precision 0 returns a valid decimal without exponent "
                 "denoting exactly the same rational and never longer, for every lexeme of the grammar (unbounded). The model is tied to the code by "
                 "running the extracted model and minify.Number/Decimal on every string of the grammar up to length 6 (quick) / 8 (thorough) over an "
                 "alphabet exercising carries plus random long lexemes with exponents around 2^63. Precision > 0, the Number half until its theorem is "
                 "added, and arbitrary bytes are decided by the math/big oracle over the same enumeration (search, labelled as such)."),
        "note": ("Trusted: Coq kernel, extraction (ExtrOcamlBasic only), OCaml driver, the grammar/value specification Num/Spec.v, the Go harness and math/big. "
                 "The Go code itself is modelled, not verified; the model covers precision 0 on the number grammar."),
    },
}
