#!/bin/bash
# Full .vo build of the Coq development (never -vos). Regenerates the file list from a glob so
# that adding a file needs no edit here. Usage: coq/build.sh [make args]
set -e
cd "$(dirname "$0")"
{
  echo "-Q theories MV"
  echo "-Q gen MVGen"
  echo "-arg -w -arg -notation-overridden,-deprecated-hint-without-locality,-deprecated-instance-without-locality,-deprecated-hint-rewrite-without-locality"
  # Props/*.v are compiled by each check itself (coqc), so that a broken obligation is attributed to its property only
  find theories gen -name '*.v' -not -path 'theories/Props/*' | LC_ALL=C sort
} > _CoqProject.new
if ! cmp -s _CoqProject.new _CoqProject; then mv _CoqProject.new _CoqProject; rm -f Makefile.coq Makefile.coq.conf; else rm _CoqProject.new; fi
[ -f Makefile.coq ] || coq_makefile -f _CoqProject -o Makefile.coq >/dev/null
# -k: a broken proof in one property file must not stop the others from being checked
timeout ${COQ_TIMEOUT:-3000} make -k -f Makefile.coq -j16 "$@"
