(* Extraction of the executable models. ExtrOcamlBasic only: Z/positive/nat stay inductive. *)
From MVGen Require Import JsTables_gen Tables_gen.
From MV Require Import Base.MvBytes Num.NumModel Json.JsonModel Json.JsonSpec Dispatch.DispatchModel DataUri.DataUriModel Stream.StreamModel Buf.BufModel Cli.CliModel Cli.ConcatModel Stream.StreamHttp Xml.XmlModel Base.Ws Js.RenameModel Svg.PathSep Js.PrintModel Js.PrintGen Js.RewriteModel Css.CssBox Css.CssColor Html.HtmlAttr Html.HtmlWs Html.HtmlWsWf Html.HtmlEmbed Html.HtmlSelect Html.HtmlAttrLoop Js.StmtModel Js.StmtPrint Js.StmtParse Js.NumLit Js.StrLit Js.StrLitSpec Css.CssDim Cli.GlobModel Js.PrintRender Js.StmtRender Js.StmtRenderProofs Js.StmtRenderClosed Cli.PathModel Json.JsonParse Js.StrCat Css.CssAlpha.
Require Extraction.
Require Import ExtrOcamlBasic.
Extraction Language OCaml.
Separate Extraction number0 decimal0 valid_number valid_decimal
  json_minify_events events_of parse_events
  reg_step reg_init served match_q mediatype
  needs_escape b64_encode datauri_encode mediatype_min
  entry_minify entry_reader entry_writer entry_bytes
  tb_init peek shift
  ops_of cr_init cread read_fuel
  serve close_err
  xml_minify escape_attr_val escape_cdata_val collapse
  emit st_cmd
  print_gen OpAssign OpExpr print_rw T_gen optimize_body print_body print_list parse_program canon_list printable_list else_safe_list decimal_number binary_number octal_number hexadecimal_number minify_string decode number_token percentage_token dimension_token css_zero_dimensions compile_src glob_matches file_filter items_src glob_tokens render render_body lexs_bytes stok_surfaces stmts_okb stmts_fuel_okb PathModel.clean PathModel.dir PathModel.join PathModel.rel new_task_dst merge_strings min_number_percentage
  box_collapse_nat hex_color_minify css_shorten_color_hex
  HtmlWs.html_minify HtmlAttr.html_escape_attr_val HtmlWsWf.wf_tokens_b HtmlAttrLoop.attrs_out HtmlSelect.html_select HtmlEmbed.html_minify_reg HtmlEmbed.mt_js HtmlEmbed.mt_css HtmlEmbed.mt_html HtmlEmbed.mt_svg HtmlEmbed.mt_math
  get_name rename_program js_identStart_alpha js_identContinue_alpha js_identStart_freq js_identContinue_freq.
