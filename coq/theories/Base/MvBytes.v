(* Base: bytes are integers in [0,256) represented in Z (so that [c - 48] and [lia] behave). *)
From Coq Require Export List ZArith Lia Bool.
Export ListNotations.
Open Scope Z_scope.

(* keep [simpl] from unfolding integer arithmetic (lia then finds no witness) *)
Global Arguments Z.add : simpl never.
Global Arguments Z.sub : simpl never.
Global Arguments Z.mul : simpl never.
Global Arguments Z.pow : simpl never.
Global Arguments Z.opp : simpl never.
Global Arguments Z.div : simpl never.
Global Arguments Z.modulo : simpl never.
Global Arguments Z.of_nat : simpl never.
Global Arguments Z.to_nat : simpl never.

Definition byte := Z.
Definition bytes := list byte.

Definition zlen {A} (l : list A) : Z := Z.of_nat (length l).

Definition is_digit (c : byte) : bool := (48 <=? c) && (c <=? 57).
Definition is_ws (c : byte) : bool :=            (* parse.IsWhitespace: space \t \n \r \f *)
  (c =? 32) || (c =? 9) || (c =? 10) || (c =? 13) || (c =? 12).
Definition is_upper (c : byte) : bool := (65 <=? c) && (c <=? 90).
Definition to_lower (c : byte) : byte := if is_upper c then c + 32 else c.

Definition byte_ok (c : byte) : Prop := 0 <= c < 256.
Definition bytes_ok (l : bytes) : Prop := Forall byte_ok l.

Fixpoint beqb (a b : bytes) : bool :=
  match a, b with
  | [], [] => true
  | x :: a', y :: b' => (x =? y) && beqb a' b'
  | _, _ => false
  end.

Lemma beqb_eq a b : beqb a b = true <-> a = b.
Proof.
  revert b; induction a as [|x a IH]; intros [|y b]; simpl; split; intros H; try easy.
  - apply andb_true_iff in H as [H1 H2]. apply Z.eqb_eq in H1. apply IH in H2. congruence.
  - inversion H; subst. apply andb_true_iff; split; [apply Z.eqb_refl | apply IH; reflexivity].
Qed.

Lemma zlen_app {A} (a b : list A) : zlen (a ++ b) = zlen a + zlen b.
Proof. unfold zlen. rewrite app_length. lia. Qed.
Lemma zlen_cons {A} (x : A) l : zlen (x :: l) = 1 + zlen l.
Proof. unfold zlen. simpl length. lia. Qed.
Lemma zlen_nil {A} : zlen (@nil A) = 0.
Proof. reflexivity. Qed.
Lemma zlen_nonneg {A} (l : list A) : 0 <= zlen l.
Proof. unfold zlen. lia. Qed.
