(* Base/Ws.v — white space: words of a byte string, and the facts about them that the minifiers' white-space state
   machines rely on.  [is_ws] is parse.IsWhitespace (space, \t, \n, \r, \f), defined in MvBytes. *)
From MV Require Import Base.MvBytes.

(* the words of a byte string: its maximal runs of non-white-space bytes, in order *)
Fixpoint words_aux (cur : bytes) (l : bytes) : list bytes :=    (* cur = current word, reversed *)
  match l with
  | [] => match cur with [] => [] | _ => [rev cur] end
  | c :: r => if is_ws c then match cur with [] => words_aux [] r | _ => rev cur :: words_aux [] r end
              else words_aux (c :: cur) r
  end.
Definition words (l : bytes) : list bytes := words_aux [] l.

Definition starts_ws (l : bytes) : bool := match l with c :: _ => is_ws c | [] => false end.
Definition ends_ws (l : bytes) : bool := starts_ws (rev l).
Definition all_ws (l : bytes) : bool := forallb is_ws l.
(* "a word cannot continue across this end": the string is empty or ends (starts) with white space *)
Definition lflag (l : bytes) : bool := match l with [] => true | c :: _ => is_ws c end.
Definition rflag (l : bytes) : bool := lflag (rev l).

(* parse.ReplaceMultipleWhitespace: every maximal white-space run becomes ONE byte: a newline (10) if the run
   contains \n or \r, else a space (32).  Runs of length one are rewritten too (a lone tab becomes a space). *)
Definition is_newline (c : byte) : bool := (c =? 10) || (c =? 13).
Definition collapse_step (c : byte) (acc : bytes) : bytes :=
  if is_ws c then
    match acc with
    | x :: t => if is_ws x then (if is_newline c || (x =? 10) then 10 else 32) :: t
                else (if is_newline c then 10 else 32) :: acc
    | [] => [if is_newline c then 10 else 32]
    end
  else c :: acc.
Definition collapse (l : bytes) : bytes := fold_right collapse_step [] l.

(* ================= facts: statements are fixed, proofs to be supplied ================= *)

Local Arguments is_ws : simpl never.

(* ---------- helpers: one-step equations and flag bookkeeping ---------- *)

Lemma words_aux_cons cur c r :
  words_aux cur (c :: r) =
  if is_ws c then match cur with [] => words_aux [] r | _ => rev cur :: words_aux [] r end
  else words_aux (c :: cur) r.
Proof. reflexivity. Qed.

Lemma ends_ws_cons2 c d a : ends_ws (c :: d :: a) = ends_ws (d :: a).
Proof. unfold ends_ws. cbn [rev]. destruct (rev a); reflexivity. Qed.

Lemma rflag_cons2 c d a : rflag (c :: d :: a) = rflag (d :: a).
Proof. unfold rflag. cbn [rev]. destruct (rev a); reflexivity. Qed.

Lemma ends_ws_cons_cases c a :
  ends_ws (c :: a) = true -> (a = [] /\ is_ws c = true) \/ ends_ws a = true.
Proof.
  intros H. destruct a as [|d a].
  - left. split; [reflexivity | exact H].
  - right. rewrite ends_ws_cons2 in H. exact H.
Qed.

Lemma rflag_cons_cases c a :
  rflag (c :: a) = false -> (a = [] /\ is_ws c = false) \/ rflag a = false.
Proof.
  intros H. destruct a as [|d a].
  - left. split; [reflexivity | exact H].
  - right. rewrite rflag_cons2 in H. exact H.
Qed.

Lemma rflag_true a : rflag a = true -> a = [] \/ ends_ws a = true.
Proof.
  unfold rflag, ends_ws. intros H. destruct (rev a) as [|x r] eqn:E.
  - left. rewrite <- (rev_involutive a), E. reflexivity.
  - right. exact H.
Qed.

Lemma lflag_true b : lflag b = true -> b = [] \/ starts_ws b = true.
Proof. intros H. destruct b as [|d b]; [left; reflexivity | right; exact H]. Qed.

(* ---------- helpers: words_aux over concatenation at a boundary ---------- *)

Lemma words_aux_app_starts_ws a b cur :
  starts_ws b = true -> words_aux cur (a ++ b) = words_aux cur a ++ words b.
Proof.
  intros H. revert cur. induction a as [|c a IH]; intros cur.
  - destruct b as [|d b]; [discriminate H|]. cbn [starts_ws] in H.
    unfold words. cbn [app]. rewrite !words_aux_cons. rewrite H. destruct cur; reflexivity.
  - cbn [app]. rewrite !words_aux_cons. destruct (is_ws c).
    + destruct cur; rewrite IH; reflexivity.
    + apply IH.
Qed.

Lemma words_aux_app_ends_ws a b cur :
  ends_ws a = true -> words_aux cur (a ++ b) = words_aux cur a ++ words b.
Proof.
  revert cur. induction a as [|c a IH]; intros cur H.
  - discriminate H.
  - destruct (ends_ws_cons_cases c a H) as [[Ha Hc] | Ha].
    + subst a. unfold words. cbn [app]. rewrite !words_aux_cons. rewrite Hc.
      destruct cur; reflexivity.
    + cbn [app]. rewrite !words_aux_cons. destruct (is_ws c).
      * destruct cur; rewrite IH by exact Ha; reflexivity.
      * apply IH. exact Ha.
Qed.

(* ---------- helpers: a pending word attaches to the front ---------- *)

Definition attach (p : bytes) (fl : bool) (W : list bytes) : list bytes :=
  if fl then p :: W else match W with w :: t => (p ++ w) :: t | [] => [p] end.

Lemma words_aux_attach l :
  forall cur, cur <> [] -> words_aux cur l = attach (rev cur) (lflag l) (words l).
Proof.
  induction l as [|c l IH]; intros cur Hcur.
  - destruct cur as [|z cur]; [contradiction Hcur; reflexivity | reflexivity].
  - change (words (c :: l)) with (words_aux [] (c :: l)).
    rewrite !words_aux_cons. cbn [lflag]. destruct (is_ws c) eqn:E.
    + destruct cur as [|z cur]; [contradiction Hcur; reflexivity | reflexivity].
    + rewrite (IH (c :: cur)) by discriminate. rewrite (IH [c]) by discriminate.
      cbn [rev app]. unfold attach. destruct (lflag l); [reflexivity|].
      destruct (words l) as [|w t]; [reflexivity|].
      rewrite <- app_assoc. reflexivity.
Qed.

Lemma words_aux_congr b b' :
  words b = words b' -> lflag b = lflag b' -> forall cur, words_aux cur b = words_aux cur b'.
Proof.
  intros Hw Hf cur. destruct cur as [|z cur]; [exact Hw|].
  rewrite !words_aux_attach by discriminate. rewrite Hw, Hf. reflexivity.
Qed.

Lemma words_aux_app_congr_r a b b' :
  (forall cur, words_aux cur b = words_aux cur b') ->
  forall cur, words_aux cur (a ++ b) = words_aux cur (a ++ b').
Proof.
  intros H. induction a as [|c a IH]; intros cur.
  - apply H.
  - cbn [app]. rewrite !words_aux_cons. destruct (is_ws c).
    + destruct cur; rewrite IH; reflexivity.
    + apply IH.
Qed.

(* ---------- helpers: the last word of [a] glues to what follows ---------- *)

Lemma words_aux_ne a : forall cur, rflag a = false -> words_aux cur a <> [].
Proof.
  induction a as [|c a IH]; intros cur H.
  - discriminate H.
  - destruct (rflag_cons_cases c a H) as [[Ha Hc] | Ha].
    + subst a. rewrite words_aux_cons, Hc. cbn [words_aux]. discriminate.
    + rewrite words_aux_cons. destruct (is_ws c).
      * destruct cur as [|z cur]; [apply IH; exact Ha | discriminate].
      * apply IH. exact Ha.
Qed.

Lemma words_aux_app_glue a b :
  forall cur, rflag a = false ->
    words_aux cur (a ++ b) =
    removelast (words_aux cur a) ++ words_aux (rev (last (words_aux cur a) [])) b.
Proof.
  induction a as [|c a IH]; intros cur H.
  - discriminate H.
  - destruct (rflag_cons_cases c a H) as [[Ha Hc] | Ha].
    + subst a. cbn [app]. rewrite !words_aux_cons. rewrite Hc.
      cbn [words_aux removelast last app]. rewrite rev_involutive. reflexivity.
    + cbn [app]. rewrite !words_aux_cons. destruct (is_ws c).
      * destruct cur as [|z cur]; [apply IH; exact Ha|].
        rewrite IH by exact Ha.
        pose proof (words_aux_ne a [] Ha) as HW.
        destruct (words_aux [] a) as [|w t]; [contradiction HW; reflexivity|].
        reflexivity.
      * apply IH. exact Ha.
Qed.

(* ================= the fixed statements ================= *)

Lemma words_nil : words [] = [].
Proof. reflexivity. Qed.

Lemma words_cons_ws c l : is_ws c = true -> words (c :: l) = words l.
Proof. intros H. unfold words. rewrite words_aux_cons, H. reflexivity. Qed.

Lemma words_all_ws l : all_ws l = true -> words l = [].
Proof.
  induction l as [|c l IH]; intros H; [reflexivity|].
  unfold all_ws in H. cbn [forallb] in H. apply andb_true_iff in H as [H1 H2].
  rewrite words_cons_ws by exact H1. apply IH. exact H2.
Qed.

(* at a word boundary words distribute over concatenation *)
Lemma words_app_ends_ws a b : ends_ws a = true -> words (a ++ b) = words a ++ words b.
Proof. intros H. apply words_aux_app_ends_ws. exact H. Qed.

Lemma words_app_starts_ws a b : starts_ws b = true -> words (a ++ b) = words a ++ words b.
Proof. intros H. apply words_aux_app_starts_ws. exact H. Qed.

Lemma words_app_rflag a b : rflag a = true -> words (a ++ b) = words a ++ words b.
Proof.
  intros H. destruct (rflag_true a H) as [Ha | Ha].
  - subst a. reflexivity.
  - apply words_app_ends_ws. exact Ha.
Qed.

Lemma words_app_lflag a b : lflag b = true -> words (a ++ b) = words a ++ words b.
Proof.
  intros H. destruct (lflag_true b H) as [Hb | Hb].
  - subst b. rewrite words_nil, !app_nil_r. reflexivity.
  - apply words_app_starts_ws. exact Hb.
Qed.

Lemma words_snoc_ws l c : is_ws c = true -> words (l ++ [c]) = words l.
Proof.
  intros H. rewrite words_app_starts_ws by exact H.
  rewrite (words_cons_ws c [] H), words_nil. apply app_nil_r.
Qed.

(* dropping one leading / trailing white-space byte does not change the words *)
Lemma words_tl_ws l : starts_ws l = true -> words (tl l) = words l.
Proof.
  intros H. destruct l as [|c l]; [discriminate H|].
  cbn [tl]. symmetry. apply words_cons_ws. exact H.
Qed.

Lemma words_removelast_ws l : ends_ws l = true -> words (removelast l) = words l.
Proof.
  unfold ends_ws. intros H. destruct (rev l) as [|c r] eqn:E; [discriminate H|].
  cbn [starts_ws] in H.
  assert (Hl : l = rev r ++ [c]).
  { rewrite <- (rev_involutive l), E. reflexivity. }
  rewrite Hl. rewrite removelast_last. symmetry. apply words_snoc_ws. exact H.
Qed.

(* the words of a ++ b depend on a only through (words a, rflag a), on b only through (words b, lflag b) *)
Lemma words_app_congr_l a a' b : words a = words a' -> rflag a = rflag a' -> words (a ++ b) = words (a' ++ b).
Proof.
  intros Hw Hf. destruct (rflag a) eqn:Ea.
  - rewrite (words_app_rflag a b Ea). rewrite (words_app_rflag a' b (eq_sym Hf)).
    rewrite Hw. reflexivity.
  - unfold words in *.
    rewrite (words_aux_app_glue a b [] Ea). rewrite (words_aux_app_glue a' b [] (eq_sym Hf)).
    rewrite Hw. reflexivity.
Qed.

Lemma words_app_congr_r a b b' : words b = words b' -> lflag b = lflag b' -> words (a ++ b) = words (a ++ b').
Proof.
  intros Hw Hf. unfold words. apply words_aux_app_congr_r.
  apply words_aux_congr; assumption.
Qed.

(* ---------- helpers for collapse ---------- *)

Lemma is_ws_sel (b : bool) : is_ws (if b then 10 else 32) = true.
Proof. destruct b; reflexivity. Qed.

Lemma collapse_cons c l : collapse (c :: l) = collapse_step c (collapse l).
Proof. reflexivity. Qed.

Lemma collapse_step_ne c acc : collapse_step c acc <> [].
Proof.
  unfold collapse_step. destruct (is_ws c); [|discriminate].
  destruct acc as [|x t]; [discriminate|]. destruct (is_ws x); discriminate.
Qed.

Lemma collapse_lflag l : lflag (collapse l) = lflag l.
Proof.
  destruct l as [|c l]; [reflexivity|].
  rewrite collapse_cons. unfold collapse_step. cbn [lflag]. destruct (is_ws c) eqn:E.
  - destruct (collapse l) as [|x t].
    + cbn [lflag]. apply is_ws_sel.
    + destruct (is_ws x); cbn [lflag]; apply is_ws_sel.
  - cbn [lflag]. exact E.
Qed.

(* collapsing white-space runs keeps the words and the boundary flags *)
Lemma words_collapse l : words (collapse l) = words l.
Proof.
  induction l as [|c l IH]; [reflexivity|].
  rewrite collapse_cons. unfold collapse_step. destruct (is_ws c) eqn:E.
  - rewrite (words_cons_ws c l E). rewrite <- IH.
    destruct (collapse l) as [|x t].
    + apply words_cons_ws. apply is_ws_sel.
    + destruct (is_ws x) eqn:Ex.
      * etransitivity; [apply words_cons_ws; apply is_ws_sel|].
        symmetry. apply words_cons_ws. exact Ex.
      * apply words_cons_ws. apply is_ws_sel.
  - change (words ([c] ++ collapse l) = words ([c] ++ l)).
    apply words_app_congr_r; [exact IH | apply collapse_lflag].
Qed.

Lemma collapse_starts_ws l : starts_ws (collapse l) = starts_ws l.
Proof.
  destruct l as [|c l]; [reflexivity|].
  rewrite collapse_cons. unfold collapse_step. cbn [starts_ws]. destruct (is_ws c) eqn:E.
  - destruct (collapse l) as [|x t].
    + cbn [starts_ws]. apply is_ws_sel.
    + destruct (is_ws x); cbn [starts_ws]; apply is_ws_sel.
  - cbn [starts_ws]. exact E.
Qed.

Lemma collapse_ends_ws l : ends_ws (collapse l) = ends_ws l.
Proof.
  induction l as [|c l IH]; [reflexivity|].
  rewrite collapse_cons. destruct l as [|d l].
  - cbn [collapse fold_right]. unfold collapse_step, ends_ws. cbn [rev app starts_ws].
    destruct (is_ws c) eqn:E.
    + cbn [rev app starts_ws]. apply is_ws_sel.
    + cbn [rev app starts_ws]. exact E.
  - rewrite ends_ws_cons2. rewrite <- IH.
    destruct (collapse (d :: l)) as [|x t] eqn:Eacc.
    + exfalso. rewrite collapse_cons in Eacc. exact (collapse_step_ne _ _ Eacc).
    + unfold collapse_step. destruct (is_ws c).
      * destruct (is_ws x) eqn:Ex.
        -- destruct t as [|z t].
           ++ unfold ends_ws. cbn [rev app starts_ws]. rewrite Ex. apply is_ws_sel.
           ++ rewrite !ends_ws_cons2. reflexivity.
        -- apply ends_ws_cons2.
      * apply ends_ws_cons2.
Qed.

Lemma collapse_nil_iff l : collapse l = [] <-> l = [].
Proof.
  split; intros H.
  - destruct l as [|c l]; [reflexivity|].
    rewrite collapse_cons in H. exfalso. exact (collapse_step_ne _ _ H).
  - subst l. reflexivity.
Qed.

(* no two adjacent white-space bytes remain *)
Fixpoint no_double_ws (l : bytes) : bool :=
  match l with
  | x :: ((y :: _) as r) => negb (is_ws x && is_ws y) && no_double_ws r
  | _ => true
  end.
Lemma no_double_ws_cons2 x y r :
  no_double_ws (x :: y :: r) = negb (is_ws x && is_ws y) && no_double_ws (y :: r).
Proof. reflexivity. Qed.

Lemma collapse_no_double_ws l : no_double_ws (collapse l) = true.
Proof.
  induction l as [|c l IH]; [reflexivity|].
  rewrite collapse_cons. destruct (collapse l) as [|x t].
  - unfold collapse_step. destruct (is_ws c); reflexivity.
  - unfold collapse_step. destruct (is_ws c) eqn:E.
    + destruct (is_ws x) eqn:Ex.
      * destruct t as [|z t]; [reflexivity|].
        rewrite no_double_ws_cons2 in *. rewrite Ex in IH. rewrite is_ws_sel. exact IH.
      * rewrite no_double_ws_cons2. rewrite is_ws_sel, Ex. cbn [andb negb]. exact IH.
    + rewrite no_double_ws_cons2. rewrite E. cbn [andb negb]. exact IH.
Qed.
