(* Buf/BufModel.v — F1 model of the look-ahead TokenBuffer of /repo/html/buffer.go (identical logic in
   xml/buffer.go and svg/buffer.go): buf with explicit length and capacity, pos, Peek and Shift.
   Tokens are integers (0 = ErrorToken); the lexer is a list of tokens followed by ErrorToken forever.
   None = a Go run-time panic (slice bounds out of range / index out of range). *)
From MV Require Import Base.MvBytes.

Record tbuf := { buf : list Z; cap : nat; pos : nat; lexer : list Z }.

Definition tb_init (l : list Z) : tbuf := {| buf := []; cap := 8; pos := 0; lexer := l |}.

Definition lex_next (l : list Z) : Z * list Z := match l with [] => (0, []) | t :: r => (t, r) end.

(* the loop `for i := d; i < p; i++ { read; if Error { truncate; break } }` : reads at most n tokens *)
Fixpoint read_n (n : nat) (l : list Z) : list Z * list Z * bool :=
  match n with
  | O => ([], l, false)
  | S k => let (t, l') := lex_next l in
           if t =? 0 then ([t], l', true)
           else let '(ts, l'', e) := read_n k l' in (t :: ts, l'', e)
  end.

Definition last_is_error (b : list Z) : bool := match rev b with t :: _ => t =? 0 | [] => false end.

Definition peek (z : tbuf) (i : nat) : option (Z * tbuf) :=
  let p0 := (i + pos z)%nat in
  if Nat.ltb p0 (length (buf z)) then
    Some (nth p0 (buf z) 0, z)
  else if last_is_error (buf z) then
    Some (0, z)                                              (* &z.buf[len(z.buf)-1], an ErrorToken *)
  else
    let c := cap z in
    if Nat.ltb (length (buf z)) (pos z) then None else       (* z.buf[z.pos:] *)
    let d := (length (buf z) - pos z)%nat in
    let p := (p0 - pos z + 1)%nat in
    let c' := if Nat.ltb c (2 * p) then (2 * c + p)%nat else c in
    if Nat.ltb c' d then None else                           (* buf[:d] *)
    if Nat.ltb c' p then None else                           (* buf[:p] *)
    let kept := skipn (pos z) (buf z) in
    let '(ts, l', e) := read_n (p - d) (lexer z) in
    let b' := kept ++ ts in
    let idx := if e then (length b' - 1)%nat else (p0 - pos z)%nat in
    if Nat.ltb idx (length b') then
      Some (nth idx b' 0, {| buf := b'; cap := c'; pos := 0; lexer := l' |})
    else None.

Definition shift (z : tbuf) : option (Z * tbuf) :=
  if Nat.leb (length (buf z)) (pos z) then
    if Nat.ltb (cap z) 1 then None else                      (* z.buf[:1] *)
    let (t, l') := lex_next (lexer z) in
    Some (t, {| buf := buf z; cap := cap z; pos := pos z; lexer := l' |})
  else
    Some (nth (pos z) (buf z) 0, {| buf := buf z; cap := cap z; pos := S (pos z); lexer := lexer z |}).

(* ---------- specification: the buffer is a window on one token stream ---------- *)
(* tokens not yet shifted *)
Definition view (z : tbuf) : list Z := skipn (pos z) (buf z) ++ lexer z.

(* i-th token of a stream in which an ErrorToken repeats forever (and the lexer's end is an ErrorToken) *)
Fixpoint stream_nth (i : nat) (l : list Z) : Z :=
  match l with
  | [] => 0
  | t :: r => if t =? 0 then 0 else match i with O => t | S k => stream_nth k r end
  end.
