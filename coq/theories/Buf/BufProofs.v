(* Buf/BufProofs.v — the look-ahead buffer never indexes outside its slices, for every operation sequence. *)
From MV Require Import Base.MvBytes Buf.BufModel.

Definition wf (z : tbuf) : Prop := (pos z <= length (buf z) <= cap z)%nat /\ (1 <= cap z)%nat.

Lemma read_n_len n l ts l' e : read_n n l = (ts, l', e) ->
  (length ts <= n)%nat /\ (e = false -> length ts = n) /\ (e = true -> ts <> []).
Proof.
  revert l ts l' e. induction n as [|n IH]; intros l ts l' e H; cbn [read_n] in H.
  - inversion H; subst. simpl. repeat split; auto; discriminate.
  - destruct (lex_next l) as [t l1]. destruct (t =? 0).
    + inversion H; subst. simpl. repeat split; auto; try lia; discriminate.
    + destruct (read_n n l1) as [[ts1 l2] e1] eqn:E. inversion H; subst.
      destruct (IH _ _ _ _ E) as (A & B & C). simpl. repeat split; try lia.
      * intros He. rewrite B by exact He. reflexivity.
      * intros _. discriminate.
Qed.

Lemma wf_init l : wf (tb_init l).
Proof. unfold wf, tb_init; simpl. lia. Qed.

Theorem peek_total z i : wf z -> exists t z', peek z i = Some (t, z') /\ wf z'.
Proof.
  intros ((Hp & Hl) & Hc). unfold peek.
  destruct (Nat.ltb (i + pos z) (length (buf z))) eqn:E1; [eexists; eexists; split; [reflexivity|unfold wf; auto]|].
  destruct (last_is_error (buf z)); [eexists; eexists; split; [reflexivity|unfold wf; auto]|].
  apply Nat.ltb_ge in E1.
  assert (E2 : Nat.ltb (length (buf z)) (pos z) = false) by (apply Nat.ltb_ge; lia). rewrite E2.
  set (d := (length (buf z) - pos z)%nat). set (p := (i + pos z - pos z + 1)%nat).
  set (c' := if Nat.ltb (cap z) (2 * p) then (2 * cap z + p)%nat else cap z).
  assert (Hc1 : (cap z <= c')%nat) by (unfold c'; destruct (Nat.ltb (cap z) (2 * p)); lia).
  assert (Hc2 : (p <= c')%nat).
  { unfold c'. destruct (Nat.ltb (cap z) (2 * p)) eqn:E; [lia|]. apply Nat.ltb_ge in E. lia. }
  assert (E3 : Nat.ltb c' d = false) by (apply Nat.ltb_ge; unfold d; lia). rewrite E3.
  assert (E4 : Nat.ltb c' p = false) by (apply Nat.ltb_ge; lia). rewrite E4.
  destruct (read_n (p - d) (lexer z)) as [[ts l'] e] eqn:Er.
  destruct (read_n_len _ _ _ _ _ Er) as (A & B & C).
  assert (Hk : length (skipn (pos z) (buf z)) = d) by (rewrite skipn_length; reflexivity).
  assert (Hpd : (d < p)%nat) by (unfold d, p; lia).
  assert (Hlen : (length (skipn (pos z) (buf z) ++ ts) <= p)%nat) by (rewrite app_length, Hk; lia).
  set (b' := skipn (pos z) (buf z) ++ ts) in *.
  assert (E5 : Nat.ltb (if e then (length b' - 1)%nat else (i + pos z - pos z)%nat) (length b') = true).
  { apply Nat.ltb_lt. destruct e.
    - assert (ts <> []) by auto. unfold b'. rewrite app_length. destruct ts; [congruence|]. simpl. lia.
    - unfold b'. rewrite app_length, Hk, B by reflexivity. unfold p in *. lia. }
  rewrite E5. eexists; eexists; split; [reflexivity|]. unfold wf; simpl. lia.
Qed.

Theorem shift_total z : wf z -> exists t z', shift z = Some (t, z') /\ wf z'.
Proof.
  intros ((Hp & Hl) & Hc). unfold shift.
  destruct (Nat.leb (length (buf z)) (pos z)) eqn:E.
  - assert (E1 : Nat.ltb (cap z) 1 = false) by (apply Nat.ltb_ge; lia). rewrite E1.
    destruct (lex_next (lexer z)) as [t l']. eexists; eexists; split; [reflexivity|]. unfold wf; simpl. lia.
  - apply Nat.leb_gt in E. eexists; eexists; split; [reflexivity|]. unfold wf; simpl. lia.
Qed.

(* any sequence of Peek/Shift operations from the initial buffer runs without a panic *)
Inductive bop := BPeek (i : nat) | BShift.
Definition bstep (z : tbuf) (o : bop) : option (Z * tbuf) :=
  match o with BPeek i => peek z i | BShift => shift z end.
Fixpoint brun (z : tbuf) (ops : list bop) : option (list Z * tbuf) :=
  match ops with
  | [] => Some ([], z)
  | o :: r => match bstep z o with
              | Some (t, z') => match brun z' r with Some (ts, z'') => Some (t :: ts, z'') | None => None end
              | None => None
              end
  end.

Theorem buffer_never_panics l ops : exists ts z, brun (tb_init l) ops = Some (ts, z) /\ length ts = length ops.
Proof.
  assert (H : forall z, wf z -> exists ts z', brun z ops = Some (ts, z') /\ length ts = length ops).
  { induction ops as [|o ops IH]; intros z Hz; [exists [], z; auto|].
    cbn [brun]. destruct o as [i|]; cbn [bstep].
    - destruct (peek_total z i Hz) as (t & z' & -> & Hz'). destruct (IH z' Hz') as (ts & z'' & -> & Hl).
      exists (t :: ts), z''. simpl. auto.
    - destruct (shift_total z Hz) as (t & z' & -> & Hz'). destruct (IH z' Hz') as (ts & z'' & -> & Hl).
      exists (t :: ts), z''. simpl. auto. }
  apply H. apply wf_init.
Qed.
