(* Cli/CliFinal.v — the file system after a COMPLETE task (property C19): the destination holds the bytes handed to the
   write calls (the library's output, or the original bytes when the library failed — that choice is made before the
   writes, see CliSpec below), no backup is left behind, every other path is unchanged. *)
From MV Require Import Base.MvBytes Cli.CliModel Cli.CliProofs.

Lemma run_all_inplace p orig outs f :
  f p = Some orig ->
  let f' := run (ops_of (InPlace p outs)) f in
  f' p = Some (concat outs) /\ f' (bak p) = None.
Proof.
  intros Hp f'. subst f'. cbn [ops_of]. rewrite app_assoc, run_app.
  destruct (inplace_body p orig outs f Hp) as (Hb & Hpp).
  cbn [run fold_left apply_op]. split.
  - rewrite upd_other by apply bak_neq. exact Hpp.
  - apply upd_same.
Qed.

Lemma run_all_inplace_write_fails p orig outs f :
  f p = Some orig ->
  let f' := run (ops_of (InPlaceWriteFails p outs)) f in
  f' p = Some orig /\ f' (bak p) = None.
Proof.
  intros Hp f'. subst f'. cbn [ops_of]. rewrite app_assoc, run_app.
  destruct (inplace_body p orig outs f Hp) as (Hb & Hpp).
  assert (Hn := bak_neq p). assert (Hn' : p <> bak p) by congruence.
  cbn [run fold_left apply_op]. rewrite (upd_other _ p None (bak p)) by exact Hn'. rewrite Hb. split.
  - rewrite upd_other by exact Hn. apply upd_same.
  - apply upd_same.
Qed.

Lemma run_all_separate srcs dst outs f :
  run (ops_of (Separate srcs dst outs)) f dst = Some (concat outs).
Proof.
  cbn [ops_of]. change ([OpenTrunc dst] ++ map (WriteApp dst) outs) with ([OpenTrunc dst] ++ map (WriteApp dst) outs).
  rewrite run_app. set (f1 := run [OpenTrunc dst] f).
  assert (H1 : f1 dst = Some []) by (unfold f1; cbn [run fold_left apply_op]; apply upd_same).
  destruct (run_writes dst outs f1 [] H1) as (Ha & _). rewrite Ha. reflexivity.
Qed.

(* ---------- the documented outcome of one task ---------- *)
(* what the library did with the (concatenated) input *)
Inductive lib_result := LibOk (out : bytes) | LibErr.

(* bytes handed to the destination: "If minifying a file fails the destination receives the original bytes" *)
Definition payload (input : bytes) (r : lib_result) : bytes :=
  match r with LibOk out => out | LibErr => input end.
(* "... and the exit status is non-zero" *)
Definition task_ok (r : lib_result) : bool := match r with LibOk _ => true | LibErr => false end.

(* a task minifying [p] onto itself, for ANY split of the payload into write calls *)
Theorem inplace_task_spec p orig r outs f :
  f p = Some orig -> concat outs = payload orig r ->
  let f' := run (ops_of (InPlace p outs)) f in
  f' p = Some (payload orig r) /\ f' (bak p) = None /\ (forall q, q <> p -> q <> bak p -> f' q = f q).
Proof.
  intros Hp Hc f'. destruct (run_all_inplace p orig outs f Hp) as (Ha & Hb). subst f'. rewrite <- Hc.
  repeat split; auto. intros q H1 H2.
  rewrite <- (firstn_all (ops_of (InPlace p outs))). apply inplace_others_untouched; assumption.
Qed.

Theorem separate_task_spec srcs dst input r outs f :
  concat outs = payload input r ->
  let f' := run (ops_of (Separate srcs dst outs)) f in
  f' dst = Some (payload input r) /\ (forall q, q <> dst -> f' q = f q).
Proof.
  intros Hc f'. subst f'. split.
  - rewrite run_all_separate, Hc. reflexivity.
  - intros q Hq. rewrite <- (firstn_all (ops_of (Separate srcs dst outs))). apply separate_sources_untouched. exact Hq.
Qed.

Theorem bundle_onto_task_spec srcs dst orig input r outs f :
  f dst = Some orig -> concat outs = payload input r ->
  let f' := run (ops_of (BundleOnto srcs dst outs)) f in
  f' dst = Some (payload input r) /\ f' (bak dst) = None /\ (forall q, q <> dst -> q <> bak dst -> f' q = f q).
Proof.
  intros Hp Hc f'. destruct (run_all_inplace dst orig outs f Hp) as (Ha & Hb). subst f'.
  change (ops_of (BundleOnto srcs dst outs)) with (ops_of (InPlace dst outs)). rewrite <- Hc.
  repeat split; auto. intros q H1 H2.
  rewrite <- (firstn_all (ops_of (InPlace dst outs))). apply inplace_others_untouched; assumption.
Qed.

(* a failed write restores the original and leaves no backup *)
Theorem write_failure_restores p orig outs f :
  f p = Some orig ->
  let f' := run (ops_of (InPlaceWriteFails p outs)) f in f' p = Some orig /\ f' (bak p) = None.
Proof. exact (run_all_inplace_write_fails p orig outs f). Qed.
