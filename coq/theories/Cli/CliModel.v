(* Cli/CliModel.v — model of the file handling of cmd/minify (function minify(t Task) of /repo/cmd/minify/main.go
   with openInputFile / openOutputFile of io.go) at the granularity of file-system mutating system calls.
   A task shape is compiled to the list of mutating operations the code performs; the harness compares that list
   with the strace skeleton of the real command (clifs -mode trace). *)
From MV Require Import Base.MvBytes.

Definition path := bytes.
Definition bak (p : path) : path := p ++ [46; 98; 97; 107].     (* p.bak *)

Inductive op :=
| Rename (a b : path)              (* rename(a, b): b gets a's content, a disappears *)
| OpenTrunc (p : path)             (* open(p, O_WRONLY|O_CREAT|O_TRUNC): p exists and is empty *)
| WriteApp (p : path) (bs : bytes) (* write on the descriptor opened on p: appends *)
| Unlink (p : path).

(* what one task does, by shape. [outs] = the payloads of the write calls (any split of the output). *)
Inductive shape :=
| InPlace (p : path) (outs : list bytes)                       (* minify p onto itself, success or library failure (then outs = original) *)
| InPlaceWriteFails (p : path) (outs : list bytes)             (* the write to p fails after outs: destination removed, backup restored *)
| Separate (srcs : list path) (dst : path) (outs : list bytes) (* dst is none of the sources *)
| BundleOnto (srcs : list path) (dst : path) (outs : list bytes). (* dst is one of the sources: that source is backed up first *)

Definition ops_of (s : shape) : list op :=
  match s with
  | InPlace p outs => [Rename p (bak p); OpenTrunc p] ++ map (WriteApp p) outs ++ [Unlink (bak p)]
  | InPlaceWriteFails p outs => [Rename p (bak p); OpenTrunc p] ++ map (WriteApp p) outs ++ [Unlink p; Rename (bak p) p]
  | Separate _ dst outs => [OpenTrunc dst] ++ map (WriteApp dst) outs
  | BundleOnto _ dst outs => [Rename dst (bak dst); OpenTrunc dst] ++ map (WriteApp dst) outs ++ [Unlink (bak dst)]
  end.

(* ---------- file system semantics (for the proofs; not extracted) ---------- *)
Definition fs := path -> option bytes.
Definition upd (f : fs) (p : path) (v : option bytes) : fs := fun q => if beqb p q then v else f q.

Definition apply_op (f : fs) (o : op) : fs :=
  match o with
  | Rename a b => match f a with Some c => upd (upd f b (Some c)) a None | None => f end
  | OpenTrunc p => upd f p (Some [])
  | WriteApp p bs => match f p with Some c => upd f p (Some (c ++ bs)) | None => f end
  | Unlink p => upd f p None
  end.

Definition run (ops : list op) (f : fs) : fs := fold_left apply_op ops f.
