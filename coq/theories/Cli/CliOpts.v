(* Cli/CliOpts.v — model of how cmd/minify's run() configures the option structs: the ordered configuration events are
   regenerated from the source (coq/gen/CliOpts_gen.v); executing them SYMBOLICALLY (a field holds the name of the flag that
   controls it) decides, for every registered media type and every flag of its minifier family, whether the value given
   on the command line reaches the minifier that serves that type.  A value copy of an option struct taken before
   f.Parse() freezes the defaults: the check then fails for that type. *)
From Coq Require Import List String Bool.
Import ListNotations.
From MVGen Require Import CliOpts_gen.
Local Open Scope string_scope.

Inductive fval := VDefault | VFlag (name : string) | VExplicit.
Definition fval_eqb (a b : fval) : bool :=
  match a, b with
  | VDefault, VDefault | VExplicit, VExplicit => true
  | VFlag x, VFlag y => String.eqb x y
  | _, _ => false
  end.
Definition fields := list (string * fval).
Record cstate := { env : list (string * fields); flags : list (string * string * string); registry : list (string * string);
                   copies : list (string * string) }.
Definition cinit : cstate := {| env := []; flags := []; registry := []; copies := [] |}.

Fixpoint get_fields (e : list (string * fields)) (v : string) : fields :=
  match e with [] => [] | (k, f) :: r => if String.eqb k v then f else get_fields r v end.
Fixpoint set_var (e : list (string * fields)) (v : string) (f : fields) : list (string * fields) :=
  match e with
  | [] => [(v, f)]
  | (k, f0) :: r => if String.eqb k v then (k, f) :: r else (k, f0) :: set_var r v f
  end.
Fixpoint get_field (f : fields) (n : string) : fval :=
  match f with [] => VDefault | (k, x) :: r => if String.eqb k n then x else get_field r n end.
Fixpoint set_field (f : fields) (n : string) (x : fval) : fields :=
  match f with
  | [] => [(n, x)]
  | (k, y) :: r => if String.eqb k n then (k, x) :: r else (k, y) :: set_field r n x
  end.

Definition apply_flags (e : list (string * fields)) (fl : list (string * string * string)) : list (string * fields) :=
  fold_left (fun e '(name, v, field) => set_var e v (set_field (get_fields e v) field (VFlag name))) fl e.

Definition cstep (s : cstate) (ev : cli_event) : cstate :=
  match ev with
  | CDecl v _ => {| env := set_var (env s) v []; flags := flags s; registry := registry s; copies := copies s |}
  | CFlag name v field => {| env := env s; flags := flags s ++ [(name, v, field)]; registry := registry s; copies := copies s |}
  | CParse => {| env := apply_flags (env s) (flags s); flags := flags s; registry := registry s; copies := copies s |}
  | CCopy dst src => {| env := set_var (env s) dst (get_fields (env s) src); flags := flags s; registry := registry s;
                        copies := copies s ++ [(dst, src)] |}
  | CSet v field => {| env := set_var (env s) v (set_field (get_fields (env s) v) field VExplicit); flags := flags s;
                       registry := registry s; copies := copies s |}
  | CReg p v => {| env := env s; flags := flags s; registry := registry s ++ [(p, v)]; copies := copies s |}
  end.
Definition crun (evs : list cli_event) : cstate := fold_left cstep evs cinit.

(* the struct a copy descends from (copy chains are short; fuel = number of copies) *)
Fixpoint root_of (fuel : nat) (cp : list (string * string)) (v : string) : string :=
  match fuel with
  | O => v
  | S k => match find (fun c => String.eqb (fst c) v) cp with Some (_, src) => root_of k cp src | None => v end
  end.

(* registrations are by pointer: the minifier serving a pattern reads its struct as it is when run() starts minifying *)
Definition effective (s : cstate) (v field : string) : fval := get_field (get_fields (env s) v) field.

Definition flag_reaches (s : cstate) (reg : string * string) (fl : string * string * string) : bool :=
  let '(name, v0, field) := fl in
  if String.eqb (root_of (List.length (copies s)) (copies s) (snd reg)) v0
  then fval_eqb (effective s (snd reg) field) (VFlag name) else true.
Definition cli_flags_reach (evs : list cli_event) : bool :=
  let s := crun evs in forallb (fun reg => forallb (flag_reaches s reg) (flags s)) (registry s).

(* the documented flag -> option mapping (README.md, section Command line tool / usage text), pinned *)
Definition ref_cli_flags : list (string * string * string) :=
  [("css-precision", "css", "Precision");
   ("html-keep-comments", "html", "KeepComments"); ("html-keep-conditional-comments", "html", "KeepConditionalComments");
   ("html-keep-special-comments", "html", "KeepSpecialComments"); ("html-keep-default-attrvals", "html", "KeepDefaultAttrVals");
   ("html-keep-document-tags", "html", "KeepDocumentTags"); ("html-keep-end-tags", "html", "KeepEndTags");
   ("html-keep-whitespace", "html", "KeepWhitespace"); ("html-keep-quotes", "html", "KeepQuotes");
   ("js-precision", "js", "Precision"); ("js-keep-var-names", "js", "KeepVarNames"); ("js-version", "js", "Version");
   ("json-precision", "json", "Precision"); ("json-keep-numbers", "json", "KeepNumbers");
   ("svg-keep-comments", "svg", "KeepComments"); ("svg-precision", "svg", "Precision");
   ("xml-keep-whitespace", "xml", "KeepWhitespace")].
Fixpoint pkg_of (evs : list cli_event) (v : string) : string :=
  match evs with
  | [] => ""
  | CDecl v' p :: r => if String.eqb v' v then p else pkg_of r v
  | _ :: r => pkg_of r v
  end.
Definition flag3_eqb (a b : string * string * string) : bool :=
  let '(a1, a2, a3) := a in let '(b1, b2, b3) := b in String.eqb a1 b1 && String.eqb a2 b2 && String.eqb a3 b3.
Definition cli_flag_table_ok (evs : list cli_event) : bool :=
  let got := map (fun '(n, v, f) => (n, pkg_of evs v, f)) (flags (crun evs)) in
  forallb (fun r => existsb (flag3_eqb r) got) ref_cli_flags && forallb (fun g => existsb (flag3_eqb g) ref_cli_flags) got.

(* non-vacuity / sensitivity: the same events with the copies moved before the parse are rejected *)
Example copy_before_parse_rejected :
  cli_flags_reach [CDecl "h" "html"; CFlag "html-keep-end-tags" "h" "KeepEndTags"; CCopy "php" "h"; CParse; CReg "text/html" "h"; CReg "application/x-httpd-php" "php"] = false /\
  cli_flags_reach [CDecl "h" "html"; CFlag "html-keep-end-tags" "h" "KeepEndTags"; CParse; CCopy "php" "h"; CReg "text/html" "h"; CReg "application/x-httpd-php" "php"] = true.
Proof. vm_compute. split; reflexivity. Qed.
