(* Cli/CliProofs.v — killing the command between any two system calls never loses the only copy. *)
From MV Require Import Base.MvBytes Cli.CliModel.

Ltac nlia := unfold bytes, path in *; lia.

Lemma beqb_refl a : beqb a a = true.
Proof. apply beqb_eq. reflexivity. Qed.
Lemma beqb_neq a b : a <> b -> beqb a b = false.
Proof. intros H. destruct (beqb a b) eqn:E; [apply beqb_eq in E; congruence|reflexivity]. Qed.

Lemma bak_neq p : bak p <> p.
Proof.
  unfold bak. intros H. apply (f_equal (@length byte)) in H. rewrite app_length in H. simpl in H. lia.
Qed.

Lemma upd_same f p v : upd f p v p = v.
Proof. unfold upd. rewrite beqb_refl. reflexivity. Qed.
Lemma upd_other f p v q : p <> q -> upd f p v q = f q.
Proof. intros H. unfold upd. rewrite beqb_neq by exact H. reflexivity. Qed.

(* an operation on other paths leaves q alone *)
Definition touches (o : op) (q : path) : Prop :=
  match o with
  | Rename a b => a = q \/ b = q
  | OpenTrunc p | WriteApp p _ | Unlink p => p = q
  end.

Lemma apply_frame f o q : ~ touches o q -> apply_op f o q = f q.
Proof.
  destruct o as [a b|p|p bs|p]; simpl; intros H.
  - destruct (f a); [|reflexivity]. rewrite upd_other by tauto. rewrite upd_other by tauto. reflexivity.
  - apply upd_other. exact H.
  - destruct (f p); [|reflexivity]. apply upd_other. exact H.
  - apply upd_other. exact H.
Qed.

Lemma run_frame ops f q : (forall o, In o ops -> ~ touches o q) -> run ops f q = f q.
Proof.
  revert f. induction ops as [|o ops IH]; intros f H; [reflexivity|]. cbn [run fold_left].
  change (run ops (apply_op f o) q = f q). rewrite IH by (intros; apply H; right; assumption).
  apply apply_frame. apply H. left. reflexivity.
Qed.

Lemma run_app a b f : run (a ++ b) f = run b (run a f).
Proof. unfold run. apply fold_left_app. Qed.

(* appending the write calls one after the other *)
Lemma run_writes p outs : forall f c, f p = Some c ->
  run (map (WriteApp p) outs) f p = Some (c ++ concat outs) /\
  forall q, q <> p -> run (map (WriteApp p) outs) f q = f q.
Proof.
  induction outs as [|o outs IH]; intros f c Hc; cbn [map concat].
  - rewrite app_nil_r. auto.
  - cbn [run fold_left]. change (fold_left apply_op (map (WriteApp p) outs) (apply_op f (WriteApp p o)))
      with (run (map (WriteApp p) outs) (apply_op f (WriteApp p o))).
    assert (H1 : apply_op f (WriteApp p o) p = Some (c ++ o)) by (simpl; rewrite Hc; apply upd_same).
    destruct (IH _ _ H1) as (Ha & Hb). split.
    + rewrite Ha, <- app_assoc. reflexivity.
    + intros q Hq. rewrite Hb by exact Hq. simpl. rewrite Hc. apply upd_other. congruence.
Qed.

(* every prefix of a list of writes is a list of writes of a prefix *)
Lemma firstn_map {A B} (g : A -> B) n l : firstn n (map g l) = map g (firstn n l).
Proof. revert l; induction n; intros [|x l]; simpl; auto. rewrite IHn. reflexivity. Qed.

Lemma firstn_In {A} (x : A) n l : In x (firstn n l) -> In x l.
Proof. revert l; induction n as [|n IH]; intros [|y l]; simpl; auto; try tauto. intros [H|H]; auto. Qed.

(* the three places where the user's bytes can be *)
Definition safe (orig final : bytes) (p : path) (f : fs) : Prop :=
  f p = Some orig \/ f (bak p) = Some orig \/ f p = Some final.

(* states after k operations of the in-place sequence (before its tail) *)
Lemma inplace_prefix p orig outs tail f k :
  f p = Some orig -> (k <= 2 + length outs)%nat ->
  let f' := run (firstn k ([Rename p (bak p); OpenTrunc p] ++ map (WriteApp p) outs ++ tail)) f in
  (k = 0%nat /\ f' p = Some orig) \/
  (f' (bak p) = Some orig /\ ((2 <= k)%nat -> f' p = Some (concat (firstn (k - 2) outs)))).
Proof.
  intros Hp Hk f'. subst f'.
  assert (Hn := bak_neq p). assert (Hn' : p <> bak p) by congruence.
  destruct k as [|[|k]].
  - left. split; [reflexivity|exact Hp].
  - right. cbn [firstn app run fold_left apply_op]. rewrite Hp. split.
    + rewrite upd_other by exact Hn'. apply upd_same.
    + intros; lia.
  - right. cbn [firstn app]. rewrite firstn_app.
    rewrite firstn_map. rewrite map_length.
    replace (k - length outs)%nat with 0%nat by lia. cbn [firstn]. rewrite app_nil_r.
    change (Rename p (bak p) :: OpenTrunc p :: map (WriteApp p) (firstn k outs))
      with ([Rename p (bak p); OpenTrunc p] ++ map (WriteApp p) (firstn k outs)).
    rewrite run_app.
    set (f2 := run [Rename p (bak p); OpenTrunc p] f).
    assert (H2p : f2 p = Some []).
    { unfold f2. cbn [run fold_left apply_op]. rewrite Hp. apply upd_same. }
    assert (H2b : f2 (bak p) = Some orig).
    { unfold f2. cbn [run fold_left apply_op]. rewrite Hp. rewrite upd_other by exact Hn'.
      rewrite upd_other by exact Hn'. apply upd_same. }
    destruct (run_writes p (firstn k outs) f2 [] H2p) as (Ha & Hb). split.
    + rewrite Hb by exact Hn. exact H2b.
    + intros _. rewrite Ha. simpl. replace (k - 0)%nat with k by lia. reflexivity.
Qed.

Lemma ops_len p outs tail :
  length ([Rename p (bak p); OpenTrunc p] ++ map (WriteApp p) outs ++ tail) = (2 + length outs + length tail)%nat.
Proof. rewrite !app_length, map_length. simpl. lia. Qed.

(* the state after the whole body (rename, truncate, all writes) *)
Lemma inplace_body p orig outs f :
  f p = Some orig ->
  let f' := run ([Rename p (bak p); OpenTrunc p] ++ map (WriteApp p) outs) f in
  f' (bak p) = Some orig /\ f' p = Some (concat outs).
Proof.
  intros Hp f'. subst f'.
  pose proof (inplace_prefix p orig outs [] f (2 + length outs) Hp (Nat.le_refl _)) as H. cbn zeta in H.
  rewrite app_nil_r in H. rewrite firstn_all2 in H by (rewrite !app_length, map_length; simpl; lia).
  destruct H as [(H & _)|(Hb & Hpp)]; [lia|]. split; [exact Hb|].
  rewrite Hpp by lia. replace (2 + length outs - 2)%nat with (length outs) by lia. rewrite firstn_all. reflexivity.
Qed.

(* ---- C20 for a file minified onto itself: EVERY kill point (prefix of the operation list) ---- *)
Theorem crash_safe_inplace p orig outs f k :
  f p = Some orig -> safe orig (concat outs) p (run (firstn k (ops_of (InPlace p outs))) f).
Proof.
  intros Hp. unfold safe. cbn [ops_of].
  destruct (Nat.le_gt_cases k (2 + length outs)) as [Hk|Hk].
  - destruct (inplace_prefix p orig outs [Unlink (bak p)] f k Hp Hk) as [(_ & H)|(H & _)]; auto.
  - rewrite firstn_all2 by (rewrite ops_len; cbn [length]; nlia).
    right. right. rewrite app_assoc, run_app.
    destruct (inplace_body p orig outs f Hp) as (_ & Hpp).
    cbn [run fold_left apply_op]. rewrite upd_other by apply bak_neq. exact Hpp.
Qed.

(* ... and when the write to the destination fails: destination removed, backup renamed back *)
Theorem crash_safe_inplace_write_fails p orig outs f k :
  f p = Some orig -> safe orig (concat outs) p (run (firstn k (ops_of (InPlaceWriteFails p outs))) f).
Proof.
  intros Hp. unfold safe. cbn [ops_of].
  destruct (Nat.le_gt_cases k (2 + length outs)) as [Hk|Hk].
  - destruct (inplace_prefix p orig outs [Unlink p; Rename (bak p) p] f k Hp Hk) as [(_ & H)|(H & _)]; auto.
  - (* k = body + 1 (after unlink) or body + 2 (after rename back) *)
    rewrite app_assoc. rewrite firstn_app. rewrite firstn_all2 by (rewrite !app_length, map_length; simpl; nlia).
    rewrite run_app.
    destruct (inplace_body p orig outs f Hp) as (Hb & Hpp).
    set (f2 := run ([Rename p (bak p); OpenTrunc p] ++ map (WriteApp p) outs) f) in *.
    assert (Hn := bak_neq p). assert (Hn' : p <> bak p) by congruence.
    remember (k - length ([Rename p (bak p); OpenTrunc p] ++ map (WriteApp p) outs))%nat as j.
    destruct j as [|[|j]].
    + rewrite app_length, map_length in Heqj. simpl in Heqj. nlia.
    + right. left. cbn [firstn run fold_left apply_op]. rewrite upd_other by exact Hn'. exact Hb.
    + left. cbn [firstn]. replace (firstn j []) with (@nil op) by (destruct j; reflexivity).
      cbn [run fold_left apply_op]. rewrite (upd_other _ p None (bak p)) by exact Hn'. rewrite Hb.
      rewrite upd_other by exact Hn. apply upd_same.
Qed.

(* ---- files that are only read are never modified: separate output, at every kill point ---- *)
Theorem separate_sources_untouched srcs dst outs f k q :
  q <> dst -> run (firstn k (ops_of (Separate srcs dst outs))) f q = f q.
Proof.
  intros Hq. apply run_frame. intros o Ho. apply firstn_In in Ho. cbn [ops_of app] in Ho.
  destruct Ho as [<-|Ho]; [simpl; congruence|].
  apply in_map_iff in Ho as (bs & <- & _). simpl. congruence.
Qed.

(* in-place and bundle-onto-a-source touch only the destination and its backup *)
Theorem inplace_others_untouched p outs f k q :
  q <> p -> q <> bak p -> run (firstn k (ops_of (InPlace p outs))) f q = f q.
Proof.
  intros Hq Hb. apply run_frame. intros o Ho. apply firstn_In in Ho. cbn [ops_of app] in Ho.
  destruct Ho as [<-|[<-|Ho]]; [simpl; intros [?|?]; congruence | simpl; congruence |].
  apply in_app_iff in Ho as [Ho|[<-|[]]].
  - apply in_map_iff in Ho as (bs & <- & _). simpl. congruence.
  - simpl. congruence.
Qed.

(* bundling onto one of the sources is the in-place sequence on that source *)
Theorem crash_safe_bundle_onto srcs dst orig outs f k :
  f dst = Some orig -> safe orig (concat outs) dst (run (firstn k (ops_of (BundleOnto srcs dst outs))) f).
Proof. intros H. apply (crash_safe_inplace dst orig outs f k H). Qed.

Theorem bundle_other_sources_untouched srcs dst outs f k q :
  q <> dst -> q <> bak dst -> run (firstn k (ops_of (BundleOnto srcs dst outs))) f q = f q.
Proof. intros H1 H2. apply (inplace_others_untouched dst outs f k q H1 H2). Qed.

(* a write call split into any shorter writes is the same sequence of appends: crash safety above is stated for an
   arbitrary list of payloads [outs], so it covers every split of the output into write calls *)
Lemma split_irrelevant p outs outs' f c : concat outs = concat outs' -> f p = Some c ->
  run (map (WriteApp p) outs) f p = run (map (WriteApp p) outs') f p.
Proof.
  intros H Hc. destruct (run_writes p outs f c Hc) as (Ha & _). destruct (run_writes p outs' f c Hc) as (Hb & _).
  rewrite Ha, Hb, H. reflexivity.
Qed.
