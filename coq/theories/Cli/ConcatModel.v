(* Cli/ConcatModel.v — F1 model of concatFileReader (cmd/minify/io.go): the reader that feeds a bundle
   (several input files, separated by [sep] = ";\n" for JavaScript) to the minifier.
   State variables as in the Go struct: the names still to open ([files], here their contents), the current
   reader ([cur], here the bytes it has not delivered yet), [sepLeft], [sep].
   The underlying file reader is os.File: a read into an empty buffer returns (0, nil); at end of file it returns
   (0, EOF); otherwise it delivers between 1 and len(buffer) bytes — how many is chosen by the schedule
   ([want], clamped), so short reads are covered. *)
From MV Require Import Base.MvBytes.
From Coq Require Import Arith.

Record creader := { files : list bytes; cur : option bytes; sepLeft : nat; sep : bytes }.

Definition cr_init (fs : list bytes) (sp : bytes) : creader :=
  match fs with
  | [] => {| files := []; cur := None; sepLeft := 0; sep := sp |}
  | f :: r => {| files := r; cur := Some f; sepLeft := 0; sep := sp |}
  end.

(* writeSep(p): copies min(sepLeft, len p) bytes of the tail of sep *)
Definition write_sep (r : creader) (cap : nat) : bytes * creader :=
  let m := Nat.min (sepLeft r) cap in
  (firstn m (skipn (length (sep r) - sepLeft r) (sep r)),
   {| files := files r; cur := cur r; sepLeft := sepLeft r - m; sep := sep r |}).

(* os.File.Read on the remaining bytes [c] into a buffer of [cap] bytes; [want] is the scheduler's choice *)
Definition file_read (c : bytes) (cap want : nat) : bytes * bytes * bool (* data, rest, eof *) :=
  match cap with
  | O => ([], c, false)
  | S _ => match c with
           | [] => ([], [], true)
           | _ => let k := Nat.max 1 (Nat.min want cap) in (firstn k c, skipn k c, false)
           end
  end.

Inductive rerr := RNil | REOF.

(* Read(p) with len p = cap.  [fuel] bounds the recursion "if n == 0 { return r.Read(p) }" (one level per file).
   The error returned after a successful switch to the next file is nil: "r.cur, err = r.opener(filename)" re-assigns
   the variable that held the previous file's io.EOF. *)
Fixpoint cread (fuel : nat) (r : creader) (cap want : nat) : option (bytes * rerr * creader) :=
  match fuel with
  | O => None
  | S fuel' =>
    let '(d0, r1) := write_sep r cap in
    let m := length d0 in
    match cur r1 with
    | None => Some (d0, REOF, r1)
    | Some c =>
      let '(d1, rest, eof) := file_read c (cap - m) want in
      let n := (m + length d1)%nat in
      if eof then
        match files r1 with
        | [] => Some (d0 ++ d1, REOF, {| files := []; cur := None; sepLeft := sepLeft r1; sep := sep r1 |})
        | f :: fr =>
          let r2 := {| files := fr; cur := Some f; sepLeft := length (sep r1); sep := sep r1 |} in
          if Nat.eqb n 0 then cread fuel' r2 cap want
          else let '(d2, r3) := write_sep r2 (cap - n) in Some (d0 ++ d1 ++ d2, RNil, r3)
        end
      else Some (d0 ++ d1, RNil, {| files := files r1; cur := Some rest; sepLeft := sepLeft r1; sep := sep r1 |})
    end
  end.

Definition read_fuel (r : creader) : nat := S (S (length (files r))).

(* io.ReadAll-style driver over a schedule of (buffer size, wanted) pairs: stops at EOF *)
Fixpoint read_sched (r : creader) (sched : list (nat * nat)) : bytes * bool (* ended by EOF *) * creader :=
  match sched with
  | [] => ([], false, r)
  | (cap, want) :: s =>
    match cread (read_fuel r) r cap want with
    | None => ([], false, r)
    | Some (d, REOF, r') => (d, true, r')
    | Some (d, RNil, r') => let '(d', e, r'') := read_sched r' s in (d ++ d', e, r'')
    end
  end.

(* what is still to be delivered *)
Definition joined (sp : bytes) (fs : list bytes) : bytes := concat (map (fun f => sp ++ f) fs).
Definition remaining (r : creader) : bytes :=
  skipn (length (sep r) - sepLeft r) (sep r) ++
  match cur r with Some c => c ++ joined (sep r) (files r) | None => [] end.

(* the documented result: contents separated by sep *)
Definition intercalate (sp : bytes) (fs : list bytes) : bytes :=
  match fs with [] => [] | f :: r => f ++ joined sp r end.
