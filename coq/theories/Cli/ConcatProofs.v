(* Cli/ConcatProofs.v — the bundle reader delivers exactly the file contents separated by [sep], whatever the
   sizes of the buffers it is read with and however short the underlying reads are. *)
From MV Require Import Base.MvBytes Cli.ConcatModel.
From Coq Require Import Arith.

Local Open Scope nat_scope.

Lemma skipn_skipn' {A} (a b : nat) (l : list A) : skipn a (skipn b l) = skipn (b + a) l.
Proof.
  revert l; induction b as [|b IH]; intros l; [reflexivity|].
  destruct l as [|x l]; [destruct a; reflexivity|]. simpl. apply IH.
Qed.

Definition cwf (r : creader) : Prop :=
  sepLeft r <= length (sep r) /\ (cur r = None -> sepLeft r = 0 /\ files r = []).

Lemma cwf_init fs sp : cwf (cr_init fs sp).
Proof. destruct fs; simpl; split; simpl; try lia; try discriminate; auto. Qed.

Lemma remaining_init fs sp : remaining (cr_init fs sp) = intercalate sp fs.
Proof.
  destruct fs as [|f r]; unfold remaining; simpl; rewrite Nat.sub_0_r, skipn_all; reflexivity.
Qed.

Definition septail (r : creader) : bytes := skipn (length (sep r) - sepLeft r) (sep r).

Lemma write_sep_spec r cap d r' :
  sepLeft r <= length (sep r) -> write_sep r cap = (d, r') ->
  d ++ septail r' = septail r /\ length d = Nat.min (sepLeft r) cap /\
  files r' = files r /\ cur r' = cur r /\ sep r' = sep r /\ sepLeft r' = sepLeft r - Nat.min (sepLeft r) cap.
Proof.
  intros Hle H. unfold write_sep in H. inversion H; subst; clear H. unfold septail; simpl.
  set (m := Nat.min (sepLeft r) cap). set (a := length (sep r) - sepLeft r).
  assert (Hm : m <= sepLeft r) by (subst m; apply Nat.le_min_l).
  replace (length (sep r) - (sepLeft r - m)) with (a + m) by (subst a; lia).
  rewrite <- skipn_skipn'. rewrite firstn_skipn. repeat split; auto.
  rewrite firstn_length, skipn_length. subst a. lia.
Qed.

Lemma file_read_spec c cap want d rest eof :
  file_read c cap want = (d, rest, eof) ->
  d ++ rest = c /\ length d <= cap /\ (eof = true -> c = [] /\ d = [] /\ 0 < cap) /\
  (eof = false -> 0 < cap -> d <> []).
Proof.
  unfold file_read. destruct cap as [|cap].
  - intros H; inversion H; subst. simpl. repeat split; auto; try (intros; discriminate); try (intros; lia).
  - destruct c as [|x c].
    + intros H; inversion H; subst. repeat split; auto; simpl; try lia; try (intros; discriminate).
    + set (k := Nat.max 1 (Nat.min want (S cap))).
      assert (Hk : 1 <= k <= S cap) by (subst k; lia). clearbody k.
      intros H; inversion H; subst; clear H.
      rewrite firstn_skipn. repeat split; try (intros; discriminate).
      * rewrite firstn_length. lia.
      * intros _ _. destruct k; [lia|]. simpl. discriminate.
Qed.

Lemma remaining_unfold r : remaining r = septail r ++ match cur r with Some c => c ++ joined (sep r) (files r) | None => [] end.
Proof. reflexivity. Qed.

(* one Read call *)
Lemma cread_spec fuel : forall r cap want d e r',
  cwf r -> cread fuel r cap want = Some (d, e, r') ->
  d ++ remaining r' = remaining r /\ cwf r' /\ (e = REOF -> remaining r' = []) /\
  (e = RNil -> 0 < cap -> d <> []).
Proof.
  induction fuel as [|fuel IH]; intros r cap want d e r' Hwf H; [discriminate|].
  cbn [cread] in H. destruct (write_sep r cap) as [d0 r1] eqn:Ew.
  destruct Hwf as [Hle Hnone].
  destruct (write_sep_spec _ _ _ _ Hle Ew) as (Hs & Hl & Hf & Hc & Hsp & Hsl).
  assert (Hle1 : sepLeft r1 <= length (sep r1)) by (rewrite Hsl, Hsp; lia).
  rewrite (remaining_unfold r), <- Hs, <- Hc, <- Hf, <- Hsp.
  destruct (cur r1) as [c|] eqn:Ec.
  - destruct (file_read c (cap - length d0) want) as [[d1 rest] eof] eqn:Er.
    destruct (file_read_spec _ _ _ _ _ _ Er) as (Hd & Hlen & Heof & Hne).
    destruct eof.
    + destruct (Heof eq_refl) as (Hc0 & Hd1 & Hcap).
      assert (Hrest : rest = []) by (rewrite Hc0, Hd1 in Hd; exact Hd).
      clear Hd Heof Hne. subst c d1 rest.
      assert (Hs0 : sepLeft r1 = 0) by (rewrite Hsl; rewrite Hl in Hcap; lia).
      assert (Ht1 : septail r1 = []) by (unfold septail; rewrite Hs0, Nat.sub_0_r; apply skipn_all).
      destruct (files r1) as [|f fr] eqn:Efs.
      * inversion H; subst; clear H. unfold remaining; simpl. rewrite Hs0, Nat.sub_0_r, skipn_all.
        rewrite Ht1. simpl. rewrite !app_nil_r. repeat split; simpl; auto; try lia. discriminate.
      * rewrite Nat.add_0_r in H. destruct (Nat.eqb (length d0) 0) eqn:En.
        -- apply Nat.eqb_eq in En. destruct d0; [|discriminate].
           set (r2 := {| files := fr; cur := Some f; sepLeft := length (sep r1); sep := sep r1 |}) in *.
           assert (Hwf2 : cwf r2) by (split; simpl; [lia|discriminate]).
           destruct (IH _ _ _ _ _ _ Hwf2 H) as (Ha & Hb & Hcc & Hdd).
           rewrite Ha. split; [|auto]. unfold remaining at 1; simpl. rewrite Nat.sub_diag. simpl.
           rewrite Ht1. unfold joined. simpl. rewrite <- app_assoc. reflexivity.
        -- set (r2 := {| files := fr; cur := Some f; sepLeft := length (sep r1); sep := sep r1 |}) in *.
           destruct (write_sep r2 (cap - length d0)) as [d2 r3] eqn:Ew2.
           assert (Hle2 : sepLeft r2 <= length (sep r2)) by (simpl; lia).
           destruct (write_sep_spec _ _ _ _ Hle2 Ew2) as (Hs2 & Hl2 & Hf2 & Hc2 & Hsp2 & Hsl2).
           inversion H; subst; clear H. simpl app at 1.
           split; [|split; [|split]].
           ++ rewrite (remaining_unfold r'), Hc2, Hf2, Hsp2. simpl cur; simpl files; simpl sep.
              rewrite Ht1. unfold joined. simpl. rewrite !app_nil_r, <- !app_assoc. f_equal.
              rewrite app_assoc, Hs2. unfold septail; simpl. rewrite Nat.sub_diag. reflexivity.
           ++ split; [rewrite Hsl2, Hsp2; simpl; lia | rewrite Hc2; discriminate].
           ++ discriminate.
           ++ intros _ _. apply Nat.eqb_neq in En. destruct d0; [simpl in En; lia|discriminate].
    + inversion H; subst; clear H. split; [|split; [|split]].
      * unfold remaining; simpl. fold (septail r1). rewrite <- !app_assoc. f_equal.
        destruct (Nat.eq_dec (cap - length d0) 0) as [Hz|Hz].
        -- destruct d1; [reflexivity | simpl in Hlen; lia].
        -- assert (Hs0 : sepLeft r1 = 0) by lia.
           assert (Ht1 : septail r1 = []) by (unfold septail; rewrite Hs0, Nat.sub_0_r; apply skipn_all).
           rewrite Ht1. reflexivity.
      * split; simpl; [exact Hle1 | discriminate].
      * discriminate.
      * intros _ Hcap. destruct d0 as [|x d0]; [|discriminate]. simpl. apply Hne; auto. simpl. lia.
  - inversion H; subst; clear H. assert (Hcr : cur r = None) by congruence. destruct (Hnone Hcr) as (Hz & Hfz).
    assert (Hs0 : sepLeft r' = 0) by lia.
    unfold remaining. rewrite Ec, !app_nil_r. fold (septail r').
    assert (Ht1 : septail r' = []) by (unfold septail; rewrite Hs0, Nat.sub_0_r; apply skipn_all).
    rewrite Ht1, app_nil_r. repeat split; auto.
    + rewrite Hf. exact Hfz.
    + intros; discriminate.
Qed.

(* enough fuel: the recursion consumes one file per level *)
Lemma cread_total fuel : forall r cap want, length (files r) < fuel -> cread fuel r cap want <> None.
Proof.
  induction fuel as [|fuel IH]; intros r cap want Hf; [lia|].
  cbn [cread]. destruct (write_sep r cap) as [d0 r1] eqn:Ew.
  assert (Hfr : files r1 = files r) by (unfold write_sep in Ew; inversion Ew; reflexivity).
  destruct (cur r1); [|discriminate].
  destruct (file_read b (cap - length d0) want) as [[d1 rest] eof]. destruct eof; [|discriminate].
  destruct (files r1) as [|f fr] eqn:Efs; [discriminate|].
  destruct (Nat.eqb _ 0).
  - apply IH. simpl. rewrite <- Hfr in Hf. simpl in Hf. lia.
  - destruct (write_sep _ _). discriminate.
Qed.

(* a whole run of Read calls *)
Theorem read_sched_sound : forall sched r d e r',
  cwf r -> read_sched r sched = (d, e, r') ->
  d ++ remaining r' = remaining r /\ (e = true -> remaining r' = []).
Proof.
  induction sched as [|[cap want] s IH]; intros r d e r' Hwf H; cbn [read_sched] in H.
  - inversion H; subst. split; [reflexivity|discriminate].
  - destruct (cread (read_fuel r) r cap want) as [[[d1 e1] r1]|] eqn:Ec.
    + destruct (cread_spec _ _ _ _ _ _ _ Hwf Ec) as (Ha & Hb & Hc & _).
      destruct e1.
      * destruct (read_sched r1 s) as [[d' e'] r''] eqn:Es. inversion H; subst; clear H.
        destruct (IH _ _ _ _ Hb Es) as (Hx & Hy). split; [|exact Hy].
        rewrite <- app_assoc, Hx. exact Ha.
      * inversion H; subst; clear H. split; [exact Ha | intros _; apply Hc; reflexivity].
    + inversion H; subst. split; [reflexivity|discriminate].
Qed.

Corollary bundle_reader_correct : forall fs sp sched d r',
  read_sched (cr_init fs sp) sched = (d, true, r') -> d = intercalate sp fs.
Proof.
  intros fs sp sched d r' H. destruct (read_sched_sound _ _ _ _ _ (cwf_init fs sp) H) as (Ha & Hb).
  rewrite (Hb eq_refl), app_nil_r, remaining_init in Ha. exact Ha.
Qed.

(* with non-empty buffers the end of the stream is reached: every call delivers a byte or reports EOF *)
Theorem read_sched_complete : forall sched r,
  cwf r -> Forall (fun cw => 0 < fst cw) sched -> length (remaining r) < length sched ->
  exists d r', read_sched r sched = (d, true, r').
Proof.
  induction sched as [|[cap want] s IH]; intros r Hwf Hall Hlen; [simpl in Hlen; lia|].
  cbn [read_sched]. destruct (cread (read_fuel r) r cap want) as [[[d1 e1] r1]|] eqn:Ec.
  - destruct (cread_spec _ _ _ _ _ _ _ Hwf Ec) as (Ha & Hb & Hc & Hd). destruct e1.
    + inversion Hall as [|x l Hcap Hall']; subst. simpl in Hcap.
      assert (Hne : d1 <> []) by (apply Hd; auto).
      assert (Hl : length (remaining r1) < length s).
      { apply (f_equal (@length _)) in Ha. rewrite app_length in Ha. simpl in Hlen.
        destruct d1; [congruence|]. simpl in Ha. lia. }
      destruct (IH r1 Hb Hall' Hl) as (d & r' & Hr). rewrite Hr. eauto.
    + eauto.
  - exfalso. revert Ec. apply cread_total. unfold read_fuel. lia.
Qed.

(* non-vacuity: three files, separator ";\n", 2-byte buffers, 1-byte reads *)
Example bundle_example :
  fst (fst (read_sched (cr_init [[97; 98; 99]; []; [100]]%Z [59; 10]%Z) (repeat (2, 1) 12))) = [97; 98; 99; 59; 10; 59; 10; 100]%Z.
Proof. vm_compute. reflexivity. Qed.
