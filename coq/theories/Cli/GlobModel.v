(* Cli/GlobModel.v — F2 model of the file filters of /repo/cmd/minify/main.go: compilePattern on a glob pattern (a pattern
   that does not start with ~: an optional leading \~ loses its backslash, regexp.QuoteMeta, then strings.ReplaceAll of
   \*\* by .* , of \* by [^/]* and of \? by [^/] , anchored with ^ and $) and fileFilter (--match patterns against the base
   name, --include / --exclude patterns against the path, the last matching one decides).
   [compile_src] is the string-level transcription (what the Go code does to the bytes); [glob_tokens] reads the same
   pattern as a list of regular-expression items, [rmatch] is the anchored match of such a list (Go's `.` does not match a
   line feed).  No proofs in this file; extracted and compared with the real functions through a verif test hook. *)
From MV Require Import Base.MvBytes.

Definition is_meta (c : byte) : bool :=
  existsb (fun m => c =? m) [92; 46; 43; 42; 63; 40; 41; 124; 91; 93; 123; 125; 94; 36].   (* \.+*?()|[]{}^$ *)
Fixpoint quote_meta (l : bytes) : bytes :=
  match l with
  | [] => []
  | c :: r => if is_meta c then 92 :: c :: quote_meta r else c :: quote_meta r
  end.

Fixpoint is_prefix (p l : bytes) : bool :=
  match p, l with
  | [], _ => true
  | x :: p', y :: l' => (x =? y) && is_prefix p' l'
  | _, [] => false
  end.
(* strings.ReplaceAll for a non-empty old: leftmost, non-overlapping *)
Fixpoint replace_all_fuel (fuel : nat) (old new s : bytes) : bytes :=
  match fuel with
  | O => s
  | S k =>
    match s with
    | [] => []
    | c :: r => if is_prefix old s then new ++ replace_all_fuel k old new (skipn (length old) s)
                else c :: replace_all_fuel k old new r
    end
  end.
Definition replace_all (old new s : bytes) : bytes := replace_all_fuel (length s) old new s.

Definition any_all : bytes := [46; 42].                       (* .* *)
Definition any_noslash : bytes := [91; 94; 47; 93; 42].       (* [^/]* *)
Definition one_noslash : bytes := [91; 94; 47; 93].           (* [^/] *)

Definition strip_tilde_escape (g : bytes) : bytes :=
  match g with
  | 92 :: 126 :: r => 126 :: r
  | _ => g
  end.

(* the source of the regular expression compilePattern builds for a glob *)
Definition compile_src (g : bytes) : bytes :=
  let q := quote_meta (strip_tilde_escape g) in
  let q1 := replace_all [92; 42; 92; 42] any_all q in
  let q2 := replace_all [92; 42] any_noslash q1 in
  let q3 := replace_all [92; 63] one_noslash q2 in
  [94] ++ q3 ++ [36].

(* the same pattern read as items *)
Inductive ritem := RLit (c : byte) | RAnyAll | RAnyNoSlash | ROneNoSlash.
Fixpoint glob_items (g : bytes) : list ritem :=
  match g with
  | [] => []
  | c :: r =>
    if c =? 42 then
      match r with
      | c2 :: r2 => if c2 =? 42 then RAnyAll :: glob_items r2 else RAnyNoSlash :: glob_items r
      | [] => [RAnyNoSlash]
      end
    else if c =? 63 then ROneNoSlash :: glob_items r
    else RLit c :: glob_items r
  end.
Definition glob_tokens (g : bytes) : list ritem := glob_items (strip_tilde_escape g).

Definition item_src (t : ritem) : bytes :=
  match t with
  | RLit c => if is_meta c then [92; c] else [c]
  | RAnyAll => any_all
  | RAnyNoSlash => any_noslash
  | ROneNoSlash => one_noslash
  end.
Definition items_src (ts : list ritem) : bytes := [94] ++ flat_map item_src ts ++ [36].

(* anchored match of a list of items *)
Fixpoint rmatch (ts : list ritem) (s : bytes) : bool :=
  match ts with
  | [] => match s with [] => true | _ => false end
  | RLit c :: r => match s with x :: s' => (x =? c) && rmatch r s' | [] => false end
  | ROneNoSlash :: r => match s with x :: s' => negb (x =? 47) && rmatch r s' | [] => false end
  | RAnyNoSlash :: r =>
      (fix go (s : bytes) : bool := rmatch r s || match s with x :: s' => negb (x =? 47) && go s' | [] => false end) s
  | RAnyAll :: r =>
      (fix go (s : bytes) : bool := rmatch r s || match s with x :: s' => negb (x =? 10) && go s' | [] => false end) s
  end.
Definition glob_matches (g path : bytes) : bool := rmatch (glob_tokens g) path.

(* filepath.Base on a clean relative or absolute path: the part after the last slash (the whole path if there is none;
   the paths fileFilter sees do not end in a slash) *)
Fixpoint base_name_acc (acc l : bytes) : bytes :=
  match l with
  | [] => acc
  | c :: r => if c =? 47 then base_name_acc [] r else base_name_acc (acc ++ [c]) r
  end.
Definition base_name (p : bytes) : bytes := base_name_acc [] p.

(* fileFilter: matches = the --match globs; filters = (include?, glob) in the order given *)
Definition file_filter (matches : list bytes) (filters : list (bool * bytes)) (path : bytes) : bool :=
  (match matches with [] => true | _ => existsb (fun g => glob_matches g (base_name path)) matches end) &&
  fold_left (fun acc f => if glob_matches (snd f) path then fst f else acc) filters true.
