(* Cli/GlobProofs.v — the regular expression compilePattern builds for a glob is the item-wise translation of the glob, and
   it matches exactly the paths the glob stands for; fileFilter decides as documented. *)
From MV Require Import Base.MvBytes Cli.GlobModel Cli.GlobSpec.

(* ------------------------------------------------------------------------------------------------------------------ *)
(* reading a glob: equations and an induction principle that follows the tokenisation                                    *)

Definition hd_not_star (g : bytes) : Prop := match g with c :: _ => c <> 42 | [] => True end.

Lemma glob_items_star2 r : glob_items (42 :: 42 :: r) = RAnyAll :: glob_items r.
Proof. reflexivity. Qed.
Lemma glob_items_star1 r : hd_not_star r -> glob_items (42 :: r) = RAnyNoSlash :: glob_items r.
Proof.
  destruct r as [|c2 r2]; intros H; [reflexivity|]. cbn in H.
  apply Z.eqb_neq in H.
  change (glob_items (42 :: c2 :: r2))
    with (if c2 =? 42 then RAnyAll :: glob_items r2 else RAnyNoSlash :: glob_items (c2 :: r2)).
  rewrite H. reflexivity.
Qed.
Lemma glob_items_one r : glob_items (63 :: r) = ROneNoSlash :: glob_items r.
Proof. reflexivity. Qed.
Lemma glob_items_lit c r : c <> 42 -> c <> 63 -> glob_items (c :: r) = RLit c :: glob_items r.
Proof.
  intros H1 H2. apply Z.eqb_neq in H1. apply Z.eqb_neq in H2.
  change (glob_items (c :: r))
    with (if c =? 42 then match r with
                          | c2 :: r2 => if c2 =? 42 then RAnyAll :: glob_items r2 else RAnyNoSlash :: glob_items r
                          | [] => [RAnyNoSlash]
                          end
          else if c =? 63 then ROneNoSlash :: glob_items r else RLit c :: glob_items r).
  rewrite H1, H2. reflexivity.
Qed.

Lemma glob_ind (P : bytes -> Prop) :
  P [] ->
  (forall r, P r -> P (42 :: 42 :: r)) ->
  (forall r, hd_not_star r -> P r -> P (42 :: r)) ->
  (forall c r, c <> 42 -> P r -> P (c :: r)) ->
  forall g, P g.
Proof.
  intros H0 H2 H1 Hc g. enough (P g /\ forall c, P (c :: g)) by tauto.
  induction g as [|c2 r2 [IHa IHb]].
  - split; [exact H0|]. intros c. destruct (Z.eq_dec c 42).
    + subst. apply H1; [exact I | exact H0].
    + apply Hc; auto.
  - split; [apply IHb|]. intros c. destruct (Z.eq_dec c 42).
    + subst. destruct (Z.eq_dec c2 42).
      * subst. apply H2, IHa.
      * apply H1; [exact n | apply IHb].
    + apply Hc; auto.
Qed.

(* ------------------------------------------------------------------------------------------------------------------ *)
(* strings.ReplaceAll: fuel independence and the two unfolding equations                                                 *)

Lemma is_prefix_app p rest : is_prefix p (p ++ rest) = true.
Proof. induction p as [|x p IH]; [reflexivity|]. cbn [app is_prefix]. rewrite Z.eqb_refl, IH. reflexivity. Qed.
Lemma skipn_app_len {A} (p rest : list A) : skipn (length p) (p ++ rest) = rest.
Proof. induction p; simpl; auto. Qed.

Section ReplaceAll.
Variables old new : bytes.
Hypothesis Hold : old <> [].

Lemma raf_indep : forall k1 k2 s, (length s <= k1)%nat -> (length s <= k2)%nat ->
  replace_all_fuel k1 old new s = replace_all_fuel k2 old new s.
Proof.
  induction k1; intros k2 s H1 H2.
  - destruct s; [|simpl in H1; lia]. destruct k2; reflexivity.
  - destruct k2. { destruct s; [reflexivity | simpl in H2; lia]. }
    cbn [replace_all_fuel]. destruct s as [|c r]; [reflexivity|].
    destruct (is_prefix old (c :: r)).
    + f_equal. apply IHk1; rewrite skipn_length; destruct old; try congruence; simpl in *; lia.
    + f_equal. apply IHk1; simpl in *; lia.
Qed.

Lemma ra_skip c r : is_prefix old (c :: r) = false -> replace_all old new (c :: r) = c :: replace_all old new r.
Proof. intros H. unfold replace_all. cbn [length replace_all_fuel]. rewrite H. reflexivity. Qed.

Lemma ra_match rest : replace_all old new (old ++ rest) = new ++ replace_all old new rest.
Proof.
  pose proof (is_prefix_app old rest) as P. pose proof (skipn_app_len old rest) as K.
  destruct (old ++ rest) as [|c s] eqn:E.
  { destruct old; [congruence | discriminate]. }
  unfold replace_all. cbn [length replace_all_fuel]. rewrite P. f_equal. rewrite K.
  apply raf_indep; [|lia].
  apply (f_equal (@length _)) in E. rewrite app_length in E. simpl in E.
  destruct old; [congruence | simpl in E; lia].
Qed.
End ReplaceAll.

(* ------------------------------------------------------------------------------------------------------------------ *)
(* TARGET 1                                                                                                              *)

(* the source of an item after QuoteMeta, after the first and after the second ReplaceAll *)
Definition src0 (t : ritem) : bytes :=
  match t with
  | RLit c => if is_meta c then [92; c] else [c]
  | RAnyAll => [92; 42; 92; 42]
  | RAnyNoSlash => [92; 42]
  | ROneNoSlash => [92; 63]
  end.
Definition src1 (t : ritem) : bytes := match t with RAnyAll => any_all | _ => src0 t end.
Definition src2 (t : ritem) : bytes := match t with RAnyNoSlash => any_noslash | _ => src1 t end.

(* what the tokenisation guarantees: literal items are not stars or question marks; a single star is not followed by
   a star *)
Definition is_star (t : ritem) : bool := match t with RAnyAll | RAnyNoSlash => true | _ => false end.
Definition wf_item (t : ritem) (r : list ritem) : Prop :=
  match t with
  | RLit c => c <> 42 /\ c <> 63
  | RAnyNoSlash => match r with t2 :: _ => is_star t2 = false | [] => True end
  | _ => True
  end.
Fixpoint wf (ts : list ritem) : Prop := match ts with [] => True | t :: r => wf_item t r /\ wf r end.

Lemma glob_items_wf g : wf (glob_items g).
Proof.
  induction g as [| r IH | r H IH | c r H IH] using glob_ind.
  - exact I.
  - rewrite glob_items_star2. split; [exact I | exact IH].
  - rewrite glob_items_star1 by exact H. split; [|exact IH]. cbn [wf_item].
    destruct r as [|c2 r2]; [exact I|]. cbn in H.
    destruct (Z.eq_dec c2 63).
    + subst. rewrite glob_items_one. reflexivity.
    + rewrite glob_items_lit by assumption. reflexivity.
  - destruct (Z.eq_dec c 63).
    + subst. rewrite glob_items_one. split; [exact I | exact IH].
    + rewrite glob_items_lit by assumption. split; [split; assumption | exact IH].
Qed.

Lemma quote_meta_items g : quote_meta g = flat_map src0 (glob_items g).
Proof.
  induction g as [| r IH | r H IH | c r H IH] using glob_ind.
  - reflexivity.
  - rewrite glob_items_star2. cbn [flat_map src0 app].
    change (quote_meta (42 :: 42 :: r)) with (92 :: 42 :: 92 :: 42 :: quote_meta r). rewrite IH. reflexivity.
  - rewrite glob_items_star1 by exact H. cbn [flat_map src0 app].
    change (quote_meta (42 :: r)) with (92 :: 42 :: quote_meta r). rewrite IH. reflexivity.
  - destruct (Z.eq_dec c 63).
    + subst. rewrite glob_items_one. cbn [flat_map src0 app].
      change (quote_meta (63 :: r)) with (92 :: 63 :: quote_meta r). rewrite IH. reflexivity.
    + rewrite glob_items_lit by assumption. cbn [flat_map src0 quote_meta].
      destruct (is_meta c); rewrite IH; reflexivity.
Qed.

(* no item source starts with a star or a question mark *)
Definition hd_ok (s : bytes) : Prop := match s with x :: _ => x <> 42 /\ x <> 63 | [] => True end.

Lemma hd_ok_flat (src : ritem -> bytes) :
  (forall t r, wf_item t r -> exists x s, src t = x :: s /\ x <> 42 /\ x <> 63) ->
  forall ts, wf ts -> hd_ok (flat_map src ts).
Proof.
  intros H [|t r]; [intros _; exact I|]. intros [Wt _].
  destruct (H t r Wt) as (x & s & E & ? & ?). cbn [flat_map]. rewrite E. cbn. auto.
Qed.
Lemma src0_hd t r : wf_item t r -> exists x s, src0 t = x :: s /\ x <> 42 /\ x <> 63.
Proof.
  destruct t; cbn [src0 src1 src2 wf_item any_all any_noslash]; intros W; [destruct (is_meta c)|..];
    eexists _, _; (split; [reflexivity|]); try lia; tauto.
Qed.
Lemma src1_hd t r : wf_item t r -> exists x s, src1 t = x :: s /\ x <> 42 /\ x <> 63.
Proof.
  destruct t; cbn [src0 src1 src2 wf_item any_all any_noslash]; intros W; [destruct (is_meta c)|..];
    eexists _, _; (split; [reflexivity|]); try lia; tauto.
Qed.
Lemma src2_hd t r : wf_item t r -> exists x s, src2 t = x :: s /\ x <> 42 /\ x <> 63.
Proof.
  destruct t; cbn [src0 src1 src2 wf_item any_all any_noslash]; intros W; [destruct (is_meta c)|..];
    eexists _, _; (split; [reflexivity|]); try lia; tauto.
Qed.

Lemma not_meta_92 c : is_meta c = false -> c <> 92.
Proof. intros H E. subst. vm_compute in H. discriminate. Qed.

Ltac eqb_cases :=
  repeat (match goal with
          | |- context [?a =? ?b] => destruct (Z.eqb_spec a b); try (exfalso; lia)
          end; cbn [andb]);
  try reflexivity.
(* is_prefix old (known bytes ++ rest) = false, knowing that rest does not start with a star or a question mark *)
Ltac side rest Hh :=
  cbn [is_prefix app]; destruct rest as [|? ?]; [| destruct Hh]; cbn [is_prefix]; eqb_cases.
Ltac skip1 rest Hh := rewrite ra_skip; [ | solve [discriminate | side rest Hh] .. ].

(* a single star is followed by something that is not an escaped star *)
Lemma no_star_next r :
  wf r -> match r with t2 :: _ => is_star t2 = false | [] => True end -> is_prefix [92; 42] (flat_map src0 r) = false.
Proof.
  destruct r as [|t2 r2]; [reflexivity|]. intros [W2 _] S.
  destruct t2; try discriminate; cbn [flat_map src0].
  - destruct W2. destruct (is_meta c) eqn:M; cbn [app is_prefix].
    + eqb_cases.
    + apply not_meta_92 in M. eqb_cases.
  - reflexivity.
Qed.

Lemma stage1 ts : wf ts -> replace_all [92; 42; 92; 42] any_all (flat_map src0 ts) = flat_map src1 ts.
Proof.
  induction ts as [|t r IH]; intros W; [reflexivity|].
  destruct W as [Wt Wr]. specialize (IH Wr).
  pose proof (hd_ok_flat src0 src0_hd r Wr) as Hh.
  pose proof (no_star_next r Wr) as Hn.
  cbn [flat_map]. remember (flat_map src0 r) as rest eqn:Er. clear Er.
  destruct t; cbn [src0 src1].
  - destruct Wt. destruct (is_meta c) eqn:M; cbn [app].
    + skip1 rest Hh. skip1 rest Hh. rewrite IH. reflexivity.
    + apply not_meta_92 in M. skip1 rest Hh. rewrite IH. reflexivity.
  - rewrite ra_match by discriminate. rewrite IH. reflexivity.
  - cbn [app]. cbn [wf_item] in Wt. specialize (Hn Wt).
    rewrite ra_skip; [| solve [discriminate | cbn [is_prefix] in Hn |- *; rewrite Hn; reflexivity] ..].
    skip1 rest Hh. rewrite IH. reflexivity.
  - cbn [app]. skip1 rest Hh. skip1 rest Hh. rewrite IH. reflexivity.
Qed.

Lemma stage2 ts : wf ts -> replace_all [92; 42] any_noslash (flat_map src1 ts) = flat_map src2 ts.
Proof.
  induction ts as [|t r IH]; intros W; [reflexivity|].
  destruct W as [Wt Wr]. specialize (IH Wr).
  pose proof (hd_ok_flat src1 src1_hd r Wr) as Hh.
  cbn [flat_map]. remember (flat_map src1 r) as rest eqn:Er. clear Er.
  destruct t; cbn [src0 src1 src2]; unfold any_all.
  - destruct Wt. destruct (is_meta c) eqn:M; cbn [app].
    + skip1 rest Hh. skip1 rest Hh. rewrite IH. reflexivity.
    + apply not_meta_92 in M. skip1 rest Hh. rewrite IH. reflexivity.
  - cbn [app]. skip1 rest Hh. skip1 rest Hh. rewrite IH. reflexivity.
  - rewrite ra_match by discriminate. rewrite IH. reflexivity.
  - cbn [app]. skip1 rest Hh. skip1 rest Hh. rewrite IH. reflexivity.
Qed.

Lemma stage3 ts : wf ts -> replace_all [92; 63] one_noslash (flat_map src2 ts) = flat_map item_src ts.
Proof.
  induction ts as [|t r IH]; intros W; [reflexivity|].
  destruct W as [Wt Wr]. specialize (IH Wr).
  pose proof (hd_ok_flat src2 src2_hd r Wr) as Hh.
  cbn [flat_map]. remember (flat_map src2 r) as rest eqn:Er. clear Er.
  destruct t; cbn [src0 src1 src2 item_src]; unfold any_all, any_noslash.
  - destruct Wt. destruct (is_meta c) eqn:M; cbn [app].
    + skip1 rest Hh. skip1 rest Hh. rewrite IH. reflexivity.
    + apply not_meta_92 in M. skip1 rest Hh. rewrite IH. reflexivity.
  - cbn [app]. skip1 rest Hh. skip1 rest Hh. rewrite IH. reflexivity.
  - cbn [app]. do 5 skip1 rest Hh. rewrite IH. reflexivity.
  - rewrite ra_match by discriminate. rewrite IH. reflexivity.
Qed.

(* TARGET 1: the string-level pipeline (QuoteMeta, three ReplaceAll, anchors) produces exactly the item-wise source: no
   replacement fires on bytes it was not meant for (literal backslashes, dots, stars next to each other, a leading \~) *)
Theorem compile_src_items : forall g, compile_src g = items_src (glob_tokens g).
Proof.
  intros g. unfold compile_src, items_src, glob_tokens. cbv zeta.
  pose proof (glob_items_wf (strip_tilde_escape g)) as W.
  rewrite quote_meta_items, stage1, stage2, stage3 by exact W. reflexivity.
Qed.

(* ------------------------------------------------------------------------------------------------------------------ *)
(* TARGET 2                                                                                                              *)

Lemma rmatch_all_eq r s :
  rmatch (RAnyAll :: r) s =
  rmatch r s || match s with x :: s' => negb (x =? 10) && rmatch (RAnyAll :: r) s' | [] => false end.
Proof. destruct s; reflexivity. Qed.
Lemma rmatch_noslash_eq r s :
  rmatch (RAnyNoSlash :: r) s =
  rmatch r s || match s with x :: s' => negb (x =? 47) && rmatch (RAnyNoSlash :: r) s' | [] => false end.
Proof. destruct s; reflexivity. Qed.

Ltac star_loop unfold_eq :=
  let IH := fresh "IH" in
  intros r s; induction s as [|x s IH]; rewrite unfold_eq;
  [ split;
    [ intros H; rewrite orb_false_r in H; exists [], []; repeat split; [constructor | exact H]
    | intros (a & s' & E & Na & M); symmetry in E; apply app_eq_nil in E as [-> ->]; rewrite M; reflexivity ]
  | split;
    [ intros H; apply orb_true_iff in H as [H|H];
      [ exists [], (x :: s); repeat split; [constructor | exact H]
      | apply andb_true_iff in H as [Hx Hs]; apply IH in Hs as (a & s' & -> & Na & M);
        exists (x :: a), s'; split; [reflexivity|]; split; [|exact M];
        constructor; [apply negb_true_iff, Z.eqb_neq in Hx; exact Hx | exact Na] ]
    | intros (a & s' & E & Na & M); destruct a as [|y a];
      [ simpl in E; subst s'; rewrite M; reflexivity
      | simpl in E; injection E as -> ->; inversion Na; subst;
        apply orb_true_iff; right; apply andb_true_iff; split;
        [ apply negb_true_iff, Z.eqb_neq; assumption | apply IH; exists a, s'; auto ] ] ] ].

Lemma rmatch_all : forall r s,
  rmatch (RAnyAll :: r) s = true <-> exists a s', s = a ++ s' /\ no_byte 10 a /\ rmatch r s' = true.
Proof. star_loop rmatch_all_eq. Qed.
Lemma rmatch_noslash : forall r s,
  rmatch (RAnyNoSlash :: r) s = true <-> exists a s', s = a ++ s' /\ no_byte 47 a /\ rmatch r s' = true.
Proof. star_loop rmatch_noslash_eq. Qed.

Lemma rmatch_gmatch g : forall p, rmatch (glob_items g) p = true <-> gmatch g p.
Proof.
  induction g as [| r IH | r Hr IH | c r Hc IH] using glob_ind; intros p.
  - cbn. destruct p; split; intros H; try constructor; try discriminate; inversion H.
  - rewrite glob_items_star2, rmatch_all. split.
    + intros (a & s' & -> & Na & M). apply gm_star2; [exact Na | apply IH; exact M].
    + intros H. inversion H; subst.
      * congruence.
      * exists a, s. repeat split; [assumption | apply IH; assumption].
      * cbn in *. congruence.
  - rewrite glob_items_star1 by exact Hr. rewrite rmatch_noslash. split.
    + intros (a & s' & -> & Na & M). apply gm_star; [exact Hr | exact Na | apply IH; exact M].
    + intros H. inversion H; subst.
      * congruence.
      * cbn in Hr. congruence.
      * exists a, s. repeat split; [assumption | apply IH; assumption].
  - destruct (Z.eq_dec c 63) as [->|Hq].
    + rewrite glob_items_one. cbn [rmatch]. destruct p as [|x s].
      * split; [discriminate | intros H; inversion H; congruence].
      * split.
        -- intros H. apply andb_true_iff in H as [Hx M]. apply negb_true_iff, Z.eqb_neq in Hx.
           apply gm_one; [exact Hx | apply IH; exact M].
        -- intros H. inversion H; subst; try congruence.
           apply andb_true_iff; split; [apply negb_true_iff, Z.eqb_neq; assumption | apply IH; assumption].
    + rewrite glob_items_lit by assumption. cbn [rmatch]. destruct p as [|x s].
      * split; [discriminate | intros H; inversion H; congruence].
      * split.
        -- intros H. apply andb_true_iff in H as [Hx M]. apply Z.eqb_eq in Hx. subst x.
           apply gm_lit; [assumption | assumption | apply IH; exact M].
        -- intros H. inversion H; subst; try congruence.
           apply andb_true_iff; split; [apply Z.eqb_refl | apply IH; assumption].
Qed.

(* TARGET 2: the anchored match of the items is the meaning of the glob *)
Theorem glob_matches_spec : forall g p,
  glob_matches g p = true <-> gmatch (strip_tilde_escape g) p.
Proof. intros g p. unfold glob_matches, glob_tokens. apply rmatch_gmatch. Qed.

(* ------------------------------------------------------------------------------------------------------------------ *)
(* TARGET 3                                                                                                              *)

Lemma fold_last_decision path : forall filters acc,
  fold_left (fun acc f => if glob_matches (snd f) path then fst f else acc) filters acc =
  match last_decision filters path with Some d => d | None => acc end.
Proof.
  induction filters as [|f r IH]; intros acc; [reflexivity|].
  cbn [fold_left last_decision]. rewrite IH.
  destruct (last_decision r path); [reflexivity|].
  destruct (glob_matches (snd f) path); reflexivity.
Qed.

(* TARGET 3: fileFilter *)
Theorem file_filter_spec : forall matches filters path,
  file_filter matches filters path = true <->
  ((matches = [] \/ exists g, In g matches /\ glob_matches g (base_name path) = true) /\
   (last_decision filters path = None \/ last_decision filters path = Some true)).
Proof.
  intros matches filters path. unfold file_filter. rewrite andb_true_iff, fold_last_decision.
  match goal with |- (?A /\ ?B) <-> (?C /\ ?D) => enough ((A <-> C) /\ (B <-> D)) by tauto end.
  split.
  - destruct matches as [|m ms].
    + split; auto.
    + rewrite existsb_exists. split.
      * intros H. right. exact H.
      * intros [H|H]; [discriminate | exact H].
  - destruct (last_decision filters path) as [[|]|]; split; intros H; auto; try discriminate.
    destruct H; discriminate.
Qed.

Print Assumptions compile_src_items.
Print Assumptions glob_matches_spec.
Print Assumptions file_filter_spec.
