(* Cli/GlobSpec.v — what a glob pattern of --match / --include / --exclude means (cmd/minify README: "either a glob or a
   regular expression"; `**` crosses directories, `*` and `?` do not), independent of regular expressions:
   `**` stands for any string (without a line feed: Go's `.`), `*` for any string without `/`, `?` for exactly one
   character other than `/`, every other character for itself; two consecutive stars are always read as `**`. *)
From MV Require Import Base.MvBytes Cli.GlobModel.

Definition no_byte (b : byte) (l : bytes) : Prop := Forall (fun c => c <> b) l.

Inductive gmatch : bytes -> bytes -> Prop :=
| gm_nil : gmatch [] []
| gm_lit : forall c g s, c <> 42 -> c <> 63 -> gmatch g s -> gmatch (c :: g) (c :: s)
| gm_one : forall x g s, x <> 47 -> gmatch g s -> gmatch (63 :: g) (x :: s)
| gm_star2 : forall a g s, no_byte 10 a -> gmatch g s -> gmatch (42 :: 42 :: g) (a ++ s)
| gm_star : forall a g s, (match g with c :: _ => c <> 42 | [] => True end) -> no_byte 47 a -> gmatch g s -> gmatch (42 :: g) (a ++ s).

(* fileFilter, said directly: some --match pattern (if any is given) matches the base name, and the LAST --include / --exclude
   pattern that matches the path, if any, is an include *)
Fixpoint last_decision (filters : list (bool * bytes)) (path : bytes) : option bool :=
  match filters with
  | [] => None
  | f :: r => match last_decision r path with
              | Some d => Some d
              | None => if glob_matches (snd f) path then Some (fst f) else None
              end
  end.
