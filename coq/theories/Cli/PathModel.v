(* Cli/PathModel.v — F2 model of where cmd/minify writes: NewTask of /repo/cmd/minify/main.go
     if output is "." or ends in a separator: output = filepath.Join(output, filepath.Rel(root, input))
   with Go's path/filepath (Unix) functions Clean, Join, Rel and Dir transcribed on byte strings:
   a path is split at '/' into components; Clean drops empty and "." components, lets ".." remove the component before it
   (a ".." at the start stays in a relative path and is dropped in a rooted one), and writes "." for the empty relative path.
   No proofs in this file; extracted and compared with the real functions through a verif test hook. *)
From MV Require Import Base.MvBytes.

Definition slash : byte := 47.
Definition dot : byte := 46.
Definition comp := bytes.

(* strings.Split(s, "/") *)
Fixpoint split_slash_acc (cur : bytes) (s : bytes) : list comp :=
  match s with
  | [] => [rev cur]
  | c :: r => if c =? slash then rev cur :: split_slash_acc [] r else split_slash_acc (c :: cur) r
  end.
Definition split_slash (s : bytes) : list comp := split_slash_acc [] s.

Definition is_dot (c : comp) : bool := beqb c [dot].
Definition is_dotdot (c : comp) : bool := beqb c [dot; dot].
Definition is_abs (s : bytes) : bool := match s with c :: _ => c =? slash | [] => false end.

(* Clean on components, the stack kept in reverse: [out] holds the cleaned components, last one first *)
Fixpoint clean_comps (rooted : bool) (out : list comp) (cs : list comp) : list comp :=
  match cs with
  | [] => rev out
  | c :: r =>
    if match c with [] => true | _ => false end || is_dot c then clean_comps rooted out r
    else if is_dotdot c then
      match out with
      | p :: out' => if is_dotdot p then clean_comps rooted (c :: out) r else clean_comps rooted out' r
      | [] => if rooted then clean_comps rooted out r else clean_comps rooted (c :: out) r
      end
    else clean_comps rooted (c :: out) r
  end.

Fixpoint join_slash (cs : list comp) : bytes :=
  match cs with
  | [] => []
  | [c] => c
  | c :: r => c ++ slash :: join_slash r
  end.

(* a cleaned path: rooted or not, and its components *)
Definition cleaned (s : bytes) : bool * list comp := (is_abs s, clean_comps (is_abs s) [] (split_slash s)).
Definition show (p : bool * list comp) : bytes :=
  let '(rooted, cs) := p in
  if rooted then slash :: join_slash cs else match cs with [] => [dot] | _ => join_slash cs end.

(* filepath.Clean *)
Definition clean (s : bytes) : bytes := match s with [] => [dot] | _ => show (cleaned s) end.

(* filepath.Join: the non-empty elements joined by '/', cleaned; no element non-empty: "" *)
Definition join (elems : list bytes) : bytes :=
  match filter (fun e => match e with [] => false | _ => true end) elems with
  | [] => []
  | es => clean (join_slash es)
  end.

(* filepath.Dir: everything before the last '/', cleaned; no '/': "." *)
Fixpoint last_slash (s : bytes) (i : nat) (found : option nat) : option nat :=
  match s with
  | [] => found
  | c :: r => last_slash r (S i) (if c =? slash then Some i else found)
  end.
Definition dir (s : bytes) : bytes :=
  match last_slash s 0 None with
  | None => [dot]
  | Some i => clean (firstn (S i) s)
  end.

(* filepath.Rel(base, targ) *)
Fixpoint strip_common (a b : list comp) : list comp * list comp :=
  match a, b with
  | x :: a', y :: b' => if beqb x y then strip_common a' b' else (a, b)
  | _, _ => (a, b)
  end.
Definition rel (base targ : bytes) : option bytes :=
  let bc := clean base in
  let tc := clean targ in
  if beqb bc tc then Some [dot] else
  let '(brooted, bcs) := cleaned bc in
  let trooted := is_abs tc in
  let tcs := if beqb tc [dot] then [[dot]] else snd (cleaned tc) in   (* Go only turns a base "." into "": Rel("a", ".") = "../." *)
  if negb (Bool.eqb brooted trooted) then None else
  let '(brest, trest) := strip_common bcs tcs in
  if existsb is_dotdot brest then None else
  match map (fun _ => [dot; dot]) brest ++ trest with
  | [] => Some [dot]
  | cs => Some (join_slash cs)
  end.

(* NewTask: the destination of one input *)
Definition ends_in_slash (s : bytes) : bool := match rev s with c :: _ => c =? slash | [] => false end.
Definition is_dir_output (output : bytes) : bool :=
  match output with [] => false | _ => beqb output [dot] || ends_in_slash output end.
Definition new_task_dst (root input output : bytes) : option bytes :=
  if is_dir_output output then
    match rel root input with
    | Some r => Some (join [output; r])
    | None => None
    end
  else Some output.
