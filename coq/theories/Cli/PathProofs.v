(* Cli/PathProofs.v — proofs about the F2 model Cli/PathModel.v (Clean, Join, Rel, new_task_dst):
   for clean paths root = show (rooted, rc), input = show (rooted, rc ++ rest) with plain components,
     T1  Rel(root, input) = rest                       T2  Join(root, Rel(root, input)) = input
     T3  the destination is (cleaned output) ++ rest   T4  two inputs below the same root never share a destination
     T5  the destination stays below the output directory and keeps every component name below root
     T6  a file output is used as it is
   and: the result of [cleaned] is a clean component list for every byte string; [clean] is idempotent. *)
From MV Require Import Base.MvBytes Cli.PathModel.

(* ------------------------------------------------------------------ *)
(* components *)

Definition dd : comp := [dot; dot].
Definition is_nil (c : comp) : bool := match c with [] => true | _ => false end.
Definition noslash (c : comp) : bool := forallb (fun b => negb (b =? slash)) c.

(* a plain component: non-empty, not ".", not "..", no '/' byte *)
Definition plain (c : comp) : bool :=
  negb (is_nil c) && negb (is_dot c) && negb (is_dotdot c) && noslash c.
Definition plain_list (cs : list comp) : bool := forallb plain cs.

(* a clean component list: a run of ".." (only in a relative path), then plain components *)
Definition clean_list (rooted : bool) (cs : list comp) : Prop :=
  exists n pl, cs = repeat dd n ++ pl /\ plain_list pl = true /\ (rooted = true -> n = 0%nat).

Lemma beqb_refl a : beqb a a = true.
Proof. apply beqb_eq. reflexivity. Qed.

Lemma beqb_neq a b : beqb a b = false <-> a <> b.
Proof.
  split.
  - intros H E. apply beqb_eq in E. rewrite E in H. discriminate.
  - intros H. destruct (beqb a b) eqn:E; [|reflexivity]. apply beqb_eq in E. contradiction.
Qed.

Lemma plain_inv c : plain c = true ->
  is_nil c = false /\ is_dot c = false /\ is_dotdot c = false /\ noslash c = true.
Proof.
  unfold plain. rewrite !andb_true_iff, !negb_true_iff. tauto.
Qed.

Lemma plain_intro c : is_nil c = false -> is_dot c = false -> is_dotdot c = false -> noslash c = true ->
  plain c = true.
Proof. intros H1 H2 H3 H4. unfold plain. rewrite H1, H2, H3, H4. reflexivity. Qed.

Lemma plain_list_app a b : plain_list (a ++ b) = plain_list a && plain_list b.
Proof. apply forallb_app. Qed.

Lemma plain_list_noslash cs : plain_list cs = true -> forallb noslash cs = true.
Proof.
  induction cs as [|c r IH]; intros H; [reflexivity|].
  simpl in H. apply andb_true_iff in H. destruct H as [Hc Hr].
  simpl. rewrite IH by exact Hr. apply plain_inv in Hc. destruct Hc as (_ & _ & _ & Hn).
  rewrite Hn. reflexivity.
Qed.

Lemma noslash_rev c : noslash (rev c) = noslash c.
Proof.
  unfold noslash. induction c as [|x c IH]; [reflexivity|].
  cbn [rev forallb]. rewrite forallb_app. cbn [forallb]. rewrite andb_true_r, andb_comm. f_equal. exact IH.
Qed.

Lemma rev_repeat {A} (x : A) n : rev (repeat x n) = repeat x n.
Proof.
  induction n as [|n IH]; [reflexivity|].
  simpl. rewrite IH. symmetry. apply repeat_cons.
Qed.

(* ------------------------------------------------------------------ *)
(* split_slash / join_slash *)

Lemma split_acc_noslash c : forall cur, noslash c = true -> split_slash_acc cur c = [rev cur ++ c].
Proof.
  induction c as [|x c IH]; intros cur H.
  - simpl. rewrite app_nil_r. reflexivity.
  - simpl in H. apply andb_true_iff in H. destruct H as [Hx Hc]. apply negb_true_iff in Hx.
    simpl. rewrite Hx. rewrite IH by exact Hc. simpl. rewrite <- app_assoc. reflexivity.
Qed.

Lemma split_acc_app a : forall cur b,
  split_slash_acc cur (a ++ slash :: b) = split_slash_acc cur a ++ split_slash b.
Proof.
  induction a as [|x a IH]; intros cur b.
  - reflexivity.
  - simpl. destruct (x =? slash).
    + simpl. f_equal. apply IH.
    + apply IH.
Qed.

Lemma split_app a b : split_slash (a ++ slash :: b) = split_slash a ++ split_slash b.
Proof. apply split_acc_app. Qed.

(* the round trip: strings.Split(strings.Join(cs, "/"), "/") = cs *)
Lemma split_join cs : cs <> [] -> forallb noslash cs = true -> split_slash (join_slash cs) = cs.
Proof.
  induction cs as [|c r IH]; intros Hne H; [congruence|].
  simpl in H. apply andb_true_iff in H. destruct H as [Hc Hr].
  destruct r as [|c2 r'].
  - simpl. unfold split_slash. rewrite split_acc_noslash by exact Hc. reflexivity.
  - change (join_slash (c :: c2 :: r')) with (c ++ slash :: join_slash (c2 :: r')).
    rewrite split_app. unfold split_slash at 1. rewrite split_acc_noslash by exact Hc.
    rewrite IH; [reflexivity|discriminate|exact Hr].
Qed.

Lemma split_acc_all_noslash s : forall cur, noslash cur = true ->
  forallb noslash (split_slash_acc cur s) = true.
Proof.
  induction s as [|x s IH]; intros cur H.
  - simpl. rewrite noslash_rev, H. reflexivity.
  - simpl. destruct (x =? slash) eqn:E.
    + simpl. rewrite noslash_rev, H. simpl. apply IH. reflexivity.
    + apply IH. simpl. rewrite E. simpl. exact H.
Qed.

Lemma split_all_noslash s : forallb noslash (split_slash s) = true.
Proof. apply split_acc_all_noslash. reflexivity. Qed.

(* ------------------------------------------------------------------ *)
(* clean_comps: one step *)

Lemma cc_skip rooted out c r : is_nil c || is_dot c = true ->
  clean_comps rooted out (c :: r) = clean_comps rooted out r.
Proof.
  intros H. cbn [clean_comps]. unfold is_nil in H. rewrite H. reflexivity.
Qed.

Lemma cc_plain rooted out c r : plain c = true ->
  clean_comps rooted out (c :: r) = clean_comps rooted (c :: out) r.
Proof.
  intros H. apply plain_inv in H. destruct H as (H1 & H2 & H3 & _).
  cbn [clean_comps]. unfold is_nil in H1. rewrite H1, H2, H3. reflexivity.
Qed.

Lemma cc_dd_push m r :
  clean_comps false (repeat dd m) (dd :: r) = clean_comps false (repeat dd (S m)) r.
Proof. destruct m; reflexivity. Qed.

Lemma cc_dd_root r : clean_comps true [] (dd :: r) = clean_comps true [] r.
Proof. reflexivity. Qed.

Lemma cc_dd_pop rooted p out r : is_dotdot p = false ->
  clean_comps rooted (p :: out) (dd :: r) = clean_comps rooted out r.
Proof.
  intros H. cbn [clean_comps]. change (is_dotdot dd) with true.
  change (match dd with [] => true | _ => false end || is_dot dd) with false.
  cbv iota. rewrite H. reflexivity.
Qed.

Lemma clean_comps_app rooted a : forall out b,
  clean_comps rooted out (a ++ b) = clean_comps rooted (rev (clean_comps rooted out a)) b.
Proof.
  induction a as [|c a IH]; intros out b.
  - simpl. rewrite rev_involutive. reflexivity.
  - cbn [app clean_comps].
    destruct (match c with [] => true | _ => false end || is_dot c); [apply IH|].
    destruct (is_dotdot c); [|apply IH].
    destruct out as [|p out'].
    + destruct rooted; apply IH.
    + destruct (is_dotdot p); apply IH.
Qed.

Lemma clean_comps_plain rooted cs : forall out, plain_list cs = true ->
  clean_comps rooted out cs = rev out ++ cs.
Proof.
  induction cs as [|c r IH]; intros out H.
  - simpl. rewrite app_nil_r. reflexivity.
  - simpl in H. apply andb_true_iff in H. destruct H as [Hc Hr].
    rewrite cc_plain by exact Hc. rewrite IH by exact Hr.
    simpl. rewrite <- app_assoc. reflexivity.
Qed.

Lemma clean_comps_dds n : forall m r,
  clean_comps false (repeat dd m) (repeat dd n ++ r) = clean_comps false (repeat dd (n + m)) r.
Proof.
  induction n as [|n IH]; intros m r.
  - reflexivity.
  - cbn [repeat app]. rewrite cc_dd_push. rewrite IH.
    replace (n + S m)%nat with (S n + m)%nat by lia. reflexivity.
Qed.

(* Clean leaves a clean component list as it is *)
Lemma clean_comps_idem rooted cs : clean_list rooted cs -> clean_comps rooted [] cs = cs.
Proof.
  intros (n & pl & Hcs & Hpl & Hr). subst cs.
  destruct rooted.
  - rewrite (Hr eq_refl). simpl. apply (clean_comps_plain true pl []). exact Hpl.
  - change (@nil comp) with (repeat dd 0). rewrite clean_comps_dds.
    rewrite clean_comps_plain by exact Hpl. rewrite rev_repeat.
    replace (n + 0)%nat with n by lia. reflexivity.
Qed.

(* ------------------------------------------------------------------ *)
(* the result of Clean is clean, for every byte string *)

Definition stack_ok (rooted : bool) (out : list comp) : Prop :=
  exists n pl, out = rev pl ++ repeat dd n /\ plain_list pl = true /\ (rooted = true -> n = 0%nat).

Lemma clean_comps_clean rooted cs : forall out,
  forallb noslash cs = true -> stack_ok rooted out -> clean_list rooted (clean_comps rooted out cs).
Proof.
  induction cs as [|c r IH]; intros out Hns (n & pl & Hout & Hpl & Hr).
  - simpl. exists n, pl. subst out.
    rewrite rev_app_distr, rev_involutive, rev_repeat. auto.
  - simpl in Hns. apply andb_true_iff in Hns. destruct Hns as [Hc Hns].
    destruct (is_nil c || is_dot c) eqn:E1.
    { rewrite cc_skip by exact E1. apply IH; [exact Hns|]. exists n, pl. auto. }
    apply orb_false_iff in E1. destruct E1 as [E1 E1'].
    destruct (is_dotdot c) eqn:E2.
    + apply beqb_eq in E2. change [dot; dot] with dd in E2. subst c.
      induction pl as [|x pl' _] using rev_ind.
      * simpl in Hout. subst out. destruct rooted.
        -- rewrite (Hr eq_refl). simpl repeat. rewrite cc_dd_root.
           apply IH; [exact Hns|]. exists 0%nat, []. auto.
        -- rewrite cc_dd_push. apply IH; [exact Hns|]. exists (S n), [].
           split; [reflexivity|]. split; [reflexivity|]. intros HF; discriminate HF.
      * rewrite rev_unit in Hout. simpl in Hout. subst out.
        rewrite plain_list_app in Hpl. apply andb_true_iff in Hpl. destruct Hpl as [Hpl' Hx].
        simpl in Hx. rewrite andb_true_r in Hx.
        pose proof (plain_inv x Hx) as (_ & _ & Hxd & _).
        rewrite cc_dd_pop by exact Hxd. apply IH; [exact Hns|]. exists n, pl'. auto.
    + assert (Hp : plain c = true) by (apply plain_intro; assumption).
      rewrite cc_plain by exact Hp. apply IH; [exact Hns|].
      exists n, (pl ++ [c]). split; [|split].
      * subst out. rewrite rev_unit. reflexivity.
      * rewrite plain_list_app, Hpl. simpl. rewrite Hp. reflexivity.
      * exact Hr.
Qed.

Theorem cleaned_clean s : clean_list (fst (cleaned s)) (snd (cleaned s)).
Proof.
  unfold cleaned. simpl. apply clean_comps_clean.
  - apply split_all_noslash.
  - exists 0%nat, []. auto.
Qed.
Print Assumptions cleaned_clean.

(* ------------------------------------------------------------------ *)
(* clean lists *)

Lemma clean_list_plain rooted cs : plain_list cs = true -> clean_list rooted cs.
Proof. intros H. exists 0%nat, cs. auto. Qed.

Lemma clean_list_app_plain rooted cs rest :
  clean_list rooted cs -> plain_list rest = true -> clean_list rooted (cs ++ rest).
Proof.
  intros (n & pl & Hcs & Hpl & Hr) Hrest. exists n, (pl ++ rest). split; [|split].
  - subst cs. rewrite app_assoc. reflexivity.
  - rewrite plain_list_app, Hpl, Hrest. reflexivity.
  - exact Hr.
Qed.

Lemma clean_list_noslash rooted cs : clean_list rooted cs -> forallb noslash cs = true.
Proof.
  intros (n & pl & Hcs & Hpl & _). subst cs. rewrite forallb_app.
  rewrite (plain_list_noslash pl Hpl), andb_true_r.
  induction n as [|n IH]; [reflexivity|]. simpl. exact IH.
Qed.

(* the first component of a clean list starts with a byte other than '/' *)
Lemma clean_list_head rooted c r : clean_list rooted (c :: r) ->
  exists b c', c = b :: c' /\ (b =? slash) = false.
Proof.
  intros (n & pl & Hcs & Hpl & _).
  destruct n as [|n].
  - simpl in Hcs. subst pl. simpl in Hpl. apply andb_true_iff in Hpl. destruct Hpl as [Hc _].
    apply plain_inv in Hc. destruct Hc as (Hn & _ & _ & Hs).
    destruct c as [|b c']; [discriminate Hn|].
    exists b, c'. split; [reflexivity|]. simpl in Hs. apply andb_true_iff in Hs.
    destruct Hs as [Hb _]. apply negb_true_iff in Hb. exact Hb.
  - simpl in Hcs. injection Hcs as Hc _. subst c. exists dot, [dot]. split; reflexivity.
Qed.

Lemma is_abs_show rooted cs : clean_list rooted cs -> is_abs (show (rooted, cs)) = rooted.
Proof.
  intros H. destruct rooted; [reflexivity|].
  destruct cs as [|c r]; [reflexivity|].
  destruct (clean_list_head _ _ _ H) as (b & c' & Hc & Hb). subst c.
  destruct r; simpl; exact Hb.
Qed.

(* Clean(show p) = p on clean lists: show is a section of cleaned *)
Theorem cleaned_show rooted cs : clean_list rooted cs -> cleaned (show (rooted, cs)) = (rooted, cs).
Proof.
  intros H. unfold cleaned. rewrite is_abs_show by exact H. f_equal.
  pose proof (clean_list_noslash _ _ H) as Hns.
  destruct rooted.
  - change (show (true, cs)) with (slash :: join_slash cs).
    change (split_slash (slash :: join_slash cs)) with ([] :: split_slash (join_slash cs)).
    rewrite cc_skip by reflexivity.
    destruct cs as [|c r]; [reflexivity|].
    rewrite split_join; [|discriminate|exact Hns]. apply clean_comps_idem. exact H.
  - destruct cs as [|c r]; [reflexivity|].
    change (show (false, c :: r)) with (join_slash (c :: r)).
    rewrite split_join; [|discriminate|exact Hns]. apply clean_comps_idem. exact H.
Qed.
Print Assumptions cleaned_show.

Lemma show_inj rooted a b : clean_list rooted a -> clean_list rooted b ->
  show (rooted, a) = show (rooted, b) -> a = b.
Proof.
  intros Ha Hb E. apply (f_equal cleaned) in E.
  rewrite !cleaned_show in E by assumption. injection E as E. exact E.
Qed.

Lemma show_nonempty rooted cs : clean_list rooted cs -> show (rooted, cs) <> [].
Proof.
  intros H E. pose proof (cleaned_show _ _ H) as Hc. rewrite E in Hc.
  change (cleaned []) with (false, @nil comp) in Hc. injection Hc as Hr Hcs. subst rooted cs.
  discriminate E.
Qed.

Lemma clean_show rooted cs : clean_list rooted cs -> clean (show (rooted, cs)) = show (rooted, cs).
Proof.
  intros H. unfold clean. destruct (show (rooted, cs)) eqn:E.
  - exfalso. exact (show_nonempty _ _ H E).
  - rewrite <- E. rewrite cleaned_show by exact H. reflexivity.
Qed.

Lemma clean_is_show s : s <> [] -> clean s = show (fst (cleaned s), snd (cleaned s)).
Proof. intros H. destruct s; [congruence|]. reflexivity. Qed.

(* filepath.Clean is idempotent *)
Theorem clean_idem s : clean (clean s) = clean s.
Proof.
  destruct s as [|b s]; [reflexivity|].
  rewrite (clean_is_show (b :: s)) by discriminate. apply clean_show. apply cleaned_clean.
Qed.
Print Assumptions clean_idem.

(* ------------------------------------------------------------------ *)
(* Join(a, rest) *)

Lemma is_abs_app a b : a <> [] -> is_abs (a ++ b) = is_abs a.
Proof. intros H. destruct a; [congruence|]. reflexivity. Qed.

Lemma cleaned_app a b : a <> [] ->
  cleaned (a ++ slash :: b) =
  (is_abs a, clean_comps (is_abs a) (rev (snd (cleaned a))) (split_slash b)).
Proof.
  intros H. unfold cleaned. rewrite is_abs_app by exact H. f_equal.
  rewrite split_app, clean_comps_app. reflexivity.
Qed.

Lemma clean_comps_show_rest rooted oc rest : plain_list rest = true ->
  clean_comps rooted (rev oc) (split_slash (show (false, rest))) = oc ++ rest.
Proof.
  intros H. destruct rest as [|c r].
  - change (split_slash (show (false, []))) with [[dot]].
    rewrite cc_skip by reflexivity. simpl. rewrite rev_involutive, app_nil_r. reflexivity.
  - change (show (false, c :: r)) with (join_slash (c :: r)).
    rewrite split_join; [|discriminate|apply plain_list_noslash; exact H].
    rewrite clean_comps_plain by exact H. rewrite rev_involutive. reflexivity.
Qed.

(* Join(a, rest) = the cleaned components of a, then rest *)
Lemma join_below a rest : a <> [] -> plain_list rest = true ->
  join [a; show (false, rest)] = show (fst (cleaned a), snd (cleaned a) ++ rest).
Proof.
  intros Ha Hrest.
  pose proof (show_nonempty false rest (clean_list_plain _ _ Hrest)) as Hs.
  unfold join. destruct a as [|x a']; [congruence|].
  destruct (show (false, rest)) as [|y s'] eqn:E; [congruence|].
  cbn [filter]. change (join_slash [x :: a'; y :: s']) with ((x :: a') ++ slash :: y :: s').
  rewrite clean_is_show by discriminate.
  rewrite cleaned_app by discriminate. rewrite <- E.
  rewrite clean_comps_show_rest by exact Hrest. reflexivity.
Qed.

(* ------------------------------------------------------------------ *)
(* Rel *)

Lemma strip_common_app rc : forall rest, strip_common rc (rc ++ rest) = ([], rest).
Proof.
  induction rc as [|c rc IH]; intros rest.
  - destruct rest; reflexivity.
  - simpl. rewrite beqb_refl. apply IH.
Qed.

(* T1: Rel inverts the prefix *)
Theorem T1_rel_prefix rooted rc rest :
  plain_list rc = true -> plain_list rest = true ->
  rel (show (rooted, rc)) (show (rooted, rc ++ rest)) = Some (show (false, rest)).
Proof.
  intros Hrc Hrest.
  assert (Hcl1 : clean_list rooted rc) by (apply clean_list_plain; exact Hrc).
  assert (Hcl2 : clean_list rooted (rc ++ rest))
    by (apply clean_list_app_plain; assumption).
  unfold rel. rewrite (clean_show _ _ Hcl1), (clean_show _ _ Hcl2).
  destruct rest as [|r0 rest'].
  - rewrite app_nil_r, beqb_refl. reflexivity.
  - assert (Hne : beqb (show (rooted, rc)) (show (rooted, rc ++ r0 :: rest')) = false).
    { apply beqb_neq. intros E. apply show_inj in E; [|assumption|assumption].
      rewrite <- (app_nil_r rc) in E at 1. apply app_inv_head in E. discriminate E. }
    rewrite Hne. rewrite (cleaned_show _ _ Hcl1).
    rewrite (is_abs_show _ _ Hcl2).
    assert (Hnd : beqb (show (rooted, rc ++ r0 :: rest')) [dot] = false).
    { apply beqb_neq. intros E. destruct rooted.
      - discriminate E.
      - change [dot] with (show (false, [])) in E.
        apply show_inj in E; [|assumption|apply clean_list_plain; reflexivity].
        destruct rc; discriminate E. }
    rewrite Hnd. rewrite (cleaned_show _ _ Hcl2). cbn [snd].
    rewrite Bool.eqb_reflx. cbn [negb].
    rewrite strip_common_app. reflexivity.
Qed.
Print Assumptions T1_rel_prefix.

(* T2: Join(root, Rel(root, input)) = input *)
Theorem T2_join_rel rooted rc rest :
  plain_list rc = true -> plain_list rest = true ->
  join [show (rooted, rc); show (false, rest)] = show (rooted, rc ++ rest).
Proof.
  intros Hrc Hrest.
  assert (Hcl1 : clean_list rooted rc) by (apply clean_list_plain; exact Hrc).
  rewrite join_below; [|apply show_nonempty; exact Hcl1|exact Hrest].
  rewrite cleaned_show by exact Hcl1. reflexivity.
Qed.
Print Assumptions T2_join_rel.

Corollary T2_round_trip rooted rc rest r :
  plain_list rc = true -> plain_list rest = true ->
  rel (show (rooted, rc)) (show (rooted, rc ++ rest)) = Some r ->
  join [show (rooted, rc); r] = show (rooted, rc ++ rest).
Proof.
  intros Hrc Hrest H. rewrite T1_rel_prefix in H by assumption. injection H as H. subst r.
  apply T2_join_rel; assumption.
Qed.
Print Assumptions T2_round_trip.

(* ------------------------------------------------------------------ *)
(* new_task_dst *)

Lemma is_dir_output_nonempty output : is_dir_output output = true -> output <> [].
Proof. intros H E. subst output. discriminate H. Qed.

(* T3: the destination mirrors the path below root *)
Theorem T3_dst_mirrors rooted rc rest output :
  plain_list rc = true -> plain_list rest = true -> is_dir_output output = true ->
  new_task_dst (show (rooted, rc)) (show (rooted, rc ++ rest)) output =
  Some (show (fst (cleaned output), snd (cleaned output) ++ rest)).
Proof.
  intros Hrc Hrest Hout. unfold new_task_dst. rewrite Hout.
  rewrite T1_rel_prefix by assumption.
  rewrite join_below; [reflexivity|apply is_dir_output_nonempty; exact Hout|exact Hrest].
Qed.
Print Assumptions T3_dst_mirrors.

(* the form with the pair destructed, as in the statement of the task *)
Corollary T3_dst_mirrors_let rooted rc rest output :
  plain_list rc = true -> plain_list rest = true -> is_dir_output output = true ->
  let (oa, oc) := cleaned output in
  new_task_dst (show (rooted, rc)) (show (rooted, rc ++ rest)) output = Some (show (oa, oc ++ rest)).
Proof.
  intros Hrc Hrest Hout. pose proof (T3_dst_mirrors rooted rc rest output Hrc Hrest Hout) as H.
  destruct (cleaned output) as [oa oc]. exact H.
Qed.
Print Assumptions T3_dst_mirrors_let.

(* the destination components are a clean list: the ".." run of a relative output stays in front *)
Lemma dst_clean_list output rest : plain_list rest = true ->
  clean_list (fst (cleaned output)) (snd (cleaned output) ++ rest).
Proof. intros H. apply clean_list_app_plain; [apply cleaned_clean|exact H]. Qed.

(* T4: no two inputs below the same root share a destination *)
Theorem T4_dst_injective rooted rc rest1 rest2 output :
  plain_list rc = true -> plain_list rest1 = true -> plain_list rest2 = true ->
  is_dir_output output = true ->
  new_task_dst (show (rooted, rc)) (show (rooted, rc ++ rest1)) output =
  new_task_dst (show (rooted, rc)) (show (rooted, rc ++ rest2)) output ->
  rest1 = rest2.
Proof.
  intros Hrc H1 H2 Hout E.
  rewrite !T3_dst_mirrors in E by assumption. injection E as E.
  apply show_inj in E; [|apply dst_clean_list; assumption|apply dst_clean_list; assumption].
  apply app_inv_head in E. exact E.
Qed.
Print Assumptions T4_dst_injective.

(* T5: the destination stays below the output directory: its cleaned components are those of
   the output followed by the components of the input below root, each kept as it is *)
Theorem T5_dst_below rooted rc rest output dst :
  plain_list rc = true -> plain_list rest = true -> is_dir_output output = true ->
  new_task_dst (show (rooted, rc)) (show (rooted, rc ++ rest)) output = Some dst ->
  cleaned dst = (fst (cleaned output), snd (cleaned output) ++ rest).
Proof.
  intros Hrc Hrest Hout E.
  rewrite T3_dst_mirrors in E by assumption. injection E as E. subst dst.
  apply cleaned_show. apply dst_clean_list. exact Hrest.
Qed.
Print Assumptions T5_dst_below.

Corollary T5_dst_comps rooted rc rest output dst :
  plain_list rc = true -> plain_list rest = true -> is_dir_output output = true ->
  new_task_dst (show (rooted, rc)) (show (rooted, rc ++ rest)) output = Some dst ->
  snd (cleaned dst) = snd (cleaned output) ++ rest /\ clean dst = dst.
Proof.
  intros Hrc Hrest Hout E.
  pose proof (T5_dst_below _ _ _ _ _ Hrc Hrest Hout E) as H. rewrite H. split; [reflexivity|].
  rewrite T3_dst_mirrors in E by assumption. injection E as E. subst dst.
  apply clean_show. apply dst_clean_list. exact Hrest.
Qed.
Print Assumptions T5_dst_comps.

(* "." ".a.json" "../out/"  and  "src" "src/sub/.b.css" "out/" *)
Example T5_hidden_1 :
  new_task_dst [46] [46;97;46;106;115;111;110] [46;46;47;111;117;116;47]
  = Some [46;46;47;111;117;116;47;46;97;46;106;115;111;110].
Proof. vm_compute. reflexivity. Qed.

Example T5_hidden_2 :
  new_task_dst [115;114;99] [115;114;99;47;115;117;98;47;46;98;46;99;115;115] [111;117;116;47]
  = Some [111;117;116;47;115;117;98;47;46;98;46;99;115;115].
Proof. vm_compute. reflexivity. Qed.

(* T6: a file output is used as it is *)
Theorem T6_file_output root input output :
  is_dir_output output = false -> new_task_dst root input output = Some output.
Proof. intros H. unfold new_task_dst. rewrite H. reflexivity. Qed.
Print Assumptions T6_file_output.

(* ------------------------------------------------------------------ *)
(* Dir: the hypotheses above are met by root = Dir(input) for a clean input with a file name *)

Lemma join_slash_snoc cs f : cs <> [] -> join_slash (cs ++ [f]) = join_slash cs ++ slash :: f.
Proof.
  induction cs as [|c r IH]; intros H; [congruence|].
  destruct r as [|c2 r'].
  - reflexivity.
  - change (join_slash ((c :: c2 :: r') ++ [f])) with (c ++ slash :: join_slash ((c2 :: r') ++ [f])).
    rewrite IH by discriminate.
    change (join_slash (c :: c2 :: r')) with (c ++ slash :: join_slash (c2 :: r')).
    rewrite <- app_assoc. reflexivity.
Qed.

Lemma last_slash_noslash f : noslash f = true -> forall i found, last_slash f i found = found.
Proof.
  induction f as [|x f IH]; intros H i found; [reflexivity|].
  simpl in H. apply andb_true_iff in H. destruct H as [Hx Hf]. apply negb_true_iff in Hx.
  simpl. rewrite Hx. apply IH. exact Hf.
Qed.

Lemma last_slash_app a f : noslash f = true -> forall i found,
  last_slash (a ++ slash :: f) i found = Some (i + length a)%nat.
Proof.
  intros Hf. induction a as [|x a IH]; intros i found.
  - cbn [app last_slash]. change (slash =? slash) with true. cbv iota.
    rewrite last_slash_noslash by exact Hf. f_equal. simpl. lia.
  - cbn [app last_slash]. rewrite IH. f_equal. simpl. lia.
Qed.

Lemma firstn_S_app {A} (a : list A) x f : firstn (S (length a)) (a ++ x :: f) = a ++ [x].
Proof.
  induction a as [|y a IH]; [reflexivity|].
  cbn [length app]. rewrite firstn_cons. f_equal. exact IH.
Qed.

Lemma dir_app a f : noslash f = true -> dir (a ++ slash :: f) = clean (a ++ [slash]).
Proof.
  intros Hf. unfold dir. rewrite last_slash_app by exact Hf. simpl plus.
  rewrite firstn_S_app. reflexivity.
Qed.

Lemma clean_trailing_slash a : a <> [] -> clean (a ++ [slash]) = show (fst (cleaned a), snd (cleaned a)).
Proof.
  intros H. rewrite clean_is_show by (destruct a; [congruence|discriminate]).
  rewrite cleaned_app by exact H. change (split_slash []) with [@nil byte].
  rewrite cc_skip by reflexivity. simpl. rewrite rev_involutive. reflexivity.
Qed.

(* Dir of a clean path with a last component: the path without it *)
Theorem dir_show rooted rc f : plain_list rc = true -> plain f = true ->
  dir (show (rooted, rc ++ [f])) = show (rooted, rc).
Proof.
  intros Hrc Hf. pose proof (plain_inv f Hf) as (_ & _ & _ & Hns).
  destruct rc as [|c r].
  - destruct rooted.
    + change (show (true, [] ++ [f])) with ([] ++ slash :: f). rewrite dir_app by exact Hns. reflexivity.
    + change (show (false, [] ++ [f])) with f. unfold dir.
      rewrite last_slash_noslash by exact Hns. reflexivity.
  - assert (E : show (rooted, (c :: r) ++ [f]) = show (rooted, c :: r) ++ slash :: f).
    { destruct rooted.
      - change (show (true, (c :: r) ++ [f])) with (slash :: join_slash ((c :: r) ++ [f])).
        rewrite join_slash_snoc by discriminate. reflexivity.
      - change (show (false, (c :: r) ++ [f])) with (join_slash ((c :: r) ++ [f])).
        rewrite join_slash_snoc by discriminate. reflexivity. }
    rewrite E, dir_app by exact Hns.
    assert (Hcl : clean_list rooted (c :: r)) by (apply clean_list_plain; exact Hrc).
    rewrite clean_trailing_slash by (apply show_nonempty; exact Hcl).
    rewrite cleaned_show by exact Hcl. reflexivity.
Qed.
Print Assumptions dir_show.

(* a single file given on the command line: root = Clean(Dir(input)); the destination is the
   output directory followed by the file name *)
Corollary dst_single_file rooted rc f output :
  plain_list rc = true -> plain f = true -> is_dir_output output = true ->
  let input := show (rooted, rc ++ [f]) in
  new_task_dst (clean (dir input)) (clean input) output =
  Some (show (fst (cleaned output), snd (cleaned output) ++ [f])).
Proof.
  intros Hrc Hf Hout input. unfold input.
  assert (Hfl : plain_list [f] = true) by (simpl; rewrite Hf; reflexivity).
  rewrite dir_show by assumption.
  rewrite !clean_show.
  - apply T3_dst_mirrors; assumption.
  - apply clean_list_plain. rewrite plain_list_app, Hrc, Hfl. reflexivity.
  - apply clean_list_plain. exact Hrc.
Qed.
Print Assumptions dst_single_file.
