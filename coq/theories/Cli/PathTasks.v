(* Cli/PathTasks.v — how cmd/minify derives the root of an input (createTasks in main.go):
     root := filepath.Clean(filepath.Dir(input))   computed from the input AS TYPED, then input = filepath.Clean(input);
   for a directory input every file found below it gets NewTask(root, file, output).
     R1  a directory typed without a trailing slash is mirrored itself below the output directory
     R2  a directory typed with a trailing slash: only its contents are mirrored
     R3  a file input lands directly in the output directory under its own name (also typed with a "./" prefix) *)
From MV Require Import Base.MvBytes Cli.PathModel Cli.PathProofs.

Definition task_root (typed : bytes) : bytes := clean (dir typed).
(* an input that is a file *)
Definition file_dst (typed output : bytes) : option bytes :=
  new_task_dst (task_root typed) (clean typed) output.
(* a file found below a directory input; file = clean typed / rest *)
Definition walked_dst (typed file output : bytes) : option bytes :=
  new_task_dst (task_root typed) file output.

Lemma plain_list_snoc rc d : plain_list rc = true -> plain d = true -> plain_list (rc ++ [d]) = true.
Proof. intros Hrc Hd. rewrite plain_list_app, Hrc. simpl. rewrite Hd. reflexivity. Qed.

Lemma plain_list_cons d rest : plain d = true -> plain_list rest = true -> plain_list (d :: rest) = true.
Proof. intros Hd Hrest. simpl. rewrite Hd, Hrest. reflexivity. Qed.

Lemma show_snoc rooted cs f : cs <> [] -> show (rooted, cs ++ [f]) = show (rooted, cs) ++ slash :: f.
Proof.
  intros H. destruct cs as [|c r]; [congruence|]. destruct rooted.
  - change (show (true, (c :: r) ++ [f])) with (slash :: join_slash ((c :: r) ++ [f])).
    rewrite join_slash_snoc by discriminate. reflexivity.
  - change (show (false, (c :: r) ++ [f])) with (join_slash ((c :: r) ++ [f])).
    rewrite join_slash_snoc by discriminate. reflexivity.
Qed.

(* ------------------------------------------------------------------ *)
(* R1: no trailing slash *)

Lemma task_root_no_slash rooted rc d : plain_list rc = true -> plain d = true ->
  task_root (show (rooted, rc ++ [d])) = show (rooted, rc).
Proof.
  intros Hrc Hd. unfold task_root. rewrite dir_show by assumption.
  apply clean_show. apply clean_list_plain. exact Hrc.
Qed.

Theorem R1_dir_no_slash rooted rc d rest output :
  plain_list rc = true -> plain d = true -> plain_list rest = true -> is_dir_output output = true ->
  let typed := show (rooted, rc ++ [d]) in
  task_root typed = show (rooted, rc) /\
  walked_dst typed (show (rooted, rc ++ [d] ++ rest)) output =
  Some (show (fst (cleaned output), snd (cleaned output) ++ [d] ++ rest)).
Proof.
  intros Hrc Hd Hrest Hout typed. unfold typed, walked_dst.
  rewrite task_root_no_slash by assumption. split; [reflexivity|].
  apply T3_dst_mirrors; [exact Hrc| |exact Hout].
  apply plain_list_cons; assumption.
Qed.
Print Assumptions R1_dir_no_slash.

(* ------------------------------------------------------------------ *)
(* R2: trailing slash; cs is any plain list: [] gives "./" (relative) and "//" (rooted) *)

Lemma task_root_slash rooted cs : plain_list cs = true ->
  task_root (show (rooted, cs) ++ [slash]) = show (rooted, cs).
Proof.
  intros Hcs. assert (Hcl : clean_list rooted cs) by (apply clean_list_plain; exact Hcs).
  unfold task_root.
  change (show (rooted, cs) ++ [slash]) with (show (rooted, cs) ++ slash :: []).
  rewrite dir_app by reflexivity.
  rewrite clean_trailing_slash by (apply show_nonempty; exact Hcl).
  rewrite cleaned_show by exact Hcl. apply clean_show. exact Hcl.
Qed.

Theorem R2_dir_slash_gen rooted cs rest output :
  plain_list cs = true -> plain_list rest = true -> is_dir_output output = true ->
  let typed := show (rooted, cs) ++ [47] in
  task_root typed = show (rooted, cs) /\
  walked_dst typed (show (rooted, cs ++ rest)) output =
  Some (show (fst (cleaned output), snd (cleaned output) ++ rest)).
Proof.
  intros Hcs Hrest Hout typed. unfold typed, walked_dst. change 47 with slash.
  rewrite task_root_slash by exact Hcs. split; [reflexivity|].
  apply T3_dst_mirrors; assumption.
Qed.
Print Assumptions R2_dir_slash_gen.

Theorem R2_dir_slash rooted rc d rest output :
  plain_list rc = true -> plain d = true -> plain_list rest = true -> is_dir_output output = true ->
  let typed := show (rooted, rc ++ [d]) ++ [47] in
  task_root typed = show (rooted, rc ++ [d]) /\
  walked_dst typed (show (rooted, rc ++ [d] ++ rest)) output =
  Some (show (fst (cleaned output), snd (cleaned output) ++ rest)).
Proof.
  intros Hrc Hd Hrest Hout. rewrite (app_assoc rc [d] rest).
  apply R2_dir_slash_gen; [apply plain_list_snoc; assumption|exact Hrest|exact Hout].
Qed.
Print Assumptions R2_dir_slash.

(* typed "./" or ".": root ".", the files below keep their whole relative path *)
Theorem R2_dot rest output :
  plain_list rest = true -> is_dir_output output = true ->
  task_root [46; 47] = [46] /\ task_root [46] = [46] /\
  walked_dst [46; 47] (show (false, rest)) output =
    Some (show (fst (cleaned output), snd (cleaned output) ++ rest)) /\
  walked_dst [46] (show (false, rest)) output =
    Some (show (fst (cleaned output), snd (cleaned output) ++ rest)).
Proof.
  intros Hrest Hout. split; [reflexivity|]. split; [reflexivity|].
  unfold walked_dst. change (task_root [46; 47]) with (show (false, [])).
  change (task_root [46]) with (show (false, [])).
  split; apply (T3_dst_mirrors false [] rest output); auto.
Qed.
Print Assumptions R2_dot.

(* ------------------------------------------------------------------ *)
(* R3: a file input *)

Theorem R3_file rooted rc f output :
  plain_list rc = true -> plain f = true -> is_dir_output output = true ->
  file_dst (show (rooted, rc ++ [f])) output =
  Some (show (fst (cleaned output), snd (cleaned output) ++ [f])).
Proof.
  intros Hrc Hf Hout. exact (dst_single_file rooted rc f output Hrc Hf Hout).
Qed.
Print Assumptions R3_file.

(* typed with a "./" prefix: not a clean path *)
Lemma cleaned_dotslash cs : plain_list cs = true ->
  cleaned ([dot; slash] ++ show (false, cs)) = (false, cs).
Proof.
  intros Hcs. change ([dot; slash] ++ show (false, cs)) with ([dot] ++ slash :: show (false, cs)).
  rewrite cleaned_app by discriminate.
  change (is_abs [dot]) with false. change (snd (cleaned [dot])) with (@nil comp).
  rewrite (clean_comps_show_rest false [] cs Hcs). reflexivity.
Qed.

Lemma clean_dotslash cs : plain_list cs = true ->
  clean ([dot; slash] ++ show (false, cs)) = show (false, cs).
Proof.
  intros Hcs. rewrite clean_is_show by discriminate. rewrite cleaned_dotslash by exact Hcs. reflexivity.
Qed.

Lemma task_root_dotslash rc f : plain_list rc = true -> plain f = true ->
  task_root ([dot; slash] ++ show (false, rc ++ [f])) = show (false, rc).
Proof.
  intros Hrc Hf. pose proof (plain_inv f Hf) as (_ & _ & _ & Hns).
  unfold task_root. destruct rc as [|c r].
  - change ([dot; slash] ++ show (false, [] ++ [f])) with ([dot] ++ slash :: f).
    rewrite dir_app by exact Hns. reflexivity.
  - rewrite show_snoc by discriminate. rewrite app_assoc.
    rewrite dir_app by exact Hns.
    rewrite clean_trailing_slash by discriminate.
    rewrite cleaned_dotslash by exact Hrc.
    apply clean_show. apply clean_list_plain. exact Hrc.
Qed.

Theorem R3_file_dotslash rc f output :
  plain_list rc = true -> plain f = true -> is_dir_output output = true ->
  let typed := [46; 47] ++ show (false, rc ++ [f]) in
  task_root typed = show (false, rc) /\ clean typed = show (false, rc ++ [f]) /\
  file_dst typed output = Some (show (fst (cleaned output), snd (cleaned output) ++ [f])).
Proof.
  intros Hrc Hf Hout typed. unfold typed, file_dst. change [46; 47] with [dot; slash].
  rewrite task_root_dotslash by assumption.
  rewrite clean_dotslash by (apply plain_list_snoc; assumption).
  split; [reflexivity|]. split; [reflexivity|].
  apply T3_dst_mirrors; [exact Hrc| |exact Hout].
  apply plain_list_cons; [exact Hf|reflexivity].
Qed.
Print Assumptions R3_file_dotslash.

(* ------------------------------------------------------------------ *)

(* "src" (directory), file "src/a/b.js", "out/" -> "out/src/a/b.js" *)
Example ex_dir_no_slash :
  walked_dst [115;114;99] [115;114;99;47;97;47;98;46;106;115] [111;117;116;47] = Some [111;117;116;47;115;114;99;47;97;47;98;46;106;115].
Proof. vm_compute. reflexivity. Qed.

(* "src/" (directory), file "src/a/b.js", "out/" -> "out/a/b.js" *)
Example ex_dir_slash :
  walked_dst [115;114;99;47] [115;114;99;47;97;47;98;46;106;115] [111;117;116;47] = Some [111;117;116;47;97;47;98;46;106;115].
Proof. vm_compute. reflexivity. Qed.

(* "./src/x.css" (file), "out/" -> "out/x.css" *)
Example ex_file_dotslash :
  file_dst [46;47;115;114;99;47;120;46;99;115;115] [111;117;116;47] = Some [111;117;116;47;120;46;99;115;115].
Proof. vm_compute. reflexivity. Qed.

(* "/abs/dir/" (directory), file "/abs/dir/.h", "../o/" -> "../o/.h" *)
Example ex_abs_hidden :
  walked_dst [47;97;98;115;47;100;105;114;47] [47;97;98;115;47;100;105;114;47;46;104] [46;46;47;111;47] = Some [46;46;47;111;47;46;104].
Proof. vm_compute. reflexivity. Qed.
