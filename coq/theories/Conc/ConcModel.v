(* Conc/ConcModel.v — model for C13: N goroutines using one registered minify.M.
   (1) Calls: each goroutine runs a sequence of atomic steps on its OWN local state, reading the shared state
       (registry, tables, option structs) and never writing it. That no step writes shared state is the frame
       premise; it is discharged on the code by the generated fact file coq/gen/SharedWrites_gen.v (theorem
       shared_writes_ok in Props/C13.v) and exercised under the race detector.
   (2) The registry lock: sync.RWMutex with Go's writer preference (a waiting writer blocks new readers). *)
From MV Require Import Base.MvBytes.

Section Calls.
  Variables shared local : Type.
  Variable tstep : shared -> local -> local.       (* one atomic step of a call: reads shared, updates local *)

  Fixpoint upd_nth (l : list local) (i : nat) (v : local) : list local :=
    match l, i with
    | [], _ => []
    | _ :: r, O => v :: r
    | x :: r, S k => x :: upd_nth r k v
    end.

  (* a schedule is the sequence of goroutine ids whose step runs next *)
  Fixpoint run_sched (s : shared) (ls : list local) (sc : list nat) : list local :=
    match sc with
    | [] => ls
    | i :: r =>
      match nth_error ls i with
      | Some li => run_sched s (upd_nth ls i (tstep s li)) r
      | None => run_sched s ls r
      end
    end.
End Calls.

(* ---------- sync.RWMutex, writer-preferring ---------- *)
Record rw := { readers : nat; writer : bool; waiting : nat }.
Definition rw_init : rw := {| readers := 0; writer := false; waiting := 0 |}.

Inductive rwop := RLock | RUnlock | LockRequest | LockAcquire | Unlock.

Definition rw_enabled (m : rw) (o : rwop) : bool :=
  match o with
  | RLock => negb (writer m) && Nat.eqb (waiting m) 0
  | RUnlock => Nat.ltb 0 (readers m)
  | LockRequest => true
  | LockAcquire => Nat.ltb 0 (waiting m) && negb (writer m) && Nat.eqb (readers m) 0
  | Unlock => writer m
  end.

Definition rw_step (m : rw) (o : rwop) : rw :=
  match o with
  | RLock => {| readers := S (readers m); writer := writer m; waiting := waiting m |}
  | RUnlock => {| readers := pred (readers m); writer := writer m; waiting := waiting m |}
  | LockRequest => {| readers := readers m; writer := writer m; waiting := S (waiting m) |}
  | LockAcquire => {| readers := readers m; writer := true; waiting := pred (waiting m) |}
  | Unlock => {| readers := readers m; writer := false; waiting := waiting m |}
  end.

Definition is_read_op (o : rwop) : bool := match o with RLock | RUnlock => true | _ => false end.
