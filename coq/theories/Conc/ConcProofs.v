(* Conc/ConcProofs.v — interleavings do not matter for calls that only read shared state; readers never block
   readers (also when nested) as long as no registration is in flight. *)
From MV Require Import Base.MvBytes Conc.ConcModel.

Section Calls.
  Variables shared local : Type.
  Variable tstep : shared -> local -> local.
  Notation run := (run_sched shared local tstep).
  Notation upd := (upd_nth local).

  Lemma nth_error_upd_same l i v x : nth_error l i = Some x -> nth_error (upd l i v) i = Some v.
  Proof. revert i; induction l as [|y l IH]; intros [|i] H; simpl in *; try discriminate; auto. Qed.

  Lemma nth_error_upd_other l i j v : i <> j -> nth_error (upd l i v) j = nth_error l j.
  Proof.
    revert i j; induction l as [|y l IH]; intros [|i] [|j] H; simpl; auto; try congruence.
  Qed.

  Lemma nth_error_upd_none l i v j : nth_error l j = None -> nth_error (upd l i v) j = None.
  Proof.
    revert i j; induction l as [|y l IH]; intros [|i] [|j] H; simpl in *; auto; discriminate.
  Qed.

  Lemma iter_shift n (f : local -> local) x : Nat.iter n f (f x) = Nat.iter (S n) f x.
  Proof. induction n as [|n IH]; [reflexivity|]. simpl in *. rewrite IH. reflexivity. Qed.

  (* the final state of goroutine i depends only on how many of ITS steps ran — not on the interleaving *)
  Theorem interleaving_irrelevant s sc : forall ls i li,
    nth_error ls i = Some li ->
    nth_error (run s ls sc) i = Some (Nat.iter (count_occ Nat.eq_dec sc i) (tstep s) li).
  Proof.
    induction sc as [|j sc IH]; intros ls i li Hi; [exact Hi|].
    cbn [run_sched count_occ]. destruct (nth_error ls j) as [lj|] eqn:Hj.
    - destruct (Nat.eq_dec j i) as [->|Hne].
      + rewrite Hi in Hj. inversion Hj; subst lj.
        rewrite (IH _ i (tstep s li)) by (eapply nth_error_upd_same; eauto).
        f_equal. destruct (Nat.eq_dec i i) as [_|C]; [|congruence]. apply iter_shift.
      + apply IH. rewrite nth_error_upd_other by exact Hne. exact Hi.
    - destruct (Nat.eq_dec j i) as [->|Hne]; [congruence|]. apply IH. exact Hi.
  Qed.

  (* two schedules that run the same number of steps of each goroutine end in the same states:
     in particular any interleaving equals the sequential execution *)
  Corollary schedules_agree s sc sc' ls :
    (forall i, count_occ Nat.eq_dec sc i = count_occ Nat.eq_dec sc' i) ->
    forall i, nth_error (run s ls sc) i = nth_error (run s ls sc') i.
  Proof.
    intros H i. destruct (nth_error ls i) as [li|] eqn:Hi.
    - rewrite (interleaving_irrelevant s sc ls i li Hi), (interleaving_irrelevant s sc' ls i li Hi), H. reflexivity.
    - assert (Hn : forall sc0 ls0, nth_error ls0 i = None -> nth_error (run s ls0 sc0) i = None).
      { induction sc0 as [|j sc0 IH]; intros ls0 H0; [exact H0|]. cbn [run_sched].
        destruct (nth_error ls0 j); [apply IH; apply nth_error_upd_none; exact H0 | apply IH; exact H0]. }
      rewrite !Hn by exact Hi. reflexivity.
  Qed.
End Calls.

(* ---------- RWMutex ---------- *)
Fixpoint rw_run (m : rw) (ops : list rwop) : option rw :=
  match ops with
  | [] => Some m
  | o :: r => if rw_enabled m o then rw_run (rw_step m o) r else None
  end.

(* with only read-side operations (no registration in flight) no writer holds or waits, in every reachable state *)
Lemma read_only_invariant ops : forall m m', forallb is_read_op ops = true ->
  writer m = false -> waiting m = 0%nat -> rw_run m ops = Some m' -> writer m' = false /\ waiting m' = 0%nat.
Proof.
  induction ops as [|o ops IH]; intros m m' Hr Hw Hq H; cbn [rw_run] in H.
  - inversion H; subst. auto.
  - cbn [forallb] in Hr. apply andb_true_iff in Hr as [Ho Hr].
    destruct (rw_enabled m o); [|discriminate].
    apply (IH (rw_step m o) m' Hr); auto; destruct o; simpl in *; auto; discriminate.
Qed.

(* ... so RLock is enabled there: no call blocks on another, also when a call re-enters the lock (nested RLock) *)
Theorem no_writer_no_block ops m' :
  forallb is_read_op ops = true -> rw_run rw_init ops = Some m' -> rw_enabled m' RLock = true.
Proof.
  intros Hr H. destruct (read_only_invariant ops rw_init m' Hr eq_refl eq_refl H) as (Hw & Hq).
  unfold rw_enabled. rewrite Hw, Hq. reflexivity.
Qed.

(* the documented exclusion is real: with a registration waiting, a nested RLock blocks (writer preference) *)
Theorem nested_rlock_blocks_with_waiting_writer :
  exists m, rw_run rw_init [RLock; LockRequest] = Some m /\ rw_enabled m RLock = false.
Proof. eexists. split; reflexivity. Qed.
