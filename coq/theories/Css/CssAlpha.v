(* Css/CssAlpha.v — F2 model of minifyNumberPercentage of /repo/css/css.go: the alpha value of rgb()/hsl() (and other number /
   percentage slots) is written in the shorter of its two spellings AFTER the token has been minified as a number:
     X0%   -> .X       (a percentage token of three bytes whose second byte is 0)
     .0X   -> X%       (a number token of three bytes)
     .00R  -> .R%      (a number token starting .00 followed by a digit)
   Data of a percentage token includes the % sign.  The function shuffles bytes in place; the model states the result.
   No proofs in this file; extracted and compared with the alpha value css.Minify writes. *)
From MV Require Import Base.MvBytes.

Definition pct : byte := 37.
Definition dotc : byte := 46.
Definition c0 : byte := 48.

Definition at_ (i : nat) (d : bytes) : byte := nth i d 0.

(* (is the token a percentage?, its data) -> the same for the result *)
Definition min_number_percentage (is_pct : bool) (d : bytes) : bool * bytes :=
  if is_pct then
    if Nat.eqb (length d) 3 && (at_ 1 d =? c0) then (false, [dotc; at_ 0 d]) else (true, d)
  else if Nat.ltb 2 (length d) && (at_ 0 d =? dotc) && (at_ 1 d =? c0) then
    if at_ 2 d =? c0 then
      (* (repair of K137) only when a digit follows: a zero whose huge exponent was left alone, .00e999..., stays *)
      if Nat.ltb 3 (length d) && is_digit (at_ 3 d) then (true, dotc :: skipn 3 d ++ [pct]) else (false, d)
    else if Nat.eqb (length d) 3 then (true, [at_ 2 d; pct])
    else (false, d)
  else (false, d).
