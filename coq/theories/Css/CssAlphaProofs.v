(* Css/CssAlphaProofs.v — minifyNumberPercentage (Css/CssAlpha.v, with the repair of K137): value, size and grammar of the
   rewritten token.

   A number token d denotes num_value d = (m, e), i.e. m * 10^e; a percentage token d = s ++ "%" denotes num_value s / 100,
   i.e. (m, e - 2).  [tok_value] is that denotation; [None] = the data is not in the grammar (number, resp. number followed
   by %).

   RESULT.  For a token in the grammar the rewritten token is in the grammar and denotes the same rational EXACTLY WHEN
   [alpha_pre] holds (min_number_percentage_value / _grammar one way, alpha_pre_necessary the other way):
     percentage:  data of three bytes with second byte 0   ->  the first byte is a digit
     number:      nothing (since the repair the .00R rewrite fires only when R starts with a digit)
   Minimality is not needed (00% -> .0, .0001 -> .01%, .000e5 -> .0e5% keep their value).  The tokens of the grammar that
   violate alpha_pre are exactly   -0%  +0%  .0%   (result .-  .+  ..); the Go comment says "assumes input already
   minified", and the number minifier never returns them: number0_alpha_pre_pct for minify.Number,
   css_number_alpha_pre_pct for minifyNumber with either setting of KeepCSS2.
   Before the repair the number case needed "the fourth byte of .00R is a digit", which minify.Number does not establish
   for a zero whose exponent does not fit in an int64 (it gives such a number back unchanged):
   rgba(1,2,3,.00e99999999999999999999) came out as rgba(1,2,3,.e99999999999999999999%).  alpha_repaired below: the token
   now stays as it is.
   alpha_number_value / alpha_percentage_value: minifyNumber followed by minifyNumberPercentage keeps the value, for every
   lexeme and both settings of KeepCSS2.  The size theorem needs no hypothesis at all. *)
From MV Require Import Base.MvBytes Num.NumModel Num.NumSpec Num.NumProofs Num.NumberLemmas Num.NumberProofs
  Css.CssDim Css.CssDimSpec Css.CssDimProofs Css.CssAlpha.

(* ---------- 1. the value of a token ---------- *)
Definition shift2 (v : option (Z * Z)) : option (Z * Z) :=
  match v with Some (m, e) => Some (m, e - 2) | None => None end.

Definition tok_value (is_pct : bool) (d : bytes) : option (Z * Z) :=
  if is_pct then
    match rev d with
    | c :: r => if c =? 37 then shift2 (num_value (rev r)) else None
    | [] => None
    end
  else num_value d.

Lemma tok_value_pct s : tok_value true (s ++ [37]) = shift2 (num_value s).
Proof. unfold tok_value. rewrite rev_app_distr. cbn [rev app]. change (37 =? 37) with true. cbv iota. rewrite rev_involutive. reflexivity. Qed.

Lemma tok_value_num d : tok_value false d = num_value d.
Proof. reflexivity. Qed.

(* a percentage has a value iff it is a number of the grammar followed by % *)
Lemma tok_value_pct_inv d v : tok_value true d = Some v ->
  exists s p, d = s ++ [37] /\ lex_number s = Some p /\ v = (fst (value p), snd (value p) - 2).
Proof.
  unfold tok_value. intros H. destruct (rev d) as [|c r] eqn:Er; [discriminate|].
  destruct (c =? 37) eqn:Ec; [|discriminate]. apply Z.eqb_eq in Ec. subst c.
  unfold num_value in H. destruct (lex_number (rev r)) as [p|] eqn:El; [|discriminate].
  exists (rev r), p. split; [|split; [exact El|]].
  - rewrite <- (rev_involutive d), Er. reflexivity.
  - cbn [shift2] in H. destruct (value p) as [m e]. inversion H. reflexivity.
Qed.

Lemma tok_value_num_inv d v : tok_value false d = Some v -> exists p, lex_number d = Some p /\ v = value p.
Proof.
  unfold tok_value, num_value. destruct (lex_number d) as [p|]; [|discriminate]. intros H. inversion H. exists p. auto.
Qed.

(* ---------- the precondition ---------- *)
Definition alpha_pre (is_pct : bool) (d : bytes) : Prop :=
  if is_pct then
    length d = 3%nat -> at_ 1 d = 48 -> is_digit (at_ 0 d) = true
  else True.

(* ---------- lexing a number that starts with a dot ---------- *)
Definition lex_tail (F r2 : bytes) : option lexed :=
  match r2 with
  | [] => Some {| l_sign := 0; l_I := []; l_dot := true; l_F := F;
                  l_exp := false; l_echar := 0; l_esign := 0; l_E := [] |}
  | c :: r =>
    if (c =? ce) || (c =? cE) then
      let (es, r3) := take_sign r in
      let (E, r4) := span_digits r3 in
      match E, r4 with
      | _ :: _, [] => Some {| l_sign := 0; l_I := []; l_dot := true; l_F := F;
                              l_exp := true; l_echar := c; l_esign := es; l_E := E |}
      | _, _ => None
      end
    else None
  end.

Lemma lex_dot X : lex_number (46 :: X) =
  match span_digits X with
  | ([], _) => None
  | (c :: F, r2) => lex_tail (c :: F) r2
  end.
Proof.
  unfold lex_number. cbn [take_sign]. change (46 =? cminus) with false. change (46 =? cplus) with false. cbv iota.
  cbn [span_digits]. change (is_digit 46) with false. cbv iota. change (46 =? cdot) with true. cbv iota.
  destruct (span_digits X) as [[|c F] r2]; reflexivity.
Qed.

Definition set_F (p : lexed) (F : bytes) : lexed :=
  {| l_sign := l_sign p; l_I := l_I p; l_dot := l_dot p; l_F := F;
     l_exp := l_exp p; l_echar := l_echar p; l_esign := l_esign p; l_E := l_E p |}.

Lemma lex_tail_fields F r2 p : lex_tail F r2 = Some p ->
  l_sign p = 0 /\ l_I p = [] /\ l_dot p = true /\ l_F p = F.
Proof.
  unfold lex_tail. destruct r2 as [|c r].
  - intros H; inversion H; subst p; auto.
  - destruct ((c =? ce) || (c =? cE)); [|discriminate].
    destruct (take_sign r) as [es r3]. destruct (span_digits r3) as [[|e E] [|x r4]]; try discriminate.
    intros H; inversion H; subst p; auto.
Qed.

Lemma lex_tail_set_F F1 F2 r2 p : lex_tail F1 r2 = Some p -> lex_tail F2 r2 = Some (set_F p F2).
Proof.
  unfold lex_tail. destruct r2 as [|c r].
  - intros H; inversion H; subst p; reflexivity.
  - destruct ((c =? ce) || (c =? cE)); [|discriminate].
    destruct (take_sign r) as [es r3]. destruct (span_digits r3) as [[|e E] [|x r4]]; try discriminate.
    intros H; inversion H; subst p; reflexivity.
Qed.

Lemma value_dot p : l_sign p = 0 -> l_I p = [] ->
  value p = (digits_val (l_F p), exp_z p - zlen (l_F p)).
Proof.
  intros Hs HI. unfold value. rewrite Hs, HI. change (0 =? 2) with false. cbv iota. cbn [app].
  f_equal. lia.
Qed.

Lemma exp_z_set_F p F : exp_z (set_F p F) = exp_z p.
Proof. reflexivity. Qed.

Lemma digits_val_00 l : digits_val (48 :: 48 :: l) = digits_val l.
Proof. rewrite !digits_val_cons. lia. Qed.

Lemma span_digits_cons_digit c r : is_digit c = true ->
  span_digits (c :: r) = (c :: fst (span_digits r), snd (span_digits r)).
Proof. intros H. cbn [span_digits]. rewrite H. destruct (span_digits r); reflexivity. Qed.

Lemma span_digits_cons_nondigit c r : is_digit c = false -> span_digits (c :: r) = ([], c :: r).
Proof. intros H. cbn [span_digits]. rewrite H. reflexivity. Qed.

Lemma digit_cases a : is_digit a = true ->
  a = 48 \/ a = 49 \/ a = 50 \/ a = 51 \/ a = 52 \/ a = 53 \/ a = 54 \/ a = 55 \/ a = 56 \/ a = 57.
Proof. unfold is_digit. intros H. apply andb_true_iff in H as [H1 H2]. apply Z.leb_le in H1, H2. lia. Qed.

(* the three rewriting cases, as equations *)
Lemma mnp_pct a : min_number_percentage true [a; 48; 37] = (false, [46; a]).
Proof. reflexivity. Qed.

Lemma mnp_num_00 c R : is_digit c = true ->
  min_number_percentage false (46 :: 48 :: 48 :: c :: R) = (true, (46 :: c :: R) ++ [37]).
Proof.
  intros Hc. unfold min_number_percentage. cbn [length Nat.ltb Nat.leb andb at_ nth].
  change (46 =? dotc) with true. change (48 =? c0) with true. cbn [andb]. rewrite Hc. reflexivity.
Qed.

Lemma mnp_num_0x x : x <> 48 -> min_number_percentage false [46; 48; x] = (true, [x; 37]).
Proof.
  intros Hx. unfold min_number_percentage. cbn [length Nat.ltb Nat.leb andb at_ nth].
  change (46 =? dotc) with true. change (48 =? c0) with true. cbn [andb].
  apply Z.eqb_neq in Hx. unfold c0. rewrite Hx. reflexivity.
Qed.

(* which tokens are rewritten at all *)
Inductive alpha_case (is_pct : bool) (d : bytes) : Prop :=
| AC_pct a c : is_pct = true -> d = [a; 48; c] -> alpha_case is_pct d
| AC_00 c R : is_pct = false -> d = 46 :: 48 :: 48 :: c :: R -> is_digit c = true -> alpha_case is_pct d
| AC_0x x : is_pct = false -> d = [46; 48; x] -> x <> 48 -> alpha_case is_pct d
| AC_same : min_number_percentage is_pct d = (is_pct, d) -> alpha_case is_pct d.

Lemma alpha_cases is_pct d : alpha_case is_pct d.
Proof.
  destruct is_pct.
  - destruct d as [|a [|b [|c [|x d]]]]; try (apply AC_same; reflexivity).
    destruct (Z.eq_dec b 48) as [->|Hb]; [eapply AC_pct; reflexivity|].
    apply AC_same. unfold min_number_percentage. cbn [length Nat.eqb andb at_ nth].
    apply Z.eqb_neq in Hb. unfold c0. rewrite Hb. reflexivity.
  - destruct d as [|a [|b [|c R]]]; try (apply AC_same; reflexivity).
    destruct (Z.eq_dec a 46) as [->|Ha].
    + destruct (Z.eq_dec b 48) as [->|Hb].
      * destruct (Z.eq_dec c 48) as [->|Hc].
        { destruct R as [|y R]; [apply AC_same; reflexivity|].
          destruct (is_digit y) eqn:Ey; [eapply AC_00; [reflexivity | reflexivity | exact Ey]|].
          apply AC_same. unfold min_number_percentage. cbn [length Nat.ltb Nat.leb andb at_ nth].
          change (46 =? dotc) with true. change (48 =? c0) with true. cbn [andb]. rewrite Ey. reflexivity. }
        destruct R as [|y R]; [eapply AC_0x; auto|].
        apply AC_same. unfold min_number_percentage. cbn [length Nat.ltb Nat.leb Nat.eqb andb at_ nth].
        change (46 =? dotc) with true. change (48 =? c0) with true. cbn [andb].
        apply Z.eqb_neq in Hc. unfold c0. rewrite Hc. reflexivity.
      * apply AC_same. unfold min_number_percentage. cbn [length Nat.ltb Nat.leb andb at_ nth].
        apply Z.eqb_neq in Hb. unfold c0. rewrite Hb. rewrite andb_false_r. reflexivity.
    + apply AC_same. unfold min_number_percentage. cbn [length Nat.ltb Nat.leb andb at_ nth].
      apply Z.eqb_neq in Ha. unfold dotc. rewrite Ha. reflexivity.
Qed.

(* ---------- 2. the value is kept ---------- *)
Lemma same_num_refl v : same_num (Some v) (Some v).
Proof. apply val_eq_refl. Qed.

Lemma value_case_pct a : is_digit a = true ->
  same_num (tok_value false [46; a]) (tok_value true [a; 48; 37]).
Proof.
  intros Ha. apply digit_cases in Ha.
  repeat (destruct Ha as [Ha|Ha]; [subst a; vm_compute; reflexivity|]). subst a; vm_compute; reflexivity.
Qed.

Lemma value_case_0x x v : tok_value false [46; 48; x] = Some v -> x <> 48 ->
  same_num (tok_value true [x; 37]) (Some v).
Proof.
  intros Hv Hx. destruct (is_digit x) eqn:Ed.
  - apply digit_cases in Ed.
    repeat (destruct Ed as [Ed|Ed]; [subst x; vm_compute in Hv; inversion Hv; subst v; vm_compute; try reflexivity; congruence|]).
    subst x; vm_compute in Hv; inversion Hv; subst v; vm_compute; reflexivity.
  - exfalso. unfold tok_value, num_value in Hv. rewrite lex_dot in Hv.
    cbn [span_digits] in Hv. change (is_digit 48) with true in Hv. rewrite Ed in Hv. cbv iota in Hv.
    unfold lex_tail in Hv.
    destruct ((x =? ce) || (x =? cE)); discriminate.
Qed.

Lemma value_case_00 c R v : is_digit c = true -> tok_value false (46 :: 48 :: 48 :: c :: R) = Some v ->
  tok_value true ((46 :: c :: R) ++ [37]) = Some v.
Proof.
  intros Hc Hv. rewrite tok_value_pct. unfold tok_value, num_value in *.
  rewrite lex_dot in Hv |- *.
  cbn [span_digits] in Hv |- *. change (is_digit 48) with true in Hv. rewrite Hc in Hv |- *.
  destruct (span_digits R) as [F r2]. cbv iota in Hv |- *.
  match type of Hv with context [lex_tail ?a ?b] => destruct (lex_tail a b) as [p|] eqn:El end; [|discriminate Hv].
  rewrite (lex_tail_set_F _ (c :: F) _ _ El).
  destruct (lex_tail_fields _ _ _ El) as (Hs & HI & Hd & HF).
  inversion Hv; subst v; clear Hv.
  rewrite (value_dot p Hs HI), (value_dot (set_F p (c :: F)) Hs HI), exp_z_set_F, HF.
  cbn [set_F l_F shift2]. rewrite digits_val_00. f_equal. f_equal.
  unfold zlen. cbn [length]. lia.
Qed.

Theorem min_number_percentage_value : forall is_pct d v,
  tok_value is_pct d = Some v ->
  alpha_pre is_pct d ->
  same_num (tok_value (fst (min_number_percentage is_pct d)) (snd (min_number_percentage is_pct d))) (Some v).
Proof.
  intros is_pct d v Hv Hpre.
  destruct (alpha_cases is_pct d) as [a c Hp Hd|c R Hp Hd Hdig|x Hp Hd Hx|Hsame]; subst.
  - (* X0% *)
    assert (c = 37).
    { destruct (tok_value_pct_inv _ _ Hv) as (s & p & Hd & _).
      destruct s as [|s1 [|s2 [|s3 s]]]; inversion Hd; auto. destruct s; discriminate. }
    subst c. rewrite mnp_pct. cbn [fst snd]. rewrite <- Hv.
    apply value_case_pct. apply Hpre; reflexivity.
  - (* .00R *)
    pose proof (mnp_num_00 c R Hdig) as E. unfold bytes, byte in *. rewrite E. cbn [fst snd].
    exact (eq_ind_r (fun t => same_num t (Some v)) (same_num_refl v) (value_case_00 c R v Hdig Hv)).
  - (* .0X *)
    rewrite (mnp_num_0x x Hx). cbn [fst snd]. apply value_case_0x; assumption.
  - rewrite Hsame. cbn [fst snd]. rewrite Hv. apply same_num_refl.
Qed.

(* ---------- 4. the result is in the grammar ---------- *)
Theorem min_number_percentage_grammar : forall is_pct d v,
  tok_value is_pct d = Some v ->
  alpha_pre is_pct d ->
  exists v', tok_value (fst (min_number_percentage is_pct d)) (snd (min_number_percentage is_pct d)) = Some v'.
Proof.
  intros is_pct d v Hv Hpre. pose proof (min_number_percentage_value is_pct d v Hv Hpre) as H.
  match type of H with same_num ?t _ => destruct t as [v'|] end; [exists v'; reflexivity | destruct H].
Qed.

(* in terms of lex_number: the result is a number of the grammar, or one followed by % *)
Corollary min_number_percentage_grammar_lex : forall is_pct d v,
  tok_value is_pct d = Some v ->
  alpha_pre is_pct d ->
  let r := min_number_percentage is_pct d in
  if fst r then exists s p, snd r = s ++ [37] /\ lex_number s = Some p
  else exists p, lex_number (snd r) = Some p.
Proof.
  intros is_pct d v Hv Hpre r. destruct (min_number_percentage_grammar is_pct d v Hv Hpre) as (v' & H).
  fold r in H. destruct (fst r).
  - destruct (tok_value_pct_inv _ _ H) as (s & p & H1 & H2 & _). exists s, p. auto.
  - destruct (tok_value_num_inv _ _ H) as (p & H1 & _). exists p. auto.
Qed.

(* alpha_pre is the weakest hypothesis: a token of the grammar whose result is in the grammar satisfies it *)
Theorem alpha_pre_necessary : forall is_pct d v v',
  tok_value is_pct d = Some v ->
  tok_value (fst (min_number_percentage is_pct d)) (snd (min_number_percentage is_pct d)) = Some v' ->
  alpha_pre is_pct d.
Proof.
  intros is_pct d v v' Hv Hr. destruct is_pct; unfold alpha_pre.
  - intros Hlen H1. destruct d as [|a [|b [|c [|x d]]]]; try discriminate. cbn [at_ nth] in *. subst b.
    assert (c = 37).
    { destruct (tok_value_pct_inv _ _ Hv) as (s & p & Hd & _).
      destruct s as [|s1 [|s2 [|s3 s]]]; inversion Hd; auto. destruct s; discriminate. }
    subst c. rewrite mnp_pct in Hr. cbn [fst snd] in Hr.
    destruct (is_digit a) eqn:Ea; [reflexivity|]. exfalso.
    unfold tok_value, num_value in Hr. rewrite lex_dot in Hr. cbn [span_digits] in Hr. rewrite Ea in Hr. discriminate.
  - exact I.
Qed.

(* ---------- 3. never longer, and strictly shorter whenever the token changes ---------- *)
Theorem min_number_percentage_not_longer : forall is_pct d,
  (length (snd (min_number_percentage is_pct d)) <= length d)%nat /\
  (min_number_percentage is_pct d <> (is_pct, d) ->
   (length (snd (min_number_percentage is_pct d)) < length d)%nat).
Proof.
  intros is_pct d.
  destruct (alpha_cases is_pct d) as [a c Hp Hd|c R Hp Hd Hdig|x Hp Hd Hx|Hsame]; subst.
  - cbn [min_number_percentage length Nat.eqb andb at_ nth fst snd]. change (48 =? c0) with true. cbn [andb snd length]. lia.
  - pose proof (mnp_num_00 c R Hdig) as E. unfold bytes, byte in *. rewrite E. cbn [snd]. rewrite !app_length. cbn [length]. unfold byte. lia.
  - rewrite (mnp_num_0x x Hx). cbn [snd length]. lia.
  - rewrite Hsame. cbn [snd]. split; [lia | intros H; elim H; reflexivity].
Qed.

(* the data alone: changed data is shorter data *)
Corollary min_number_percentage_data_shorter : forall is_pct d,
  snd (min_number_percentage is_pct d) <> d ->
  (length (snd (min_number_percentage is_pct d)) < length d)%nat.
Proof.
  intros is_pct d H. apply min_number_percentage_not_longer. intros E. rewrite E in H. apply H. reflexivity.
Qed.

(* ---------- "assumes input already minified": what minify.Number (number0) guarantees ---------- *)
(* a digit other than 0 at the head *)
Definition nzhead (l : bytes) : Prop := exists c r, l = c :: r /\ is_digit c = true /\ c <> 48.

(* every output of the general branch of number_lx starts with a digit 1-9, or with . 0* and then a digit 1-9 *)
Definition out_shape (out : bytes) : Prop :=
  nzhead out \/ (exists j t, out = 46 :: zeros j ++ t /\ nzhead t).

Lemma nzhead_app a b : nzhead a -> nzhead (a ++ b).
Proof. intros (c & r & -> & H1 & H2). exists c, (r ++ b). auto. Qed.

Lemma all_digits_head c r : all_digits (c :: r) -> is_digit c = true.
Proof. intros H. inversion H; auto. Qed.

Lemma mant_head p Ip Fp D mnorm Ip2 : wf_lexed p -> trim p = (Ip, Fp) ->
  negb (negb (is_nil Fp)) && is_zero_int Ip = false ->
  nl_mant Ip Fp = (D, mnorm, Ip2) ->
  nzhead D /\ (nzhead Ip2 \/ (Ip2 = [] /\ Fp <> [] /\ exists j, Fp = zeros j ++ D)).
Proof.
  intros Hwf Ht Hz Hm.
  pose proof (trim_spec p Ip Fp Hwf Ht) as (HIp & HFp & _ & _ & _ & Hnd & _ & Hrev & Hhd).
  unfold nl_mant in Hm. destruct Fp as [|f Fp'].
  - (* no fraction *)
    cbn [is_nil negb andb] in Hm, Hz. inversion Hm; subst D mnorm Ip2; clear Hm.
    destruct (trim_head p Ip [] Hwf Ht Hz) as (c & r & HIpc & Hc).
    destruct (strip_back_spec Ip) as (t & Hspl & _).
    assert (HD : all_digits (strip_zeros_back Ip)) by (apply all_digits_strip_back; auto).
    assert (Hnz : nzhead (strip_zeros_back Ip)).
    { destruct (strip_zeros_back Ip) as [|x D'] eqn:ED.
      - cbn [app] in Hspl. pose proof (zeros_head t) as Hh. rewrite <- Hspl, HIpc in Hh. elim Hc. exact Hh.
      - cbn [app] in Hspl. rewrite HIpc in Hspl. inversion Hspl; subst x.
        exists c, D'. split; [reflexivity|]. split; [apply (all_digits_head _ _ HD) | exact Hc]. }
    split; [exact Hnz | left; exact Hnz].
  - set (Fp := f :: Fp') in *. cbn [is_nil negb] in Hm.
    assert (Hdot : l_dot p = true).
    { destruct (l_dot p); auto. specialize (Hnd eq_refl). discriminate. }
    destruct Ip as [|i Ip'].
    + (* .000D *)
      cbn [is_nil andb] in Hm. inversion Hm; subst D mnorm Ip2; clear Hm.
      destruct (strip_front_spec Fp) as (z & Hspl & Hhead).
      assert (HD : all_digits (strip_zeros_front Fp)) by (apply all_digits_strip_front; auto).
      assert (Hnz : nzhead (strip_zeros_front Fp)).
      { destruct (strip_zeros_front Fp) as [|x D'] eqn:ED.
        - exfalso. rewrite app_nil_r in Hspl. rewrite Hspl, rev_zeros in Hrev.
          pose proof (zeros_head z) as Hh. destruct (zeros z) eqn:Ez; [unfold Fp in Hspl; discriminate | exact (Hrev Hh)].
        - exists x, D'. split; [reflexivity|]. split; [apply (all_digits_head _ _ HD) | exact Hhead]. }
      split; [exact Hnz|]. right. split; [reflexivity|]. split; [unfold Fp; discriminate|]. exists z. exact Hspl.
    + (* I.F *)
      cbn [is_nil andb negb] in Hm. inversion Hm; subst D mnorm Ip2; clear Hm.
      assert (Hnz : nzhead (i :: Ip')).
      { exists i, Ip'. split; [reflexivity|]. split; [apply (all_digits_head _ _ HIp) | apply Hhd; exact Hdot]. }
      split; [exact (nzhead_app (i :: Ip') Fp Hnz) | left; exact Hnz].
Qed.

Lemma nl_out_shape total p o Ip Fp D mnorm Ip2 :
  nzhead D -> (nzhead Ip2 \/ (Ip2 = [] /\ Fp <> [] /\ exists j, Fp = zeros j ++ D)) ->
  out_shape (nl_out total p o Ip Fp D mnorm Ip2).
Proof.
  intros HD HI2. unfold nl_out. cbv zeta.
  destruct (zlen D <=? mnorm + o).
  { left. destruct (zlen D + 3 <=? mnorm + o); apply nzhead_app; exact HD. }
  destruct ((mnorm + o <? -3) && (len_int (mnorm + o) <? len_int (mnorm + o - zlen D)) && negb (is_nil Fp)).
  { right. exists 0%nat, (D ++ [ce; cminus] ++ show_nat (- (mnorm + o))). split; [reflexivity | apply nzhead_app; exact HD]. }
  destruct (- len_int (mnorm + o - zlen D) - 1 <=? mnorm + o).
  { destruct (mnorm + o <? 0).
    - right. exists (Z.to_nat (- (mnorm + o))), D. split; [reflexivity | exact HD].
    - destruct (Z.to_nat (mnorm + o)) as [|q].
      + right. exists 0%nat, D. split; [reflexivity | exact HD].
      + left. destruct HD as (c & r & -> & H1 & H2). cbn [firstn app]. exists c, (firstn q r ++ [cdot] ++ skipn (S q) (c :: r)). auto. }
  match goal with |- out_shape (if ?b then _ else _) => destruct b end.
  { left. apply nzhead_app; exact HD. }
  destruct HI2 as [HI2 | (-> & HFn & j & HFj)].
  - left. apply nzhead_app; exact HI2.
  - right. assert (Hnil : is_nil Fp = false) by (destruct Fp; [elim HFn; reflexivity | reflexivity]).
    rewrite Hnil. cbn [negb].
    exists j, (D ++ [ce; cminus] ++ show_nat (Z.abs o)). split; [|apply nzhead_app; exact HD].
    rewrite HFj. cbn [app]. rewrite <- app_assoc. reflexivity.
Qed.

(* what the shape gives for a percentage *)
Lemma shape_pre_pct (neg : bool) out : out_shape out ->
  alpha_pre true (((if neg then [cminus] else []) ++ out) ++ [37]).
Proof.
  intros Hs. unfold alpha_pre. intros Hlen H1.
  destruct Hs as [(c & r & -> & Hc & Hn) | (j & t & -> & (c & r & -> & Hc & Hn))].
  - destruct neg; cbn [app at_ nth] in *; [|exact Hc].
    destruct r; [elim Hn; exact H1 | cbn [app length] in Hlen; rewrite app_length in Hlen; cbn [length] in Hlen; lia].
  - exfalso. destruct neg; cbn [app length] in Hlen; rewrite !app_length in Hlen; cbn [length] in Hlen; [lia|].
    destruct j as [|j]; cbn [zeros app at_ nth length] in *; [elim Hn; exact H1 | lia].
Qed.

Lemma exp_len s p : lex_number s = Some p -> l_exp p = true -> (3 <= length s)%nat.
Proof.
  intros Hlex He. destruct (lex_number_sound _ _ Hlex) as (Hs & Hsg & HI & HF & HIF & HdF & Hex).
  pose proof (zlen_unlex p) as Hz. rewrite <- Hs, He in Hz. rewrite He in Hex. destruct Hex as (_ & _ & _ & HEn).
  pose proof (zlen_pos _ HEn). pose proof (zlen_sign_bytes (l_sign p)) as (? & _). pose proof (zlen_sign_bytes (l_esign p)) as (? & _).
  pose proof (zlen_nonneg (l_I p)). pose proof (zlen_nonneg (l_F p)).
  assert (1 <= zlen (l_I p) + (if l_dot p then 1 + zlen (l_F p) else 0)).
  { destruct (l_dot p); [lia|]. rewrite (HdF eq_refl) in HIF. destruct HIF as [HIF|HIF]; [|elim HIF; reflexivity].
    pose proof (zlen_pos _ HIF). lia. }
  unfold zlen in *. lia.
Qed.

Lemma nl_guard_0 mnorm n : nl_guard 0 mnorm n = false.
Proof. reflexivity. Qed.

(* the outcomes of number0 on a lexeme: it gives the input back (short input, exponent outside int64, or the overflow
   guard: in the last two cases the number has an exponent), or 0, or [-] followed by an output of the general branch *)
Lemma number0_outcomes s p : lex_number s = Some p ->
  (number0 s = s /\ ((length s <= 1)%nat \/ exp_value p = None \/
     (l_exp p = true /\ exists Ip Fp, trim p = (Ip, Fp) /\ negb (negb (is_nil Fp)) && is_zero_int Ip = false))) \/
  number0 s = [48] \/
  (exists (neg : bool) out, number0 s = (if neg then [cminus] else []) ++ out /\ out_shape out).
Proof.
  intros Hlex. destruct (lex_number_sound _ _ Hlex) as (Hs & Hwf).
  unfold number0. destruct s as [|a [|b s']]; [left; split; [reflexivity|left; cbn; lia] | left; split; [reflexivity|left; cbn; lia] |].
  rewrite Hlex, number_lx_eq. destruct (exp_value p) as [o|] eqn:Ee; [|left; split; [reflexivity|right; left; reflexivity]].
  destruct (exp_spec p o Hwf Ee) as (_ & _ & Hexp).
  destruct (trim p) as [Ip Fp] eqn:Et.
  destruct (negb (negb (is_nil Fp)) && is_zero_int Ip) eqn:Ez; [right; left; reflexivity|].
  destruct (nl_mant Ip Fp) as [[D mnorm] Ip2] eqn:Em.
  destruct (mant_head p Ip Fp D mnorm Ip2 Hwf Et Ez Em) as (HD & HI2).
  destruct (nl_guard o mnorm (zlen D)) eqn:Eg.
  - left. split; [reflexivity|]. right; right.
    destruct Hexp as [(_ & ->) | (He & _)]; [rewrite nl_guard_0 in Eg; discriminate|].
    split; [exact He|]. exists Ip, Fp. auto.
  - right; right. exists (l_sign p =? 2), (nl_out (zlen (a :: b :: s')) p o Ip Fp D mnorm Ip2).
    split; [reflexivity | apply nl_out_shape; assumption].
Qed.

(* percentage: whatever number0 returns for a lexeme, followed by %, satisfies the precondition *)
Theorem number0_alpha_pre_pct : forall s p, lex_number s = Some p -> alpha_pre true (number0 s ++ [37]).
Proof.
  intros s p Hlex. destruct (number0_outcomes s p Hlex) as [(Hsame & Hwhy) | [Hz | (neg & out & Ho & Hsh)]].
  - rewrite Hsame. unfold alpha_pre. intros Hlen H1. rewrite app_length in Hlen. cbn [length] in Hlen.
    assert (Hl2 : length s = 2%nat) by lia.
    assert (He : l_exp p = false).
    { destruct (l_exp p) eqn:He; auto. pose proof (exp_len s p Hlex He). lia. }
    destruct Hwhy as [Hw | [Hw | (Hw & _)]]; [lia | | congruence].
    unfold exp_value in Hw. rewrite He in Hw. discriminate.
  - rewrite Hz. unfold alpha_pre. intros Hlen. discriminate Hlen.
  - rewrite Ho. apply shape_pre_pct. exact Hsh.
Qed.

(* ---------- the same for KeepCSS2 (minifyNumber = minify.Decimal on the mantissa, the exponent kept) ---------- *)
Lemma strip_front_nzhead Fp : all_digits Fp -> Fp <> [] ->
  (match rev Fp with [] => True | c :: _ => c <> NumModel.c0 end) ->
  nzhead (strip_zeros_front Fp) /\ exists j, Fp = zeros j ++ strip_zeros_front Fp.
Proof.
  intros HFp Hne Hrev. destruct (strip_front_spec Fp) as (z & Hspl & Hhead).
  assert (HD : all_digits (strip_zeros_front Fp)) by (apply all_digits_strip_front; auto).
  split; [|exists z; exact Hspl].
  destruct (strip_zeros_front Fp) as [|x D'] eqn:ED.
  - exfalso. rewrite app_nil_r in Hspl. rewrite Hspl, rev_zeros in Hrev.
    pose proof (zeros_head z) as Hh. destruct (zeros z) eqn:Ez; [exact (Hne Hspl) | exact (Hrev Hh)].
  - exists x, D'. split; [reflexivity|]. split; [apply (all_digits_head _ _ HD) | exact Hhead].
Qed.

Lemma decimal0_outcomes s p : lex_number s = Some p -> l_exp p = false ->
  (decimal0 s = s /\ (length s <= 1)%nat) \/ decimal0 s = [48] \/
  (exists (neg : bool) out, decimal0 s = (if neg then [cminus] else []) ++ out /\ out_shape out).
Proof.
  intros Hlex He. destruct (lex_number_sound _ _ Hlex) as (Hs & Hwf).
  unfold decimal0. destruct s as [|a [|b s']]; [left; split; [reflexivity|cbn; lia] | left; split; [reflexivity|cbn; lia] |].
  rewrite Hlex, He. unfold decimal_lx. destruct (trim p) as [Ip Fp] eqn:Et.
  pose proof (trim_spec p Ip Fp Hwf Et) as (HIp & HFp & _ & _ & _ & Hnd & _ & Hrev & Hhd).
  destruct (negb (negb (is_nil Fp)) && is_zero_int Ip) eqn:Ez; [right; left; reflexivity|].
  right; right. exists (l_sign p =? 2), (Ip ++ (if negb (is_nil Fp) then cdot :: Fp else [])). split; [reflexivity|].
  destruct Ip as [|i Ip'].
  - destruct Fp as [|f Fp']; [discriminate Ez|]. right. cbn [is_nil negb app].
    destruct (strip_front_nzhead (f :: Fp') HFp) as (Hnz & j & Hj); [discriminate | exact Hrev |].
    exists j, (strip_zeros_front (f :: Fp')). split; [|exact Hnz]. unfold cdot. f_equal. exact Hj.
  - left. apply nzhead_app. exists i, Ip'. split; [reflexivity|]. split; [apply (all_digits_head _ _ HIp)|].
    destruct (l_dot p) eqn:Ed; [apply Hhd; reflexivity|].
    rewrite (Hnd eq_refl) in Ez, Et. cbn [is_nil negb andb] in Ez.
    destruct (trim_head p _ _ Hwf Et Ez) as (c & r & Hc & Hn). inversion Hc; subst. exact Hn.
Qed.

Lemma out_shape_app out e : out_shape out -> out_shape (out ++ e).
Proof.
  intros [H | (j & t & -> & Ht)]; [left; apply nzhead_app; exact H|].
  right. exists j, (t ++ e). split; [cbn [app]; rewrite <- app_assoc; reflexivity | apply nzhead_app; exact Ht].
Qed.

Lemma out_shape_len out : out_shape out -> (1 <= length out)%nat.
Proof. intros [(c & r & -> & _) | (j & t & -> & _)]; cbn [length]; lia. Qed.

Lemma css_number_keep_cases s p : lex_number s = Some p ->
  (exists c, css_number true s = c :: (if l_exp p then exp_part p else []) /\ c <> 46) \/
  (exists (neg : bool) out, css_number true s = (if neg then [cminus] else []) ++ out /\ out_shape out).
Proof.
  intros Hlex. destruct (lex_number_sound _ _ Hlex) as (Hs & Hwf).
  assert (Hone : forall m q, lex_number m = Some q -> (length m <= 1)%nat -> exists c, m = [c] /\ c <> 46).
  { intros m q Hm Hl. destruct m as [|c [|x m]]; [vm_compute in Hm; discriminate Hm | | cbn [length] in Hl; lia].
    exists c. split; [reflexivity|]. intros ->. vm_compute in Hm. discriminate Hm. }
  destruct (l_exp p) eqn:He.
  - rewrite Hs, (css_number_true_exp p Hwf He).
    pose proof (lex_number_complete _ (wf_mant_of p Hwf)) as Hlm.
    destruct (decimal0_outcomes _ _ Hlm eq_refl) as [(Hsame & Hl) | [Hz | (neg & out & Ho & Hsh)]].
    + left. destruct (Hone _ _ Hlm Hl) as (c & Hc & Hn). exists c. rewrite Hsame, Hc. auto.
    + left. exists 48. rewrite Hz. split; [reflexivity | lia].
    + right. exists neg, (out ++ exp_part p). rewrite Ho, <- app_assoc. split; [reflexivity | apply out_shape_app; exact Hsh].
  - assert (Hcss : css_number true s = decimal0 s) by (rewrite Hs; apply css_number_true_noexp; assumption).
    rewrite Hcss.
    destruct (decimal0_outcomes _ _ Hlex He) as [(Hsame & Hl) | [Hz | (neg & out & Ho & Hsh)]].
    + left. destruct (Hone _ _ Hlex Hl) as (c & Hc & Hn). exists c. rewrite Hsame, Hc. auto.
    + left. exists 48. rewrite Hz. split; [reflexivity | lia].
    + right. exists neg, out. auto.
Qed.

(* minifyNumber with either setting of KeepCSS2 establishes the precondition *)
Theorem css_number_alpha_pre_pct : forall keep s p, lex_number s = Some p -> alpha_pre true (css_number keep s ++ [37]).
Proof.
  intros keep s p Hlex. destruct keep; [|apply (number0_alpha_pre_pct s p Hlex)].
  destruct (css_number_keep_cases s p Hlex) as [(c & Hc & Hn) | (neg & out & Ho & Hsh)].
  - rewrite Hc. unfold alpha_pre. intros Hlen H1. exfalso. destruct (l_exp p) eqn:He.
    + destruct (lex_number_sound _ _ Hlex) as (_ & _ & _ & _ & _ & _ & Hex). rewrite He in Hex.
      destruct Hex as (_ & _ & _ & HEn). unfold exp_part in Hlen. cbn [app length] in Hlen.
      rewrite !app_length in Hlen. cbn [length] in Hlen. destruct (l_E p); [elim HEn; reflexivity | cbn [length] in Hlen; lia].
    + cbn [app length] in Hlen. lia.
  - rewrite Ho. apply shape_pre_pct. exact Hsh.
Qed.

(* ---------- the two steps together: minifyNumber (Css.CssDim.css_number / percentage_token), then
   minifyNumberPercentage: the alpha value css.Minify writes denotes the number that was read ---------- *)
Theorem alpha_number_value : forall keep s p,
  lex_number s = Some p -> zlen s <= 10 ^ 25 ->
  let r := min_number_percentage false (css_number keep s) in
  same_num (tok_value (fst r) (snd r)) (Some (value p)).
Proof.
  intros keep s p Hlex Hlen r. destruct (css_number_lex keep s p Hlex Hlen) as (p' & Hl' & Hv').
  assert (Hv : tok_value false (css_number keep s) = Some (value p')) by (unfold tok_value, num_value; rewrite Hl'; reflexivity).
  pose proof (min_number_percentage_value false _ (value p') Hv I) as H.
  fold r in H. destruct (tok_value (fst r) (snd r)) as [w|]; [|destruct H].
  cbn [same_num] in *. eapply val_eq_trans; eassumption.
Qed.

Theorem alpha_percentage_value : forall keep s p,
  lex_number s = Some p -> zlen s <= 10 ^ 25 ->
  let r := min_number_percentage true (percentage_token keep (s ++ [37])) in
  same_num (tok_value (fst r) (snd r)) (Some (fst (value p), snd (value p) - 2)).
Proof.
  intros keep s p Hlex Hlen r. destruct (css_number_lex keep s p Hlex Hlen) as (p' & Hl' & Hv').
  assert (Hpt : percentage_token keep (s ++ [37]) = css_number keep s ++ [37]).
  { unfold percentage_token. rewrite removelast_last. reflexivity. }
  unfold r. rewrite Hpt. clear r Hpt. set (r := min_number_percentage true (css_number keep s ++ [37])).
  assert (Hv : tok_value true (css_number keep s ++ [37]) = Some (fst (value p'), snd (value p') - 2)).
  { rewrite tok_value_pct. unfold num_value. rewrite Hl'. cbn [shift2]. destruct (value p'); reflexivity. }
  pose proof (min_number_percentage_value true _ _ Hv (css_number_alpha_pre_pct keep s p Hlex)) as H.
  fold r in H. destruct (tok_value (fst r) (snd r)) as [w|]; [|destruct H].
  cbn [same_num] in *. eapply val_eq_trans; [eassumption|].
  destruct (value p') as [m1 e1], (value p) as [m2 e2]. cbn [fst snd].
  replace (e1 - 2) with (-2 + e1) by lia. replace (e2 - 2) with (-2 + e2) by lia.
  apply val_eq_shift. exact Hv'.
Qed.

(* ---------- the inputs outside the precondition ---------- *)
(* in the grammar, result not in the grammar; minify.Number never returns them *)
Example excl_minus0pct : tok_value true [45; 48; 37] = Some (0, -2) /\
  min_number_percentage true [45; 48; 37] = (false, [46; 45]) /\ tok_value false [46; 45] = None /\ number0 [45; 48] = [48].
Proof. vm_compute. auto. Qed.
Example excl_plus0pct : tok_value true [43; 48; 37] = Some (0, -2) /\
  min_number_percentage true [43; 48; 37] = (false, [46; 43]) /\ tok_value false [46; 43] = None /\ number0 [43; 48] = [48].
Proof. vm_compute. auto. Qed.
Example excl_dot0pct : tok_value true [46; 48; 37] = Some (0, -3) /\
  min_number_percentage true [46; 48; 37] = (false, [46; 46]) /\ tok_value false [46; 46] = None /\ number0 [46; 48] = [48].
Proof. vm_compute. auto. Qed.
(* .00 and .00e1 were outside before the repair (results .% and .e1%); now they stay *)
Example stays_dot00 : min_number_percentage false [46; 48; 48] = (false, [46; 48; 48]).
Proof. vm_compute. reflexivity. Qed.
Example stays_dot00e1 : min_number_percentage false [46; 48; 48; 101; 49] = (false, [46; 48; 48; 101; 49]).
Proof. vm_compute. reflexivity. Qed.

(* outside the grammar already (not a counterexample): .0e *)
Example not_grammar_dot0e : tok_value false [46; 48; 101] = None.
Proof. vm_compute. reflexivity. Qed.

(* in the grammar and inside the precondition although not minimal: the value is kept *)
Example nonminimal_00pct : min_number_percentage true [48; 48; 37] = (false, [46; 48]) /\
  tok_value true [48; 48; 37] = Some (0, -2) /\ tok_value false [46; 48] = Some (0, -1).
Proof. vm_compute. auto. Qed.
Example nonminimal_dot0 : min_number_percentage false [46; 48] = (false, [46; 48]).
Proof. vm_compute. reflexivity. Qed.
Example nonminimal_dot05e3 : min_number_percentage false [46; 48; 53; 101; 51] = (false, [46; 48; 53; 101; 51]).
Proof. vm_compute. reflexivity. Qed.
Example nonminimal_dot0001 : min_number_percentage false [46; 48; 48; 48; 49] = (true, [46; 48; 49; 37]) /\
  tok_value false [46; 48; 48; 48; 49] = Some (1, -4) /\ tok_value true [46; 48; 49; 37] = Some (1, -4).
Proof. vm_compute. auto. Qed.

(* THE REPAIRED DEFECT (K137): .00e99999999999999999999 is in the grammar (value 0), minify.Number gives it back unchanged
   because the exponent does not fit in an int64, and minifyNumberPercentage used to turn it into
   .e99999999999999999999% — not a number.  Now it stays as it is and the value 0 is kept. *)
Definition bug_in : bytes := [46; 48; 48; 101] ++ [57;57;57;57;57;57;57;57;57;57;57;57;57;57;57;57;57;57;57;57].
Example alpha_repaired :
  (exists p, lex_number bug_in = Some p /\ exp_value p = None /\ fst (value p) = 0) /\
  number0 bug_in = bug_in /\
  min_number_percentage false (number0 bug_in) = (false, bug_in) /\
  tok_value false bug_in = Some (0, 99999999999999999999 - 2) /\
  same_num (tok_value (fst (min_number_percentage false (number0 bug_in))) (snd (min_number_percentage false (number0 bug_in))))
           (tok_value false bug_in).
Proof.
  split; [|split; [|split; [|split]]].
  - destruct (lex_number bug_in) as [p|] eqn:E; [|vm_compute in E; discriminate E].
    exists p. split; [reflexivity|]. vm_compute in E. inversion E; subst p. vm_compute. auto.
  - vm_compute. reflexivity.
  - vm_compute. reflexivity.
  - vm_compute. reflexivity.
  - assert (E : min_number_percentage false (number0 bug_in) = (false, bug_in)) by (vm_compute; reflexivity).
    rewrite E. cbn [fst snd].
    assert (E2 : tok_value false bug_in = Some (0, 99999999999999999997)) by (vm_compute; reflexivity).
    rewrite E2. apply same_num_refl.
Qed.

(* ---------- 5. examples ---------- *)
Example ex_50pct : min_number_percentage true [53; 48; 37] = (false, [46; 53]).            (* 50% -> .5 *)
Proof. vm_compute. reflexivity. Qed.
Example ex_5pct : min_number_percentage true [53; 37] = (true, [53; 37]).                   (* 5% stays *)
Proof. vm_compute. reflexivity. Qed.
Example ex_dot05 : min_number_percentage false [46; 48; 53] = (true, [53; 37]).             (* .05 -> 5% *)
Proof. vm_compute. reflexivity. Qed.
Example ex_dot005 : min_number_percentage false [46; 48; 48; 53] = (true, [46; 53; 37]).    (* .005 -> .5% *)
Proof. vm_compute. reflexivity. Qed.
Example ex_dot0012 : min_number_percentage false [46; 48; 48; 49; 50] = (true, [46; 49; 50; 37]).  (* .0012 -> .12% *)
Proof. vm_compute. reflexivity. Qed.
Example ex_dot5 : min_number_percentage false [46; 53] = (false, [46; 53]).                 (* .5 stays *)
Proof. vm_compute. reflexivity. Qed.
Example ex_100pct : min_number_percentage true [49; 48; 48; 37] = (true, [49; 48; 48; 37]). (* 100% stays *)
Proof. vm_compute. reflexivity. Qed.
Example ex_dot015 : min_number_percentage false [46; 48; 49; 53] = (false, [46; 48; 49; 53]).  (* .015 stays *)
Proof. vm_compute. reflexivity. Qed.
(* and their values *)
Example ex_values :
  tok_value true [53; 48; 37] = Some (50, -2) /\ tok_value false [46; 53] = Some (5, -1) /\
  tok_value false [46; 48; 53] = Some (5, -2) /\ tok_value true [53; 37] = Some (5, -2) /\
  tok_value false [46; 48; 48; 53] = Some (5, -3) /\ tok_value true [46; 53; 37] = Some (5, -3) /\
  tok_value false [46; 48; 48; 49; 50] = Some (12, -4) /\ tok_value true [46; 49; 50; 37] = Some (12, -4).
Proof. vm_compute. repeat split. Qed.

Print Assumptions min_number_percentage_value.
Print Assumptions min_number_percentage_not_longer.
Print Assumptions min_number_percentage_grammar.
Print Assumptions alpha_pre_necessary.
Print Assumptions number0_alpha_pre_pct.
Print Assumptions css_number_alpha_pre_pct.
Print Assumptions alpha_number_value.
Print Assumptions alpha_percentage_value.
Print Assumptions alpha_repaired.
