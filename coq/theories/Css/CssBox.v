(* Css/CssBox.v — F2 model of the four-sides shorthand rewrite of css.go (minifyProperty, case Margin, Padding,
   Border_Width: `values[i].Equal(values[j])` tests on the already minified component tokens) and its meaning:
   CSS 2.1 section 8.3 — one value: all four sides; two: top/bottom, right/left; three: top, right/left, bottom;
   four: top, right, bottom, left.  Tokens are abstract (a type with a decidable equality = Token.Equal). *)
From Coq Require Import List Bool.
Import ListNotations.

Section Box.
  Variable tok : Type.
  Variable teq : tok -> tok -> bool.
  Hypothesis teq_eq : forall a b, teq a b = true <-> a = b.

  Definition box_collapse (vs : list tok) : list tok :=
    match vs with
    | [a; b] => if teq a b then [a] else vs
    | [a; b; c] => if teq a b && teq a c then [a] else if teq a c then [a; b] else vs
    | [a; b; c; d] => if teq a b && teq a c && teq a d then [a]
                      else if teq a c && teq b d then [a; b]
                      else if teq b d then [a; b; c] else vs
    | _ => vs
    end.

  (* the four sides a value list denotes: top, right, bottom, left *)
  Definition box4 (vs : list tok) : option (tok * tok * tok * tok) :=
    match vs with
    | [a] => Some (a, a, a, a)
    | [a; b] => Some (a, b, a, b)
    | [a; b; c] => Some (a, b, c, b)
    | [a; b; c; d] => Some (a, b, c, d)
    | _ => None
    end.

  Lemma teq_true a b : teq a b = true -> a = b.
  Proof. apply teq_eq. Qed.

  (* the rewrite keeps all four sides, for every value list; lists that are not 1-4 values long are left alone *)
  Theorem box_collapse_sound : forall vs, box4 (box_collapse vs) = box4 vs.
  Proof.
    intros vs. destruct vs as [|a [|b [|c [|d [|e r]]]]]; try reflexivity.
    - cbn [box_collapse]. destruct (teq a b) eqn:E; [apply teq_true in E; subst; reflexivity|reflexivity].
    - cbn [box_collapse]. destruct (teq a b) eqn:E1; destruct (teq a c) eqn:E2; cbn [andb];
        try (apply teq_true in E1); try (apply teq_true in E2); subst; reflexivity.
    - cbn [box_collapse]. destruct (teq a b) eqn:E1; destruct (teq a c) eqn:E2; destruct (teq a d) eqn:E3; destruct (teq b d) eqn:E4; cbn [andb];
        try (apply teq_true in E1); try (apply teq_true in E2); try (apply teq_true in E3); try (apply teq_true in E4); subst; reflexivity.
  Qed.

  Theorem box_collapse_not_longer : forall vs, length (box_collapse vs) <= length vs.
  Proof.
    intros vs. destruct vs as [|a [|b [|c [|d [|e r]]]]]; cbn [box_collapse]; auto.
    - destruct (teq a b); simpl; auto.
    - destruct (teq a b && teq a c); [simpl; auto|]. destruct (teq a c); simpl; auto.
    - destruct (teq a b && teq a c && teq a d); [simpl; auto|]. destruct (teq a c && teq b d); [simpl; auto|]. destruct (teq b d); simpl; auto.
  Qed.

  (* it is minimal: the result cannot be collapsed any further *)
  Theorem box_collapse_idempotent : forall vs, box_collapse (box_collapse vs) = box_collapse vs.
  Proof.
    assert (R : forall a, teq a a = true) by (intros a; apply teq_eq; reflexivity).
    intros vs. destruct vs as [|a [|b [|c [|d [|e r]]]]]; try reflexivity; cbn [box_collapse];
      repeat (match goal with |- context [teq ?x ?y] => destruct (teq x y) eqn:? end; cbn [andb box_collapse];
              repeat match goal with
                     | H : teq _ _ = true |- _ => apply teq_true in H; subst
                     | H : teq ?x ?x = false |- _ => rewrite R in H; discriminate H
                     | H : true = false |- _ => discriminate H
                     | H : false = true |- _ => discriminate H
                     end);
      try reflexivity.
  Qed.
End Box.

(* executable instance for the correspondence run: tokens are small numbers *)
Definition box_collapse_nat (vs : list nat) : list nat := box_collapse nat Nat.eqb vs.
