(* Css/CssColor.v — F1 model of the hash-token branch of minifyColor (/repo/css/css.go): lower-casing, dropping a fully
   opaque alpha, replacing every fully transparent colour by #0000, the hex -> keyword table (regenerated from
   css/table.go: ShortenColorHex), and the 6 -> 3 and 8 -> 4 digit collapse.  Specification: css-color-4 section 5.2 (hex
   notation: 3, 4, 6 or 8 digits; a short digit x stands for xx) and the named colours (pinned reference table). *)
From MVGen Require Import Tables_gen.
From MV Require Import Base.MvBytes Ref.RefCssColors Tables.TablesCheck.

Definition pair3 (a a' b b' c c' : byte) : bool := (a =? a') && (b =? b') && (c =? c').

Definition hex_color_minify (T : list (bytes * bytes)) (d : bytes) : bytes :=
  match d with
  | [] => []
  | h :: ds =>
    let l := h :: map to_lower ds in
    let l1 := match l with
              | [_; _; _; _; _; _; _; a; b] =>
                  if a =? b then (if a =? 102 then firstn 7 l else if a =? 48 then [35; 48; 48; 48; 48] else l) else l
              | _ => l
              end in
    match lookup l1 T with
    | Some ident => ident
    | None =>
      match l1 with
      | [h'; a; a'; b; b'; c; c'] => if pair3 a a' b b' c c' then [h'; a; b; c] else l1
      | [h'; a; a'; b; b'; c; c'; e; e'] => if pair3 a a' b b' c c' && (e =? e') then [h'; a; b; c; e] else l1
      | _ => l1
      end
    end
  end.

(* ---------- specification ---------- *)
Definition hash_rgba (v : bytes) : option (Z * Z * Z * Z) :=
  match v with
  | [35; a; b; c] =>
      match hexv a, hexv b, hexv c with Some x, Some y, Some z => Some (x * 17, y * 17, z * 17, 255) | _, _, _ => None end
  | [35; a; b; c; e] =>
      match hexv a, hexv b, hexv c, hexv e with
      | Some x, Some y, Some z, Some w => Some (x * 17, y * 17, z * 17, w * 17) | _, _, _, _ => None end
  | [35; a; a'; b; b'; c; c'] =>
      match hexv a, hexv a', hexv b, hexv b', hexv c, hexv c' with
      | Some x, Some x', Some y, Some y', Some z, Some z' => Some (x * 16 + x', y * 16 + y', z * 16 + z', 255)
      | _, _, _, _, _, _ => None
      end
  | [35; a; a'; b; b'; c; c'; e; e'] =>
      match hexv a, hexv a', hexv b, hexv b', hexv c, hexv c', hexv e, hexv e' with
      | Some x, Some x', Some y, Some y', Some z, Some z', Some w, Some w' =>
          Some (x * 16 + x', y * 16 + y', z * 16 + z', w * 16 + w')
      | _, _, _, _, _, _, _, _ => None
      end
  | _ => None
  end.
(* the colour a value token denotes: a hash token by the hex notation, anything else as a colour keyword *)
Definition color_rgba (v : bytes) : option (Z * Z * Z * Z) :=
  match v with
  | 35 :: _ => hash_rgba v
  | _ => match lookup v ref_colors with Some (r, g, b) => Some (r, g, b, 255) | None => None end
  end.
(* same colour: equal alpha and, unless fully transparent, equal red, green, blue (a fully transparent colour paints
   nothing and is premultiplied to (0,0,0,0) in every interpolation) *)
Definition rgba_equiv (x y : Z * Z * Z * Z) : Prop :=
  let '(r, g, b, a) := x in let '(r', g', b', a') := y in
  a = a' /\ (a = 0 \/ (r = r' /\ g = g' /\ b = b')).

(* table hypothesis (= Props/C17 css_color_hex_ok, proved for the regenerated table by vm_compute) *)
Definition table_ok (T : list (bytes * bytes)) : Prop := forall e, In e T -> color_hex_ok e = true.
