(* Css/CssColorProofs.v — the hash-token rewrite of minifyColor keeps the colour and never lengthens the token. *)
From MVGen Require Import Tables_gen.
From MV Require Import Base.MvBytes Ref.RefCssColors Tables.TablesCheck Css.CssColor.

(* a hash token whose name is 3, 4, 6 or 8 hex digits (upper or lower case) *)
Definition is_hex (c : byte) : bool := match hexv c with Some _ => true | None => false end.
Definition valid_hash (d : bytes) : bool :=
  match d with
  | 35 :: ds => forallb is_hex ds && (Nat.eqb (length ds) 3 || Nat.eqb (length ds) 4 || Nat.eqb (length ds) 6 || Nat.eqb (length ds) 8)
  | _ => false
  end.


(* ---------- helper lemmas ---------- *)
Local Arguments hexv : simpl never.
Local Arguments to_lower : simpl never.
Local Arguments Z.eqb : simpl never.

Lemma hexv_to_lower c : hexv (to_lower c) = hexv c.
Proof.
  unfold to_lower, is_upper.
  destruct (Z.leb_spec 65 c); destruct (Z.leb_spec c 90); cbn [andb]; try reflexivity.
  unfold hexv, is_digit.
  repeat (match goal with |- context [?a <=? ?b] => destruct (Z.leb_spec a b); try lia end; cbn [andb]);
    try reflexivity; f_equal; lia.
Qed.

Lemma lookup_In {A} k (T : list (bytes * A)) v : lookup k T = Some v -> In (k, v) T.
Proof.
  induction T as [|[k' v'] T IH]; cbn [lookup]; [discriminate|].
  destruct (beqb k' k) eqn:E; intros H.
  - apply beqb_eq in E. inversion H; subst. left; reflexivity.
  - right; auto.
Qed.

Definition starts_hash (k : bytes) : bool := match k with 35 :: _ => true | _ => false end.

Lemma starts_hash_inv v : starts_hash v = true -> exists t, v = 35 :: t.
Proof.
  unfold starts_hash. destruct v as [|c t]; [discriminate|].
  destruct c as [|p|p]; try discriminate.
  do 6 (destruct p as [p|p|]; try discriminate).
  intros _. exists t. reflexivity.
Qed.

Lemma starts_hash_cons t : starts_hash (35 :: t) = true.
Proof. reflexivity. Qed.

Lemma lookup_nohash {A} (l : list (bytes * A)) v x :
  forallb (fun e => negb (starts_hash (fst e))) l = true -> lookup v l = Some x -> starts_hash v = false.
Proof.
  induction l as [|[k' v'] l IH]; cbn [lookup forallb fst]; [discriminate|].
  intros H; apply andb_true_iff in H as [H1 H2].
  destruct (beqb k' v) eqn:E.
  - apply beqb_eq in E; subst. intros _. destruct (starts_hash v); [discriminate|reflexivity].
  - auto.
Qed.

(* no colour keyword of the reference table starts with '#': closed computation *)
Lemma ref_colors_nohash : forallb (fun e => negb (starts_hash (fst e))) ref_colors = true.
Proof. vm_compute. reflexivity. Qed.

Lemma color_rgba_dispatch v :
  color_rgba v = if starts_hash v then hash_rgba v
                 else match lookup v ref_colors with Some (r, g, b) => Some (r, g, b, 255) | None => None end.
Proof.
  unfold color_rgba, starts_hash. destruct v as [|c t]; [reflexivity|].
  destruct c as [|p|p]; try reflexivity.
  do 6 (destruct p as [p|p|]; try reflexivity).
Qed.

Lemma hash_rgba_starts v c : hash_rgba v = Some c -> starts_hash v = true.
Proof.
  unfold hash_rgba, starts_hash. destruct v as [|h t]; [discriminate|].
  destruct h as [|p|p]; try discriminate.
  do 6 (destruct p as [p|p|]; try discriminate).
  reflexivity.
Qed.

Lemma color_rgba_hash v c : hash_rgba v = Some c -> color_rgba v = Some c.
Proof. intros H. rewrite color_rgba_dispatch, (hash_rgba_starts _ _ H). exact H. Qed.

Lemma hex_rgb_hash k r g b : hex_rgb k = Some (r, g, b) -> hash_rgba k = Some (r, g, b, 255).
Proof.
  unfold hex_rgb. destruct k as [|h t]; [discriminate|].
  destruct h as [|p|p]; try discriminate.
  do 6 (destruct p as [p|p|]; try discriminate).
  destruct t as [|a1 [|a2 [|a3 [|a4 [|a5 [|a6 [|a7 t]]]]]]]; try discriminate; unfold hash_rgba; intros H.
  - destruct (hexv a1), (hexv a2), (hexv a3); try discriminate. inversion H; reflexivity.
  - destruct (hexv a1), (hexv a2), (hexv a3), (hexv a4), (hexv a5), (hexv a6); try discriminate.
    inversion H; reflexivity.
Qed.

(* a table hit: the key is a 3- or 6-digit hash with the colour of the keyword, and the keyword is not longer *)
Lemma table_hit T k v : table_ok T -> lookup k T = Some v ->
  exists r g b, hash_rgba k = Some (r, g, b, 255) /\ color_rgba v = Some (r, g, b, 255) /\ (length v <= length k)%nat.
Proof.
  intros HT HL. apply lookup_In in HL. apply HT in HL. unfold color_hex_ok in HL. cbn [fst snd] in HL.
  apply andb_true_iff in HL as [H1 H2]. apply Nat.leb_le in H2.
  unfold rgb_eqb in H1. destruct (hex_rgb k) as [[[r g] b]|] eqn:EK; [|discriminate].
  destruct (lookup v ref_colors) as [[[r' g'] b']|] eqn:E; [|discriminate].
  apply andb_true_iff in H1 as [H1 H3]; apply andb_true_iff in H1 as [H1 H1'].
  apply Z.eqb_eq in H1, H1', H3. subst. exists r', g', b'.
  split; [apply hex_rgb_hash; exact EK|]. split; [|exact H2].
  rewrite color_rgba_dispatch. rewrite (lookup_nohash _ _ _ ref_colors_nohash E). rewrite E. reflexivity.
Qed.

Lemma rgba_equiv_refl c : rgba_equiv c c.
Proof. destruct c as [[[r g] b] a]. cbn. split; [reflexivity|]. right; repeat split. Qed.

Lemma rgba_equiv_trans x y z : rgba_equiv x y -> rgba_equiv y z -> rgba_equiv x z.
Proof.
  destruct x as [[[r g] b] a], y as [[[r' g'] b'] a'], z as [[[r'' g''] b''] a'']. cbn.
  intros [H1 [H2|H2]] [H3 [H4|H4]]; split; try congruence.
  - left; assumption.
  - left; assumption.
  - left; congruence.
  - right. destruct H2 as (?&?&?), H4 as (?&?&?). repeat split; congruence.
Qed.

(* the two stages of hex_color_minify *)
Definition alpha_step (l : bytes) : bytes :=
  match l with
  | [_; _; _; _; _; _; _; a; b] =>
      if a =? b then (if a =? 102 then firstn 7 l else if a =? 48 then [35; 48; 48; 48; 48] else l) else l
  | _ => l
  end.
Definition collapse (l1 : bytes) : bytes :=
  match l1 with
  | [h'; a; a'; b; b'; c; c'] => if pair3 a a' b b' c c' then [h'; a; b; c] else l1
  | [h'; a; a'; b; b'; c; c'; e; e'] => if pair3 a a' b b' c c' && (e =? e') then [h'; a; b; c; e] else l1
  | _ => l1
  end.

Lemma hex_color_minify_eq T h ds :
  hex_color_minify T (h :: ds) =
  match lookup (alpha_step (h :: map to_lower ds)) T with
  | Some ident => ident
  | None => collapse (alpha_step (h :: map to_lower ds))
  end.
Proof. reflexivity. Qed.

Lemma cons_35 h t t' : h :: t = 35 :: t' -> h = 35.
Proof. intros H; inversion H; reflexivity. Qed.

Lemma alpha_step_sound l c : hash_rgba l = Some c ->
  exists c1, hash_rgba (alpha_step l) = Some c1 /\ rgba_equiv c c1 /\ (length (alpha_step l) <= length l)%nat.
Proof.
  intros H.
  assert (Hdef : forall l', l' = l -> exists c1, hash_rgba l' = Some c1 /\ rgba_equiv c c1 /\ (length l' <= length l)%nat).
  { intros l' ->. exists c. split; [exact H|]. split; [apply rgba_equiv_refl|apply Nat.le_refl]. }
  destruct l as [|h [|a1 [|a2 [|a3 [|a4 [|a5 [|a6 [|a7 [|a8 [|a9 t]]]]]]]]]];
    try (apply Hdef; reflexivity).
  clear Hdef.
  destruct (starts_hash_inv _ (hash_rgba_starts _ _ H)) as [t E]. apply cons_35 in E. subst h.
  unfold alpha_step.
  destruct (Z.eqb_spec a7 a8) as [->|Hne];
    [|exists c; split; [exact H|]; split; [apply rgba_equiv_refl|apply Nat.le_refl]].
  destruct (Z.eqb_spec a8 102) as [->|Hn1]; [|destruct (Z.eqb_spec a8 48) as [->|Hn2]].
  - cbn [firstn]. unfold hash_rgba in *.
    destruct (hexv a1), (hexv a2), (hexv a3), (hexv a4), (hexv a5), (hexv a6); try discriminate.
    change (hexv 102) with (Some 15) in H. inversion H; subst c.
    eexists. split; [reflexivity|]. split; [|cbn [length]; lia].
    cbn. split; [reflexivity|]. right; repeat split.
  - unfold hash_rgba in H.
    destruct (hexv a1), (hexv a2), (hexv a3), (hexv a4), (hexv a5), (hexv a6); try discriminate.
    change (hexv 48) with (Some 0) in H. inversion H; subst c.
    exists (0, 0, 0, 0). split; [reflexivity|]. split; [|cbn [length]; lia].
    cbn. split; [reflexivity|]. left; reflexivity.
  - exists c; split; [exact H|]; split; [apply rgba_equiv_refl|apply Nat.le_refl].
Qed.

Lemma collapse_sound l c : hash_rgba l = Some c ->
  exists c', hash_rgba (collapse l) = Some c' /\ rgba_equiv c c' /\ (length (collapse l) <= length l)%nat.
Proof.
  intros H.
  assert (Hdef : forall l', l' = l -> exists c1, hash_rgba l' = Some c1 /\ rgba_equiv c c1 /\ (length l' <= length l)%nat).
  { intros l' ->. exists c. split; [exact H|]. split; [apply rgba_equiv_refl|apply Nat.le_refl]. }
  destruct l as [|h [|a1 [|a2 [|a3 [|a4 [|a5 [|a6 [|a7 [|a8 [|a9 t]]]]]]]]]];
    try (apply Hdef; reflexivity).
  - (* 6 digits *)
    destruct (starts_hash_inv _ (hash_rgba_starts _ _ H)) as [t E]. apply cons_35 in E. subst h.
    unfold collapse, pair3.
    destruct (Z.eqb_spec a1 a2) as [->|]; [|apply Hdef; reflexivity].
    destruct (Z.eqb_spec a3 a4) as [->|]; [|apply Hdef; reflexivity].
    destruct (Z.eqb_spec a5 a6) as [->|]; [|apply Hdef; reflexivity].
    clear Hdef. cbn [andb]. unfold hash_rgba in *.
    destruct (hexv a2), (hexv a4), (hexv a6); try discriminate. inversion H; subst c.
    eexists. split; [reflexivity|]. split; [|cbn [length]; lia].
    cbn. split; [reflexivity|]. right; repeat split; lia.
  - (* 8 digits *)
    destruct (starts_hash_inv _ (hash_rgba_starts _ _ H)) as [t E]. apply cons_35 in E. subst h.
    unfold collapse, pair3.
    destruct (Z.eqb_spec a1 a2) as [->|]; [|apply Hdef; reflexivity].
    destruct (Z.eqb_spec a3 a4) as [->|]; [|apply Hdef; reflexivity].
    destruct (Z.eqb_spec a5 a6) as [->|]; [|apply Hdef; reflexivity].
    destruct (Z.eqb_spec a7 a8) as [->|]; [|apply Hdef; reflexivity].
    clear Hdef. cbn [andb]. unfold hash_rgba in *.
    destruct (hexv a2), (hexv a4), (hexv a6), (hexv a8); try discriminate. inversion H; subst c.
    eexists. split; [reflexivity|]. split; [|cbn [length]; lia].
    cbn. split; [lia|]. right; repeat split; lia.
Qed.

Lemma hash_rgba_lower ds : hash_rgba (35 :: map to_lower ds) = hash_rgba (35 :: ds).
Proof.
  destruct ds as [|a1 [|a2 [|a3 [|a4 [|a5 [|a6 [|a7 [|a8 [|a9 t]]]]]]]]];
    cbn [map]; unfold hash_rgba; rewrite ?hexv_to_lower; reflexivity.
Qed.

Lemma valid_hash_inv d : valid_hash d = true ->
  exists ds, d = 35 :: ds /\ forallb is_hex ds = true /\
             (length ds = 3 \/ length ds = 4 \/ length ds = 6 \/ length ds = 8)%nat.
Proof.
  unfold valid_hash. destruct d as [|h ds]; [discriminate|].
  destruct h as [|p|p]; try discriminate.
  do 6 (destruct p as [p|p|]; try discriminate).
  intros H. apply andb_true_iff in H as [H1 H2]. exists ds. split; [reflexivity|]. split; [exact H1|].
  repeat (apply orb_true_iff in H2 as [H2|H2]); apply Nat.eqb_eq in H2; auto.
Qed.

Lemma is_hex_some c : is_hex c = true -> exists x, hexv c = Some x.
Proof. unfold is_hex. destruct (hexv c) as [x|]; [exists x; reflexivity|discriminate]. Qed.

Lemma valid_hash_rgba ds : forallb is_hex ds = true ->
  (length ds = 3 \/ length ds = 4 \/ length ds = 6 \/ length ds = 8)%nat ->
  exists c, hash_rgba (35 :: ds) = Some c.
Proof.
  intros Hh Hl.
  destruct ds as [|a1 [|a2 [|a3 [|a4 [|a5 [|a6 [|a7 [|a8 [|a9 t]]]]]]]]];
    cbn [length] in Hl; try (exfalso; lia); clear Hl;
    cbn [forallb] in Hh;
    repeat match goal with
           | H : _ && _ = true |- _ => apply andb_true_iff in H as [? ?]
           | H : is_hex _ = true |- _ => apply is_hex_some in H as [? H]
           end;
    unfold hash_rgba;
    repeat match goal with H : hexv _ = Some _ |- _ => rewrite H; clear H end;
    eexists; reflexivity.
Qed.

(* everything about one run: colour kept, token not longer than the lower-cased input *)
Lemma hex_color_core T ds c : table_ok T -> hash_rgba (35 :: ds) = Some c ->
  exists c', color_rgba (hex_color_minify T (35 :: ds)) = Some c' /\ rgba_equiv c c' /\
             (length (hex_color_minify T (35%Z :: ds)) <= length (35%Z :: ds))%nat.
Proof.
  intros HT Hc. rewrite hex_color_minify_eq.
  rewrite <- hash_rgba_lower in Hc.
  assert (Hlen : length (35 :: map to_lower ds) = length (35 :: ds)) by (cbn [length]; rewrite map_length; reflexivity).
  rewrite <- Hlen. clear Hlen.
  destruct (alpha_step_sound _ _ Hc) as (c1 & H1 & E1 & L1).
  set (l1 := alpha_step (35 :: map to_lower ds)) in *.
  change (alpha_step (35 :: map to_lower ds)) with l1. clearbody l1. clear Hc.
  destruct (lookup l1 T) as [v|] eqn:EL.
  - destruct (table_hit _ _ _ HT EL) as (r & g & b & Hk & Hv & Lv).
    rewrite H1 in Hk. inversion Hk; subst c1.
    exists (r, g, b, 255). split; [exact Hv|]. split; [exact E1|eapply Nat.le_trans; eassumption].
  - destruct (collapse_sound _ _ H1) as (c2 & H2 & E2 & L2).
    exists c2. split; [apply color_rgba_hash; exact H2|]. split; [eapply rgba_equiv_trans; eassumption|eapply Nat.le_trans; eassumption].
Qed.

(* MAIN: for every table whose entries are correct, every valid hash colour keeps its colour *)
Theorem hex_color_sound : forall T d, table_ok T -> valid_hash d = true ->
  exists c c', color_rgba d = Some c /\ color_rgba (hex_color_minify T d) = Some c' /\ rgba_equiv c c'.
Proof.
  intros T d HT Hv. apply valid_hash_inv in Hv as (ds & -> & Hh & Hl).
  destruct (valid_hash_rgba ds Hh Hl) as [c Hc].
  destruct (hex_color_core T ds c HT Hc) as (c' & H1 & H2 & _).
  exists c, c'. split; [apply color_rgba_hash; exact Hc|]. split; assumption.
Qed.

Theorem hex_color_not_longer : forall T d, table_ok T -> valid_hash d = true ->
  (length (hex_color_minify T d) <= length d)%nat.
Proof.
  intros T d HT Hv. apply valid_hash_inv in Hv as (ds & -> & Hh & Hl).
  destruct (valid_hash_rgba ds Hh Hl) as [c Hc].
  destruct (hex_color_core T ds c HT Hc) as (c' & _ & _ & H). exact H.
Qed.

(* anything that is not a 3/4/6/8-digit hash is only lower-cased (or looked up), never collapsed: hash names that are not
   colours (e.g. in an ID selector context the function is not called) — stated for lengths the collapse does not know *)
Theorem hex_color_other_lengths : forall T d h ds, d = h :: ds -> lookup (h :: map to_lower ds) T = None ->
  length ds <> 6%nat -> length ds <> 8%nat -> hex_color_minify T d = h :: map to_lower ds.
Proof.
  intros T d h ds -> HL H6 H8. rewrite hex_color_minify_eq.
  assert (E : alpha_step (h :: map to_lower ds) = h :: map to_lower ds).
  { destruct ds as [|a1 [|a2 [|a3 [|a4 [|a5 [|a6 [|a7 [|a8 [|a9 t]]]]]]]]]; try reflexivity.
    exfalso; apply H8; reflexivity. }
  rewrite E, HL.
  destruct ds as [|a1 [|a2 [|a3 [|a4 [|a5 [|a6 [|a7 [|a8 [|a9 t]]]]]]]]]; try reflexivity.
  - exfalso; apply H6; reflexivity.
  - exfalso; apply H8; reflexivity.
Qed.

Lemma css_shorten_color_hex_ok : table_ok css_shorten_color_hex.
Proof.
  assert (H : forallb color_hex_ok css_shorten_color_hex = true) by (vm_compute; reflexivity).
  intros e He. exact (proj1 (forallb_forall _ _) H e He).
Qed.

(* for the regenerated table *)
Theorem hex_color_sound_gen : forall d, valid_hash d = true ->
  exists c c', color_rgba d = Some c /\ color_rgba (hex_color_minify css_shorten_color_hex d) = Some c' /\ rgba_equiv c c'.
Proof. intros d Hv. exact (hex_color_sound _ d css_shorten_color_hex_ok Hv). Qed.

Example hex_examples :
  hex_color_minify css_shorten_color_hex [35;70;70;48;48;48;48] = [114;101;100] /\          (* #FF0000 -> red *)
  hex_color_minify css_shorten_color_hex [35;97;97;98;98;99;99;100;100] = [35;97;98;99;100] /\  (* #aabbccdd -> #abcd *)
  hex_color_minify css_shorten_color_hex [35;97;97;98;98;99;99;100;48] = [35;97;97;98;98;99;99;100;48] /\  (* #aabbccd0 stays *)
  hex_color_minify css_shorten_color_hex [35;49;50;51;52;53;54;48;48] = [35;48;48;48;48].     (* #12345600 -> #0000 *)
Proof. vm_compute. repeat split. Qed.

Print Assumptions hex_color_sound.
Print Assumptions hex_color_not_longer.
Print Assumptions hex_color_other_lengths.
Print Assumptions hex_color_sound_gen.
