(* Css/CssDim.v — F2 model of how css.go rewrites the numeric tokens of a declaration value (minifyTokens, cases NumberToken,
   PercentageToken, DimensionToken; minifyDimension; minifyNumber): the number part goes through minify.Number, or with
   KeepCSS2 through minify.Decimal (the mantissa only when the number has an exponent), the unit is found by scanning ASCII
   letters from the end and is lower-cased, and a unit in optionalZeroDimension is dropped when the shortened token is the
   digit 0 followed by its unit (outside flex and outside functions).  Precision 0.
   No proofs in this file; extracted and compared with css.Minify on every run. *)
From MV Require Import Base.MvBytes Num.NumModel.

Definition is_lower (c : byte) : bool := (97 <=? c) && (c <=? 122).
Definition is_upper (c : byte) : bool := (65 <=? c) && (c <=? 90).
Definition to_lower (c : byte) : byte := if is_upper c then c + 32 else c.

(* split off the trailing run of ASCII letters (scanning from the end), lower-cased *)
Fixpoint span_letters_rev (l : bytes) : bytes * bytes :=      (* l is the reversed token *)
  match l with
  | c :: r => if is_lower c || is_upper c then let (u, n) := span_letters_rev r in (to_lower c :: u, n) else ([], l)
  | [] => ([], [])
  end.
Definition split_dimension (data : bytes) : bytes * bytes :=
  let (u, n) := span_letters_rev (rev data) in (rev n, rev u).

Fixpoint split_exp (l : bytes) : bytes * bytes :=            (* mantissa, exponent part starting with e / E (or empty) *)
  match l with
  | c :: r => if (c =? 101) || (c =? 69) then ([], l) else let (m, e) := split_exp r in (c :: m, e)
  | [] => ([], [])
  end.

(* minifyNumber *)
Definition css_number (keep_css2 : bool) (num : bytes) : bytes :=
  if keep_css2 then
    let (m, e) := split_exp num in
    match e with
    | [] => decimal0 num
    | _ => decimal0 m ++ e
    end
  else number0 num.

Definition number_token (keep_css2 integer_property : bool) (data : bytes) : bytes :=
  if integer_property then data else css_number keep_css2 data.

Definition percentage_token (keep_css2 : bool) (data : bytes) : bytes :=
  css_number keep_css2 (removelast data) ++ [37].

(* The unit of a zero is dropped when the shortened token starts with the digit 0, the unit is in optionalZeroDimension and
   the token is not inside a (known) function or a flex declaration — but not always: the Go code looks the unit up through
   a slice (`dim`) that append(num, dim...) has meanwhile overwritten when the number was shortened (0.0px -> 0px: dim reads
   "xx"), so the drop is missed for most zeros that were not already written `0`.  Keeping the unit is always correct, so
   the model takes what the implementation did as an input ([impl_drops], read off the real output by the correspondence
   check) and allows a drop only under the stated condition; the theorems hold for either value. *)
(* isZeroNumber: the digit 0 followed by nothing but a unit (a number that minify.Number gave back unchanged because its
   exponent is out of range can start with 0 without being zero) *)
Definition is_zero_number (b : bytes) : bool :=
  match b with
  | [] => false
  | c0' :: r =>
    if negb (c0' =? 48) then false else
    match r with
    | [] => true
    | c :: r2 =>
      if ((48 <=? c) && (c <=? 57)) || (c =? 46) then false
      else if ((c =? 101) || (c =? 69)) &&
              match r2 with d :: _ => ((48 <=? d) && (d <=? 57)) || (d =? 43) || (d =? 45) | [] => false end then false
      else true
    end
  end.

Definition dimension_token (keep_css2 : bool) (optional_zero : bytes -> bool) (flex_or_function impl_drops : bool) (data : bytes) : bytes :=
  let (num, dim) := split_dimension data in
  let d := css_number keep_css2 num ++ dim in
  if (1 <? zlen d) && is_zero_number d && optional_zero dim && negb flex_or_function && impl_drops then [48] else d.
