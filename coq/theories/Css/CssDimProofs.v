(* Css/CssDimProofs.v — the numeric tokens of a CSS declaration value keep their value and unit; the unit of a dimension is
   dropped only from a zero whose unit is in the optional-zero table. *)
From MV Require Import Base.MvBytes Num.NumModel Num.NumSpec Num.NumProofs Num.NumberLemmas Num.NumberProofs Css.CssDim Css.CssDimSpec.
From Coq Require Import ZifyBool.

Ltac fields := cbn [mk_exp mk_plain l_sign l_I l_dot l_F l_exp l_echar l_esign l_E].

(* ---------- split_exp: the first e / E of a lexeme is its exponent marker ---------- *)
Definition not_e (c : byte) : Prop := c <> 101 /\ c <> 69.

Lemma split_exp_app a c r : Forall not_e a -> (c = 101 \/ c = 69) -> split_exp (a ++ c :: r) = (a, c :: r).
Proof.
  intros Ha Hc. induction Ha as [|x a Hx Ha IH]; cbn [app split_exp].
  - assert (E : (c =? 101) || (c =? 69) = true) by lia. rewrite E. reflexivity.
  - assert (E : (x =? 101) || (x =? 69) = false) by (unfold not_e in Hx; lia). rewrite E, IH. reflexivity.
Qed.

Lemma split_exp_none a : Forall not_e a -> split_exp a = (a, []).
Proof.
  intros Ha. induction Ha as [|x a Hx Ha IH]; cbn [split_exp]; [reflexivity|].
  assert (E : (x =? 101) || (x =? 69) = false) by (unfold not_e in Hx; lia). rewrite E, IH. reflexivity.
Qed.

Lemma digits_not_e l : all_digits l -> Forall not_e l.
Proof. apply Forall_impl. intros c Hc. unfold is_digit in Hc. unfold not_e. lia. Qed.

Lemma sign_not_e sg : Forall not_e (sign_bytes sg).
Proof.
  unfold sign_bytes. destruct (sg =? 1); [|destruct (sg =? 2)]; repeat constructor; unfold cplus, cminus; lia.
Qed.

Lemma mant_not_e sg I (dot : bool) F : all_digits I -> all_digits F ->
  Forall not_e (sign_bytes sg ++ I ++ (if dot then cdot :: F else [])).
Proof.
  intros HI HF. apply Forall_app. split; [apply sign_not_e|]. apply Forall_app. split; [apply digits_not_e; exact HI|].
  destruct dot; [|constructor]. constructor; [unfold not_e, cdot; lia | apply digits_not_e; exact HF].
Qed.

(* ---------- mantissa and exponent part of a lexed number ---------- *)
Definition mant_of (p : lexed) : lexed := mk_plain (l_sign p) (l_I p) (l_dot p) (l_F p).
Definition exp_part (p : lexed) : bytes := l_echar p :: sign_bytes (l_esign p) ++ l_E p.
Definition with_exp (q p : lexed) : lexed :=
  {| l_sign := l_sign q; l_I := l_I q; l_dot := l_dot q; l_F := l_F q;
     l_exp := true; l_echar := l_echar p; l_esign := l_esign p; l_E := l_E p |}.

Lemma unlex_plain q : l_exp q = false ->
  unlex q = sign_bytes (l_sign q) ++ l_I q ++ (if l_dot q then cdot :: l_F q else []).
Proof. intros H. unfold unlex. rewrite H. rewrite app_nil_r. reflexivity. Qed.

Lemma unlex_with_exp q p : l_exp q = false -> unlex (with_exp q p) = unlex q ++ exp_part p.
Proof.
  intros H. rewrite (unlex_plain q H). unfold unlex, with_exp, exp_part. cbn [l_sign l_I l_dot l_F l_exp l_echar l_esign l_E].
  rewrite <- !app_assoc. reflexivity.
Qed.

Lemma unlex_split p : l_exp p = true -> unlex p = unlex (mant_of p) ++ exp_part p.
Proof.
  intros H. rewrite (unlex_plain (mant_of p) eq_refl). unfold unlex, mant_of, exp_part. fields. rewrite H.
  rewrite <- !app_assoc. reflexivity.
Qed.

Lemma wf_mant_of p : wf_lexed p -> wf_lexed (mant_of p).
Proof. intros (Hsg & HI & HF & HIF & HdF & _). apply wf_mk_plain; auto. Qed.

Lemma wf_with_exp q p : wf_lexed q -> wf_lexed p -> l_exp p = true -> wf_lexed (with_exp q p).
Proof.
  intros (Hsg & HI & HF & HIF & HdF & _) (_ & _ & _ & _ & _ & Hex) Hp. rewrite Hp in Hex.
  unfold wf_lexed, with_exp. cbn [l_sign l_I l_dot l_F l_exp l_echar l_esign l_E]. repeat split; auto; tauto.
Qed.

Lemma val_eq_shift m1 e1 m2 e2 k : val_eq (m1, e1) (m2, e2) -> val_eq (m1, k + e1) (m2, k + e2).
Proof.
  unfold val_eq. cbn [fst snd]. intros H.
  replace (Z.min (k + e1) (k + e2)) with (k + Z.min e1 e2) by lia.
  replace (k + e1 - (k + Z.min e1 e2)) with (e1 - Z.min e1 e2) by lia.
  replace (k + e2 - (k + Z.min e1 e2)) with (e2 - Z.min e1 e2) by lia. exact H.
Qed.

Lemma value_plain q : l_exp q = false ->
  value q = ((if l_sign q =? 2 then -1 else 1) * digits_val (l_I q ++ l_F q), 0 - zlen (l_F q)).
Proof. intros H. unfold value, exp_z. rewrite H. reflexivity. Qed.

Lemma value_with_exp q p : l_exp q = false -> l_exp p = true ->
  value (with_exp q p) = (fst (value q), exp_z p + snd (value q)).
Proof.
  intros Hq Hp. rewrite (value_plain q Hq). unfold value, exp_z, with_exp.
  cbn [l_sign l_I l_dot l_F l_exp l_echar l_esign l_E fst snd]. rewrite Hp. f_equal; lia.
Qed.

Lemma value_split p : l_exp p = true -> value p = (fst (value (mant_of p)), exp_z p + snd (value (mant_of p))).
Proof.
  intros Hp. rewrite (value_plain (mant_of p) eq_refl). unfold value, mant_of. fields. cbn [fst snd]. f_equal; lia.
Qed.

(* ---------- minifyNumber on a lexeme ---------- *)
Lemma css_number_true_noexp p : wf_lexed p -> l_exp p = false -> css_number true (unlex p) = decimal0 (unlex p).
Proof.
  intros (Hsg & HI & HF & _) He. unfold css_number. rewrite (unlex_plain p He) at 1.
  rewrite split_exp_none by (apply mant_not_e; assumption). reflexivity.
Qed.

Lemma css_number_true_exp p : wf_lexed p -> l_exp p = true ->
  css_number true (unlex p) = decimal0 (unlex (mant_of p)) ++ exp_part p.
Proof.
  intros (Hsg & HI & HF & _ & _ & Hex) He. rewrite He in Hex. destruct Hex as (Hec & _).
  unfold css_number. rewrite (unlex_split p He) at 1. unfold exp_part at 1.
  rewrite split_exp_app.
  - reflexivity.
  - rewrite (unlex_plain (mant_of p) eq_refl). unfold mant_of; fields. apply mant_not_e; assumption.
  - unfold ce, cE in Hec. destruct Hec; auto.
Qed.

Lemma css_number_lex keep s p : lex_number s = Some p -> zlen s <= 10 ^ 25 ->
  exists p', lex_number (css_number keep s) = Some p' /\ val_eq (value p') (value p).
Proof.
  intros Hlex Hlen. destruct keep.
  - pose proof (lex_number_sound _ _ Hlex) as (Hs & Hwf). subst s.
    destruct (l_exp p) eqn:He.
    + rewrite (css_number_true_exp p Hwf He).
      pose proof (wf_mant_of p Hwf) as Hwm.
      pose proof (lex_number_complete _ Hwm) as Hlm.
      destruct (decimal0_exact _ _ Hlm eq_refl) as (q & Hq1 & Hq2 & Hq3 & _).
      pose proof (lex_number_sound _ _ Hq1) as (Hq4 & Hq5).
      exists (with_exp q p). split.
      * rewrite Hq4, <- (unlex_with_exp q p Hq2). apply lex_number_complete. apply wf_with_exp; assumption.
      * rewrite (value_with_exp q p Hq2 He), (value_split p He).
        destruct (value q) as [m1 e1], (value (mant_of p)) as [m2 e2]. cbn [fst snd].
        apply val_eq_shift. exact Hq3.
    + rewrite (css_number_true_noexp p Hwf He).
      destruct (decimal0_exact _ _ Hlex He) as (q & Hq1 & _ & Hq3 & _). exists q. auto.
  - unfold css_number. destruct (number0_exact s p Hlex Hlen) as (q & Hq1 & Hq2 & _). exists q. auto.
Qed.

(* TARGET 1: minifyNumber keeps the value (both settings of KeepCSS2) *)
Theorem css_number_value : forall keep s p,
  lex_number s = Some p -> zlen s <= 10 ^ 25 ->
  same_num (num_value (css_number keep s)) (Some (value p)).
Proof.
  intros keep s p Hlex Hlen. destruct (css_number_lex keep s p Hlex Hlen) as (q & H1 & H2).
  unfold num_value. rewrite H1. exact H2.
Qed.

(* TARGET 2: number and percentage tokens *)
Theorem number_token_value : forall keep integer s p,
  lex_number s = Some p -> zlen s <= 10 ^ 25 ->
  same_num (num_value (number_token keep integer s)) (Some (value p)).
Proof.
  intros keep integer s p Hlex Hlen. unfold number_token. destruct integer.
  - unfold num_value. rewrite Hlex. apply val_eq_refl.
  - apply css_number_value; assumption.
Qed.

Theorem percentage_token_value : forall keep s p,
  lex_number s = Some p -> zlen s <= 10 ^ 25 ->
  exists s', percentage_token keep (s ++ [37]) = s' ++ [37] /\ same_num (num_value s') (Some (value p)).
Proof.
  intros keep s p Hlex Hlen. exists (css_number keep s). split.
  - unfold percentage_token. rewrite removelast_last. reflexivity.
  - apply css_number_value; assumption.
Qed.

(* ---------- split_dimension ---------- *)
Lemma span_letters_app a r : Forall (fun c => is_letter c = true) a ->
  match r with [] => True | c :: _ => is_letter c = false end ->
  span_letters_rev (a ++ r) = (map to_lower a, r).
Proof.
  intros Ha Hr. induction Ha as [|x a Hx Ha IH]; cbn [app map].
  - destruct r as [|c r]; [reflexivity|]. cbn [span_letters_rev]. unfold is_letter in Hr. rewrite Hr. reflexivity.
  - cbn [span_letters_rev]. unfold is_letter in Hx. rewrite Hx, IH. reflexivity.
Qed.

Lemma split_dimension_app s u : Forall (fun c => is_letter c = true) u ->
  match rev s with [] => True | c :: _ => is_letter c = false end ->
  split_dimension (s ++ u) = (s, map to_lower u).
Proof.
  intros Hu Hs. unfold split_dimension. rewrite rev_app_distr.
  rewrite (span_letters_app (rev u) (rev s)); [|apply Forall_rev; exact Hu|exact Hs].
  rewrite map_rev, !rev_involutive. reflexivity.
Qed.

(* a lexeme ends in a digit or a dot, never in a letter *)
Definition nl_end (l : bytes) : Prop := match rev l with [] => False | c :: _ => is_letter c = false end.

Lemma nl_end_app a b : nl_end b -> nl_end (a ++ b).
Proof. unfold nl_end. rewrite rev_app_distr. destruct (rev b); [contradiction|]. cbn [app]. auto. Qed.

Lemma nl_end_cons a b : nl_end b -> nl_end (a :: b).
Proof. apply (nl_end_app [a] b). Qed.

Lemma digit_not_letter c : is_digit c = true -> is_letter c = false.
Proof. unfold is_digit, is_letter, is_lower, is_upper. lia. Qed.

Lemma nl_end_digits l : all_digits l -> l <> [] -> nl_end l.
Proof.
  intros Hd Hn. destruct (exists_last Hn) as (l' & a & ->). unfold nl_end. rewrite rev_unit.
  apply all_digits_app in Hd as [_ Hd]. inversion Hd; subst. apply digit_not_letter. assumption.
Qed.

Lemma lexeme_nl_end p : wf_lexed p -> nl_end (unlex p).
Proof.
  intros (Hsg & HI & HF & HIF & HdF & Hex). unfold unlex. apply nl_end_app.
  destruct (l_exp p).
  - destruct Hex as (_ & _ & HE & HEn). do 2 apply nl_end_app. apply nl_end_cons. apply nl_end_app.
    apply nl_end_digits; assumption.
  - rewrite app_nil_r. destruct (l_dot p).
    + apply nl_end_app. destruct (l_F p) as [|f F] eqn:EF.
      * reflexivity.
      * apply nl_end_cons. apply nl_end_digits; [assumption | discriminate].
    + rewrite app_nil_r. apply nl_end_digits; [assumption|]. destruct HIF as [H|H]; [exact H|].
      rewrite (HdF eq_refl) in H. congruence.
Qed.

Lemma split_dimension_lexeme s u p : lex_number s = Some p -> unit_ok u ->
  split_dimension (s ++ u) = (s, lower_unit u).
Proof.
  intros Hlex (_ & Hu). pose proof (lex_number_sound _ _ Hlex) as (Hs & Hwf). subst s.
  apply split_dimension_app; [exact Hu|]. pose proof (lexeme_nl_end p Hwf) as H. unfold nl_end in H.
  destruct (rev (unlex p)); [exact I | exact H].
Qed.

(* ---------- isZeroNumber: a lexeme (followed by anything) that passes the test is the single digit 0 ---------- *)
Lemma izn_cons c r : is_zero_number (c :: r) = true ->
  c = 48 /\
  match r with
  | [] => True
  | c1 :: r2 => is_digit c1 = false /\ c1 <> 46 /\
      ((c1 = 101 \/ c1 = 69) -> match r2 with d :: _ => is_digit d = false /\ d <> 43 /\ d <> 45 | [] => True end)
  end.
Proof.
  unfold is_zero_number, is_digit. destruct (c =? 48) eqn:E; cbn [negb]; [|discriminate].
  intros H. split; [lia|]. destruct r as [|c1 r2]; [exact I|].
  destruct (((48 <=? c1) && (c1 <=? 57)) || (c1 =? 46)) eqn:E1; [discriminate H|].
  split; [lia|]. split; [lia|]. intros Hc.
  destruct r2 as [|d r3]; [exact I|].
  destruct (((c1 =? 101) || (c1 =? 69)) && (((48 <=? d) && (d <=? 57)) || (d =? 43) || (d =? 45))) eqn:E2; [discriminate H|].
  lia.
Qed.

Lemma zero_number_lexeme p v : wf_lexed p -> is_zero_number (unlex p ++ v) = true ->
  digits_val (l_I p ++ l_F p) = 0.
Proof.
  destruct p as [sg I dot F ex ec es E]. unfold wf_lexed, unlex. cbn [l_sign l_I l_dot l_F l_exp l_echar l_esign l_E].
  intros (Hsg & HI & HF & HIF & HdF & Hex) Hz.
  destruct Hsg as [-> | [-> | ->]].
  2:{ change (sign_bytes 1) with [cplus] in Hz. cbn [app] in Hz. apply izn_cons in Hz as [Hz _]. discriminate Hz. }
  2:{ change (sign_bytes 2) with [cminus] in Hz. cbn [app] in Hz. apply izn_cons in Hz as [Hz _]. discriminate Hz. }
  change (sign_bytes 0) with (@nil byte) in Hz. cbn [app] in Hz.
  destruct I as [|i I'].
  - exfalso. destruct dot.
    + cbn [app] in Hz. apply izn_cons in Hz as [Hz _]. discriminate Hz.
    + destruct HIF as [H|H]; [congruence | exact (H (HdF eq_refl))].
  - cbn [app] in Hz. apply izn_cons in Hz as [-> Hz].
    destruct I' as [|i2 I''].
    + cbn [app] in Hz. destruct dot.
      * exfalso. cbn [app] in Hz. destruct Hz as (_ & Hz & _). apply Hz. reflexivity.
      * rewrite (HdF eq_refl). cbn [app] in Hz. destruct ex; [exfalso|reflexivity].
        destruct Hex as (Hec & Hes & HE & HEn). cbn [app] in Hz. destruct Hz as (_ & _ & Hz).
        specialize (Hz Hec). destruct E as [|e1 E']; [congruence|]. inversion HE as [|? ? He1 _]; subst.
        destruct Hes as [-> | [-> | ->]].
        -- change (sign_bytes 0) with (@nil byte) in Hz. cbn [app] in Hz. destruct Hz as (Hz & _). congruence.
        -- change (sign_bytes 1) with [cplus] in Hz. cbn [app] in Hz. destruct Hz as (_ & Hz & _). apply Hz. reflexivity.
        -- change (sign_bytes 2) with [cminus] in Hz. cbn [app] in Hz. destruct Hz as (_ & _ & Hz). apply Hz. reflexivity.
    + exfalso. cbn [app] in Hz. destruct Hz as (Hz & _). inversion HI as [|? ? _ HI']; subst.
      inversion HI' as [|? ? Hi2 _]; subst. congruence.
Qed.

Lemma val_eq_zero_l a b : val_eq a b -> fst a = 0 -> fst b = 0.
Proof.
  unfold val_eq. intros H Ha. rewrite Ha in H.
  pose proof (pow10_pos (snd b - Z.min (snd a) (snd b)) ltac:(lia)). nia.
Qed.

(* TARGET 3: dimension tokens: either number' ++ lower-cased unit with the same value, or the bare 0 — and the latter only
   for a zero value, a unit of the table, outside flex / functions, and when the implementation takes the opportunity *)
Theorem dimension_token_value : forall keep optzero ff drops s u p,
  lex_number s = Some p -> zlen s <= 10 ^ 25 -> unit_ok u ->
  let out := dimension_token keep optzero ff drops (s ++ u) in
  (exists s', out = s' ++ lower_unit u /\ same_num (num_value s') (Some (value p))) \/
  (out = [48] /\ is_zero_value (Some (value p)) /\ optzero (lower_unit u) = true /\ ff = false /\ drops = true).
Proof.
  intros keep optzero ff drops s u p Hlex Hlen Hu out. subst out.
  unfold dimension_token. rewrite (split_dimension_lexeme s u p Hlex Hu). cbv zeta.
  match goal with |- context [if ?c then _ else _] => destruct c eqn:Ec end.
  - right. apply andb_true_iff in Ec as [Ec Ec5]. apply andb_true_iff in Ec as [Ec Ec4].
    apply andb_true_iff in Ec as [Ec Ec3]. apply andb_true_iff in Ec as [Ec1 Ec2].
    split; [reflexivity|]. split; [|split; [exact Ec3|split; [destruct ff; [discriminate Ec4 | reflexivity] | exact Ec5]]].
    destruct (css_number_lex keep s p Hlex Hlen) as (q & Hq & Hv).
    pose proof (lex_number_sound _ _ Hq) as (Hq' & Hwq). rewrite Hq' in Ec2.
    pose proof (zero_number_lexeme q _ Hwq Ec2) as Hz.
    assert (H0 : fst (value q) = 0) by (unfold value; cbn [fst]; rewrite Hz; lia).
    pose proof (val_eq_zero_l _ _ Hv H0) as H1.
    unfold is_zero_value. destruct (value p) as [m e]. exact H1.
  - left. exists (css_number keep s). split; [reflexivity|]. apply css_number_value; assumption.
Qed.

(* ---------- regression: the tokens that lost their value before isZeroNumber ---------- *)
(* 0.5e9223372036854775808px: the exponent is 2^63, Number returns the token unchanged; it starts with the digit 0 but is
   not zero; the unit stays.  Likewise 05e9223372036854775807px (overflow guard of Number). *)
Definition big_exp_num : bytes :=
  [48; 46; 53; 101; 57; 50; 50; 51; 51; 55; 50; 48; 51; 54; 56; 53; 52; 55; 55; 53; 56; 48; 56].
Definition guard_num : bytes :=
  [48; 53; 101; 57; 50; 50; 51; 51; 55; 50; 48; 51; 54; 56; 53; 52; 55; 55; 53; 56; 48; 55].
Definition unit_px : bytes := [112; 120].

Example dimension_big_exp_keeps_unit :
  number0 big_exp_num = big_exp_num /\
  dimension_token false (fun d => beqb d unit_px) false true (big_exp_num ++ unit_px) = big_exp_num ++ unit_px /\
  number0 guard_num = guard_num /\
  dimension_token false (fun d => beqb d unit_px) false true (guard_num ++ unit_px) = guard_num ++ unit_px.
Proof. vm_compute. repeat split; reflexivity. Qed.

(* conservative: 0e5px under KeepCSS2 (mantissa 0, exponent kept) is a zero but keeps its unit; 0.0px and 0em are dropped *)
Example dimension_zero_examples :
  dimension_token true (fun _ => true) false true [48; 101; 53; 112; 120] = [48; 101; 53; 112; 120] /\
  dimension_token false (fun _ => true) false true [48; 101; 53; 112; 120] = [48] /\
  dimension_token true (fun _ => true) false true [48; 46; 48; 112; 120] = [48] /\
  dimension_token false (fun _ => true) false true [48; 69; 77] = [48].
Proof. vm_compute. repeat split; reflexivity. Qed.

Print Assumptions css_number_value.
Print Assumptions number_token_value.
Print Assumptions percentage_token_value.
Print Assumptions dimension_token_value.
