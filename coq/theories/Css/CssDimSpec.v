(* Css/CssDimSpec.v — specification side for the numeric tokens of CSS (css-syntax-3 4.3.12 / css-values-4): a number token
   has the grammar of Num ([+-]? digits (. digits)? ([eE][+-]? digits)?) and the value m * 10^e; a percentage is a number
   followed by %; a dimension is a number followed by a unit, here a non-empty run of ASCII letters (units are ASCII
   case-insensitive: the lower-cased unit is the unit). *)
From MV Require Import Base.MvBytes Num.NumModel Num.NumSpec Css.CssDim.

Definition is_letter (c : byte) : bool := is_lower c || is_upper c.
Definition unit_ok (u : bytes) : Prop := u <> [] /\ Forall (fun c => is_letter c = true) u.
Definition lower_unit (u : bytes) : bytes := map to_lower u.

(* the value of a numeric token body: the lexed number's (m, e) *)
Definition num_value (s : bytes) : option (Z * Z) := match lex_number s with Some p => Some (value p) | None => None end.
Definition same_num (a b : option (Z * Z)) : Prop :=
  match a, b with Some x, Some y => val_eq x y | _, _ => False end.
Definition is_zero_value (v : option (Z * Z)) : Prop := match v with Some (m, _) => m = 0 | None => False end.
