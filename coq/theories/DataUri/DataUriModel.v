(* DataUri/DataUriModel.v — models for /repo/common.go: Mediatype (F1: in-place, index arithmetic as in the code) and
   the re-encoding half of DataURI (F2). parse.DataURI / DecodeURL (dependency) are run by the harness; EncodeURL,
   base64.StdEncoding and parse.DataURIEncodingTable are modelled here (the table as a predicate, checked
   against the real table for all 256 bytes by the correspondence run). *)
From MV Require Import Base.MvBytes.

(* ---------- array helpers for F1 models: lists as arrays with total access ---------- *)
Definition aget (b : bytes) (i : nat) : byte := nth i b 0.
Fixpoint aset (b : bytes) (i : nat) (v : byte) : bytes :=
  match b, i with
  | [], _ => []
  | _ :: r, O => v :: r
  | c :: r, S k => c :: aset r k v
  end.
(* Go copy(b[dst:], b[src:src+n]) for dst <= src (forward copy is then safe, as in memmove) *)
Fixpoint acopy (b : bytes) (dst src n : nat) : bytes :=
  match n with
  | O => b
  | S k => acopy (aset b dst (aget b src)) (S dst) (S src) k
  end.
(* parse.ToLower(b[from:to]) *)
Fixpoint alower (b : bytes) (from n : nat) : bytes :=
  match n with
  | O => b
  | S k => alower (aset b from (to_lower (aget b from))) (S from) k
  end.

(* ---------- minify.Mediatype ---------- *)
Record mstate := { m_b : bytes; m_j : nat; m_instr : bool; m_start : nat; m_last : nat }.

Definition mstep (st : mstate) (i : nat) : mstate :=
  let b := m_b st in
  let c := aget b i in
  if negb (m_instr st) && is_ws c then
    let j' := if negb (Nat.eqb (m_start st) 0)
              then (m_j st + (i - m_start st))%nat        (* j += copy(b[j:], b[start:i]) *)
              else (m_j st + i)%nat in
    let b' := if negb (Nat.eqb (m_start st) 0) then acopy b (m_j st) (m_start st) (i - m_start st) else b in
    {| m_b := b'; m_j := j'; m_instr := m_instr st; m_start := S i; m_last := m_last st |}
  else if c =? 34 then
    let ins := negb (m_instr st) in
    if ins then
      let b' := if Nat.ltb (i - m_last st) 1024 then alower b (m_last st) (i - m_last st) else b in
      {| m_b := b'; m_j := m_j st; m_instr := ins; m_start := m_start st; m_last := m_last st |}
    else if negb (Nat.eqb (m_start st) 0) then
      (* a string closes after white space was dropped: the pending part is moved now (repair of K135), so that m_last
         refers to the data where it is *)
      let cnt := (S i - m_start st)%nat in
      {| m_b := acopy b (m_j st) (m_start st) cnt; m_j := (m_j st + cnt)%nat; m_instr := ins; m_start := S i;
         m_last := (m_j st + cnt)%nat |}
    else
      {| m_b := b; m_j := m_j st; m_instr := ins; m_start := m_start st; m_last := S i |}
  else st.

Fixpoint mloop (st : mstate) (i n : nat) : mstate :=
  match n with
  | O => st
  | S k => mloop (mstep st i) (S i) k
  end.

Definition mediatype_min (b : bytes) : bytes :=
  let n := length b in
  let st := mloop {| m_b := b; m_j := 0; m_instr := false; m_start := 0; m_last := 0 |} 0 n in
  if negb (Nat.eqb (m_start st) 0) then
    let cnt := (n - m_start st)%nat in
    let b1 := acopy (m_b st) (m_j st) (m_start st) cnt in
    let j := (m_j st + cnt)%nat in
    let b2 := alower b1 (m_last st) (j - m_last st) in
    firstn j b2
  else alower (m_b st) (m_last st) (n - m_last st).

(* ---------- percent encoding (parse.EncodeURL with parse.DataURIEncodingTable) ---------- *)
Definition needs_escape (c : byte) : bool :=
  (c <? 33) || (c =? 34) || (c =? 35) || (c =? 37) || (c =? 38) || (c =? 60) || (c =? 62) ||
  ((91 <=? c) && (c <=? 94)) || (c =? 96) || ((123 <=? c) && (c <=? 125)) || (127 <=? c).

Definition hexdigit (v : Z) : byte := if v <? 10 then 48 + v else 55 + v.      (* 0-9 A-F *)

Fixpoint pct_encode (d : bytes) : bytes :=
  match d with
  | [] => []
  | c :: r => if needs_escape c then 37 :: hexdigit (c / 16) :: hexdigit (c mod 16) :: pct_encode r
              else c :: pct_encode r
  end.

(* ---------- base64.StdEncoding.Encode ---------- *)
Definition b64char (i : Z) : byte :=
  if i <? 26 then 65 + i else if i <? 52 then 97 + (i - 26) else if i <? 62 then 48 + (i - 52)
  else if i =? 62 then 43 else 47.

Fixpoint b64_encode (d : bytes) : bytes :=
  match d with
  | [] => []
  | [a] => [b64char (a / 4); b64char ((a mod 4) * 16); 61; 61]
  | [a; b] => [b64char (a / 4); b64char ((a mod 4) * 16 + b / 16); b64char ((b mod 16) * 4); 61]
  | a :: b :: c :: r =>
      b64char (a / 4) :: b64char ((a mod 4) * 16 + b / 16) :: b64char ((b mod 16) * 4 + c / 64) ::
      b64char (c mod 64) :: b64_encode r
  end.

(* ---------- the re-encoding half of minify.DataURI ---------- *)
Definition lower_eq (a b : bytes) : bool := beqb (map to_lower a) (map to_lower b).    (* parse.EqualFold with b lower-case *)

Definition text_plain : bytes := [116;101;120;116;47;112;108;97;105;110].
Definition charset_ascii : bytes := [59;99;104;97;114;115;101;116;61;117;115;45;97;115;99;105;105]. (* ;charset=us-ascii *)
Definition semi_base64 : bytes := [59;98;97;115;101;54;52].
Definition data_colon : bytes := [100;97;116;97;58].

Definition strip_text_plain (mt : bytes) : bytes :=
  if Nat.leb 10 (length mt) && lower_eq (firstn 10 mt) text_plain then skipn 10 mt else mt.

(* remove the first ";charset=us-ascii" that is followed by the end or by ';' *)
Fixpoint strip_charset (fuel : nat) (mt : bytes) : bytes :=
  match fuel with
  | O => mt
  | S f =>
    if Nat.leb 17 (length mt) then
      match mt with
      | c :: r =>
        if (c =? 59) && lower_eq (firstn 17 mt) charset_ascii &&
           (match skipn 17 mt with [] => true | d :: _ => d =? 59 end)
        then skipn 17 mt
        else c :: strip_charset f r
      | [] => []
      end
    else mt
  end.

Definition count_escapes (d : bytes) : Z := zlen (filter needs_escape d).

(* orig = the data URI given; (mt, data) = media type and payload after parse.DataURI and the sub-minifier *)
Definition datauri_encode (orig mt data : bytes) : bytes :=
  let n := zlen data in
  let base64Len := 7 + 4 * ((n + 2) / 3) in
  let asciiLen := n + 2 * count_escapes data in
  if (zlen orig <? base64Len) && (zlen orig <? asciiLen) then orig else
  let '(mt1, enc) := if base64Len <? asciiLen then (mt ++ semi_base64, b64_encode data) else (mt, pct_encode data) in
  let mt2 := strip_text_plain mt1 in
  let mt3 := strip_charset (S (length mt2)) mt2 in
  data_colon ++ mt3 ++ [44] ++ enc.
