(* DataUri/DataUriProofs.v — round trips of the two encodings and the shape/length of DataURI's output. *)
From MV Require Import Base.MvBytes DataUri.DataUriModel DataUri.DataUriSpec.
From Coq Require Import ZifyBool.
Ltac Zify.zify_post_hook ::= Z.div_mod_to_equations.

(* ---------- finite sweeps lifted to ranges ---------- *)
Lemma forall_range (P : Z -> bool) n :
  forallb P (map Z.of_nat (seq 0 n)) = true -> forall i, 0 <= i < Z.of_nat n -> P i = true.
Proof.
  intros H i Hi. rewrite forallb_forall in H. apply H.
  apply in_map_iff. exists (Z.to_nat i). split; [lia|]. apply in_seq. lia.
Qed.

Definition opt_eqb (a : option Z) (b : Z) : bool := match a with Some x => x =? b | None => false end.

Lemma b64val_char i : 0 <= i < 64 -> b64val (b64char i) = Some i.
Proof.
  intros Hi. assert (H : opt_eqb (b64val (b64char i)) i = true).
  { apply (forall_range (fun i => opt_eqb (b64val (b64char i)) i) 64); [vm_compute; reflexivity | lia]. }
  unfold opt_eqb in H. destruct (b64val (b64char i)); [|discriminate]. apply Z.eqb_eq in H. congruence.
Qed.

Lemma b64char_not_pad i : 0 <= i < 64 -> (b64char i =? 61) = false.
Proof.
  intros Hi. apply (forall_range (fun i => negb (b64char i =? 61)) 64) in Hi; [|vm_compute; reflexivity].
  destruct (b64char i =? 61); [discriminate|reflexivity].
Qed.

Lemma hexval_digit v : 0 <= v < 16 -> hexval (hexdigit v) = Some v.
Proof.
  intros Hv. assert (H : opt_eqb (hexval (hexdigit v)) v = true).
  { apply (forall_range (fun i => opt_eqb (hexval (hexdigit i)) i) 16); [vm_compute; reflexivity | lia]. }
  unfold opt_eqb in H. destruct (hexval (hexdigit v)); [|discriminate]. apply Z.eqb_eq in H. congruence.
Qed.

(* ---------- percent encoding round trip ---------- *)
Theorem pct_roundtrip d : bytes_ok d -> pct_decode (pct_encode d) = d.
Proof.
  induction 1 as [|c d Hc Hd IH]; [reflexivity|]. cbn [pct_encode].
  destruct (needs_escape c) eqn:E.
  - cbn [pct_decode]. change (37 =? 37) with true. cbv iota.
    unfold byte_ok in Hc.
    rewrite !hexval_digit by lia. rewrite IH. f_equal. lia.
  - cbn [pct_decode]. assert (Hn : (c =? 37) = false).
    { destruct (c =? 37) eqn:E'; [|reflexivity]. apply Z.eqb_eq in E'. subst. discriminate. }
    rewrite Hn, IH. reflexivity.
Qed.

Lemma pct_encode_len d : zlen (pct_encode d) = zlen d + 2 * count_escapes d.
Proof.
  unfold count_escapes. induction d as [|c d IH]; [reflexivity|]. cbn [pct_encode filter].
  destruct (needs_escape c); rewrite ?zlen_cons, IH; lia.
Qed.

(* ---------- base64 round trip ---------- *)
Lemma list_ind3 {A} (P : list A -> Prop) :
  P [] -> (forall a, P [a]) -> (forall a b, P [a; b]) ->
  (forall a b c r, P r -> P (a :: b :: c :: r)) -> forall l, P l.
Proof.
  intros H0 H1 H2 H3. fix IH 1. intros [|a [|b [|c r]]]; [exact H0 | apply H1 | apply H2 | apply H3; apply IH].
Qed.

Theorem b64_roundtrip d : bytes_ok d -> b64_decode (b64_encode d) = Some d.
Proof.
  induction d as [|a|a b|a b c r IH] using list_ind3; intros Hok.
  - reflexivity.
  - inversion Hok as [|? ? Ha _]; subst. unfold byte_ok in Ha. cbn [b64_encode b64_decode].
    rewrite !b64val_char by lia. change (61 =? 61) with true. cbn [andb]. f_equal. f_equal. lia.
  - inversion Hok as [|? ? Ha Hr]; subst. inversion Hr as [|? ? Hb _]; subst. unfold byte_ok in Ha, Hb.
    cbn [b64_encode b64_decode]. rewrite !b64val_char by lia. change (61 =? 61) with true. cbn [andb].
    rewrite b64char_not_pad by lia. f_equal. f_equal; [lia|]. f_equal. lia.
  - inversion Hok as [|? ? Ha Hr]; subst. inversion Hr as [|? ? Hb Hr2]; subst. inversion Hr2 as [|? ? Hc Hr3]; subst.
    unfold byte_ok in Ha, Hb, Hc. cbn [b64_encode b64_decode]. rewrite !b64val_char by lia.
    rewrite (b64char_not_pad (c mod 64)) by lia. cbn [andb]. rewrite IH by exact Hr3.
    f_equal. f_equal; [lia|]. f_equal; [lia|]. f_equal. lia.
Qed.

Lemma b64_encode_len d : zlen (b64_encode d) = 4 * ((zlen d + 2) / 3).
Proof.
  induction d as [|a|a b|a b c r IH] using list_ind3; try reflexivity.
  cbn [b64_encode]. rewrite !zlen_cons, IH. lia.
Qed.

(* ---------- shape of DataURI's result ---------- *)
Definition strips (mt : bytes) : bytes :=
  let mt2 := strip_text_plain mt in strip_charset (S (length mt2)) mt2.

Theorem datauri_shape orig mt data : bytes_ok data ->
  let out := datauri_encode orig mt data in
  (out = orig /\ zlen orig < 7 + zlen (b64_encode data) /\ zlen orig < zlen (pct_encode data)) \/
  (out = data_colon ++ strips (mt ++ semi_base64) ++ [44] ++ b64_encode data /\
     b64_decode (b64_encode data) = Some data /\ 7 + zlen (b64_encode data) < zlen (pct_encode data)) \/
  (out = data_colon ++ strips mt ++ [44] ++ pct_encode data /\
     pct_decode (pct_encode data) = data /\ zlen (pct_encode data) <= 7 + zlen (b64_encode data)).
Proof.
  intros Hok. unfold datauri_encode. rewrite <- b64_encode_len, <- pct_encode_len. cbv zeta.
  destruct ((zlen orig <? 7 + zlen (b64_encode data)) && (zlen orig <? zlen (pct_encode data))) eqn:E1.
  - left. apply andb_true_iff in E1 as [A B]. split; [reflexivity|]. lia.
  - right. destruct (7 + zlen (b64_encode data) <? zlen (pct_encode data)) eqn:E2.
    + left. split; [reflexivity|]. split; [apply b64_roundtrip; exact Hok|lia].
    + right. split; [reflexivity|]. split; [apply pct_roundtrip; exact Hok|lia].
Qed.
