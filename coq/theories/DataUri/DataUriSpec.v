(* DataUri/DataUriSpec.v — specification side: RFC 3986 percent-decoding ('+' is '+'), RFC 4648 base64 decoding. *)
From MV Require Import Base.MvBytes.

Definition hexval (c : byte) : option Z :=
  if (48 <=? c) && (c <=? 57) then Some (c - 48)
  else if (65 <=? c) && (c <=? 70) then Some (c - 55)
  else if (97 <=? c) && (c <=? 102) then Some (c - 87)
  else None.

Fixpoint pct_decode (l : bytes) : bytes :=
  match l with
  | [] => []
  | c :: r =>
    if c =? 37 then
      match r with
      | h :: lo :: r' =>
        match hexval h, hexval lo with
        | Some a, Some b => (a * 16 + b) :: pct_decode r'
        | _, _ => c :: pct_decode r
        end
      | _ => c :: pct_decode r
      end
    else c :: pct_decode r
  end.

Definition b64val (c : byte) : option Z :=
  if (65 <=? c) && (c <=? 90) then Some (c - 65)
  else if (97 <=? c) && (c <=? 122) then Some (c - 71)
  else if (48 <=? c) && (c <=? 57) then Some (c + 4)
  else if c =? 43 then Some 62
  else if c =? 47 then Some 63
  else None.

Fixpoint b64_decode (l : bytes) : option bytes :=
  match l with
  | [] => Some []
  | a :: b :: c :: d :: r =>
    match b64val a, b64val b with
    | Some x, Some y =>
      if (d =? 61) && (match r with [] => true | _ => false end) then
        if c =? 61 then Some [x * 4 + y / 16]
        else match b64val c with
             | Some z => Some [x * 4 + y / 16; (y mod 16) * 16 + z / 4]
             | None => None
             end
      else
        match b64val c, b64val d, b64_decode r with
        | Some z, Some w, Some t => Some (x * 4 + y / 16 :: (y mod 16) * 16 + z / 4 :: (z mod 4) * 64 + w :: t)
        | _, _, _ => None
        end
    | _, _ => None
    end
  | _ => None
  end.
