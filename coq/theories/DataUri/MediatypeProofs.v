(* DataUri/MediatypeProofs.v — the in-place model [mediatype_min] of minify.Mediatype (DataUriModel.v, F1) equals the
   obvious list specification [mt_spec]: white space outside double-quoted strings removed, everything outside
   double-quoted strings lower-cased, the strings themselves untouched.

   Route: an abstract machine over lists (state: finished part A, part B still to be lower-cased, in-string flag)
   is shown to compute [mt_go] (= [mt_spec] except that the content of an UNTERMINATED string is lower-cased too,
   which is what the Go code does); the array state after i bytes is then shown to represent the abstract state
   after the first i bytes:   m_b = A ++ P ++ G ++ Q ++ (input from i on),  B = P ++ Q,
   where A ++ P is the compacted part b[:j], G the dead gap b[j:start] and Q the pending segment b[start:i]. *)
From MV Require Import Base.MvBytes DataUri.DataUriModel.
Open Scope Z_scope.

(* ---------- the specification ---------- *)
Fixpoint mt_spec (instr : bool) (b : bytes) : bytes :=
  match b with
  | [] => []
  | c :: r => if c =? 34 then c :: mt_spec (negb instr) r
              else if instr then c :: mt_spec instr r
              else if is_ws c then mt_spec instr r
              else to_lower c :: mt_spec instr r
  end.

Fixpoint even_quotes (b : bytes) : bool :=
  match b with
  | [] => true
  | c :: r => if c =? 34 then negb (even_quotes r) else even_quotes r
  end.

Definition has_quote (b : bytes) : bool := existsb (fun c => c =? 34) b.

(* what the Go function computes for every input (below the 1024 guard): as [mt_spec], but the content of a string
   that is never closed is lower-cased as well (white space in it is kept) *)
Fixpoint mt_go (instr : bool) (b : bytes) : bytes :=
  match b with
  | [] => []
  | c :: r => if c =? 34 then c :: mt_go (negb instr) r
              else if instr then (if has_quote r then c else to_lower c) :: mt_go instr r
              else if is_ws c then mt_go instr r
              else to_lower c :: mt_go instr r
  end.

(* ---------- sanity sweep (done before proving): all strings over {A, a, space, double quote, semicolon} up to length 7 ---------- *)
Definition sweep_alpha : bytes := [65;97;32;34;59].
Fixpoint all_strings (n : nat) : list bytes :=
  match n with
  | O => [[]]
  | S k => flat_map (fun s => map (fun c => c :: s) sweep_alpha) (all_strings k)
  end.
Definition sweep_ok (b : bytes) : bool := negb (even_quotes b) || beqb (mediatype_min b) (mt_spec false b).
Definition sweep_go_ok (b : bytes) : bool := beqb (mediatype_min b) (mt_go false b).
Definition sweep (ok : bytes -> bool) (n : nat) : bool := forallb (fun k => forallb ok (all_strings k)) (seq 0 (S n)).

Example sweep_spec_7 : sweep sweep_ok 7 = true.
Proof. vm_compute. reflexivity. Qed.
Example sweep_go_7 : sweep sweep_go_ok 7 = true.
Proof. vm_compute. reflexivity. Qed.

(* ---------- to_lower ---------- *)
Lemma to_lower_idem c : to_lower (to_lower c) = to_lower c.
Proof.
  unfold to_lower, is_upper.
  destruct ((65 <=? c) && (c <=? 90)) eqn:E; [|rewrite E; reflexivity].
  apply andb_true_iff in E as [E1 E2]. apply Z.leb_le in E1, E2.
  replace ((65 <=? c + 32) && (c + 32 <=? 90)) with false; [reflexivity|].
  symmetry. apply andb_false_iff. right. apply Z.leb_gt. lia.
Qed.

Lemma map_to_lower_idem l : map to_lower (map to_lower l) = map to_lower l.
Proof. rewrite map_map. apply map_ext. intros; apply to_lower_idem. Qed.

Lemma to_lower_34 : to_lower 34 = 34.
Proof. reflexivity. Qed.

Lemma to_lower_eq34 c : (to_lower c =? 34) = (c =? 34).
Proof.
  unfold to_lower, is_upper. destruct ((65 <=? c) && (c <=? 90)) eqn:E; [|reflexivity].
  apply andb_true_iff in E as [E1 E2]. apply Z.leb_le in E1, E2.
  transitivity false; [apply Z.eqb_neq; lia | symmetry; apply Z.eqb_neq; lia].
Qed.

Lemma to_lower_ws c : is_ws (to_lower c) = is_ws c.
Proof.
  unfold to_lower, is_upper. destruct ((65 <=? c) && (c <=? 90)) eqn:E; [|reflexivity].
  apply andb_true_iff in E as [E1 E2]. apply Z.leb_le in E1, E2.
  unfold is_ws.
  repeat match goal with |- context [?a =? ?k] => 
    let H := fresh in assert (H : (a =? k) = false) by (apply Z.eqb_neq; lia); rewrite H; clear H end.
  reflexivity.
Qed.

(* ---------- the array helpers on lists ---------- *)
Lemma aset_length b i v : length (aset b i v) = length b.
Proof. revert i; induction b as [|c r IH]; intros [|k]; simpl; auto. Qed.

Lemma aset_app p c r v : aset (p ++ c :: r) (length p) v = p ++ v :: r.
Proof. induction p as [|x p IH]; simpl; [reflexivity | rewrite IH; reflexivity]. Qed.

Lemma aget_app p c r : aget (p ++ c :: r) (length p) = c.
Proof. unfold aget. rewrite app_nth2 by lia. rewrite Nat.sub_diag. reflexivity. Qed.

Lemma nth_aset_same b i v : (i < length b)%nat -> nth i (aset b i v) 0 = v.
Proof. revert i; induction b as [|c r IH]; intros [|k] H; simpl in *; try lia; auto. apply IH; lia. Qed.

Lemma nth_aset_other b i k v : i <> k -> nth k (aset b i v) 0 = nth k b 0.
Proof.
  revert i k; induction b as [|c r IH]; intros [|i] [|k] H; simpl; try reflexivity; try congruence.
  apply IH; congruence.
Qed.

(* parse.ToLower(b[from:from+n]) on a list cut at the range *)
Lemma alower_app p m r : alower (p ++ m ++ r) (length p) (length m) = p ++ map to_lower m ++ r.
Proof.
  revert p; induction m as [|c m IH]; intros p; simpl; [reflexivity|].
  rewrite aget_app, aset_app.
  replace (p ++ to_lower c :: m ++ r) with ((p ++ [to_lower c]) ++ m ++ r) by (rewrite <- app_assoc; reflexivity).
  replace (S (length p)) with (length (p ++ [to_lower c])) by (rewrite app_length; simpl; lia).
  rewrite IH, <- app_assoc. reflexivity.
Qed.

Lemma alower_length b from n : length (alower b from n) = length b.
Proof. revert b from; induction n as [|k IH]; intros b from; simpl; [reflexivity|]. rewrite IH. apply aset_length. Qed.

(* copy(b[dst:], b[src:src+n]) with dst = |p|, src = |p| + |g|, n = |q|: q lands after p, what follows the first
   |q| bytes of g ++ q stays *)
Lemma acopy_app p g q r :
  acopy (p ++ g ++ q ++ r) (length p) (length p + length g) (length q) = p ++ q ++ skipn (length q) (g ++ q) ++ r.
Proof.
  revert p g; induction q as [|c q IH]; intros p g.
  - simpl. rewrite app_nil_r. reflexivity.
  - assert (Hget : aget (p ++ g ++ c :: q ++ r) (length p + length g) = c).
    { rewrite app_assoc, <- app_length. apply aget_app. }
    simpl length. simpl acopy. simpl app at 3. rewrite Hget.
    destruct g as [|x g].
    + simpl app. rewrite aset_app.
      assert (IH' := IH (p ++ [c]) []).
      rewrite app_length in IH'. simpl in IH'. rewrite <- app_assoc in IH'. simpl in IH'.
      simpl length. rewrite Nat.add_0_r.
      replace (length p + 1 + 0)%nat with (S (length p)) in IH' by lia.
      replace (length p + 1)%nat with (S (length p)) in IH' by lia.
      rewrite IH'. rewrite <- app_assoc. reflexivity.
    + simpl app at 2. rewrite aset_app.
      assert (IH' := IH (p ++ [c]) (g ++ [c])).
      rewrite !app_length in IH'. simpl length in IH'. rewrite <- !app_assoc in IH'. simpl app in IH'.
      replace (length p + 1 + (length g + 1))%nat with (S (length p + S (length g))) in IH' by lia.
      replace (length p + 1)%nat with (S (length p)) in IH' by lia.
      simpl length. rewrite IH'. reflexivity.
Qed.

Lemma acopy_length b dst src n : length (acopy b dst src n) = length b.
Proof.
  revert b dst src; induction n as [|k IH]; intros b dst src; simpl; [reflexivity|]. rewrite IH. apply aset_length.
Qed.

Lemma firstn_app_exact {A} (l r : list A) k : k = length l -> firstn k (l ++ r) = l.
Proof. intros ->. rewrite firstn_app, Nat.sub_diag, firstn_all. simpl. apply app_nil_r. Qed.

(* ---------- the abstract machine ---------- *)
Definition astate := (bytes * bytes * bool)%type.

Definition astep (s : astate) (c : byte) : astate :=
  let '(A, B, ins) := s in
  if negb ins && is_ws c then s
  else if c =? 34 then
    if ins then (A ++ B ++ [34], [], false) else (A, map to_lower B ++ [34], true)
  else (A, B ++ [c], ins).

Definition arun (s : astate) (b : bytes) : astate := fold_left astep b s.
Definition afinal (s : astate) : bytes := let '(A, B, _) := s in A ++ map to_lower B.
Definition ainit : astate := ([], [], false).

Lemma arun_go r : forall A B ins,
  afinal (arun (A, B, ins) r) = A ++ (if ins && has_quote r then B else map to_lower B) ++ mt_go ins r.
Proof.
  induction r as [|c r IH]; intros A B ins.
  - simpl. rewrite andb_false_r, app_nil_r. reflexivity.
  - unfold arun in *. simpl fold_left. simpl mt_go. simpl has_quote.
    destruct (negb ins && is_ws c) eqn:Ews.
    + apply andb_true_iff in Ews as [E1 E2]. apply negb_true_iff in E1. subst ins.
      rewrite IH. simpl.
      destruct (c =? 34) eqn:E34.
      * apply Z.eqb_eq in E34. subst c. discriminate.
      * rewrite E2. reflexivity.
    + destruct (c =? 34) eqn:E34.
      * apply Z.eqb_eq in E34. subst c. destruct ins.
        -- rewrite IH. simpl. rewrite <- !app_assoc. reflexivity.
        -- rewrite IH. simpl negb. simpl andb.
           assert (Hm : map to_lower (map to_lower B ++ [34]) = map to_lower B ++ [34])
             by (rewrite map_app, map_to_lower_idem; reflexivity).
           destruct (has_quote r); [|rewrite Hm]; rewrite <- app_assoc; reflexivity.
      * rewrite IH. simpl orb. destruct ins.
        -- simpl andb. destruct (has_quote r).
           ++ rewrite <- app_assoc. reflexivity.
           ++ rewrite map_app, <- app_assoc. reflexivity.
        -- simpl in Ews. rewrite Ews. simpl andb. rewrite map_app, <- app_assoc. reflexivity.
Qed.

Lemma afinal_arun b : afinal (arun ainit b) = mt_go false b.
Proof. unfold ainit. rewrite arun_go. reflexivity. Qed.

Lemma arun_snoc s b c : arun s (b ++ [c]) = astep (arun s b) c.
Proof. unfold arun. rewrite fold_left_app. reflexivity. Qed.

(* ---------- mt_go and mt_spec ---------- *)
Lemma no_quote_even r : has_quote r = false -> even_quotes r = true.
Proof.
  induction r as [|c r IH]; simpl; [reflexivity|]. intros H. apply orb_false_iff in H as [H1 H2].
  rewrite H1. auto.
Qed.

Lemma mt_go_spec r : forall ins, even_quotes r = negb ins -> mt_go ins r = mt_spec ins r.
Proof.
  induction r as [|c r IH]; intros ins H; [reflexivity|].
  simpl in *. destruct (c =? 34) eqn:E.
  - rewrite IH; [reflexivity|]. destruct (even_quotes r), ins; simpl in *; congruence.
  - destruct ins.
    + destruct (has_quote r) eqn:Hq.
      * rewrite IH by assumption. reflexivity.
      * apply no_quote_even in Hq. simpl in H. congruence.
    + rewrite IH by assumption. reflexivity.
Qed.

Lemma mt_go_no_quote s : has_quote s = false -> mt_go true s = map to_lower s.
Proof.
  induction s as [|c s IH]; simpl; [reflexivity|]. intros H. apply orb_false_iff in H as [H1 H2].
  rewrite H1, H2, IH by assumption. reflexivity.
Qed.

Lemma mt_spec_no_quote s : has_quote s = false -> mt_spec true s = s.
Proof.
  induction s as [|c s IH]; simpl; [reflexivity|]. intros H. apply orb_false_iff in H as [H1 H2].
  rewrite H1, IH by assumption. reflexivity.
Qed.

Lemma has_quote_app p s : has_quote (p ++ s) = has_quote p || has_quote s.
Proof. apply existsb_app. Qed.

(* up to a quote, both behave alike; [xorb (even_quotes p) ins] is the in-string flag after p and the quote *)
Lemma mt_go_app p s : forall ins,
  mt_go ins (p ++ 34 :: s) = mt_spec ins p ++ 34 :: mt_go (xorb (even_quotes p) ins) s.
Proof.
  induction p as [|c p IH]; intros ins.
  - simpl. destruct ins; reflexivity.
  - simpl. destruct (c =? 34) eqn:E.
    + rewrite IH. destruct (even_quotes p), ins; reflexivity.
    + destruct ins.
      * rewrite has_quote_app. simpl. rewrite orb_true_r, IH. reflexivity.
      * destruct (is_ws c); rewrite IH; reflexivity.
Qed.

Lemma mt_spec_app p s : forall ins,
  mt_spec ins (p ++ 34 :: s) = mt_spec ins p ++ 34 :: mt_spec (xorb (even_quotes p) ins) s.
Proof.
  induction p as [|c p IH]; intros ins.
  - simpl. destruct ins; reflexivity.
  - simpl. destruct (c =? 34) eqn:E.
    + rewrite IH. destruct (even_quotes p), ins; reflexivity.
    + destruct ins; [|destruct (is_ws c)]; rewrite IH; reflexivity.
Qed.

(* ---------- the array state represents the abstract state ---------- *)
Definition Rep (b0 : bytes) (i : nat) (st : mstate) : Prop :=
  exists A P G Q,
    m_b st = A ++ P ++ G ++ Q ++ skipn i b0 /\
    length (A ++ P ++ G ++ Q) = i /\
    arun ainit (firstn i b0) = (A, P ++ Q, m_instr st) /\
    m_last st = length A /\
    ((m_start st = 0 /\ m_j st = 0 /\ G = [] /\ P = []) \/
     (m_start st = length (A ++ P ++ G) /\ m_j st = length (A ++ P) /\ length G <> 0))%nat.

Lemma skipn_cons_nth (b : bytes) i : (i < length b)%nat -> skipn i b = nth i b 0 :: skipn (S i) b.
Proof.
  revert i; induction b as [|c r IH]; intros i H; simpl in H; [lia|].
  destruct i as [|k]; [reflexivity|]. simpl. apply IH. lia.
Qed.

Lemma firstn_snoc_nth (b : bytes) i : (i < length b)%nat -> firstn (S i) b = firstn i b ++ [nth i b 0].
Proof.
  revert i; induction b as [|c r IH]; intros i H; simpl in H; [lia|].
  destruct i as [|k]; [reflexivity|]. simpl. f_equal. apply IH. lia.
Qed.

Lemma Rep_init (b0 : bytes) : Rep b0 0 {| m_b := b0; m_j := 0; m_instr := false; m_start := 0; m_last := 0 |}.
Proof. exists [], [], [], []. simpl. repeat split. left. repeat split. Qed.

Local Arguments skipn : simpl never.
Local Arguments firstn : simpl never.

Lemma Rep_step (b0 : bytes) i st :
  (i < length b0)%nat -> (nth i b0 0 = 34 -> (i < 1024)%nat) -> Rep b0 i st -> Rep b0 (S i) (mstep st i).
Proof.
  intros Hi Hguard (A & P & G & Q & Hb & Hlen & Hrun & Hlast & Hmode).
  set (c := nth i b0 0) in *. set (R := skipn (S i) b0).
  assert (Hskip : skipn i b0 = c :: R) by (apply skipn_cons_nth; assumption).
  assert (Hrun' : arun ainit (firstn (S i) b0) = astep (A, P ++ Q, m_instr st) c).
  { rewrite firstn_snoc_nth by assumption. rewrite arun_snoc, Hrun. reflexivity. }
  rewrite Hskip in Hb.
  assert (Hget : aget (m_b st) i = c).
  { rewrite Hb. rewrite <- Hlen.
    replace (A ++ P ++ G ++ Q ++ c :: R) with ((A ++ P ++ G ++ Q) ++ c :: R) by (rewrite <- !app_assoc; reflexivity).
    apply aget_app. }
  clearbody c.
  destruct st as [b j ins start last]. simpl in *. subst b last.
  unfold mstep. simpl m_b. simpl m_instr. simpl m_start. simpl m_j. simpl m_last. rewrite Hget.
  unfold astep in Hrun'. rewrite !app_length in Hlen.
  destruct (negb ins && is_ws c) eqn:Ews.
  - (* white space outside a string *)
    destruct Hmode as [(Hs & Hj & HG & HP) | (Hs & Hj & HG)].
    + subst start j G P. simpl.
      exists A, Q, [c], []. simpl in *.
      refine (conj _ (conj _ (conj _ (conj _ _)))).
      * reflexivity.
      * rewrite !app_length. simpl. lia.
      * rewrite app_nil_r. assumption.
      * reflexivity.
      * right. rewrite !app_length. simpl. repeat split; lia.
    + rewrite !app_length in Hs; rewrite !app_length in Hj.
      replace (Nat.eqb start 0) with false by (symmetry; apply Nat.eqb_neq; lia). simpl negb. cbv iota.
      replace (i - start)%nat with (length Q) by lia.
      exists A, (P ++ Q), (skipn (length Q) (G ++ Q) ++ [c]), []. simpl m_b. simpl m_j. simpl m_start.
      simpl m_instr. simpl m_last.
      assert (Hsk : length (skipn (length Q) (G ++ Q)) = length G) by (rewrite skipn_length, app_length; lia).
      set (G' := skipn (length Q) (G ++ Q)) in *.
      refine (conj _ (conj _ (conj _ (conj _ _)))).
      * replace (A ++ P ++ G ++ Q ++ c :: R) with ((A ++ P) ++ G ++ Q ++ c :: R) by (rewrite <- !app_assoc; reflexivity).
        replace j with (length (A ++ P)) by (rewrite app_length; lia).
        replace start with (length (A ++ P) + length G)%nat by (rewrite app_length; lia).
        rewrite acopy_app. rewrite <- !app_assoc. reflexivity.
      * rewrite !app_length. simpl. rewrite Hsk. lia.
      * rewrite app_nil_r. assumption.
      * reflexivity.
      * right. rewrite !app_length. simpl. rewrite Hsk. repeat split; lia.
  - destruct (c =? 34) eqn:E34.
    + apply Z.eqb_eq in E34. destruct ins; simpl negb; cbv iota.
      * (* a string closes *)
        destruct Hmode as [(Hs & Hj & HG & HP) | (Hs & Hj & HG)].
        -- subst start j G P. simpl.
           exists (A ++ Q ++ [c]), [], [], []. simpl in *.
           refine (conj _ (conj _ (conj _ (conj _ _)))).
           ++ rewrite <- !app_assoc. reflexivity.
           ++ rewrite !app_length. simpl. lia.
           ++ rewrite E34. assumption.
           ++ rewrite !app_length. simpl. lia.
           ++ left. repeat split.
        -- rewrite !app_length in Hs; rewrite !app_length in Hj.
           replace (Nat.eqb start 0) with false by (symmetry; apply Nat.eqb_neq; lia). simpl negb. cbv iota.
           replace (S i - start)%nat with (length (Q ++ [c])) by (rewrite app_length; simpl length; lia).
           exists (A ++ P ++ Q ++ [c]), [], (skipn (length (Q ++ [c])) (G ++ Q ++ [c])), [].
           simpl m_b. simpl m_j. simpl m_start. simpl m_instr. simpl m_last.
           assert (Hsk : length (skipn (length (Q ++ [c])) (G ++ Q ++ [c])) = length G)
             by (rewrite skipn_length, !app_length; lia).
           set (G' := skipn (length (Q ++ [c])) (G ++ Q ++ [c])) in *.
           refine (conj _ (conj _ (conj _ (conj _ _)))).
           ++ replace (A ++ P ++ G ++ Q ++ c :: R) with ((A ++ P) ++ G ++ (Q ++ [c]) ++ R)
                by (rewrite <- !app_assoc; reflexivity).
              replace j with (length (A ++ P)) by (rewrite app_length; lia).
              replace start with (length (A ++ P) + length G)%nat by (rewrite app_length; lia).
              rewrite acopy_app. rewrite <- !app_assoc. simpl. reflexivity.
           ++ rewrite !app_length. simpl. rewrite Hsk. lia.
           ++ rewrite <- !app_assoc in Hrun'. simpl. rewrite E34. assumption.
           ++ rewrite !app_length. simpl. lia.
           ++ right. rewrite !app_length. simpl. rewrite Hsk. repeat split; lia.
      * (* a string opens: the range since the last string is lower-cased *)
        assert (Hlt : Nat.ltb (i - length A) 1024 = true).
        { apply Nat.ltb_lt. assert (i < 1024)%nat by (apply Hguard; assumption). lia. }
        rewrite Hlt.
        exists A, (map to_lower P), (map to_lower G), (map to_lower Q ++ [c]).
        simpl m_b. simpl m_j. simpl m_start. simpl m_instr. simpl m_last.
        refine (conj _ (conj _ (conj _ (conj _ _)))).
        -- replace (A ++ P ++ G ++ Q ++ c :: R) with (A ++ (P ++ G ++ Q) ++ c :: R) by (rewrite <- !app_assoc; reflexivity).
           replace (i - length A)%nat with (length (P ++ G ++ Q)) by (rewrite !app_length; lia).
           rewrite alower_app. rewrite !map_app, <- !app_assoc. simpl. reflexivity.
        -- rewrite !app_length, !map_length. simpl. lia.
        -- rewrite map_app in Hrun'. rewrite app_assoc, E34. assumption.
        -- reflexivity.
        -- destruct Hmode as [(Hs & Hj & HG & HP) | (Hs & Hj & HG)].
           ++ left. subst. repeat split.
           ++ right. rewrite !app_length, !map_length. rewrite !app_length in Hs; rewrite !app_length in Hj.
              repeat split; assumption.
    + (* any other byte: nothing happens, the pending segment grows *)
      exists A, P, G, (Q ++ [c]). simpl m_b. simpl m_j. simpl m_start. simpl m_instr. simpl m_last.
      refine (conj _ (conj _ (conj _ (conj _ _)))).
      * rewrite <- !app_assoc. reflexivity.
      * rewrite !app_length. simpl. lia.
      * rewrite app_assoc. assumption.
      * reflexivity.
      * assumption.
Qed.

Lemma Rep_loop (b0 : bytes) :
  (forall k, (k < length b0)%nat -> nth k b0 0 = 34 -> (k < 1024)%nat) ->
  forall n i st, (i + n <= length b0)%nat -> Rep b0 i st -> Rep b0 (i + n) (mloop st i n).
Proof.
  intros Hguard n; induction n as [|n IH]; intros i st Hle HR; simpl.
  - rewrite Nat.add_0_r. assumption.
  - replace (i + S n)%nat with (S i + n)%nat by lia. apply IH; [lia|].
    apply Rep_step; [lia | apply Hguard; lia | assumption].
Qed.

(* what the code after the loop returns *)
Definition mfinish (n : nat) (st : mstate) : bytes :=
  if negb (Nat.eqb (m_start st) 0) then
    let cnt := (n - m_start st)%nat in
    let b1 := acopy (m_b st) (m_j st) (m_start st) cnt in
    let j := (m_j st + cnt)%nat in
    let b2 := alower b1 (m_last st) (j - m_last st) in
    firstn j b2
  else alower (m_b st) (m_last st) (n - m_last st).

Lemma Rep_finish (b0 : bytes) st : Rep b0 (length b0) st -> mfinish (length b0) st = afinal (arun ainit b0).
Proof.
  intros (A & P & G & Q & Hb & Hlen & Hrun & Hlast & Hmode).
  rewrite firstn_all in Hrun. rewrite skipn_all in Hb. rewrite Hrun. unfold afinal.
  destruct st as [b j ins start last]. unfold mfinish. simpl in *. subst b last. rewrite <- Hlen.
  rewrite !app_length.
  destruct Hmode as [(Hs & Hj & HG & HP) | (Hs & Hj & HG)].
  - subst start j G P. simpl.
    replace (length A + length Q - length A)%nat with (length Q) by lia.
    rewrite alower_app, app_nil_r. reflexivity.
  - rewrite !app_length in Hs; rewrite !app_length in Hj.
    replace (Nat.eqb start 0) with false by (symmetry; apply Nat.eqb_neq; lia). simpl negb. cbv iota. cbv zeta.
    replace (length A + (length P + (length G + length Q)) - start)%nat with (length Q) by lia.
    replace (A ++ P ++ G ++ Q ++ []) with ((A ++ P) ++ G ++ Q ++ []) by (rewrite <- !app_assoc; reflexivity).
    replace j with (length (A ++ P)) by (rewrite app_length; lia).
    replace start with (length (A ++ P) + length G)%nat by (rewrite app_length; lia).
    rewrite acopy_app.
    set (G' := skipn (length Q) (G ++ Q)).
    replace ((A ++ P) ++ Q ++ G' ++ []) with (A ++ (P ++ Q) ++ G') by (rewrite app_nil_r, <- !app_assoc; reflexivity).
    replace (length (A ++ P) + length Q - length A)%nat with (length (P ++ Q)) by (rewrite !app_length; lia).
    rewrite alower_app. rewrite app_assoc.
    apply firstn_app_exact. rewrite !app_length, map_length, app_length. lia.
Qed.

Lemma mediatype_min_finish b : 
  mediatype_min b = mfinish (length b) (mloop {| m_b := b; m_j := 0; m_instr := false; m_start := 0; m_last := 0 |} 0 (length b)).
Proof. reflexivity. Qed.

(* ---------- the main theorems ---------- *)

(* every input whose double quotes all lie below index 1024 (the guard [i - lastString < 1024] is then never false) *)
Theorem mediatype_min_go_gen (b : bytes) :
  (forall k, (k < length b)%nat -> nth k b 0 = 34 -> (k < 1024)%nat) -> mediatype_min b = mt_go false b.
Proof.
  intros Hguard. rewrite mediatype_min_finish, <- afinal_arun.
  apply Rep_finish. 
  change (length b) with (0 + length b)%nat at 1. apply Rep_loop; [assumption | simpl; lia | apply Rep_init].
Qed.
Print Assumptions mediatype_min_go_gen.

Theorem mediatype_min_go (b : bytes) : (length b < 1024)%nat -> mediatype_min b = mt_go false b.
Proof. intros H. apply mediatype_min_go_gen. intros k Hk _. lia. Qed.
Print Assumptions mediatype_min_go.

Theorem mediatype_min_spec (b : bytes) :
  (length b < 1024)%nat -> even_quotes b = true -> mediatype_min b = mt_spec false b.
Proof. intros H He. rewrite mediatype_min_go by assumption. apply mt_go_spec. assumption. Qed.
Print Assumptions mediatype_min_spec.

(* ---------- an odd number of quotes: the unterminated string is lower-cased (white space in it kept) ---------- *)
Lemma even_quotes_app p s : even_quotes (p ++ s) = negb (xorb (even_quotes p) (even_quotes s)).
Proof.
  induction p as [|c p IH]; simpl.
  - destruct (even_quotes s); reflexivity.
  - destruct (c =? 34); rewrite IH; [|reflexivity]. destruct (even_quotes p), (even_quotes s); reflexivity.
Qed.

Lemma last_quote b : has_quote b = true -> exists p s, b = p ++ 34 :: s /\ has_quote s = false.
Proof.
  induction b as [|c r IH]; simpl; [discriminate|]. intros H.
  destruct (has_quote r) eqn:Hq.
  - destruct (IH eq_refl) as (p & s & -> & Hs). exists (c :: p), s. split; [reflexivity | assumption].
  - rewrite orb_false_r in H. apply Z.eqb_eq in H. subst c. exists [], r. split; [reflexivity | assumption].
Qed.

(* every input with an odd number of quotes is of the form of the next theorem *)
Lemma odd_quotes_split b :
  even_quotes b = false -> exists p s, b = p ++ 34 :: s /\ even_quotes p = true /\ has_quote s = false.
Proof.
  intros H. destruct (has_quote b) eqn:Hq; [|apply no_quote_even in Hq; congruence].
  destruct (last_quote b Hq) as (p & s & -> & Hs). exists p, s. repeat split; [|assumption].
  rewrite even_quotes_app in H. simpl in H. rewrite (no_quote_even s Hs) in H.
  destruct (even_quotes p); [reflexivity | discriminate].
Qed.

Theorem mediatype_min_odd (p s : bytes) :
  (length (p ++ 34 :: s)%Z < 1024)%nat -> even_quotes p = true -> has_quote s = false ->
  mediatype_min (p ++ 34 :: s) = mt_spec false p ++ 34 :: map to_lower s.
Proof.
  intros Hl Hp Hs. rewrite mediatype_min_go by assumption. rewrite mt_go_app, Hp. simpl xorb.
  rewrite mt_go_no_quote by assumption. reflexivity.
Qed.
Print Assumptions mediatype_min_odd.

(* ... where the specification keeps the tail as it is *)
Lemma mt_spec_odd (p s : bytes) :
  even_quotes p = true -> has_quote s = false -> mt_spec false (p ++ 34 :: s) = mt_spec false p ++ 34 :: s.
Proof. intros Hp Hs. rewrite mt_spec_app, Hp. simpl xorb. rewrite mt_spec_no_quote by assumption. reflexivity. Qed.

(* input a;'B with ' standing for the double quote: the Go function returns a;'b, the specification a;'B *)
Example odd_quotes_differ :
  mediatype_min [97;59;34;66] = [97;59;34;98] /\ mt_spec false [97;59;34;66] = [97;59;34;66].
Proof. vm_compute. split; reflexivity. Qed.

(* ---------- the bound: beyond the guard the range before a string is not lower-cased ---------- *)
(* 1100 times A, then a quoted x: returned unchanged, the specification lower-cases the letters (quotes: even) *)
Example guard_needed :
  let b := repeat 65 1100 ++ [34;120;34] in
  even_quotes b = true /\ mediatype_min b = b /\ mt_spec false b = repeat 97 1100 ++ [34;120;34].
Proof. vm_compute. repeat split; reflexivity. Qed.

(* the threshold is exact: an opening quote at index 1023 is fine (mediatype_min_go_gen applies, the input is longer
   than 1023), at index 1024 the equation fails *)
Example guard_threshold :
  beqb (mediatype_min (repeat 65 1023 ++ [34;34;65])) (mt_spec false (repeat 65 1023 ++ [34;34;65])) = true /\
  beqb (mediatype_min (repeat 65 1024 ++ [34;34;65])) (mt_spec false (repeat 65 1024 ++ [34;34;65])) = false.
Proof. vm_compute. split; reflexivity. Qed.

(* ---------- corollaries ---------- *)
Lemma mt_spec_length b : forall ins, (length (mt_spec ins b) <= length b)%nat.
Proof.
  induction b as [|c r IH]; intros ins; simpl; [lia|].
  destruct (c =? 34); [simpl; specialize (IH (negb ins)); lia|].
  destruct ins; [simpl; specialize (IH true); lia|].
  destruct (is_ws c); simpl; specialize (IH false); lia.
Qed.

Lemma mt_go_length b : forall ins, (length (mt_go ins b) <= length b)%nat.
Proof.
  induction b as [|c r IH]; intros ins; simpl; [lia|].
  destruct (c =? 34); [simpl; specialize (IH (negb ins)); lia|].
  destruct ins; [simpl; specialize (IH true); lia|].
  destruct (is_ws c); simpl; specialize (IH false); lia.
Qed.

Lemma even_quotes_mt_spec b : forall ins, even_quotes (mt_spec ins b) = even_quotes b.
Proof.
  induction b as [|c r IH]; intros ins; simpl; [reflexivity|].
  destruct (c =? 34) eqn:E; [simpl; rewrite E, IH; reflexivity|].
  destruct ins; [simpl; rewrite E, IH; reflexivity|].
  destruct (is_ws c); [apply IH|]. simpl. rewrite to_lower_eq34, E. apply IH.
Qed.

Lemma has_quote_mt_go b : forall ins, has_quote (mt_go ins b) = has_quote b.
Proof.
  induction b as [|c r IH]; intros ins; simpl; [reflexivity|].
  destruct (c =? 34) eqn:E; [simpl; rewrite E, IH; reflexivity|].
  destruct ins.
  - simpl. rewrite IH. destruct (has_quote r); [rewrite E | rewrite to_lower_eq34, E]; reflexivity.
  - destruct (is_ws c); [apply IH|]. simpl. rewrite to_lower_eq34, E. apply IH.
Qed.

(* the specification is idempotent (whatever the quotes) ... *)
Lemma mt_spec_idem b : forall ins, mt_spec ins (mt_spec ins b) = mt_spec ins b.
Proof.
  induction b as [|c r IH]; intros ins; simpl; [reflexivity|].
  destruct (c =? 34) eqn:E; [simpl; rewrite E, IH; reflexivity|].
  destruct ins; [simpl; rewrite E, IH; reflexivity|].
  destruct (is_ws c) eqn:W; [apply IH|].
  simpl. rewrite to_lower_eq34, E, to_lower_ws, W, to_lower_idem, IH. reflexivity.
Qed.

(* ... and so is what the Go function computes *)
Lemma mt_go_idem b : forall ins, mt_go ins (mt_go ins b) = mt_go ins b.
Proof.
  induction b as [|c r IH]; intros ins; simpl; [reflexivity|].
  destruct (c =? 34) eqn:E; [simpl; rewrite E, IH; reflexivity|].
  destruct ins.
  - simpl. rewrite has_quote_mt_go, IH.
    destruct (has_quote r); [rewrite E | rewrite to_lower_eq34, E, to_lower_idem]; reflexivity.
  - destruct (is_ws c) eqn:W; [apply IH|].
    simpl. rewrite to_lower_eq34, E, to_lower_ws, W, to_lower_idem, IH. reflexivity.
Qed.

Theorem mediatype_min_idem (b : bytes) :
  (length b < 1024)%nat -> even_quotes b = true -> mediatype_min (mediatype_min b) = mediatype_min b.
Proof.
  intros Hl He. rewrite (mediatype_min_spec b Hl He).
  rewrite mediatype_min_spec.
  - apply mt_spec_idem.
  - pose proof (mt_spec_length b false). lia.
  - rewrite even_quotes_mt_spec. assumption.
Qed.
Print Assumptions mediatype_min_idem.

(* without the condition on the quotes *)
Theorem mediatype_min_idem_any (b : bytes) :
  (length b < 1024)%nat -> mediatype_min (mediatype_min b) = mediatype_min b.
Proof.
  intros Hl. rewrite (mediatype_min_go b Hl). rewrite mediatype_min_go.
  - apply mt_go_idem.
  - pose proof (mt_go_length b false). lia.
Qed.
Print Assumptions mediatype_min_idem_any.

Theorem mediatype_min_length (b : bytes) : (length b < 1024)%nat -> (length (mediatype_min b) <= length b)%nat.
Proof. intros Hl. rewrite mediatype_min_go by assumption. apply mt_go_length. Qed.
Print Assumptions mediatype_min_length.

(* the quotes and the bytes inside quoted strings, in order *)
Fixpoint quoted (instr : bool) (b : bytes) : bytes :=
  match b with
  | [] => []
  | c :: r => if c =? 34 then c :: quoted (negb instr) r
              else if instr then c :: quoted instr r
              else quoted instr r
  end.

Lemma mt_spec_quoted b : forall ins, quoted ins (mt_spec ins b) = quoted ins b.
Proof.
  induction b as [|c r IH]; intros ins; simpl; [reflexivity|].
  destruct (c =? 34) eqn:E; [simpl; rewrite E, IH; reflexivity|].
  destruct ins; [simpl; rewrite E, IH; reflexivity|].
  destruct (is_ws c); [apply IH|]. simpl. rewrite to_lower_eq34, E. apply IH.
Qed.

(* a quoted string s between an even prefix and any rest is kept byte for byte, and both sides are treated on their own *)
Lemma mt_spec_string_kept (p s r : bytes) :
  even_quotes p = true -> has_quote s = false ->
  mt_spec false (p ++ 34 :: s ++ 34 :: r) = mt_spec false p ++ 34 :: s ++ 34 :: mt_spec false r.
Proof.
  intros Hp Hs. rewrite mt_spec_app, Hp. simpl xorb. rewrite mt_spec_app, (no_quote_even s Hs). simpl xorb.
  rewrite mt_spec_no_quote by assumption. reflexivity.
Qed.

Theorem mediatype_min_quoted (b : bytes) :
  (length b < 1024)%nat -> even_quotes b = true -> quoted false (mediatype_min b) = quoted false b.
Proof. intros Hl He. rewrite mediatype_min_spec by assumption. apply mt_spec_quoted. Qed.
Print Assumptions mediatype_min_quoted.

Theorem mediatype_min_string_kept (p s r : bytes) :
  (length (p ++ 34 :: s ++ 34 :: r)%Z < 1024)%nat -> even_quotes p = true -> has_quote s = false ->
  even_quotes r = true ->
  mediatype_min (p ++ 34 :: s ++ 34 :: r) = mt_spec false p ++ 34 :: s ++ 34 :: mt_spec false r.
Proof.
  intros Hl Hp Hs Hr. rewrite mediatype_min_spec; [apply mt_spec_string_kept; assumption | assumption |].
  rewrite even_quotes_app, Hp. simpl. rewrite even_quotes_app, (no_quote_even s Hs). simpl. rewrite Hr. reflexivity.
Qed.
Print Assumptions mediatype_min_string_kept.
