(* Dispatch/DispatchModel.v — model of the registry of /repo/minify.go (Add*, Match, MinifyMimetype) and an
   F1-style model of parse.Mediatype (dependency; what M.Minify and M.Match call to split the media type).
   Regular-expression matching is a parameter [pmatch : pattern id -> mimetype -> bool]; the harness supplies
   Go's regexp answers. Minifiers are identified by natural numbers. *)
From MV Require Import Base.MvBytes.

(* ---------- registry ---------- *)
Inductive reg_op :=
| AddLit (mt : bytes) (id : nat)      (* Add / AddFunc / AddCmd *)
| AddPat (pat : nat) (id : nat).      (* AddRegexp / AddFuncRegexp / AddCmdRegexp *)

Record registry := { lit : list (bytes * nat); pats : list (nat * nat) }.
Definition reg_init : registry := {| lit := []; pats := [] |}.

Fixpoint lit_set (mt : bytes) (id : nat) (l : list (bytes * nat)) : list (bytes * nat) :=   (* m.literal[mt] = id *)
  match l with
  | [] => [(mt, id)]
  | (k, v) :: r => if beqb k mt then (k, id) :: r else (k, v) :: lit_set mt id r
  end.
Fixpoint lit_get (mt : bytes) (l : list (bytes * nat)) : option nat :=
  match l with
  | [] => None
  | (k, v) :: r => if beqb k mt then Some v else lit_get mt r
  end.

Definition reg_step (r : registry) (o : reg_op) : registry :=
  match o with
  | AddLit mt id => {| lit := lit_set mt id (lit r); pats := pats r |}
  | AddPat p id => {| lit := lit r; pats := pats r ++ [(p, id)] |}
  end.

Section Match.
  Variable pmatch : nat -> bytes -> bool.

  Fixpoint first_pat (mt : bytes) (l : list (nat * nat)) : option (nat * nat) :=
    match l with
    | [] => None
    | (p, id) :: r => if pmatch p mt then Some (p, id) else first_pat mt r
    end.

  (* MinifyMimetype: who serves the call (None = ErrNotExist, nothing written) *)
  Definition served (r : registry) (mt : bytes) : option nat :=
    match lit_get mt (lit r) with
    | Some id => Some id
    | None => match first_pat mt (pats r) with Some (_, id) => Some id | None => None end
    end.

  (* Match: (matched literal?, pattern id, minifier) *)
  Inductive match_res := MLit (id : nat) | MPat (p id : nat) | MNone.
  Definition match_q (r : registry) (mt : bytes) : match_res :=
    match lit_get mt (lit r) with
    | Some id => MLit id
    | None => match first_pat mt (pats r) with Some (p, id) => MPat p id | None => MNone end
    end.
End Match.

(* ---------- parse.Mediatype ---------- *)
Fixpoint skip_sp (l : bytes) : bytes :=
  match l with c :: r => if c =? 32 then skip_sp r else l | [] => [] end.

Fixpoint span_until (stop : byte -> bool) (l : bytes) : bytes * bytes :=
  match l with
  | c :: r => if stop c then ([], l) else let (a, b) := span_until stop r in (c :: a, b)
  | [] => ([], [])
  end.

Definition stop_key (c : byte) : bool := (c =? 61) || (c =? 59) || (c =? 32).   (* = ; space *)
Definition stop_val (c : byte) : bool := (c =? 59) || (c =? 32).

(* l = input right after a ';' *)
Fixpoint params_loop (fuel : nat) (l : bytes) (acc : list (bytes * bytes)) : list (bytes * bytes) :=
  match fuel with
  | O => acc
  | S f =>
    let l1 := skip_sp l in
    let (key, l2) := span_until stop_key l1 in
    let l3 := skip_sp l2 in
    let (val, l4) := match l3 with
                     | c :: r => if c =? 61 then span_until stop_val (skip_sp r) else ([], l3)
                     | [] => ([], l3)
                     end in
    let l5 := skip_sp l4 in
    match l5 with
    | c :: r => if c =? 59 then params_loop f r (acc ++ [(key, val)]) else acc ++ [(key, val)]
    | [] => acc ++ [(key, val)]
    end
  end.

(* scan from index 3 for the first ';' or ' ' ; [pre] = characters before the scan position, reversed *)
Fixpoint scan_sep (pre : bytes) (l : bytes) : option (bytes * bytes) :=
  match l with
  | [] => None
  | c :: r => if (c =? 59) || (c =? 32) then Some (rev pre, l) else scan_sep (c :: pre) r
  end.

(* result: mimetype, has-params-map, params in order of appearance (later duplicates win in the Go map) *)
Definition mediatype (b0 : bytes) : bytes * bool * list (bytes * bytes) :=
  let b := skip_sp b0 in
  match scan_sep (rev (firstn 3 b)) (skipn 3 b) with
  | None => (b, false, [])
  | Some (mt, rest) =>
    match rest with
    | c :: r =>
      if c =? 32 then
        match skip_sp r with
        | d :: r' => if d =? 59 then (mt, true, params_loop (S (length r')) r' []) else (mt, false, [])
        | [] => (mt, false, [])
        end
      else (mt, true, params_loop (S (length r)) r [])
    | [] => (mt, false, [])
    end
  end.
