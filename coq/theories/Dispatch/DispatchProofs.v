(* Dispatch/DispatchProofs.v — the registry refines the documented matching rules, for every history. *)
From MV Require Import Base.MvBytes Dispatch.DispatchModel.

(* ---------- the specification, read off the registration history directly ---------- *)
Fixpoint last_lit (mt : bytes) (h : list reg_op) : option nat :=
  match h with
  | [] => None
  | o :: r =>
    match last_lit mt r with
    | Some id => Some id
    | None => match o with AddLit k id => if beqb k mt then Some id else None | AddPat _ _ => None end
    end
  end.

Section Spec.
  Variable pmatch : nat -> bytes -> bool.

  Fixpoint first_pat_h (mt : bytes) (h : list reg_op) : option (nat * nat) :=
    match h with
    | [] => None
    | AddPat p id :: r => if pmatch p mt then Some (p, id) else first_pat_h mt r
    | AddLit _ _ :: r => first_pat_h mt r
    end.

  (* served by the LAST literal registration for exactly mt, else the FIRST-registered matching pattern, else nobody *)
  Definition spec (h : list reg_op) (mt : bytes) : option nat :=
    match last_lit mt h with
    | Some id => Some id
    | None => match first_pat_h mt h with Some (_, id) => Some id | None => None end
    end.

  Lemma beqb_refl a : beqb a a = true.
  Proof. apply beqb_eq. reflexivity. Qed.

  Lemma beqb_sym a b : beqb a b = beqb b a.
  Proof.
    destruct (beqb a b) eqn:E1, (beqb b a) eqn:E2; auto.
    - apply beqb_eq in E1. subst. rewrite beqb_refl in E2. discriminate.
    - apply beqb_eq in E2. subst. rewrite beqb_refl in E1. discriminate.
  Qed.

  Lemma lit_get_set mt k id l : lit_get mt (lit_set k id l) = if beqb k mt then Some id else lit_get mt l.
  Proof.
    induction l as [|[k' v] l IH]; simpl.
    - destruct (beqb k mt); reflexivity.
    - destruct (beqb k' k) eqn:E; simpl.
      + apply beqb_eq in E. subst k'. destruct (beqb k mt); reflexivity.
      + destruct (beqb k' mt) eqn:E'.
        * apply beqb_eq in E'. subst k'. rewrite beqb_sym, E. reflexivity.
        * exact IH.
  Qed.

  Lemma first_pat_snoc mt l p id :
    first_pat pmatch mt (l ++ [(p, id)]) =
    match first_pat pmatch mt l with Some x => Some x | None => if pmatch p mt then Some (p, id) else None end.
  Proof.
    induction l as [|[p' id'] l IH]; simpl.
    - reflexivity.
    - destruct (pmatch p' mt); auto.
  Qed.

  Lemma lit_after mt h : forall r,
    lit_get mt (lit (fold_left reg_step h r)) =
    match last_lit mt h with Some id => Some id | None => lit_get mt (lit r) end.
  Proof.
    induction h as [|o h IH]; intros r; [reflexivity|]. cbn [fold_left last_lit]. rewrite IH.
    destruct (last_lit mt h); [reflexivity|]. destruct o as [k id|p id]; simpl.
    - rewrite lit_get_set. destruct (beqb k mt); reflexivity.
    - reflexivity.
  Qed.

  Lemma pats_after mt h : forall r,
    first_pat pmatch mt (pats (fold_left reg_step h r)) =
    match first_pat pmatch mt (pats r) with Some x => Some x | None => first_pat_h mt h end.
  Proof.
    induction h as [|o h IH]; intros r; cbn [fold_left first_pat_h].
    - destruct (first_pat pmatch mt (pats r)); reflexivity.
    - rewrite IH. destruct o as [k id|p id]; simpl.
      + reflexivity.
      + rewrite first_pat_snoc. destruct (first_pat pmatch mt (pats r)); [reflexivity|].
        destruct (pmatch p mt); reflexivity.
  Qed.

  Theorem served_refines_spec h mt : served pmatch (fold_left reg_step h reg_init) mt = spec h mt.
  Proof.
    unfold served, spec. rewrite lit_after, pats_after. simpl.
    destruct (last_lit mt h); reflexivity.
  Qed.

  (* the match query answers exactly what a call would use *)
  Theorem match_agrees r mt :
    served pmatch r mt = match match_q pmatch r mt with MLit id => Some id | MPat _ id => Some id | MNone => None end.
  Proof.
    unfold served, match_q. destruct (lit_get mt (lit r)); [reflexivity|].
    destruct (first_pat pmatch mt (pats r)) as [[p id]|]; reflexivity.
  Qed.

  (* re-registering a literal type replaces the earlier minifier, whatever came before *)
  Theorem reregister_replaces h mt id1 id2 h' :
    (forall k id, In (AddLit k id) h' -> k <> mt) ->
    served pmatch (fold_left reg_step (h ++ [AddLit mt id1] ++ [AddLit mt id2] ++ h') reg_init) mt = Some id2.
  Proof.
    intros Hno. rewrite served_refines_spec. unfold spec.
    assert (H' : last_lit mt h' = None).
    { induction h' as [|o h' IH]; [reflexivity|]. cbn [last_lit]. rewrite IH by (intros; eapply Hno; right; eauto).
      destruct o as [k id|]; [|reflexivity]. destruct (beqb k mt) eqn:E; [|reflexivity].
      apply beqb_eq in E. exfalso. eapply Hno; [left; reflexivity|exact E]. }
    assert (H2 : forall a b, last_lit mt (a ++ b) = match last_lit mt b with Some x => Some x | None => last_lit mt a end).
    { induction a as [|o a IH]; intros b; simpl; [destruct (last_lit mt b); reflexivity|].
      rewrite IH. destruct (last_lit mt b); reflexivity. }
    rewrite !H2, H'. simpl. rewrite beqb_refl. reflexivity.
  Qed.
End Spec.
