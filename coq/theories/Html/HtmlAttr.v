(* Html/HtmlAttr.v — F2 model of parse/html.EscapeAttrVal (the quote / escape selection html.go uses for every
   attribute value it writes) and the HTML tokenizer's reading of an attribute value (HTML Living Standard 13.2.5.36-38:
   double-quoted, single-quoted, unquoted attribute value states) as specification. *)
From MV Require Import Base.MvBytes Xml.XmlModel.
From Coq Require Import Arith.

(* charTable of parse/html/util.go: bytes that forbid the unquoted form *)
Definition needs_quote (c : byte) : bool :=
  (c =? 9) || (c =? 10) || (c =? 12) || (c =? 13) || (c =? 32) || (c =? 34) || (c =? 39) || (c =? 60) || (c =? 61) || (c =? 62) || (c =? 96).

(* EscapeAttrVal(buf, b, origQuote, mustQuote); origQuote is 0, 34 (dq) or 39 (') *)
Definition html_escape_attr_val (b : bytes) (orig : byte) (must : bool) : bytes :=
  let unq := negb (existsb needs_quote b) in
  let singles := count 39 b in
  let doubles := count 34 b in
  if unq && (negb must || (orig =? 0)) then b
  else if (Nat.eqb singles 0 && (orig =? 39)) || (Nat.eqb doubles 0 && (orig =? 34)) then [orig] ++ b ++ [orig]
  else if Nat.ltb doubles singles || (Nat.eqb singles doubles && negb (orig =? 39))
       then [34] ++ escape_q 34 [38; 35; 51; 52; 59] b ++ [34]
       else [39] ++ escape_q 39 [38; 35; 51; 57; 59] b ++ [39].

(* ---------- specification: what an HTML tokenizer reads back ---------- *)
Definition is_html_ws (c : byte) : bool := (c =? 9) || (c =? 10) || (c =? 12) || (c =? 13) || (c =? 32).
Fixpoint take_until (stop : byte -> bool) (l : bytes) : bytes * bytes :=
  match l with
  | [] => ([], [])
  | c :: r => if stop c then ([], l) else let '(v, r') := take_until stop r in (c :: v, r')
  end.
(* the attribute value that starts at l (right after the dq=dq): raw value bytes (character references not yet decoded)
   and the input after the value (after the closing quote for quoted values) *)
Definition html_attr_value (l : bytes) : option (bytes * bytes) :=
  match l with
  | 34 :: r => let '(v, r') := take_until (fun c => c =? 34) r in match r' with 34 :: r'' => Some (v, r'') | _ => None end
  | 39 :: r => let '(v, r') := take_until (fun c => c =? 39) r in match r' with 39 :: r'' => Some (v, r'') | _ => None end
  | _ => let '(v, r') := take_until (fun c => is_html_ws c || (c =? 62)) l in
         match v with [] => None | _ => Some (v, r') end      (* dq=dq directly followed by white space or dq>dq has no value here *)
  end.
