(* Html/HtmlAttrLoop.v — F2 model of what html.go's attribute loop writes for ONE ordinary attribute of a start tag
   (/repo/html/html.go, "write attributes"): value processing chosen by the trimAttr trait, omission of empty
   class / dir / id / name (and action on form), omission of default values (rules regenerated from the source:
   coq/gen/HtmlDefaults_gen.v; off with KeepDefaultAttrVals), boolean attributes written without value, and the quote /
   escape selection (Html/HtmlAttr.v; forced quotes with KeepQuotes and for the RDFa attributes).
   Not in this model (the correspondence generator does not produce them): attributes whose value is handed to another
   minifier or rewritten (style, on*, URL attributes, type / enctype / accept media types), the special pre-processing of
   meta / script / input / a, template delimiters.
   The two processed forms of the value (entities replaced; entities replaced + white space collapsed and trimmed) are
   computed by the harness with the dependency's helpers: which one is used is decided HERE from the trait table
   regenerated from html/table.go. *)
From Coq Require Import String Ascii.
From MVGen Require Import Tables_gen HtmlDefaults_gen.
From MV Require Import Base.MvBytes Html.HtmlAttr Html.HtmlWs.
From Coq Require Import Arith.

Record hattr := { a_name : bytes; a_val_ent : bytes; a_val_trim : bytes; a_quote : byte }.
Record aopts := { keep_default : bool; keep_quotes : bool }.

Definition bytes_of_string (s : string) : bytes :=
  (fix go (s : string) : bytes := match s with EmptyString => [] | String c r => Z.of_nat (nat_of_ascii c) :: go r end) s.
Definition lower_bytes (b : bytes) : bytes := map to_lower b.

Definition attr_traits (n : bytes) : Z := tlookup n html_attr_traits.
Definition is_boolean_attr (n : bytes) : bool := has (attr_traits n) trait_booleanAttr.
Definition is_trim_attr (n : bytes) : bool := has (attr_traits n) trait_trimAttr.

Definition n_class := [99;108;97;115;115]. Definition n_dir := [100;105;114]. Definition n_id := [105;100]. Definition n_name := [110;97;109;101].
Definition n_action := [97;99;116;105;111;110]. Definition n_form := [102;111;114;109].
Definition rdfa_attrs : list bytes :=
  map bytes_of_string ["vocab"; "typeof"; "property"; "resource"; "prefix"; "content"; "about"; "rev"; "datatype"; "inlist"]%string.
Definition is_rdfa (n : bytes) : bool := existsb (beqb n) rdfa_attrs.

Definition empty_omitted (tag n : bytes) : bool :=
  beqb n n_class || beqb n n_dir || beqb n n_id || beqb n n_name || (beqb n n_action && beqb tag n_form).

(* one regenerated rule: (attribute, element or "", fold | exact, value) *)
Definition rule_matches (tag n v : bytes) (r : string * string * string * string) : bool :=
  let '(ra, rt, cmp, rv) := r in
  beqb n (bytes_of_string ra) &&
  (match rt with EmptyString => true | _ => beqb tag (bytes_of_string rt) end) &&
  (if String.eqb rv "@jsMimetypes" then existsb (fun e => beqb (lower_bytes v) (fst e)) html_js_mimetypes
   else if String.eqb cmp "fold" then beqb (lower_bytes v) (lower_bytes (bytes_of_string rv))
   else beqb v (bytes_of_string rv)).
Definition default_dropped (o : aopts) (tag n v : bytes) : bool :=
  negb (keep_default o) && existsb (rule_matches tag n v) html_default_rules.

Definition known_tag (tag : bytes) : bool := negb (tlookup tag html_tag_traits =? 0).

Definition attr_value (a : hattr) : bytes := if is_trim_attr (a_name a) then a_val_trim a else a_val_ent a.

(* the bytes written for the attribute (empty = the attribute is dropped) *)
Definition attr_out (o : aopts) (tag : bytes) (a : hattr) : bytes :=
  let v := attr_value a in
  let n := a_name a in
  if known_tag tag && ((match v with [] => empty_omitted tag n | _ => false end) || default_dropped o tag n v) then []
  else
    [32] ++ n ++
    (match v with
     | [] => []
     | _ => if is_boolean_attr n then [] else [61] ++ html_escape_attr_val v (a_quote a) (keep_quotes o || is_rdfa n)
     end).

Definition attrs_out (o : aopts) (tag : bytes) (l : list hattr) : bytes := concat (map (attr_out o tag) l).
