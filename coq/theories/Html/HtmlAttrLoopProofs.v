(* Html/HtmlAttrLoopProofs.v — what the attribute loop writes: an attribute is dropped only when it is empty (class / dir / id /
   name, action on form) or has its default value (and never a default with KeepDefaultAttrVals); a written value is read
   back by the HTML tokenizer as the processed value; KeepQuotes keeps it quoted. *)
From Coq Require Import String.
From MVGen Require Import Tables_gen HtmlDefaults_gen.
From MV Require Import Base.MvBytes Xml.XmlModel Xml.XmlEscape Html.HtmlAttr Html.HtmlAttrProofs Html.HtmlWs.
From MV Require Import Html.HtmlAttrLoop.

Theorem attr_dropped_only_if : forall o tag a, attr_out o tag a = [] ->
  known_tag tag = true /\
  ((attr_value a = [] /\ empty_omitted tag (a_name a) = true) \/ default_dropped o tag (a_name a) (attr_value a) = true).
Proof.
  intros o tag a H. unfold attr_out in H. cbv zeta in H.
  destruct (known_tag tag && ((match attr_value a with [] => empty_omitted tag (a_name a) | _ => false end) || default_dropped o tag (a_name a) (attr_value a))) eqn:E.
  - apply andb_true_iff in E as [K E]. split; [exact K|]. apply orb_true_iff in E as [E|E]; [left|right; exact E].
    destruct (attr_value a); [split; [reflexivity|exact E] | discriminate E].
  - discriminate H.
Qed.

Theorem keep_default_attrvals_honoured : forall o tag a, keep_default o = true -> attr_out o tag a = [] ->
  attr_value a = [] /\ empty_omitted tag (a_name a) = true.
Proof.
  intros o tag a Hk H. destruct (attr_dropped_only_if o tag a H) as (_ & [A|A]); [exact A|].
  unfold default_dropped in A. rewrite Hk in A. discriminate A.
Qed.

(* a written value: the tokenizer reads back one value that decodes to the processed value and stops where it ends *)
Theorem attr_written_reads_back : forall o tag a rest,
  attr_value a <> [] -> is_boolean_attr (a_name a) = false -> attr_out o tag a <> [] ->
  (a_quote a = 0 \/ a_quote a = 34 \/ a_quote a = 39) -> follows_ok rest ->
  exists lit body, attr_out o tag a = [32] ++ a_name a ++ [61] ++ lit /\
    html_attr_value (lit ++ rest) = Some (body, rest) /\ unref_quotes body = unref_quotes (attr_value a).
Proof.
  intros o tag a rest Hv Hb Hne Hq Hr. unfold attr_out in *. cbv zeta in *.
  destruct (known_tag tag && ((match attr_value a with [] => empty_omitted tag (a_name a) | _ => false end) || default_dropped o tag (a_name a) (attr_value a))).
  - contradiction Hne. reflexivity.
  - destruct (attr_value a) as [|c r] eqn:V; [contradiction Hv; reflexivity|]. rewrite Hb.
    destruct (attr_value_roundtrip (c :: r) (a_quote a) (keep_quotes o || is_rdfa (a_name a)) rest) as (body & H1 & H2); [discriminate | exact Hq | exact Hr |].
    exists (html_escape_attr_val (c :: r) (a_quote a) (keep_quotes o || is_rdfa (a_name a))), body. split; [reflexivity|]. split; assumption.
Qed.

Theorem keep_quotes_honoured_in_loop : forall o tag a,
  keep_quotes o = true -> (a_quote a = 34 \/ a_quote a = 39) -> attr_value a <> [] -> is_boolean_attr (a_name a) = false -> attr_out o tag a <> [] ->
  exists q body, (q = 34 \/ q = 39) /\ attr_out o tag a = [32] ++ a_name a ++ [61] ++ [q] ++ body ++ [q].
Proof.
  intros o tag a Hk Hq Hv Hb Hne. unfold attr_out in *. cbv zeta in *.
  destruct (known_tag tag && ((match attr_value a with [] => empty_omitted tag (a_name a) | _ => false end) || default_dropped o tag (a_name a) (attr_value a))).
  - contradiction Hne. reflexivity.
  - destruct (attr_value a) as [|c r] eqn:V; [contradiction Hv; reflexivity|]. rewrite Hb, Hk. cbn [orb].
    destruct (mustquote_keeps_quotes (c :: r) (a_quote a) Hq) as (q & body & Hq' & E). exists q, body. split; [exact Hq'|]. rewrite E. reflexivity.
Qed.

(* boolean attributes are written without a value *)
Theorem boolean_attr_bare : forall o tag a, is_boolean_attr (a_name a) = true -> attr_out o tag a = [] \/ attr_out o tag a = [32] ++ a_name a.
Proof.
  intros o tag a Hb. unfold attr_out. cbv zeta.
  destruct (known_tag tag && _); [left; reflexivity|]. right. destruct (attr_value a); [rewrite app_nil_r; reflexivity|]. rewrite Hb. rewrite app_nil_r. reflexivity.
Qed.
