(* Html/HtmlAttrProofs.v — whatever quoting and escaping EscapeAttrVal chooses, an HTML tokenizer reads back a value that
   decodes (quote references) to the same text, and stops exactly where the value ends. *)
From MV Require Import Base.MvBytes Xml.XmlModel Xml.XmlEscape Html.HtmlAttr.
From Coq Require Import Arith.

(* what may follow an attribute value inside a tag: the end of the input, white space, or dq>dq *)
Definition follows_ok (rest : bytes) : Prop := match rest with [] => True | c :: _ => is_html_ws c = true \/ c = 62 end.

(* ---------- helper lemmas ---------- *)

(* scanning stops exactly after [v] when no byte of [v] stops it and what follows is empty or a stop byte *)
Lemma take_until_app : forall stop v rest,
  (forall c, In c v -> stop c = false) ->
  match rest with [] => True | c :: _ => stop c = true end ->
  take_until stop (v ++ rest) = (v, rest).
Proof.
  intros stop v rest Hv Hr. induction v as [|x v IH].
  - destruct rest as [|c r]; [reflexivity|]. simpl. rewrite Hr. reflexivity.
  - simpl. rewrite (Hv x (or_introl eq_refl)). rewrite IH; [reflexivity|].
    intros c Hc; apply Hv; right; assumption.
Qed.

Lemma existsb_false_all : forall (f : byte -> bool) b, existsb f b = false -> forall c, In c b -> f c = false.
Proof.
  intros f b H c Hc. destruct (f c) eqn:E; [|reflexivity].
  assert (X : existsb f b = true) by (apply existsb_exists; exists c; split; assumption). congruence.
Qed.

(* a byte that does not need quoting neither ends an unquoted value nor opens a quoted one *)
Lemma needs_quote_false : forall c, needs_quote c = false ->
  is_html_ws c || (c =? 62) = false /\ c <> 34 /\ c <> 39.
Proof.
  intros c H. unfold needs_quote in H. rewrite !orb_false_iff in H.
  destruct H as [[[[[[[[[[H9 H10] H12] H13] H32] H34] H39] H60] H61] H62] H96].
  unfold is_html_ws. rewrite H9, H10, H12, H13, H32, H62.
  split; [reflexivity|]. split; apply Z.eqb_neq; assumption.
Qed.

Lemma count0_notin : forall q b, count q b = 0%nat -> ~ In q b.
Proof.
  intros q b. unfold count. induction b as [|x b IH]; intros H; [intros []|].
  simpl in H. destruct (Z.eqb_spec q x) as [->|N]; [simpl in H; discriminate|].
  intros [E|HI]; [congruence | exact (IH H HI)].
Qed.

(* the three branches of the tokenizer *)
Lemma hav34 : forall r, html_attr_value (34 :: r) =
  let '(v, r') := take_until (fun c => c =? 34) r in match r' with 34 :: r'' => Some (v, r'') | _ => None end.
Proof. reflexivity. Qed.

Lemma hav39 : forall r, html_attr_value (39 :: r) =
  let '(v, r') := take_until (fun c => c =? 39) r in match r' with 39 :: r'' => Some (v, r'') | _ => None end.
Proof. reflexivity. Qed.

Lemma hav_other : forall c r, c <> 34 -> c <> 39 -> html_attr_value (c :: r) =
  let '(v, r') := take_until (fun c => is_html_ws c || (c =? 62)) (c :: r) in
  match v with [] => None | _ => Some (v, r') end.
Proof. intros c r H34 H39. unfold html_attr_value. zcase c; exfalso; auto. Qed.

Lemma hav_dq : forall body rest, ~ In 34 body ->
  html_attr_value (([34] ++ body ++ [34]) ++ rest) = Some (body, rest).
Proof.
  intros body rest H.
  replace (([34] ++ body ++ [34]) ++ rest) with (34 :: body ++ 34 :: rest)
    by (simpl; rewrite <- app_assoc; reflexivity).
  rewrite hav34, take_until_app; [reflexivity | | reflexivity].
  intros c Hc. apply Z.eqb_neq. intros ->. auto.
Qed.

Lemma hav_sq : forall body rest, ~ In 39 body ->
  html_attr_value (([39] ++ body ++ [39]) ++ rest) = Some (body, rest).
Proof.
  intros body rest H.
  replace (([39] ++ body ++ [39]) ++ rest) with (39 :: body ++ 39 :: rest)
    by (simpl; rewrite <- app_assoc; reflexivity).
  rewrite hav39, take_until_app; [reflexivity | | reflexivity].
  intros c Hc. apply Z.eqb_neq. intros ->. auto.
Qed.

Lemma hav_unq : forall b rest, b <> [] -> existsb needs_quote b = false -> follows_ok rest ->
  html_attr_value (b ++ rest) = Some (b, rest).
Proof.
  intros b rest Hb Hn Hr.
  assert (A : forall c, In c b -> needs_quote c = false) by (apply existsb_false_all; assumption).
  destruct b as [|x b]; [congruence|].
  destruct (needs_quote_false x (A x (or_introl eq_refl))) as [_ [N34 N39]].
  change ((x :: b) ++ rest) with (x :: b ++ rest).
  rewrite hav_other by assumption.
  change (x :: b ++ rest) with ((x :: b) ++ rest).
  rewrite take_until_app; [reflexivity | |].
  - intros c Hc. apply (needs_quote_false c (A c Hc)).
  - destruct rest as [|c r]; [exact I|]. simpl in Hr. destruct Hr as [Hr| ->].
    + rewrite Hr. reflexivity.
    + apply orb_true_r.
Qed.

(* ---------- the theorems ---------- *)

(* MAIN THEOREM: for every value b (non-empty), every original quote (none, double, single), mustQuote on or off, and
   whatever follows: the tokenizer returns a raw value [body] and exactly [rest]; [body] contains no character that
   would have ended it early, and decoding the quote references gives the same text as decoding them in b *)
Theorem attr_value_roundtrip : forall b orig must rest,
  b <> [] -> (orig = 0 \/ orig = 34 \/ orig = 39) -> follows_ok rest ->
  exists body, html_attr_value (html_escape_attr_val b orig must ++ rest) = Some (body, rest) /\
               unref_quotes body = unref_quotes b.
Proof.
  intros b orig must rest Hb Ho Hr. unfold html_escape_attr_val. cbv zeta.
  destruct (negb (existsb needs_quote b) && (negb must || (orig =? 0))) eqn:E1.
  - apply andb_true_iff in E1 as [E1 _]. apply negb_true_iff in E1.
    exists b. split; [|reflexivity]. apply hav_unq; assumption.
  - destruct ((Nat.eqb (count 39 b) 0 && (orig =? 39)) || (Nat.eqb (count 34 b) 0 && (orig =? 34))) eqn:E2.
    + exists b. split; [|reflexivity].
      apply orb_true_iff in E2 as [E2|E2]; apply andb_true_iff in E2 as [C O];
        apply Nat.eqb_eq in C; apply Z.eqb_eq in O; subst orig.
      * apply hav_sq, count0_notin, C.
      * apply hav_dq, count0_notin, C.
    + destruct (Nat.ltb (count 34 b) (count 39 b) || (Nat.eqb (count 39 b) (count 34 b) && negb (orig =? 39))).
      * exists (escape_q 34 [38; 35; 51; 52; 59] b). split.
        -- apply hav_dq, escape_q_no_q. simpl. lia.
        -- apply unref_escape_q. left. split; reflexivity.
      * exists (escape_q 39 [38; 35; 51; 57; 59] b). split.
        -- apply hav_sq, escape_q_no_q. simpl. lia.
        -- apply unref_escape_q. right. split; reflexivity.
Qed.

(* lengths of the four possible outputs *)
Lemma quoted_length : forall (q : byte) (body : bytes), length ([q] ++ body ++ [q]) = (length body + 2)%nat.
Proof. intros q body. simpl. rewrite app_length. simpl. lia. Qed.

(* quotes are dropped only when no byte of the value needs them *)
Theorem unquoted_only_if_safe : forall b orig must,
  html_escape_attr_val b orig must = b -> b <> [] -> (hd 0 b <> 34 /\ hd 0 b <> 39) ->
  existsb needs_quote b = false.
Proof.
  intros b orig must H _ _. unfold html_escape_attr_val in H. cbv zeta in H.
  destruct (negb (existsb needs_quote b) && (negb must || (orig =? 0))) eqn:E1.
  - apply andb_true_iff in E1 as [E1 _]. apply negb_true_iff in E1. exact E1.
  - exfalso. apply (f_equal (@length byte)) in H.
    destruct ((Nat.eqb (count 39 b) 0 && (orig =? 39)) || (Nat.eqb (count 34 b) 0 && (orig =? 34))).
    + rewrite quoted_length in H. lia.
    + destruct (Nat.ltb (count 34 b) (count 39 b) || (Nat.eqb (count 39 b) (count 34 b) && negb (orig =? 39)));
        rewrite quoted_length, escape_q_length in H by reflexivity; lia.
Qed.

(* KeepQuotes (mustQuote with an original quote): the value is always quoted *)
Theorem mustquote_keeps_quotes : forall b orig, (orig = 34 \/ orig = 39) ->
  exists q body, (q = 34 \/ q = 39) /\ html_escape_attr_val b orig true = [q] ++ body ++ [q].
Proof.
  intros b orig Ho. unfold html_escape_attr_val. cbv zeta.
  assert (Z0 : (orig =? 0) = false) by (apply Z.eqb_neq; lia).
  rewrite Z0. simpl negb. simpl orb. rewrite andb_false_r.
  destruct ((Nat.eqb (count 39 b) 0 && (orig =? 39)) || (Nat.eqb (count 34 b) 0 && (orig =? 34))).
  - exists orig, b. split; [assumption | reflexivity].
  - destruct (Nat.ltb (count 34 b) (count 39 b) || (Nat.eqb (count 39 b) (count 34 b) && negb (orig =? 39))).
    + eexists 34, _. split; [left; reflexivity | reflexivity].
    + eexists 39, _. split; [right; reflexivity | reflexivity].
Qed.

(* the emitted literal is never longer than both quoted alternatives *)
Theorem escape_not_longer_than_quoting : forall b orig must,
  (length (html_escape_attr_val b orig must) <= length (dq_body b) + 2)%nat /\
  (length (html_escape_attr_val b orig must) <= length (sq_body b) + 2)%nat.
Proof.
  intros b orig must. unfold html_escape_attr_val, dq_body, sq_body. cbv zeta.
  rewrite !escape_q_length by reflexivity.
  destruct (negb (existsb needs_quote b) && (negb must || (orig =? 0))); [lia|].
  destruct ((Nat.eqb (count 39 b) 0 && (orig =? 39)) || (Nat.eqb (count 34 b) 0 && (orig =? 34))).
  - rewrite quoted_length. lia.
  - destruct (Nat.ltb_spec (count 34 b) (count 39 b)); simpl orb; cbv iota.
    + rewrite quoted_length, escape_q_length by reflexivity. lia.
    + destruct (Nat.eqb_spec (count 39 b) (count 34 b)); simpl andb; cbv iota.
      * destruct (negb (orig =? 39)); rewrite quoted_length, escape_q_length by reflexivity; lia.
      * rewrite quoted_length, escape_q_length by reflexivity. lia.
Qed.

Example attr_examples :
  html_escape_attr_val [97; 98] 34 false = [97; 98] /\                                  (* a b -> unquoted *)
  html_escape_attr_val [97; 32; 98] 39 false = [39; 97; 32; 98; 39] /\                  (* 'a b' keeps its quote *)
  html_escape_attr_val [97; 34; 39; 34] 34 false = [39; 97; 34; 38; 35; 51; 57; 59; 34; 39].   (* adq'dq -> 'adq&#39;dq' *)
Proof. vm_compute. auto. Qed.
