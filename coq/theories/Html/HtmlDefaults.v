(* Html/HtmlDefaults.v — the rules by which html.go drops an attribute as "default value" (regenerated from the source:
   coq/gen/HtmlDefaults_gen.v) against the HTML Living Standard, pinned below: for an enumerated attribute the value must be
   its missing-value default on the elements that have the attribute (4.12.1 script type, 4.2.6 style, 4.2.4 link
   rel=stylesheet, 4.10.5 input type, 4.10.6 button type, 4.10.18.6 form method / enctype, 4.8.14 area shape, 4.2.6 style
   media), for the numeric attributes colspan / rowspan / span the value 1 — or a value that is not a valid non-negative
   integer, for which the rules for parsing integers return an error and the default 1 is used. *)
From Coq Require Import List String Bool Ascii.
Import ListNotations.
From MVGen Require Import HtmlDefaults_gen.
Local Open Scope string_scope.

(* (attribute, element, default): element "" = every element that has the attribute *)
Definition ref_defaults : list (string * string * string) :=
  [("type", "script", "@jsMimetypes"); ("type", "style", "text/css"); ("type", "link", "text/css");
   ("type", "input", "text"); ("type", "button", "submit");
   ("method", "", "get"); ("enctype", "", "application/x-www-form-urlencoded");
   ("shape", "", "rect"); ("media", "style", "all")].
Definition numeric_default_1 : list string := ["colspan"; "rowspan"; "span"].

Fixpoint all_digits (s : string) : bool :=
  match s with
  | EmptyString => true
  | String c r => (Nat.leb 48 (nat_of_ascii c) && Nat.leb (nat_of_ascii c) 57) && all_digits r
  end.
Definition valid_nonneg_int (s : string) : bool := match s with EmptyString => false | _ => all_digits s end.

Definition triple_eqb (a b : string * string * string) : bool :=
  let '(a1, a2, a3) := a in let '(b1, b2, b3) := b in String.eqb a1 b1 && String.eqb a2 b2 && String.eqb a3 b3.
Definition rule_ok (r : string * string * string * string) : bool :=
  let '(attr, tag, cmp, v) := r in
  existsb (triple_eqb (attr, tag, v)) ref_defaults ||
  (existsb (String.eqb attr) numeric_default_1 && String.eqb tag "" && (String.eqb v "1" || negb (valid_nonneg_int v))).
Definition html_default_rules_ok : bool := forallb rule_ok html_default_rules && Nat.eqb html_default_rules_unparsed 0.
(* the extraction found the rules it is known to look for *)
Definition html_default_rules_complete : bool :=
  forallb (fun a => existsb (fun r => String.eqb (fst (fst (fst r))) a) html_default_rules) ["type"; "method"; "enctype"; "shape"; "media"; "colspan"].
