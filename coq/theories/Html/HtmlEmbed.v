(* Html/HtmlEmbed.v — F2 model of html.Minify's token loop WITH a registry of sub-minifiers (attribute-free documents, so the
   media type of a raw-text element is its documented default: script -> application/javascript, style -> text/css,
   iframe -> text/html; svg and math tokens -> image/svg+xml, application/mathml+xml).  The registry is an arbitrary
   function: [look mt = None] = nothing registered for mt (minify.ErrNotExist: the bytes pass through unchanged),
   [look mt = Some f], [f payload = None] = the sub-minifier fails (the outer call fails, at this token),
   [f payload = Some out] = its output.  The loop is the one of Html/HtmlWs.v with the raw-text element remembered by
   name; everything else is identical (embed_none_is_plain proves it), so the theorems of C03 carry over. *)
From MVGen Require Import Tables_gen.
From MV Require Import Base.MvBytes Html.HtmlWs.
From Coq Require Import Arith.

Definition registry := bytes -> option (bytes -> option bytes).
Definition mt_js : bytes := [97;112;112;108;105;99;97;116;105;111;110;47;106;97;118;97;115;99;114;105;112;116].
Definition mt_css : bytes := [116;101;120;116;47;99;115;115].
Definition mt_html : bytes := [116;101;120;116;47;104;116;109;108].
Definition mt_svg : bytes := [105;109;97;103;101;47;115;118;103;43;120;109;108].
Definition mt_math : bytes := [97;112;112;108;105;99;97;116;105;111;110;47;109;97;116;104;109;108;43;120;109;108].
Definition n_iframe : bytes := [105;102;114;97;109;101].

(* the media type a raw-text element's content is dispatched on (no type attribute) *)
Definition raw_mimetype (name : bytes) : option bytes :=
  if beqb name n_script then Some mt_js else if beqb name n_style then Some mt_css
  else if beqb name n_iframe then Some mt_html else None.

(* MinifyMimetype + the ErrNotExist tolerance: None = the outer call fails *)
Definition dispatch (look : registry) (mt payload : bytes) : option bytes :=
  match look mt with
  | None => Some payload
  | Some f => f payload
  end.
Definition embed_raw (look : registry) (rawname payload : bytes) : option bytes :=
  match raw_mimetype rawname with
  | Some mt => dispatch look mt payload
  | None => Some payload            (* textarea, title, ...: written unchanged *)
  end.
Definition embed_obj (look : registry) (t : htok) : option bytes :=
  match tt t with
  | HSvg => dispatch look mt_svg (data t)
  | HMath => dispatch look mt_math (data t)
  | _ => Some (data t)              (* template tokens *)
  end.

(* result: the pieces, or the index (in the token list) of the token whose sub-minifier failed *)
Inductive eres := EOk (ps : list piece) | EFail (at_token : nat).
Definition econs (p : piece) (r : eres) : eres := match r with EOk ps => EOk (p :: ps) | EFail n => EFail n end.

(* [rawname] = [] when not inside a raw-text element.  [idx] = index of the head token *)
Fixpoint minify_pieces_reg (look : registry) (o : hopts) (omit inpre : bool) (rawname : bytes) (skip : nat) (idx : nat) (ts : list htok) : eres :=
  match ts with
  | [] => EOk []
  | t :: rest =>
    match skip with
    | S k => minify_pieces_reg look o omit inpre rawname k (S idx) rest
    | O =>
      let raw := match rawname with [] => false | _ => true end in
      match tt t with
      | HError => EOk []
      | HDoctype => econs (PVerb [60;33;100;111;99;116;121;112;101;32;104;116;109;108;62]) (minify_pieces_reg look o omit inpre rawname 0 (S idx) rest)
      | HComment | HStartTagClose | HOther => minify_pieces_reg look o omit inpre rawname 0 (S idx) rest
      | HSvg | HMath | HTemplate =>
          match embed_obj look t with
          | Some b => econs (PObj b) (minify_pieces_reg look o false inpre rawname 0 (S idx) rest)
          | None => EFail idx
          end
      | HText =>
        if raw && negb (has_template t) then
          match embed_raw look rawname (text t) with
          | Some b => econs (PVerb b) (minify_pieces_reg look o omit inpre rawname 0 (S idx) rest)
          | None => EFail idx
          end
        else if inpre then econs (PVerb (text t)) (minify_pieces_reg look o omit inpre rawname 0 (S idx) rest)
        else
          let d1 := if omit && starts_ws (data t) then tl (data t) else data t in
          match d1 with
          | [] => econs (PText []) (minify_pieces_reg look o true inpre rawname 0 (S idx) rest)
          | _ =>
            if ends_ws d1 then
              let '(trim, omit') := trailing_decision o rest in
              econs (PText (if trim then removelast d1 else d1)) (minify_pieces_reg look o omit' inpre rawname 0 (S idx) rest)
            else econs (PText d1) (minify_pieces_reg look o false inpre rawname 0 (S idx) rest)
          end
      | HStartTag =>
        if is_raw t && (name_is t n_script || name_is t n_style) && htt_eqb (tt (hpeek rest 1)) HEndTag
        then minify_pieces_reg look o omit inpre [] 2 (S idx) rest
        else
          let rawname' := if is_raw t then text t else [] in
          let inpre' := if name_is t n_pre then true else inpre in
          if (negb (keep_doc_tags o) && (name_is t n_html || name_is t n_head || name_is t n_body)) || name_is t n_colgroup
          then econs (PGone t) (minify_pieces_reg look o omit inpre' rawname' 0 (S idx) rest)
          else
            let omit1 := omit_after_tag o t omit in
            let sk := if name_is t n_select || name_is t n_optgroup then skip_text (tl rest) else 0%nat in
            let nx := hpeek (skipn sk (tl rest)) 0 in
            let omit2 := if (traits_of t =? trait_normalTag) && htt_eqb (tt nx) HEndTag && beqb (text nx) (text t) then false else omit1 in
            econs (PTag (data t ++ [62]) t) (minify_pieces_reg look o omit2 inpre' rawname' (S sk) (S idx) rest)
      | HEndTag =>
        let omit0 := if name_is t n_template then true else omit in
        let inpre' := if name_is t n_pre then false else inpre in
        if (negb (keep_doc_tags o) && (name_is t n_html || name_is t n_head || name_is t n_body)) || name_is t n_colgroup
        then econs (PGone t) (minify_pieces_reg look o omit0 inpre' [] 0 (S idx) rest)
        else
          let omitted := negb (keep_end_tags o) &&
                         (existsb (beqb (text t)) omit_always || (name_is t n_p && p_end_omitted rest) ||
                          (name_is t n_optgroup && optgroup_end_omitted rest)) in
          let sk := if name_is t n_option || name_is t n_optgroup then skip_text rest else 0%nat in
          if omitted then econs (PGone t) (minify_pieces_reg look o omit0 inpre' [] sk (S idx) rest)
          else econs (PTag (end_tag_bytes t) t) (minify_pieces_reg look o (omit_after_tag o t omit0) inpre' [] sk (S idx) rest)
      end
    end
  end.

Definition html_minify_reg (look : registry) (o : hopts) (ts : list htok) : option bytes :=
  match minify_pieces_reg look o true false [] 0 0 ts with
  | EOk ps => Some (concat (map piece_bytes ps))
  | EFail _ => None
  end.

(* ---------- specification side: embedding as a rewrite of the TOKENS, done before any minification ---------- *)
(* replaces the payload of every raw-text token the loop dispatches, and of svg / math tokens, by the registered
   minifier's output; None when one of them fails.  The walk follows the loop's own token consumption (which tokens are
   skipped, which element is the current raw-text element), nothing else. *)
Definition set_text (t : htok) (b : bytes) : htok := {| tt := tt t; data := data t; text := b; has_template := has_template t |}.
Definition set_data (t : htok) (b : bytes) : htok := {| tt := tt t; data := b; text := text t; has_template := has_template t |}.
Definition okeep (t : htok) (r : option (list htok)) : option (list htok) := match r with Some l => Some (t :: l) | None => None end.

Fixpoint embed_tokens (look : registry) (o : hopts) (rawname : bytes) (skip : nat) (ts : list htok) : option (list htok) :=
  match ts with
  | [] => Some []
  | t :: rest =>
    match skip with
    | S k => okeep t (embed_tokens look o rawname k rest)
    | O =>
      let raw := match rawname with [] => false | _ => true end in
      match tt t with
      | HError => Some (t :: rest)
      | HSvg | HMath | HTemplate =>
          match embed_obj look t with
          | Some b => okeep (set_data t b) (embed_tokens look o rawname 0 rest)
          | None => None
          end
      | HText =>
          if raw && negb (has_template t) then
            match embed_raw look rawname (text t) with
            | Some b => okeep (set_text t b) (embed_tokens look o rawname 0 rest)
            | None => None
            end
          else okeep t (embed_tokens look o rawname 0 rest)
      | HStartTag =>
          if is_raw t && (name_is t n_script || name_is t n_style) && htt_eqb (tt (hpeek rest 1)) HEndTag
          then okeep t (embed_tokens look o [] 2 rest)
          else
            let rawname' := if is_raw t then text t else [] in
            if (negb (keep_doc_tags o) && (name_is t n_html || name_is t n_head || name_is t n_body)) || name_is t n_colgroup
            then okeep t (embed_tokens look o rawname' 0 rest)
            else
              let sk := if name_is t n_select || name_is t n_optgroup then skip_text (tl rest) else 0%nat in
              okeep t (embed_tokens look o rawname' (S sk) rest)
      | HEndTag =>
          if (negb (keep_doc_tags o) && (name_is t n_html || name_is t n_head || name_is t n_body)) || name_is t n_colgroup
          then okeep t (embed_tokens look o [] 0 rest)
          else
            let sk := if name_is t n_option || name_is t n_optgroup then skip_text rest else 0%nat in
            okeep t (embed_tokens look o [] sk rest)
      | _ => okeep t (embed_tokens look o rawname 0 rest)
      end
    end
  end.

Definition no_registry : registry := fun _ => None.
