(* Html/HtmlEmbedLemmas.v — helper lemmas for Html/HtmlEmbedProofs.v: the raw-text trait implies a non-empty name, what the
   token rewrite [embed_tokens] preserves, and why the loop's look-ahead functions give the same answers on the rewritten
   tail as on the original one. *)
From MVGen Require Import Tables_gen.
From MV Require Import Base.MvBytes Html.HtmlWs Html.HtmlEmbed.
From Coq Require Import Arith Lia.

Local Arguments tlookup : simpl never.
Local Arguments traits_of : simpl never.
Local Arguments is_raw : simpl never.
Local Arguments is_block : simpl never.
Local Arguments is_object : simpl never.
Local Arguments name_is : simpl never.
Local Arguments has : simpl never.

Definition raw_of (rawname : bytes) : bool := match rawname with [] => false | _ => true end.

(* ---------- (a) a tag with the raw-text trait has a non-empty name ---------- *)
Lemma tlookup_nil : tlookup [] html_tag_traits = 0.
Proof. vm_compute. reflexivity. Qed.

Lemma is_raw_text : forall t, is_raw t = true -> text t <> [].
Proof.
  intros t H E. unfold is_raw, traits_of in H. rewrite E, tlookup_nil in H.
  destruct (tt t); vm_compute in H; discriminate H.
Qed.

Lemma raw_of_rawname' : forall t, raw_of (if is_raw t then text t else []) = is_raw t.
Proof.
  intros t. destruct (is_raw t) eqn:E; [|reflexivity].
  destruct (text t) eqn:E2; [exfalso; exact (is_raw_text t E E2) | reflexivity].
Qed.

(* ---------- results ---------- *)
Definition ok_of (r : eres) : bool := match r with EOk _ => true | EFail _ => false end.
Definition is_some {A} (x : option A) : bool := match x with Some _ => true | None => false end.
Lemma ok_econs : forall p r, ok_of (econs p r) = ok_of r.
Proof. intros p [ps|n]; reflexivity. Qed.
Lemma some_okeep : forall t r, is_some (okeep t r) = is_some r.
Proof. intros t [l|]; reflexivity. Qed.
Lemma econs_fail : forall p r n, econs p r = EFail n -> r = EFail n.
Proof. intros p [ps|m] n H; cbn in H; [discriminate H | exact H]. Qed.

(* ---------- dispatch ---------- *)
(* the raw-text elements whose content goes to a sub-minifier: script, style, iframe *)
Definition dispatching (rawname : bytes) : bool := is_some (raw_mimetype rawname).

Lemma dispatching_nil : dispatching [] = false.
Proof. reflexivity. Qed.
Lemma dispatching_raw_of : forall rawname, raw_of rawname = false -> dispatching rawname = false.
Proof. intros [|c r] H; [reflexivity | discriminate H]. Qed.

Lemma embed_raw_nodispatch : forall look rawname p, dispatching rawname = false -> embed_raw look rawname p = Some p.
Proof.
  intros look rawname p H. unfold embed_raw. unfold dispatching in H.
  destruct (raw_mimetype rawname); [discriminate H | reflexivity].
Qed.

Lemma set_text_same : forall t, set_text t (text t) = t.
Proof. intros [k d x h]; reflexivity. Qed.
Lemma set_data_same : forall t, set_data t (data t) = t.
Proof. intros [k d x h]; reflexivity. Qed.

Lemma dispatch_none : forall mt p, dispatch no_registry mt p = Some p.
Proof. reflexivity. Qed.
Lemma embed_raw_none : forall rawname p, embed_raw no_registry rawname p = Some p.
Proof. intros rawname p. unfold embed_raw. destruct (raw_mimetype rawname); reflexivity. Qed.
Lemma embed_obj_none : forall t, embed_obj no_registry t = Some (data t).
Proof. intros t. unfold embed_obj. destruct (tt t); reflexivity. Qed.

(* ---------- what the rewrite preserves, token by token ---------- *)
(* same type, same template flag, same name for every token that is not a text token *)
Definition sim (a b : htok) : Prop :=
  tt b = tt a /\ has_template b = has_template a /\ (tt a = HText \/ text b = text a).

Lemma sim_refl : forall t, sim t t.
Proof. intros t; repeat split; right; reflexivity. Qed.
Lemma sim_set_text : forall t b, tt t = HText -> sim t (set_text t b).
Proof. intros t b H; repeat split; left; exact H. Qed.
Lemma sim_set_data : forall t b, sim t (set_data t b).
Proof. intros t b; repeat split; right; reflexivity. Qed.
Lemma sims_refl : forall l, Forall2 sim l l.
Proof. induction l; constructor; [apply sim_refl | assumption]. Qed.

Ltac split_H H := repeat match type of H with
  | okeep _ ?r = Some _ => destruct r eqn:?; cbn [okeep] in H
  | (if ?c then _ else _) = _ => destruct c eqn:?
  | (match ?c with Some _ => _ | None => _ end) = _ => destruct c eqn:?
  | None = Some _ => discriminate H
  | Some _ = Some _ => inversion H; subst; clear H
  end.

Lemma embed_sim : forall look o ts rawname skip ts',
  embed_tokens look o rawname skip ts = Some ts' -> Forall2 sim ts ts'.
Proof.
  intros look o. induction ts as [|t rest IH]; intros rawname skip ts' H.
  - cbn in H. inversion H. constructor.
  - destruct skip as [|k].
    + destruct (tt t) eqn:Htt; cbn [embed_tokens] in H; rewrite Htt in H; split_H H;
        try (constructor; [first [apply sim_refl | apply sim_set_data | apply sim_set_text; assumption] | eapply IH; eassumption]).
      apply sims_refl.
    + cbn [embed_tokens] in H. split_H H. constructor; [apply sim_refl | eapply IH; eassumption].
Qed.

Lemma sims_tl : forall l l', Forall2 sim l l' -> Forall2 sim (tl l) (tl l').
Proof. intros l l' H; destruct H; [constructor | assumption]. Qed.
Lemma sims_skipn : forall n l l', Forall2 sim l l' -> Forall2 sim (skipn n l) (skipn n l').
Proof.
  induction n; intros l l' H; [exact H|]. destruct H; [constructor | cbn [skipn]; apply IHn; assumption].
Qed.
Lemma sim_hpeek : forall l l' i, Forall2 sim l l' -> sim (hpeek l i) (hpeek l' i).
Proof.
  unfold hpeek. intros l l' i H; revert i. induction H; intros [|i]; cbn [nth]; try apply sim_refl; [assumption | apply IHForall2].
Qed.

(* ---------- (b) the look-ahead functions on the rewritten tail ---------- *)
Lemma hpeek_tt_sim : forall l l' i, Forall2 sim l l' -> tt (hpeek l' i) = tt (hpeek l i).
Proof. intros l l' i H. apply (sim_hpeek l l' i H). Qed.

Lemma skip_text_sim : forall l l', Forall2 sim l l' -> skip_text l' = skip_text l.
Proof.
  intros l l' H. destruct H as [|a b l l' (H1 & H2 & _) _]; [reflexivity|].
  unfold skip_text. rewrite H1, H2. reflexivity.
Qed.

(* the test of the phrasing-tag rule: "the next token is the end tag of this element" *)
Lemma endtag_named_sim : forall a b x, sim a b ->
  htt_eqb (tt b) HEndTag && beqb (text b) x = htt_eqb (tt a) HEndTag && beqb (text a) x.
Proof.
  intros a b x (H1 & _ & [H3|H3]); rewrite H1.
  - rewrite H3. reflexivity.
  - rewrite H3. reflexivity.
Qed.

Lemma traits_of_sim : forall a b, sim a b -> traits_of b = traits_of a.
Proof.
  intros a b (H1 & _ & [H3|H3]); unfold traits_of; rewrite H1.
  - rewrite H3. reflexivity.
  - rewrite H3. reflexivity.
Qed.

Lemma optgroup_end_omitted_sim : forall l l', Forall2 sim l l' -> optgroup_end_omitted l' = optgroup_end_omitted l.
Proof.
  intros l l' H. induction H as [|a b l l' Hs _ IH]; [reflexivity|].
  cbn [optgroup_end_omitted]. destruct Hs as (H1 & _ & H3). rewrite H1.
  destruct (tt a) eqn:Ha; try reflexivity; try exact IH;
    (destruct H3 as [H3|H3]; [discriminate H3 | unfold name_is; rewrite H3; reflexivity]).
Qed.

(* [trailing_decision] and [p_end_omitted] read the TEXT of text tokens.  Outside a dispatching raw-text element the rewrite
   leaves the tokens they read unchanged: the scan stops at the first start tag, svg, math or template token, and after an
   end tag the rewrite is outside every raw-text element again (the tokens it jumps over are kept as they are) *)
Lemma embed_raw_same : forall look rawname t b,
  dispatching rawname = false -> embed_raw look rawname (text t) = Some b -> set_text t b = t.
Proof.
  intros look rawname t b Hd H. rewrite (embed_raw_nodispatch look rawname (text t) Hd) in H.
  inversion H. apply set_text_same.
Qed.

Lemma is_block_set_data : forall t b, is_block (set_data t b) = is_block t.
Proof. reflexivity. Qed.

Lemma trailing_embed_nodispatch : forall look o rest rawname skip rest',
  dispatching rawname = false ->
  embed_tokens look o rawname skip rest = Some rest' ->
  trailing_decision o rest' = trailing_decision o rest.
Proof.
  intros look o. induction rest as [|n r IH]; intros rawname skip rest' Hd H.
  - cbn in H. inversion H. reflexivity.
  - destruct skip as [|k].
    + destruct (tt n) eqn:Htt; cbn [embed_tokens] in H; rewrite Htt in H; split_H H;
        try reflexivity;
        try (cbn [trailing_decision]; rewrite Htt; eapply IH; eassumption);
        try (cbn [trailing_decision tt set_data]; rewrite Htt; reflexivity).
      * (* end tag, document tag *)
        cbn [trailing_decision]; rewrite Htt. destruct (keepws o); [reflexivity|]. destruct (is_block n); [reflexivity|].
        eapply IH; [apply dispatching_nil | eassumption].
      * cbn [trailing_decision]; rewrite Htt. destruct (keepws o); [reflexivity|]. destruct (is_block n); [reflexivity|].
        eapply IH; [apply dispatching_nil | eassumption].
      * (* raw text of a non-dispatching element *)
        rewrite (embed_raw_same look rawname n b Hd) by assumption.
        cbn [trailing_decision]; rewrite Htt. destruct (all_ws (text n)); [eapply IH; eassumption | reflexivity].
      * cbn [trailing_decision]; rewrite Htt. destruct (all_ws (text n)); [eapply IH; eassumption | reflexivity].
    + cbn [embed_tokens] in H. split_H H. cbn [trailing_decision].
      destruct (tt n); try reflexivity; try (eapply IH; eassumption).
      * destruct (keepws o); [reflexivity|]. destruct (is_block n); [reflexivity|]. eapply IH; eassumption.
      * destruct (all_ws (text n)); [eapply IH; eassumption | reflexivity].
Qed.

Lemma p_end_omitted_embed : forall look o rest rawname skip rest',
  dispatching rawname = false ->
  embed_tokens look o rawname skip rest = Some rest' ->
  p_end_omitted rest' = p_end_omitted rest.
Proof.
  intros look o. induction rest as [|n r IH]; intros rawname skip rest' Hd H.
  - cbn in H. inversion H. reflexivity.
  - destruct skip as [|k].
    + destruct (tt n) eqn:Htt; cbn [embed_tokens] in H; rewrite Htt in H; split_H H;
        try reflexivity;
        try (cbn [p_end_omitted tt set_data]; rewrite Htt; reflexivity).
      * rewrite (embed_raw_same look rawname n b Hd) by assumption.
        cbn [p_end_omitted]; rewrite Htt. destruct (all_ws (text n)); [eapply IH; eassumption | reflexivity].
      * cbn [p_end_omitted]; rewrite Htt. destruct (all_ws (text n)); [eapply IH; eassumption | reflexivity].
    + cbn [embed_tokens] in H. split_H H. cbn [p_end_omitted].
      destruct (tt n); try reflexivity. destruct (all_ws (text n)); [eapply IH; eassumption | reflexivity].
Qed.

(* Inside a dispatching raw-text element the loop runs the look-ahead only after a text token that holds a template (such a
   token is not dispatched and goes through the white-space machine).  The scan started there must not reach a text token
   that IS dispatched (its text is replaced, so [all_ws] of it may change): *)
Fixpoint tmpl_scan_ok (rest : list htok) : bool :=
  match rest with
  | [] => true
  | n :: r =>
    match tt n with
    | HText => has_template n && (negb (all_ws (text n)) || tmpl_scan_ok r)
    | HComment | HDoctype | HStartTagClose | HOther => tmpl_scan_ok r
    | _ => true          (* the scan stops here, or goes on behind an end tag, outside the raw-text element *)
    end
  end.

Lemma trailing_embed_scan : forall look o rest rawname rest',
  tmpl_scan_ok rest = true ->
  embed_tokens look o rawname 0 rest = Some rest' ->
  trailing_decision o rest' = trailing_decision o rest.
Proof.
  intros look o. induction rest as [|n r IH]; intros rawname rest' Hs H.
  - cbn in H. inversion H. reflexivity.
  - cbn [tmpl_scan_ok] in Hs.
    destruct (tt n) eqn:Htt; cbn [embed_tokens] in H; rewrite Htt in H; split_H H;
        try reflexivity;
        try (cbn [trailing_decision]; rewrite Htt; eapply IH; eassumption);
        try (cbn [trailing_decision tt set_data]; rewrite Htt; reflexivity).
    + cbn [trailing_decision]; rewrite Htt. destruct (keepws o); [reflexivity|]. destruct (is_block n); [reflexivity|].
      eapply trailing_embed_nodispatch; [apply dispatching_nil | eassumption].
    + cbn [trailing_decision]; rewrite Htt. destruct (keepws o); [reflexivity|]. destruct (is_block n); [reflexivity|].
      eapply trailing_embed_nodispatch; [apply dispatching_nil | eassumption].
    + (* a dispatched text token: excluded by the scan condition *)
      apply andb_true_iff in Hs as [Hs _]. apply andb_true_iff in Heqb as [_ Hb]. rewrite Hs in Hb. discriminate Hb.
    + apply andb_true_iff in Hs as [_ Hs].
      cbn [trailing_decision]; rewrite Htt. destruct (all_ws (text n)); [|reflexivity].
      cbn [negb orb] in Hs. eapply IH; eassumption.
Qed.
