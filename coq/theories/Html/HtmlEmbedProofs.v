(* Html/HtmlEmbedProofs.v — embedded resources are minified exactly as their own minifier would (commutation law), absent
   minifiers pass the bytes through, a failing sub-minifier fails the outer call at the token that holds the payload. *)
From MVGen Require Import Tables_gen.
From MV Require Import Base.MvBytes Html.HtmlWs Html.HtmlEmbed Html.HtmlEmbedLemmas.
From Coq Require Import Arith Lia.

Local Arguments tlookup : simpl never.
Local Arguments traits_of : simpl never.
Local Arguments is_raw : simpl never.
Local Arguments is_block : simpl never.
Local Arguments is_object : simpl never.
Local Arguments name_is : simpl never.
Local Arguments has : simpl never.

(* [raw_of] is defined in Html/HtmlEmbedLemmas.v:
   Definition raw_of (rawname : bytes) : bool := match rawname with [] => false | _ => true end. *)

Ltac fold_raw rawname :=
  change (match rawname with [] => false | _ :: _ => true end) with (raw_of rawname) in *.

(* ---------- the commutation law needs a hypothesis on token lists that no lexer produces ---------- *)
(* The statement over ALL token lists is false.  In a script element, a text token that holds a template is not dispatched:
   it goes through the white-space machine, whose look-ahead [trailing_decision] reads the text of the FOLLOWING text
   tokens.  If the next one is a dispatched text token (the lexer never emits two text tokens in a raw-text element), the
   loop with the registry looks at the original text ("x": keep the trailing space), the plain loop on the rewritten
   tokens looks at the sub-minifier's output (" ": white space only, end of input follows, trim the trailing space). *)
Module Counterexample.
  Definition tk k d x h := {| tt := k; data := d; text := x; has_template := h |}.
  (* a JS minifier that answers " " *)
  Definition look1 : registry := fun mt => if beqb mt mt_js then Some (fun _ => Some [32]) else None.
  Definition o0 := {| keepws := false; keep_end_tags := false; keep_doc_tags := false |}.
  (* <script  >  "a " (has a template)  "x" *)
  Definition cx := [tk HStartTag [60;115;99;114;105;112;116] n_script false; tk HStartTagClose [62] [] false;
                    tk HText [97;32] [97;32] true; tk HText [120] [120] false].
  Definition cx' := [tk HStartTag [60;115;99;114;105;112;116] n_script false; tk HStartTagClose [62] [] false;
                    tk HText [97;32] [97;32] true; tk HText [120] [32] false].
  Example embed_commutes_unguarded_false :
    embed_tokens look1 o0 [] 0 cx = Some cx' /\
    minify_pieces_reg look1 o0 true false [] 0 0 cx
      = EOk [PTag [60;115;99;114;105;112;116;62] (tk HStartTag [60;115;99;114;105;112;116] n_script false); PText [97;32]; PVerb [32]] /\
    minify_pieces o0 true false false 0 cx'
      = [PTag [60;115;99;114;105;112;116;62] (tk HStartTag [60;115;99;114;105;112;116] n_script false); PText [97]; PVerb [32]] /\
    minify_pieces_reg look1 o0 true false [] 0 0 cx <> EOk (minify_pieces o0 true false false 0 cx').
  Proof. vm_compute. repeat split; try reflexivity. intros H; discriminate H. Qed.
End Counterexample.

(* The hypothesis: along the loop's own token consumption (the walk of [embed_tokens]: which tokens are skipped, which
   element is the current raw-text element), whenever a text token that holds a template is consumed inside a DISPATCHING
   raw-text element (script, style, iframe), the look-ahead started behind it does not reach a dispatched text token
   ([tmpl_scan_ok], Html/HtmlEmbedLemmas.v).  It does not mention the registry.  Lexer-shaped streams satisfy it: in a
   raw-text element the lexer emits at most one text token, followed by the end tag or the end of input. *)
Fixpoint raw_tmpl_ok (o : hopts) (rawname : bytes) (skip : nat) (ts : list htok) : bool :=
  match ts with
  | [] => true
  | t :: rest =>
    match skip with
    | S k => raw_tmpl_ok o rawname k rest
    | O =>
      match tt t with
      | HError => true
      | HText =>
          (if dispatching rawname && has_template t then tmpl_scan_ok rest else true) && raw_tmpl_ok o rawname 0 rest
      | HStartTag =>
          if is_raw t && (name_is t n_script || name_is t n_style) && htt_eqb (tt (hpeek rest 1)) HEndTag
          then raw_tmpl_ok o [] 2 rest
          else
            let rawname' := if is_raw t then text t else [] in
            if (negb (keep_doc_tags o) && (name_is t n_html || name_is t n_head || name_is t n_body)) || name_is t n_colgroup
            then raw_tmpl_ok o rawname' 0 rest
            else
              let sk := if name_is t n_select || name_is t n_optgroup then skip_text (tl rest) else 0%nat in
              raw_tmpl_ok o rawname' (S sk) rest
      | HEndTag =>
          if (negb (keep_doc_tags o) && (name_is t n_html || name_is t n_head || name_is t n_body)) || name_is t n_colgroup
          then raw_tmpl_ok o [] 0 rest
          else
            let sk := if name_is t n_option || name_is t n_optgroup then skip_text rest else 0%nat in
            raw_tmpl_ok o [] sk rest
      | _ => raw_tmpl_ok o rawname 0 rest
      end
    end
  end.

(* a sufficient condition that does not follow the walk: behind EVERY text token that holds a template the scan is safe *)
Fixpoint tmpl_guard (ts : list htok) : bool :=
  match ts with
  | [] => true
  | t :: rest => (if htt_eqb (tt t) HText && has_template t then tmpl_scan_ok rest else true) && tmpl_guard rest
  end.

Lemma tmpl_guard_ok : forall o ts rawname skip, tmpl_guard ts = true -> raw_tmpl_ok o rawname skip ts = true.
Proof.
  intros o. induction ts as [|t rest IH]; intros rawname skip H; [reflexivity|].
  cbn [tmpl_guard] in H. apply andb_true_iff in H as [H1 H2].
  destruct skip as [|k]; cbn [raw_tmpl_ok]; [|apply IH; exact H2].
  destruct (tt t) eqn:Htt; try reflexivity; try (apply IH; exact H2).
  - repeat match goal with |- (if ?c then _ else _) = true => destruct c end; apply IH; exact H2.
  - repeat match goal with |- (if ?c then _ else _) = true => destruct c end; apply IH; exact H2.
  - cbn [htt_eqb andb] in H1. apply andb_true_iff; split; [|apply IH; exact H2].
    destruct (has_template t); [|rewrite andb_false_r; reflexivity].
    rewrite H1. destruct (dispatching rawname && true); reflexivity.
Qed.

(* in particular: no token holds a template (the lexer runs without template delimiters) *)
Lemma no_template_ok : forall o ts rawname skip,
  forallb (fun t => negb (has_template t)) ts = true -> raw_tmpl_ok o rawname skip ts = true.
Proof.
  intros o ts rawname skip H. apply tmpl_guard_ok. induction ts as [|t rest IH]; [reflexivity|].
  cbn [forallb] in H. apply andb_true_iff in H as [H1 H2]. cbn [tmpl_guard].
  apply negb_true_iff in H1. rewrite H1, andb_false_r. apply IH; exact H2.
Qed.

(* ---------- commutation, over every loop state ---------- *)
Lemma trailing_embed_text : forall look o rawname t rest rest',
  (if dispatching rawname && has_template t then tmpl_scan_ok rest else true) = true ->
  raw_of rawname && negb (has_template t) = false ->
  embed_tokens look o rawname 0 rest = Some rest' ->
  trailing_decision o rest' = trailing_decision o rest.
Proof.
  intros look o rawname t rest rest' Hs Hc H.
  destruct (dispatching rawname) eqn:Hd.
  - destruct (has_template t) eqn:Ht.
    + cbn [andb] in Hs. eapply trailing_embed_scan; eassumption.
    + destruct rawname; [discriminate Hd | discriminate Hc].
  - eapply trailing_embed_nodispatch; eassumption.
Qed.

Lemma commutes_gen : forall look o ts omit inpre rawname skip idx ts',
  raw_tmpl_ok o rawname skip ts = true ->
  embed_tokens look o rawname skip ts = Some ts' ->
  minify_pieces_reg look o omit inpre rawname skip idx ts = EOk (minify_pieces o omit inpre (raw_of rawname) skip ts').
Proof.
  intros look o. induction ts as [|t rest IH]; intros omit inpre rawname skip idx ts' Hok H.
  - cbn in H. inversion H. reflexivity.
  - destruct skip as [|k].
    2:{ cbn [embed_tokens] in H. split_H H. cbn [raw_tmpl_ok] in Hok.
        cbn [minify_pieces_reg minify_pieces]. apply IH; assumption. }
    destruct (tt t) eqn:Htt; cbn [embed_tokens] in H; rewrite Htt in H; cbn [raw_tmpl_ok] in Hok; rewrite Htt in Hok.
    + (* HError *)
      inversion H; subst. cbn [minify_pieces_reg minify_pieces]. rewrite Htt. reflexivity.
    + (* HComment *)
      split_H H. cbn [minify_pieces_reg minify_pieces]. rewrite Htt. erewrite IH by eassumption. reflexivity.
    + (* HDoctype *)
      split_H H. cbn [minify_pieces_reg minify_pieces]. rewrite Htt. erewrite IH by eassumption. reflexivity.
    + (* HStartTag *)
      cbn [minify_pieces_reg]. rewrite Htt.
      destruct (is_raw t && (name_is t n_script || name_is t n_style) && htt_eqb (tt (hpeek rest 1)) HEndTag) eqn:Hc1.
      * (* empty script / style *)
        split_H H.
        match goal with E : embed_tokens _ _ _ _ rest = Some ?l |- _ => pose proof (embed_sim _ _ _ _ _ _ E) as Hsim end.
        cbn [minify_pieces]. rewrite Htt, (hpeek_tt_sim _ _ 1 Hsim), Hc1.
        erewrite IH by eassumption. reflexivity.
      * destruct ((negb (keep_doc_tags o) && (name_is t n_html || name_is t n_head || name_is t n_body)) || name_is t n_colgroup) eqn:Hc2.
        -- split_H H.
           match goal with E : embed_tokens _ _ _ _ rest = Some ?l |- _ => pose proof (embed_sim _ _ _ _ _ _ E) as Hsim end.
           cbn [minify_pieces]. rewrite Htt, (hpeek_tt_sim _ _ 1 Hsim), Hc1, Hc2.
           erewrite IH by eassumption. rewrite raw_of_rawname'. reflexivity.
        -- split_H H.
           match goal with E : embed_tokens _ _ _ _ rest = Some ?l |- _ =>
             pose proof (embed_sim _ _ _ _ _ _ E) as Hsim;
             assert (Hnx : forall sk x,
               htt_eqb (tt (hpeek (skipn sk (tl l)) 0)) HEndTag && beqb (text (hpeek (skipn sk (tl l)) 0)) x =
               htt_eqb (tt (hpeek (skipn sk (tl rest)) 0)) HEndTag && beqb (text (hpeek (skipn sk (tl rest)) 0)) x)
               by (intros; apply endtag_named_sim, sim_hpeek, sims_skipn, sims_tl, Hsim)
           end.
           cbn [minify_pieces]. rewrite Htt, (hpeek_tt_sim _ _ 1 Hsim), Hc1, Hc2.
           rewrite (skip_text_sim _ _ (sims_tl _ _ Hsim)).
           rewrite <- !andb_assoc, Hnx.
           erewrite IH by eassumption. rewrite raw_of_rawname'. reflexivity.
    + (* HEndTag *)
      cbn [minify_pieces_reg]. rewrite Htt.
      destruct ((negb (keep_doc_tags o) && (name_is t n_html || name_is t n_head || name_is t n_body)) || name_is t n_colgroup) eqn:Hc2.
      * split_H H. cbn [minify_pieces]. rewrite Htt, Hc2. erewrite IH by eassumption. reflexivity.
      * split_H H.
        match goal with E : embed_tokens _ _ _ _ rest = Some ?l |- _ =>
          pose proof (embed_sim _ _ _ _ _ _ E) as Hsim;
          pose proof (p_end_omitted_embed _ _ _ _ _ _ dispatching_nil E) as Hp
        end.
        cbn [minify_pieces]. rewrite Htt, Hc2.
        rewrite (skip_text_sim _ _ Hsim), (optgroup_end_omitted_sim _ _ Hsim), Hp.
        match goal with |- (if ?c then _ else _) = _ => destruct c end; erewrite IH by eassumption; reflexivity.
    + (* HText *)
      apply andb_true_iff in Hok as [Hok1 Hok2].
      cbn [minify_pieces_reg]. rewrite Htt. fold_raw rawname.
      destruct (raw_of rawname && negb (has_template t)) eqn:Hc.
      * (* dispatched raw text *)
        split_H H. cbn [minify_pieces tt set_text has_template text]. rewrite Htt, Hc.
        erewrite IH by eassumption. reflexivity.
      * split_H H. cbn [minify_pieces]. rewrite Htt, Hc.
        destruct inpre; [erewrite IH by eassumption; reflexivity|].
        match goal with E : embed_tokens _ _ _ _ rest = Some ?l |- _ =>
          rewrite (trailing_embed_text look o rawname t rest l Hok1 Hc E) end.
        destruct (if omit && starts_ws (data t) then tl (data t) else data t) as [|c d1];
          [erewrite IH by eassumption; reflexivity|].
        destruct (ends_ws (c :: d1)); [|erewrite IH by eassumption; reflexivity].
        destruct (trailing_decision o rest) as [trim omit']. erewrite IH by eassumption. reflexivity.
    + (* HSvg *)
      split_H H. cbn [minify_pieces_reg minify_pieces tt set_data data]. rewrite Htt.
      rewrite Heqo0. erewrite IH by eassumption. reflexivity.
    + (* HMath *)
      split_H H. cbn [minify_pieces_reg minify_pieces tt set_data data]. rewrite Htt.
      rewrite Heqo0. erewrite IH by eassumption. reflexivity.
    + (* HTemplate *)
      split_H H. cbn [minify_pieces_reg minify_pieces tt set_data data]. rewrite Htt.
      rewrite Heqo0. erewrite IH by eassumption. reflexivity.
    + (* HStartTagClose *)
      split_H H. cbn [minify_pieces_reg minify_pieces]. rewrite Htt. erewrite IH by eassumption. reflexivity.
    + (* HOther *)
      split_H H. cbn [minify_pieces_reg minify_pieces]. rewrite Htt. erewrite IH by eassumption. reflexivity.
Qed.

(* COMMUTATION: minifying with the registry = first replacing every embedded payload by what its own minifier produces
   (a rewrite of the tokens that knows nothing about white space, tags or options beyond which tokens the loop consumes),
   then minifying the host with NO sub-minifier at all (the loop of Html/HtmlWs.v, about which C03's theorems speak).
   Hypothesis [raw_tmpl_ok]: see above (Counterexample.embed_commutes_unguarded_false). *)
Theorem embed_commutes : forall look o ts ts',
  raw_tmpl_ok o [] 0 ts = true ->
  embed_tokens look o [] 0 ts = Some ts' ->
  minify_pieces_reg look o true false [] 0 0 ts = EOk (minify_pieces o true false false 0 ts').
Proof.
  intros look o ts ts' Hok H. exact (commutes_gen look o ts true false [] 0%nat 0%nat ts' Hok H).
Qed.

(* the hypothesis really excludes the counterexample *)
Example counterexample_not_ok : raw_tmpl_ok Counterexample.o0 [] 0 Counterexample.cx = false.
Proof. vm_compute. reflexivity. Qed.

(* ... and holds on a lexer-shaped stream with a template in a script element: <script>{{a}} </script>x *)
Example lexer_shaped_ok :
  raw_tmpl_ok Counterexample.o0 [] 0
    [Counterexample.tk HStartTag [60;115;99;114;105;112;116] n_script false; Counterexample.tk HStartTagClose [62] [] false;
     Counterexample.tk HText [123;123;97;125;125;32] [123;123;97;125;125;32] true;
     Counterexample.tk HEndTag [60;47;115;99;114;105;112;116;62] n_script false;
     Counterexample.tk HText [120] [120] false] = true.
Proof. vm_compute. reflexivity. Qed.

(* ---------- nothing registered ---------- *)
Ltac crush IH :=
  rewrite ?IH, ?raw_of_rawname'; cbn [econs];
  repeat (match goal with
          | |- (if ?c then _ else _) = _ => destruct c
          | |- (match ?c with [] => _ | _ :: _ => _ end) = _ => destruct c
          | |- (let '(_, _) := ?c in _) = _ => destruct c
          end; rewrite ?IH; cbn [econs]);
  try reflexivity.

Lemma none_gen : forall o ts omit inpre rawname skip idx,
  minify_pieces_reg no_registry o omit inpre rawname skip idx ts = EOk (minify_pieces o omit inpre (raw_of rawname) skip ts).
Proof.
  intros o. induction ts as [|t rest IH]; intros omit inpre rawname skip idx; [reflexivity|].
  destruct skip as [|k]; cbn [minify_pieces_reg minify_pieces]; [|apply IH].
  fold_raw rawname. rewrite ?embed_raw_none, ?embed_obj_none.
  destruct (tt t) eqn:Htt; crush IH.
Qed.

(* nothing registered: exactly the plain loop *)
Theorem embed_none_is_plain : forall o ts,
  minify_pieces_reg no_registry o true false [] 0 0 ts = EOk (minify_pieces o true false false 0 ts).
Proof.
  intros o ts. exact (none_gen o ts true false [] 0%nat 0%nat).
Qed.

(* a registry that has no entry for any type that occurs behaves like no registry: per type pass-through *)
Theorem dispatch_unregistered : forall look mt payload, look mt = None -> dispatch look mt payload = Some payload.
Proof.
  intros look mt payload H. unfold dispatch. rewrite H. reflexivity.
Qed.

(* ---------- failure ---------- *)
(* the loop with the registry succeeds exactly when the token rewrite does, in every loop state *)
Lemma ok_gen : forall look o ts omit inpre rawname skip idx,
  ok_of (minify_pieces_reg look o omit inpre rawname skip idx ts) = is_some (embed_tokens look o rawname skip ts).
Proof.
  intros look o. induction ts as [|t rest IH]; intros omit inpre rawname skip idx; [reflexivity|].
  destruct skip as [|k]; cbn [minify_pieces_reg embed_tokens]; [|rewrite some_okeep; apply IH].
  destruct (tt t);
    repeat (match goal with
            | |- ok_of (if ?c then _ else _) = _ => destruct c
            | |- ok_of (match ?c with Some _ => _ | None => _ end) = _ => destruct c
            | |- ok_of (match ?c with [] => _ | _ :: _ => _ end) = _ => destruct c
            | |- ok_of (let '(_, _) := ?c in _) = _ => destruct c
            end);
    rewrite ?ok_econs, ?some_okeep; try apply IH; try reflexivity.
Qed.

(* FAILURE: the outer call fails iff some dispatched payload's minifier fails ... *)
Theorem embed_fails_iff : forall look o ts,
  embed_tokens look o [] 0 ts = None <-> exists n, minify_pieces_reg look o true false [] 0 0 ts = EFail n.
Proof.
  intros look o ts. pose proof (ok_gen look o ts true false [] 0%nat 0%nat) as H. split.
  - intros E. rewrite E in H. destruct (minify_pieces_reg look o true false [] 0 0 ts) as [ps|n]; [discriminate H|].
    exists n. reflexivity.
  - intros [n E]. rewrite E in H. destruct (embed_tokens look o [] 0 ts); [discriminate H | reflexivity].
Qed.

(* ... and the failure is located at a token that holds an embedded payload: a raw-text token of a script / style / iframe
   element or an svg / math token, whose registered minifier returns an error on exactly that payload *)
Definition fails_on (look : registry) (mt payload : bytes) : Prop := exists f, look mt = Some f /\ f payload = None.

Lemma dispatch_fail : forall look mt p, dispatch look mt p = None -> fails_on look mt p.
Proof.
  intros look mt p H. unfold dispatch in H. unfold fails_on.
  destruct (look mt) as [f|]; [exists f; split; [reflexivity | exact H] | discriminate H].
Qed.

Lemma embed_raw_fail : forall look rawname p, embed_raw look rawname p = None ->
  exists mt, (mt = mt_js \/ mt = mt_css \/ mt = mt_html) /\ fails_on look mt p.
Proof.
  intros look rawname p H. unfold embed_raw, raw_mimetype in H.
  destruct (beqb rawname n_script); [exists mt_js; split; [auto | apply dispatch_fail, H]|].
  destruct (beqb rawname n_style); [exists mt_css; split; [auto | apply dispatch_fail, H]|].
  destruct (beqb rawname n_iframe); [exists mt_html; split; [auto | apply dispatch_fail, H]|].
  discriminate H.
Qed.

Lemma embed_obj_fail : forall look t, embed_obj look t = None ->
  (tt t = HSvg /\ fails_on look mt_svg (data t)) \/ (tt t = HMath /\ fails_on look mt_math (data t)).
Proof.
  intros look t H. unfold embed_obj in H.
  destruct (tt t); try discriminate H; [left | right]; (split; [reflexivity | apply dispatch_fail, H]).
Qed.

Definition fail_site (look : registry) (t : htok) : Prop :=
  (tt t = HSvg /\ fails_on look mt_svg (data t)) \/ (tt t = HMath /\ fails_on look mt_math (data t)) \/
  (tt t = HText /\ exists mt, (mt = mt_js \/ mt = mt_css \/ mt = mt_html) /\ fails_on look mt (text t)).

Ltac split_R H := repeat match type of H with
  | (if ?c then _ else _) = _ => destruct c eqn:?
  | (match ?c with Some _ => _ | None => _ end) = _ => destruct c eqn:?
  | (match ?c with [] => _ | _ :: _ => _ end) = _ => destruct c eqn:?
  | (let '(_, _) := ?c in _) = _ => destruct c eqn:?
  | econs _ _ = EFail _ => apply econs_fail in H
  end.

Lemma located_gen : forall look o ts omit inpre rawname skip idx n,
  minify_pieces_reg look o omit inpre rawname skip idx ts = EFail n ->
  exists k t, n = (idx + k)%nat /\ nth_error ts k = Some t /\ fail_site look t.
Proof.
  intros look o. induction ts as [|t rest IH]; intros omit inpre rawname skip idx n H; [discriminate H|].
  assert (Hstep : forall omit' inpre' rawname' skip',
            minify_pieces_reg look o omit' inpre' rawname' skip' (S idx) rest = EFail n ->
            exists k t', n = (idx + k)%nat /\ nth_error (t :: rest) k = Some t' /\ fail_site look t').
  { intros omit' inpre' rawname' skip' H'. apply IH in H' as (k & t' & Hk & Hn & Hs).
    exists (S k), t'. split; [lia | split; [exact Hn | exact Hs]]. }
  destruct skip as [|k]; cbn [minify_pieces_reg] in H; [|eapply Hstep; eassumption].
  destruct (tt t) eqn:Htt; split_R H; try discriminate H; try (eapply Hstep; eassumption);
    inversion H; subst; exists 0%nat, t; (split; [lia | split; [reflexivity|]]); unfold fail_site.
  - (* raw text *)
    right; right. split; [exact Htt|]. eapply embed_raw_fail; eassumption.
  - match goal with E : embed_obj _ _ = None |- _ => destruct (embed_obj_fail _ _ E) as [F|F] end; [left; exact F | right; left; exact F].
  - match goal with E : embed_obj _ _ = None |- _ => destruct (embed_obj_fail _ _ E) as [F|F] end; [left; exact F | right; left; exact F].
  - match goal with E : embed_obj _ _ = None |- _ => destruct (embed_obj_fail _ _ E) as [F|F] end; [left; exact F | right; left; exact F].
Qed.

Theorem embed_fail_located : forall look o ts n,
  minify_pieces_reg look o true false [] 0 0 ts = EFail n ->
  exists t, nth_error ts n = Some t /\
    ((tt t = HSvg /\ fails_on look mt_svg (data t)) \/ (tt t = HMath /\ fails_on look mt_math (data t)) \/
     (tt t = HText /\ exists mt, (mt = mt_js \/ mt = mt_css \/ mt = mt_html) /\ fails_on look mt (text t))).
Proof.
  intros look o ts n H. apply located_gen in H as (k & t & Hk & Hn & Hs).
  cbn in Hk. subst k. exists t. split; [exact Hn | exact Hs].
Qed.

Print Assumptions embed_commutes.
Print Assumptions embed_none_is_plain.
Print Assumptions dispatch_unregistered.
Print Assumptions embed_fails_iff.
Print Assumptions embed_fail_located.
