(* Html/HtmlOpts.v — the options of html.Minify are honoured by the token loop (attribute-free model, Html/HtmlWs.v):
   KeepEndTags writes every end tag it reaches, KeepDocumentTags writes html/head/body tags, and the two options never
   change what happens to text (the white-space machine does not read them). *)
From MVGen Require Import Tables_gen.
From MV Require Import Base.MvBytes Html.HtmlWs.

Definition is_doc_tag (t : htok) : bool := name_is t n_html || name_is t n_head || name_is t n_body.

(* KeepEndTags: an end tag reached by the loop is written (normalised to </name>), unless it is an attribute-less
   document tag that KeepDocumentTags does not protect, or </colgroup> *)
Theorem keep_end_tags_honoured : forall o omit inpre raw t rest,
  keep_end_tags o = true -> tt t = HEndTag ->
  (negb (keep_doc_tags o) && is_doc_tag t) || name_is t n_colgroup = false ->
  exists ps, minify_pieces o omit inpre raw 0 (t :: rest) = PTag (end_tag_bytes t) t :: ps.
Proof.
  intros o omit inpre raw t rest Hk Ht Hd. cbn [minify_pieces]. rewrite Ht. unfold is_doc_tag in Hd. rewrite Hd.
  rewrite Hk. cbn [negb andb]. eexists. reflexivity.
Qed.

(* KeepDocumentTags: html / head / body start and end tags are written *)
Theorem keep_doc_tags_honoured_end : forall o omit inpre raw t rest,
  keep_doc_tags o = true -> tt t = HEndTag -> is_doc_tag t = true ->
  exists ps, minify_pieces o omit inpre raw 0 (t :: rest) = PTag (end_tag_bytes t) t :: ps.
Proof.
  intros o omit inpre raw t rest Hk Ht Hd. cbn [minify_pieces]. rewrite Ht, Hk. cbn [negb andb orb].
  assert (Hc : name_is t n_colgroup = false).
  { unfold is_doc_tag, name_is in *. destruct (beqb (text t) n_colgroup) eqn:E; [|reflexivity].
    apply beqb_eq in E. rewrite E in Hd. vm_compute in Hd. discriminate Hd. }
  rewrite Hc.
  assert (Ho : existsb (beqb (text t)) omit_always = false /\ name_is t n_p = false /\ name_is t n_optgroup = false).
  { unfold is_doc_tag, name_is in Hd. unfold name_is.
    apply orb_true_iff in Hd as [Hd|Hd]; [apply orb_true_iff in Hd as [Hd|Hd]|];
      apply beqb_eq in Hd; rewrite Hd; vm_compute; repeat split. }
  destruct Ho as (O1 & O2 & O3). rewrite O1, O2, O3. cbn [andb orb]. rewrite andb_false_r.
  eexists. reflexivity.
Qed.

Theorem keep_doc_tags_honoured_start : forall o omit inpre raw t rest,
  keep_doc_tags o = true -> tt t = HStartTag -> is_doc_tag t = true ->
  exists om ip rw sk, minify_pieces o omit inpre raw 0 (t :: rest) = PTag (data t ++ [62]) t :: minify_pieces o om ip rw sk rest.
Proof.
  intros o omit inpre raw t rest Hk Ht Hd. cbn [minify_pieces]. rewrite Ht, Hk. cbn [negb andb orb].
  assert (Hn : name_is t n_colgroup = false /\ name_is t n_script = false /\ name_is t n_style = false).
  { unfold is_doc_tag, name_is in Hd. unfold name_is.
    apply orb_true_iff in Hd as [Hd|Hd]; [apply orb_true_iff in Hd as [Hd|Hd]|];
      apply beqb_eq in Hd; rewrite Hd; vm_compute; repeat split. }
  destruct Hn as (N1 & N2 & N3). rewrite N1, N2, N3. cbn [orb]. rewrite andb_false_r. cbn [andb].
  do 4 eexists. reflexivity.
Qed.

(* text handling reads KeepWhitespace only: for text tokens the piece written does not depend on the other two options *)
Theorem text_ignores_tag_options : forall o o' omit inpre raw t rest,
  keepws o = keepws o' -> tt t = HText ->
  match minify_pieces o omit inpre raw 0 (t :: rest), minify_pieces o' omit inpre raw 0 (t :: rest) with
  | p :: _, p' :: _ => p = p'
  | _, _ => False
  end.
Proof.
  intros o o' omit inpre raw t rest Hk Ht. cbn [minify_pieces]. rewrite Ht.
  assert (TD : forall r, trailing_decision o r = trailing_decision o' r).
  { induction r as [|n r IH]; [reflexivity|]. cbn [trailing_decision]. rewrite Hk, IH. reflexivity. }
  destruct (raw && negb (has_template t)); [reflexivity|].
  destruct inpre; [reflexivity|].
  destruct (if omit && starts_ws (data t) then tl (data t) else data t) as [|c l] eqn:D; [reflexivity|].
  destruct (ends_ws (c :: l)); [|reflexivity].
  rewrite TD. destruct (trailing_decision o' rest) as [trim om]. reflexivity.
Qed.
