(* Html/HtmlSelect.v — which media type the content of a script / style / iframe element is dispatched on
   (/repo/html/html.go, TextToken branch: rawTagHash, rawTagMediatype): iframe content is always text/html; otherwise
   the entity-decoded value of the type attribute, cut down by parse.Mediatype (model: Dispatch/DispatchModel.v, tied to
   the dependency by C15's correspondence), when it is not empty; otherwise the documented default. *)
From MV Require Import Base.MvBytes Dispatch.DispatchModel Html.HtmlWs Html.HtmlEmbed.

Definition html_select (tag ty : bytes) : option bytes :=
  if beqb tag n_iframe then Some mt_html
  else if beqb tag n_script || beqb tag n_style then
    match ty with
    | _ :: _ => Some (fst (fst (mediatype ty)))
    | [] => raw_mimetype tag
    end
  else None.

(* without a type attribute: the defaults of Html/HtmlEmbed.v *)
Lemma html_select_default : forall tag, html_select tag [] = raw_mimetype tag.
Proof.
  intros tag. unfold html_select, raw_mimetype.
  destruct (beqb tag n_iframe) eqn:I.
  - apply beqb_eq in I. subst tag. reflexivity.
  - destruct (beqb tag n_script); [reflexivity|]. destruct (beqb tag n_style); reflexivity.
Qed.

(* "chosen from the type attribute" is NOT case-insensitive in the current code, although the type attribute is dropped
   as a default by a case-insensitive test: <style type="Text/CSS"> is dispatched on "Text/CSS" (finding K103) *)
Example html_select_case_refuted :
  html_select n_style [84;101;120;116;47;67;83;83] = Some [84;101;120;116;47;67;83;83] /\
  html_select n_style [116;101;120;116;47;99;115;115] = Some mt_css.
Proof. vm_compute. split; reflexivity. Qed.
