(* Html/HtmlSelect.v — which media type the content of a script / style / iframe element is dispatched on
   (/repo/html/html.go, TextToken branch: rawTagHash, rawTagMediatype): iframe content is always text/html; otherwise
   the entity-decoded value of the type attribute, cut down by parse.Mediatype (model: Dispatch/DispatchModel.v, tied to
   the dependency by C15's correspondence), when it is not empty; otherwise the documented default. *)
From MV Require Import Base.MvBytes Dispatch.DispatchModel Html.HtmlWs Html.HtmlEmbed.

Definition html_select (tag ty : bytes) : option bytes :=
  if beqb tag n_iframe then Some mt_html
  else if beqb tag n_script || beqb tag n_style then
    match ty with
    | _ :: _ => Some (map to_lower (fst (fst (mediatype ty))))      (* parse.ToLower: media types are case-insensitive *)
    | [] => raw_mimetype tag
    end
  else None.

(* without a type attribute: the defaults of Html/HtmlEmbed.v *)
Lemma html_select_default : forall tag, html_select tag [] = raw_mimetype tag.
Proof.
  intros tag. unfold html_select, raw_mimetype.
  destruct (beqb tag n_iframe) eqn:I.
  - apply beqb_eq in I. subst tag. reflexivity.
  - destruct (beqb tag n_script); [reflexivity|]. destruct (beqb tag n_style); reflexivity.
Qed.

(* dispatch does not depend on the case of the media type (K103, repaired): the selected type is always lower case *)
Lemma map_to_lower_idem : forall b, map to_lower (map to_lower b) = map to_lower b.
Proof.
  induction b as [|c r IH]; [reflexivity|]. cbn [map]. rewrite IH. f_equal.
  unfold to_lower, is_upper.
  destruct ((65 <=? c) && (c <=? 90)) eqn:E; [|rewrite E; reflexivity].
  apply andb_true_iff in E as [E1 E2]. apply Z.leb_le in E1. apply Z.leb_le in E2.
  replace ((65 <=? c + 32) && (c + 32 <=? 90)) with false; [reflexivity|].
  symmetry. apply andb_false_iff. right. apply Z.leb_gt. lia.
Qed.
Theorem html_select_lower_case : forall tag ty mt, ty <> [] -> (beqb tag n_script || beqb tag n_style = true) -> beqb tag n_iframe = false ->
  html_select tag ty = Some mt -> map to_lower mt = mt.
Proof.
  intros tag ty mt Hty Htag Hif H. unfold html_select in H. rewrite Hif, Htag in H.
  destruct ty as [|c r]; [contradiction Hty; reflexivity|]. injection H as <-. apply map_to_lower_idem.
Qed.
Example html_select_case_examples :
  html_select n_style [84;101;120;116;47;67;83;83] = Some mt_css /\
  html_select n_style [116;101;120;116;47;99;115;115] = Some mt_css.
Proof. vm_compute. split; reflexivity. Qed.
