(* Html/HtmlWs.v — F2 model of html.Minify (/repo/html/html.go) on ATTRIBUTE-FREE token streams of the real parse/html
   lexer: doctype, comments, text with the white-space state machine and its look-ahead, pre and raw-text elements,
   svg/math/template tokens, start and end tags with the removal of document tags and colgroup, end-tag omission
   (unconditional list, the p and optgroup look-aheads), text skipping in select/optgroup/option, removal of empty
   script/style, the phrasing-tag rule, and the options KeepWhitespace, KeepEndTags, KeepDocumentTags.
   Tag traits come from the table regenerated from html/table.go (coq/gen/Tables_gen.v).  No sub-minifier is registered in
   the correspondence run, so embedded content is written unchanged.  Attributes are handled by a separate model
   (Html/HtmlAttr.v: quoting). *)
From MVGen Require Import Tables_gen.
From MV Require Import Base.MvBytes.
From Coq Require Import Arith.

Inductive htt := HError | HComment | HDoctype | HStartTag | HEndTag | HText | HSvg | HMath | HTemplate | HStartTagClose | HOther.
(* text tokens: [data] = parse.ReplaceMultipleWhitespaceAndEntities of the lexeme (run by the harness), [text] = raw lexeme;
   tags: [data] = lexeme as the lexer returns it ("<p", "</p>"), [text] = lower-case name *)
Record htok := { tt : htt; data : bytes; text : bytes; has_template : bool }.

Definition htt_eqb (a b : htt) : bool :=
  match a, b with
  | HError, HError | HComment, HComment | HDoctype, HDoctype | HStartTag, HStartTag | HEndTag, HEndTag | HText, HText
  | HSvg, HSvg | HMath, HMath | HTemplate, HTemplate | HStartTagClose, HStartTagClose | HOther, HOther => true
  | _, _ => false
  end.

Record hopts := { keepws : bool; keep_end_tags : bool; keep_doc_tags : bool }.

Fixpoint tlookup (k : bytes) (l : list (bytes * Z)) : Z :=
  match l with [] => 0 | (k', v) :: r => if beqb k' k then v else tlookup k r end.
Definition traits_of (t : htok) : Z :=
  match tt t with HStartTag | HEndTag => tlookup (text t) html_tag_traits | _ => 0 end.
Definition has (tr flag : Z) : bool := negb (Z.land tr flag =? 0).
Definition is_block (t : htok) : bool := has (traits_of t) trait_blockTag.
Definition is_object (t : htok) : bool := has (traits_of t) trait_objectTag.
Definition is_raw (t : htok) : bool := has (traits_of t) trait_rawTag.

Definition name_is (t : htok) (n : bytes) : bool := beqb (text t) n.
Definition n_html := [104;116;109;108]. Definition n_head := [104;101;97;100]. Definition n_body := [98;111;100;121].
Definition n_colgroup := [99;111;108;103;114;111;117;112]. Definition n_pre := [112;114;101]. Definition n_p := [112].
Definition n_script := [115;99;114;105;112;116]. Definition n_style := [115;116;121;108;101]. Definition n_template := [116;101;109;112;108;97;116;101].
Definition n_select := [115;101;108;101;99;116]. Definition n_optgroup := [111;112;116;103;114;111;117;112]. Definition n_option := [111;112;116;105;111;110].
Definition omit_always : list bytes :=
  [[116;104;101;97;100]; [116;98;111;100;121]; [116;102;111;111;116]; [116;114]; [116;104]; [116;100]; n_option; [100;100]; [100;116]; [108;105];
   [114;98]; [114;116]; [114;116;99]; [114;112]].

Definition err_tok : htok := {| tt := HError; data := []; text := []; has_template := false |}.
Definition hpeek (ts : list htok) (i : nat) : htok := nth i ts err_tok.
Definition starts_ws (b : bytes) : bool := match b with c :: _ => is_ws c | [] => false end.
Definition ends_ws (b : bytes) : bool := starts_ws (rev b).
Definition all_ws (b : bytes) : bool := forallb is_ws b.

(* look-ahead of the text branch: (trim the trailing white-space byte?, omitSpace afterwards) *)
Fixpoint trailing_decision (o : hopts) (rest : list htok) : bool * bool :=
  match rest with
  | [] => (true, false)
  | n :: r =>
    match tt n with
    | HError => (true, false)
    | HText => if all_ws (text n) then trailing_decision o r else (false, true)
    | HTemplate => (false, true)
    | HStartTag | HEndTag | HSvg | HMath =>
        if keepws o then (false, true)
        else if is_block n then (true, false)
        else match tt n with HEndTag => trailing_decision o r | _ => (false, true) end
    | _ => trailing_decision o r
    end
  end.

(* </p> may go when what follows (after white-space-only text) is the end of input, the end tag of a known element without
   the keepPTag trait, or a start tag with the omitPTag trait *)
Fixpoint p_end_omitted (rest : list htok) : bool :=
  match rest with
  | [] => true
  | n :: r =>
    match tt n with
    | HText => if all_ws (text n) then p_end_omitted r else false
    | HError => true
    | HEndTag => negb (traits_of n =? 0) && negb (has (traits_of n) trait_keepPTag)     (* unknown (custom) elements keep </p> *)
    | HStartTag => has (traits_of n) trait_omitPTag
    | _ => false
    end
  end.
(* </optgroup> may go unless the next non-text token is an <option> tag *)
Fixpoint optgroup_end_omitted (rest : list htok) : bool :=
  match rest with
  | [] => true
  | n :: r =>
    match tt n with
    | HText => optgroup_end_omitted r
    | HError => true
    | HStartTag | HEndTag => negb (name_is n n_option)
    | _ => true
    end
  end.

Inductive piece :=
| PText (b : bytes)           (* text after the white-space machine *)
| PVerb (b : bytes)           (* doctype, pre / raw text: written unchanged *)
| PObj (b : bytes)            (* svg / math / template tokens: written unchanged, behave like a replaced element *)
| PTag (b : bytes) (t : htok) (* an emitted tag *)
| PGone (t : htok).           (* a tag that is not written (document tag, colgroup, omitted end tag): no bytes *)
Definition piece_bytes (p : piece) : bytes := match p with PText b | PVerb b | PObj b | PTag b _ => b | PGone _ => [] end.

Definition end_tag_bytes (t : htok) : bytes :=
  if Nat.ltb (3 + length (text t)) (length (data t)) then firstn (2 + length (text t)) (data t) ++ [62] else data t.

Definition omit_after_tag (o : hopts) (t : htok) (omit : bool) : bool :=
  if keepws o || is_object t then false else if is_block t then true else omit.

(* skip one following text token (select / optgroup / option) *)
Definition skip_text (rest : list htok) : nat :=
  match rest with n :: _ => if htt_eqb (tt n) HText && negb (has_template n) then 1 else 0 | [] => 0 end%nat.

Fixpoint minify_pieces (o : hopts) (omit inpre : bool) (raw : bool) (skip : nat) (ts : list htok) : list piece :=
  match ts with
  | [] => []
  | t :: rest =>
    match skip with
    | S k => minify_pieces o omit inpre raw k rest
    | O =>
      match tt t with
      | HError => []
      | HDoctype => PVerb [60;33;100;111;99;116;121;112;101;32;104;116;109;108;62] :: minify_pieces o omit inpre raw 0 rest
      | HComment | HStartTagClose | HOther => minify_pieces o omit inpre raw 0 rest
      | HSvg | HMath | HTemplate => PObj (data t) :: minify_pieces o false inpre raw 0 rest
      | HText =>
        if raw && negb (has_template t) then PVerb (text t) :: minify_pieces o omit inpre raw 0 rest
        else if inpre then PVerb (text t) :: minify_pieces o omit inpre raw 0 rest
        else
          let d1 := if omit && starts_ws (data t) then tl (data t) else data t in
          match d1 with
          | [] => PText [] :: minify_pieces o true inpre raw 0 rest
          | _ =>
            if ends_ws d1 then
              let '(trim, omit') := trailing_decision o rest in
              PText (if trim then removelast d1 else d1) :: minify_pieces o omit' inpre raw 0 rest
            else PText d1 :: minify_pieces o false inpre raw 0 rest
          end
      | HStartTag =>
        (* empty script / style elements vanish: <script></script> *)
        if is_raw t && (name_is t n_script || name_is t n_style) && htt_eqb (tt (hpeek rest 1)) HEndTag
        then minify_pieces o omit inpre false 2 rest
        else
          let raw' := is_raw t in
          let inpre' := if name_is t n_pre then true else inpre in
          if (negb (keep_doc_tags o) && (name_is t n_html || name_is t n_head || name_is t n_body)) || name_is t n_colgroup
          then PGone t :: minify_pieces o omit inpre' raw' 0 rest
          else
            let omit1 := omit_after_tag o t omit in
            let sk := if name_is t n_select || name_is t n_optgroup then skip_text (tl rest) else 0%nat in
            (* keep the space after an empty phrasing element: <i></i> *)
            let nx := hpeek (skipn sk (tl rest)) 0 in
            let omit2 := if (traits_of t =? trait_normalTag) && htt_eqb (tt nx) HEndTag && beqb (text nx) (text t) then false else omit1 in
            PTag (data t ++ [62]) t :: minify_pieces o omit2 inpre' raw' (S sk) rest      (* S: the StartTagClose token *)
      | HEndTag =>
        let omit0 := if name_is t n_template then true else omit in
        let inpre' := if name_is t n_pre then false else inpre in
        if (negb (keep_doc_tags o) && (name_is t n_html || name_is t n_head || name_is t n_body)) || name_is t n_colgroup
        then PGone t :: minify_pieces o omit0 inpre' false 0 rest
        else
          let omitted := negb (keep_end_tags o) &&
                         (existsb (beqb (text t)) omit_always || (name_is t n_p && p_end_omitted rest) ||
                          (name_is t n_optgroup && optgroup_end_omitted rest)) in
          let sk := if name_is t n_option || name_is t n_optgroup then skip_text rest else 0%nat in
          if omitted then PGone t :: minify_pieces o omit0 inpre' false sk rest
          else PTag (end_tag_bytes t) t :: minify_pieces o (omit_after_tag o t omit0) inpre' false sk rest
      end
    end
  end.

Definition html_minify (o : hopts) (ts : list htok) : bytes :=
  concat (map piece_bytes (minify_pieces o true false false 0 ts)).
