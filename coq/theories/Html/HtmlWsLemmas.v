(* Html/HtmlWsLemmas.v — helper lemmas for Html/HtmlWsProofs.v: white-space facts on top of Base/Ws.v, the [merge] algebra,
   one-step equations of the model / the specification, facts read off the generated trait table (by closed
   computations only), and facts about the look-ahead [trailing_decision]. *)
From MVGen Require Import Tables_gen.
From MV Require Import Base.MvBytes Base.Ws Html.HtmlWs Html.HtmlWsSpec.
From Coq Require Import Arith.

Local Arguments is_ws : simpl never.
Local Arguments tlookup : simpl never.
Local Arguments traits_of : simpl never.
Local Arguments is_block : simpl never.
Local Arguments is_object : simpl never.
Local Arguments is_raw : simpl never.
Local Arguments name_is : simpl never.
Local Arguments has : simpl never.

(* ---------- bridging: the model's white-space predicates are the library's ---------- *)
Lemma starts_ws_eq b : HtmlWs.starts_ws b = Ws.starts_ws b. Proof. reflexivity. Qed.
Lemma ends_ws_eq b : HtmlWs.ends_ws b = Ws.ends_ws b. Proof. reflexivity. Qed.
Lemma all_ws_eq b : HtmlWs.all_ws b = Ws.all_ws b. Proof. reflexivity. Qed.

(* ---------- white-space facts ---------- *)
Lemma rev_nil_inv {A} (y : list A) : rev y = [] -> y = [].
Proof. intros E. rewrite <- (rev_involutive y), E. reflexivity. Qed.

Lemma rflag_app_ne x y : y <> [] -> rflag (x ++ y) = rflag y.
Proof.
  intros H. unfold rflag. rewrite rev_app_distr. destruct (rev y) eqn:E.
  - exfalso. apply H. apply rev_nil_inv. exact E.
  - reflexivity.
Qed.

Lemma rflag_ends y : y <> [] -> rflag y = Ws.ends_ws y.
Proof.
  intros H. unfold rflag, Ws.ends_ws. destruct (rev y) eqn:E.
  - exfalso. apply H. apply rev_nil_inv. exact E.
  - reflexivity.
Qed.

Lemma rflag_nil : rflag [] = true. Proof. reflexivity. Qed.

Lemma all_ws_forall x : Ws.all_ws x = true <-> (forall c, In c x -> is_ws c = true).
Proof. unfold Ws.all_ws. apply forallb_forall. Qed.

Lemma all_ws_lflag x : Ws.all_ws x = true -> lflag x = true.
Proof.
  destruct x as [|c x]; [reflexivity|]. intros H. cbn [lflag].
  apply (proj1 (all_ws_forall _) H). left. reflexivity.
Qed.

Lemma all_ws_rev x : Ws.all_ws x = true -> Ws.all_ws (rev x) = true.
Proof.
  intros H. apply all_ws_forall. intros c Hc. apply in_rev in Hc.
  exact (proj1 (all_ws_forall _) H c Hc).
Qed.

Lemma all_ws_rflag x : Ws.all_ws x = true -> rflag x = true.
Proof. intros H. unfold rflag. apply all_ws_lflag. apply all_ws_rev. exact H. Qed.

Lemma all_ws_words_app a x : Ws.all_ws x = true -> words (a ++ x) = words a.
Proof.
  intros H. rewrite words_app_lflag by (apply all_ws_lflag; exact H).
  rewrite (words_all_ws x H). apply app_nil_r.
Qed.

Lemma in_removelast {A} (c : A) x : In c (removelast x) -> In c x.
Proof.
  induction x as [|a x IH]; [intros []|].
  destruct x as [|b x]; [intros []|].
  change (removelast (a :: b :: x)) with (a :: removelast (b :: x)).
  intros [E | Hin]; [left; exact E | right; apply IH; exact Hin].
Qed.

Lemma all_ws_removelast x : Ws.all_ws x = true -> Ws.all_ws (removelast x) = true.
Proof.
  intros H. apply all_ws_forall. intros c Hc. apply in_removelast in Hc.
  exact (proj1 (all_ws_forall _) H c Hc).
Qed.

Lemma all_ws_ends x : x <> [] -> Ws.all_ws x = true -> Ws.ends_ws x = true.
Proof.
  intros Hne H. unfold Ws.ends_ws. destruct (rev x) as [|c r] eqn:E.
  - exfalso. apply Hne. apply rev_nil_inv. exact E.
  - cbn [Ws.starts_ws]. apply (proj1 (all_ws_forall _) H). apply in_rev. rewrite E. left. reflexivity.
Qed.

Lemma ends_ws_split d : Ws.ends_ws d = true -> exists r c, d = r ++ [c] /\ is_ws c = true.
Proof.
  unfold Ws.ends_ws. intros H. destruct (rev d) as [|c r] eqn:E; [discriminate H|].
  exists (rev r), c. split; [|exact H].
  rewrite <- (rev_involutive d), E. reflexivity.
Qed.

Lemma words_app_removelast_ws a d : Ws.ends_ws d = true -> words (a ++ removelast d) = words (a ++ d).
Proof.
  intros H. destruct (ends_ws_split d H) as (r & c & -> & Hc).
  rewrite removelast_last. rewrite app_assoc. symmetry. apply words_snoc_ws. exact Hc.
Qed.

Lemma rflag_tl c r : r <> [] -> rflag (c :: r) = rflag r.
Proof. intros H. destruct r as [|d r]; [contradiction H; reflexivity|]. apply rflag_cons2. Qed.

Lemma rflag_app_opaque x : rflag (x ++ opaque) = false.
Proof. rewrite rflag_app_ne by discriminate. reflexivity. Qed.

Lemma words_app_opaque O I : words O = words I -> rflag I = rflag O -> words (O ++ opaque) = words (I ++ opaque).
Proof. intros Hw Hf. apply words_app_congr_l; [exact Hw | symmetry; exact Hf]. Qed.

(* ---------- merge ---------- *)
Definition pre (b : bool) (a : bytes) (l : list item) : list item := if b then IR a :: l else l.

Lemma merge_IR_IR a b l : merge (IR a :: IR b :: l) = merge (IR (a ++ b) :: l).
Proof.
  cbn [merge]. destruct (merge l) as [|[m|c] r].
  - reflexivity.
  - reflexivity.
  - rewrite app_assoc. reflexivity.
Qed.

Lemma merge_pre_IR b O x l : (b = false -> O = []) -> merge (pre b O (IR x :: l)) = merge (pre true (O ++ x) l).
Proof.
  intros H. destruct b; unfold pre.
  - apply merge_IR_IR.
  - rewrite (H eq_refl). reflexivity.
Qed.

Lemma merge_pre_IM b O m l : merge (pre b O (IM m :: l)) = pre b O (IM m :: merge l).
Proof. destruct b; reflexivity. Qed.

Lemma merge_pre_nil b O : merge (pre b O []) = pre b O [].
Proof. destruct b; reflexivity. Qed.

Lemma close_end b O I : words O = words I -> Forall2 item_equiv (merge (pre b O [])) (merge (pre b I [])).
Proof.
  intros H. rewrite !merge_pre_nil. destruct b; unfold pre; [|constructor].
  constructor; [exact H | constructor].
Qed.

Lemma close_boundary b O I m outs ins :
  words O = words I -> Forall2 item_equiv (merge outs) (merge ins) ->
  Forall2 item_equiv (merge (pre b O (IM m :: outs))) (merge (pre b I (IM m :: ins))).
Proof.
  intros H HF. rewrite !merge_pre_IM. destruct b; unfold pre.
  - constructor; [exact H|]. constructor; [reflexivity | exact HF].
  - constructor; [reflexivity | exact HF].
Qed.

Lemma close_run b O I x y outs ins :
  (b = false -> O = [] /\ I = []) ->
  Forall2 item_equiv (merge (pre true (O ++ x) outs)) (merge (pre true (I ++ y) ins)) ->
  Forall2 item_equiv (merge (pre b O (IR x :: outs))) (merge (pre b I (IR y :: ins))).
Proof.
  intros H HF.
  rewrite (merge_pre_IR b O) by (intros E; exact (proj1 (H E))).
  rewrite (merge_pre_IR b I) by (intros E; exact (proj2 (H E))).
  exact HF.
Qed.

Lemma tag_items_step t b O I outs ins :
  (b = false -> O = [] /\ I = []) -> words O = words I ->
  (is_boundary t = true -> Forall2 item_equiv (merge outs) (merge ins)) ->
  (is_boundary t = false -> is_object t = true ->
     Forall2 item_equiv (merge (pre true (O ++ opaque) outs)) (merge (pre true (I ++ opaque) ins))) ->
  (is_boundary t = false -> is_object t = false ->
     Forall2 item_equiv (merge (pre b O outs)) (merge (pre b I ins))) ->
  Forall2 item_equiv (merge (pre b O (tag_items t ++ outs))) (merge (pre b I (tag_items t ++ ins))).
Proof.
  intros Hb Hw H1 H2 H3. unfold tag_items.
  destruct (is_boundary t) eqn:Eb.
  - cbn [app]. apply close_boundary; [exact Hw | apply H1; reflexivity].
  - destruct (is_object t) eqn:Eo.
    + cbn [app]. apply close_run; [exact Hb | apply H2; reflexivity].
    + cbn [app]. apply H3; reflexivity.
Qed.

(* ---------- out_items, one piece at a time ---------- *)
Lemma out_items_nil : out_items [] = []. Proof. reflexivity. Qed.
Lemma out_items_text b ps : out_items (PText b :: ps) = IR b :: out_items ps. Proof. reflexivity. Qed.
Lemma out_items_obj b ps : out_items (PObj b :: ps) = IR opaque :: out_items ps. Proof. reflexivity. Qed.
Lemma out_items_verb b ps : out_items (PVerb b :: ps) = IM b :: out_items ps. Proof. reflexivity. Qed.
Lemma out_items_tag b t ps : out_items (PTag b t :: ps) = tag_items t ++ out_items ps. Proof. reflexivity. Qed.
Lemma out_items_gone t ps : out_items (PGone t :: ps) = tag_items t ++ out_items ps. Proof. reflexivity. Qed.

(* ---------- one-step equations of the model and of the specification ---------- *)
Definition vanish (t : htok) (rest : list htok) : bool :=
  is_raw t && (name_is t n_script || name_is t n_style) && htt_eqb (tt (hpeek rest 1)) HEndTag.
Definition docgone (o : hopts) (t : htok) : bool :=
  (negb (keep_doc_tags o) && (name_is t n_html || name_is t n_head || name_is t n_body)) || name_is t n_colgroup.
Definition sk_start (t : htok) (rest : list htok) : nat :=
  if name_is t n_select || name_is t n_optgroup then skip_text (tl rest) else 0%nat.
Definition sk_end (t : htok) (rest : list htok) : nat :=
  if name_is t n_option || name_is t n_optgroup then skip_text rest else 0%nat.
Definition pre_s (t : htok) (inpre : bool) : bool := if name_is t n_pre then true else inpre.
Definition pre_e (t : htok) (inpre : bool) : bool := if name_is t n_pre then false else inpre.
Definition end_omitted (o : hopts) (t : htok) (rest : list htok) : bool :=
  negb (keep_end_tags o) &&
  (existsb (beqb (text t)) omit_always || (name_is t n_p && p_end_omitted rest) ||
   (name_is t n_optgroup && optgroup_end_omitted rest)).
Definition omit2 (o : hopts) (t : htok) (omit : bool) (rest : list htok) : bool :=
  let nx := hpeek (skipn (sk_start t rest) (tl rest)) 0 in
  if (traits_of t =? trait_normalTag) && htt_eqb (tt nx) HEndTag && beqb (text nx) (text t) then false
  else omit_after_tag o t omit.
Definition omit0 (t : htok) (omit : bool) : bool := if name_is t n_template then true else omit.
Definition doctype_bytes : bytes := [60;33;100;111;99;116;121;112;101;32;104;116;109;108;62].
(* the text branch of the white-space machine: (bytes written, omitSpace afterwards) *)
Definition text_out (o : hopts) (omit : bool) (d : bytes) (rest : list htok) : bytes * bool :=
  let d1 := if omit && HtmlWs.starts_ws d then tl d else d in
  match d1 with
  | [] => ([], true)
  | _ => if HtmlWs.ends_ws d1
         then let '(trim, omit') := trailing_decision o rest in ((if trim then removelast d1 else d1), omit')
         else (d1, false)
  end.

Section Equations.
Variables (o : hopts) (omit inpre raw : bool) (t : htok) (rest : list htok).

Lemma mp_skip k : minify_pieces o omit inpre raw (S k) (t :: rest) = minify_pieces o omit inpre raw k rest.
Proof. reflexivity. Qed.
Lemma ii_skip k : in_items o inpre raw (S k) (t :: rest) = in_items o inpre raw k rest.
Proof. reflexivity. Qed.

Lemma mp_error : tt t = HError -> minify_pieces o omit inpre raw 0 (t :: rest) = [].
Proof. intros H. cbn [minify_pieces]. rewrite H. reflexivity. Qed.
Lemma ii_error : tt t = HError -> in_items o inpre raw 0 (t :: rest) = [].
Proof. intros H. cbn [in_items]. rewrite H. reflexivity. Qed.

Lemma mp_doctype : tt t = HDoctype ->
  minify_pieces o omit inpre raw 0 (t :: rest) = PVerb doctype_bytes :: minify_pieces o omit inpre raw 0 rest.
Proof. intros H. cbn [minify_pieces]. rewrite H. reflexivity. Qed.
Lemma ii_doctype : tt t = HDoctype ->
  in_items o inpre raw 0 (t :: rest) = IM doctype_bytes :: in_items o inpre raw 0 rest.
Proof. intros H. cbn [in_items]. rewrite H. reflexivity. Qed.

Lemma mp_transparent : tt t = HComment \/ tt t = HStartTagClose \/ tt t = HOther ->
  minify_pieces o omit inpre raw 0 (t :: rest) = minify_pieces o omit inpre raw 0 rest.
Proof. intros [H|[H|H]]; cbn [minify_pieces]; rewrite H; reflexivity. Qed.
Lemma ii_transparent : tt t = HComment \/ tt t = HStartTagClose \/ tt t = HOther ->
  in_items o inpre raw 0 (t :: rest) = in_items o inpre raw 0 rest.
Proof. intros [H|[H|H]]; cbn [in_items]; rewrite H; reflexivity. Qed.

Lemma mp_object : tt t = HSvg \/ tt t = HMath \/ tt t = HTemplate ->
  minify_pieces o omit inpre raw 0 (t :: rest) = PObj (data t) :: minify_pieces o false inpre raw 0 rest.
Proof. intros [H|[H|H]]; cbn [minify_pieces]; rewrite H; reflexivity. Qed.
Lemma ii_object : tt t = HSvg \/ tt t = HMath \/ tt t = HTemplate ->
  in_items o inpre raw 0 (t :: rest) = IR opaque :: in_items o inpre raw 0 rest.
Proof. intros [H|[H|H]]; cbn [in_items]; rewrite H; reflexivity. Qed.

Lemma mp_text : tt t = HText ->
  minify_pieces o omit inpre raw 0 (t :: rest) =
  if (raw && negb (has_template t)) || inpre then PVerb (text t) :: minify_pieces o omit inpre raw 0 rest
  else PText (fst (text_out o omit (data t) rest)) ::
       minify_pieces o (snd (text_out o omit (data t) rest)) inpre raw 0 rest.
Proof.
  intros H. cbn [minify_pieces]. rewrite H.
  destruct (raw && negb (has_template t)); [reflexivity|]. cbn [orb].
  destruct inpre; [reflexivity|].
  unfold text_out.
  destruct (if omit && HtmlWs.starts_ws (data t) then tl (data t) else data t) as [|c d1]; [reflexivity|].
  destruct (HtmlWs.ends_ws (c :: d1)); [|reflexivity].
  destruct (trailing_decision o rest) as [trim omit']. reflexivity.
Qed.
Lemma ii_text : tt t = HText ->
  in_items o inpre raw 0 (t :: rest) =
  if (raw && negb (has_template t)) || inpre then IM (text t) :: in_items o inpre raw 0 rest
  else IR (data t) :: in_items o inpre raw 0 rest.
Proof. intros H. cbn [in_items]. rewrite H. reflexivity. Qed.

Lemma mp_start : tt t = HStartTag ->
  minify_pieces o omit inpre raw 0 (t :: rest) =
  if vanish t rest then minify_pieces o omit inpre false 2 rest
  else if docgone o t then PGone t :: minify_pieces o omit (pre_s t inpre) (is_raw t) 0 rest
  else PTag (data t ++ [62]) t ::
       minify_pieces o (omit2 o t omit rest) (pre_s t inpre) (is_raw t) (S (sk_start t rest)) rest.
Proof. intros H. cbn [minify_pieces]. rewrite H. reflexivity. Qed.
Lemma ii_start : tt t = HStartTag ->
  in_items o inpre raw 0 (t :: rest) =
  if vanish t rest then in_items o inpre false 2 rest
  else if docgone o t then tag_items t ++ in_items o (pre_s t inpre) (is_raw t) 0 rest
  else tag_items t ++ in_items o (pre_s t inpre) (is_raw t) (S (sk_start t rest)) rest.
Proof. intros H. cbn [in_items]. rewrite H. reflexivity. Qed.

Lemma mp_end : tt t = HEndTag ->
  minify_pieces o omit inpre raw 0 (t :: rest) =
  if docgone o t then PGone t :: minify_pieces o (omit0 t omit) (pre_e t inpre) false 0 rest
  else if end_omitted o t rest
       then PGone t :: minify_pieces o (omit0 t omit) (pre_e t inpre) false (sk_end t rest) rest
       else PTag (end_tag_bytes t) t ::
            minify_pieces o (omit_after_tag o t (omit0 t omit)) (pre_e t inpre) false (sk_end t rest) rest.
Proof. intros H. cbn [minify_pieces]. rewrite H. reflexivity. Qed.
Lemma ii_end : tt t = HEndTag ->
  in_items o inpre raw 0 (t :: rest) =
  if docgone o t then tag_items t ++ in_items o (pre_e t inpre) false 0 rest
  else tag_items t ++ in_items o (pre_e t inpre) false (sk_end t rest) rest.
Proof. intros H. cbn [in_items]. rewrite H. reflexivity. Qed.
End Equations.

(* ---------- facts read off the generated table (closed computations) ---------- *)
Lemma traits_name t n : name_is t n = true -> tt t = HStartTag \/ tt t = HEndTag ->
  traits_of t = tlookup n html_tag_traits.
Proof.
  unfold name_is, traits_of. intros H [E|E]; apply beqb_eq in H; rewrite E, H; reflexivity.
Qed.

Lemma traits_other t : tt t <> HStartTag -> tt t <> HEndTag -> traits_of t = 0.
Proof. unfold traits_of. intros H1 H2. destruct (tt t); try reflexivity; contradiction. Qed.

Lemma is_block_other t : tt t <> HStartTag -> tt t <> HEndTag -> is_block t = false.
Proof. intros H1 H2. unfold is_block. rewrite traits_other by assumption. reflexivity. Qed.

Ltac table_fact H Htt := unfold is_object, is_block; rewrite (traits_name _ _ H Htt); vm_compute; reflexivity.

Lemma html_not_object t : tt t = HStartTag \/ tt t = HEndTag -> name_is t n_html = true -> is_object t = false.
Proof. intros Htt H. table_fact H Htt. Qed.
Lemma head_not_object t : tt t = HStartTag \/ tt t = HEndTag -> name_is t n_head = true -> is_object t = false.
Proof. intros Htt H. table_fact H Htt. Qed.
Lemma body_not_object t : tt t = HStartTag \/ tt t = HEndTag -> name_is t n_body = true -> is_object t = false.
Proof. intros Htt H. table_fact H Htt. Qed.
Lemma colgroup_not_object t : tt t = HStartTag \/ tt t = HEndTag -> name_is t n_colgroup = true -> is_object t = false.
Proof. intros Htt H. table_fact H Htt. Qed.
Lemma p_not_object t : tt t = HStartTag \/ tt t = HEndTag -> name_is t n_p = true -> is_object t = false.
Proof. intros Htt H. table_fact H Htt. Qed.
Lemma optgroup_not_object t : tt t = HStartTag \/ tt t = HEndTag -> name_is t n_optgroup = true -> is_object t = false.
Proof. intros Htt H. table_fact H Htt. Qed.
Lemma script_not_block t : tt t = HStartTag \/ tt t = HEndTag -> name_is t n_script = true -> is_block t = false.
Proof. intros Htt H. table_fact H Htt. Qed.

Lemma docgone_not_object o t : tt t = HStartTag \/ tt t = HEndTag -> docgone o t = true -> is_object t = false.
Proof.
  intros Htt H. unfold docgone in H.
  apply orb_true_iff in H as [H|H].
  - apply andb_true_iff in H as [_ H].
    apply orb_true_iff in H as [H|H]; [apply orb_true_iff in H as [H|H]|].
    + apply html_not_object; assumption.
    + apply head_not_object; assumption.
    + apply body_not_object; assumption.
  - apply colgroup_not_object; assumption.
Qed.

(* ---------- the look-ahead ---------- *)
Lemma td_cases o ts : trailing_decision o ts = (true, false) \/ trailing_decision o ts = (false, true).
Proof.
  induction ts as [|n r IH]; [left; reflexivity|].
  cbn [trailing_decision].
  destruct (tt n); try (left; reflexivity); try (right; reflexivity); try exact IH.
  - destruct (keepws o); [right; reflexivity|]. destruct (is_block n); [left; reflexivity|]. right; reflexivity.
  - destruct (keepws o); [right; reflexivity|]. destruct (is_block n); [left; reflexivity|]. exact IH.
  - destruct (HtmlWs.all_ws (text n)); [exact IH | right; reflexivity].
  - destruct (keepws o); [right; reflexivity|]. destruct (is_block n); [left; reflexivity|]. right; reflexivity.
  - destruct (keepws o); [right; reflexivity|]. destruct (is_block n); [left; reflexivity|]. right; reflexivity.
Qed.

Lemma td_keepws o o' ts : keepws o = keepws o' -> trailing_decision o ts = trailing_decision o' ts.
Proof.
  intros E. induction ts as [|n r IH]; [reflexivity|].
  cbn [trailing_decision]. rewrite <- E, IH. reflexivity.
Qed.

Lemma td_transparent o t rest : tt t = HComment \/ tt t = HStartTagClose \/ tt t = HOther ->
  trailing_decision o (t :: rest) = trailing_decision o rest.
Proof. intros [H|[H|H]]; cbn [trailing_decision]; rewrite H; reflexivity. Qed.

Lemma td_text o t rest : tt t = HText -> trailing_decision o (t :: rest) = (true, false) ->
  HtmlWs.all_ws (text t) = true /\ trailing_decision o rest = (true, false).
Proof.
  intros H. cbn [trailing_decision]. rewrite H.
  destruct (HtmlWs.all_ws (text t)); [intros E; split; [reflexivity | exact E] | discriminate].
Qed.

Lemma td_object o t rest : tt t = HSvg \/ tt t = HMath \/ tt t = HTemplate ->
  trailing_decision o (t :: rest) = (true, false) -> False.
Proof.
  intros H. assert (Hb : is_block t = false).
  { apply is_block_other; destruct H as [H|[H|H]]; rewrite H; discriminate. }
  cbn [trailing_decision]. destruct H as [H|[H|H]]; rewrite H; try discriminate;
    destruct (keepws o); try discriminate; rewrite Hb; discriminate.
Qed.

Lemma td_start o t rest : tt t = HStartTag -> trailing_decision o (t :: rest) = (true, false) ->
  is_block t = true.
Proof.
  intros H. cbn [trailing_decision]. rewrite H.
  destruct (keepws o); [discriminate|]. destruct (is_block t); [reflexivity | discriminate].
Qed.

Lemma td_end o t rest : tt t = HEndTag -> is_block t = false -> trailing_decision o (t :: rest) = (true, false) ->
  keepws o = false /\ trailing_decision o rest = (true, false).
Proof.
  intros H Hb. cbn [trailing_decision]. rewrite H, Hb.
  destruct (keepws o); [discriminate|]. intros E. split; [reflexivity | exact E].
Qed.

Lemma td_skip_text o rest : trailing_decision o rest = (true, false) ->
  trailing_decision o (skipn (skip_text rest) rest) = (true, false).
Proof.
  intros H. unfold skip_text. destruct rest as [|n r]; [exact H|].
  destruct (tt n) eqn:E; cbn [htt_eqb andb]; try exact H.
  destruct (negb (has_template n)); [|exact H].
  cbn [skipn]. exact (proj2 (td_text o n r E H)).
Qed.

Lemma td_sk_end o t rest : trailing_decision o rest = (true, false) ->
  trailing_decision o (skipn (sk_end t rest) rest) = (true, false).
Proof.
  intros H. unfold sk_end. destruct (name_is t n_option || name_is t n_optgroup); [|exact H].
  apply td_skip_text. exact H.
Qed.
