(* Html/HtmlWsProofs.v — the white-space state machine of html.Minify never joins, splits or drops rendered words. *)
From MVGen Require Import Tables_gen.
From MV Require Import Base.MvBytes Base.Ws Html.HtmlWs Html.HtmlWsSpec Html.HtmlWsLemmas.

Local Arguments is_ws : simpl never.
Local Arguments tlookup : simpl never.
Local Arguments traits_of : simpl never.
Local Arguments is_block : simpl never.
Local Arguments is_object : simpl never.
Local Arguments is_raw : simpl never.
Local Arguments name_is : simpl never.
Local Arguments has : simpl never.

(* what the lexer and the dependency's white-space collapsing guarantee for text tokens (measured on every harness token):
   the processed data is not empty, starts with white space when the raw lexeme does, and consists of white space only
   when the raw lexeme does *)
Definition wf_text (ts : list htok) : Prop := forall t, In t ts -> tt t = HText ->
  data t <> [] /\ (starts_ws (text t) = true -> starts_ws (data t) = true) /\ (all_ws (text t) = true -> all_ws (data t) = true).

(* ADDED (1): no empty style element.  `<style></style>` is removed as a whole, but the look-ahead of a preceding text
   token sees the block tag `<style` and trims the trailing space: `a <style></style>b` -> `ab`
   (counterexample [cex_empty_style] below). *)
Definition wf_no_empty_style (ts : list htok) : Prop := forall p t rest, ts = p ++ t :: rest ->
  tt t = HStartTag -> name_is t n_style = true -> htt_eqb (tt (hpeek rest 1)) HEndTag = false.

(* the options that matter to the look-ahead: KeepWhitespace off *)
Definition o_look : hopts := {| keepws := false; keep_end_tags := false; keep_doc_tags := false |}.

(* ADDED (2): the look-ahead does not run over the END tag of an object element (button, q, select, video, ...) up to
   a block tag or the end of input: it skips every inline end tag, but the specification counts an object end tag as an
   opaque character: `<button>x </button>` at the end of input -> `<button>x</button>`
   (counterexample [cex_object_end_lookahead] below). *)
Definition wf_object_end_lookahead (ts : list htok) : Prop := forall p t rest, ts = p ++ t :: rest ->
  tt t = HEndTag -> is_object t = true -> is_block t = false -> trailing_decision o_look rest = (false, true).

(* ADDED (3): no end tag of an object element that is on the list of unconditionally omitted end tags (in the
   generated table: `</rt>` and `</rtc>`).  The tag is not written and omitSpace is carried over unchanged, although
   the specification counts the tag as an opaque character: `</rt> b` -> `b`
   (counterexample [cex_omitted_object_end] below). *)
Definition wf_no_omitted_object_end (ts : list htok) : Prop := forall t, In t ts ->
  tt t = HEndTag -> is_object t = true -> existsb (beqb (text t)) omit_always = false.

Definition wf_tokens (ts : list htok) : Prop :=
  wf_text ts /\ wf_no_empty_style ts /\ wf_object_end_lookahead ts /\ wf_no_omitted_object_end ts.

(* ================= the added hypotheses are needed: counterexamples ================= *)
Section Counterexamples.
Let txt (s : bytes) : htok := {| tt := HText; data := s; text := s; has_template := false |}.
Let stag (n : bytes) : htok := {| tt := HStartTag; data := 60 :: n; text := n; has_template := false |}.
Let stc : htok := {| tt := HStartTagClose; data := [62]; text := []; has_template := false |}.
Let etag (n : bytes) : htok := {| tt := HEndTag; data := 60 :: 47 :: n ++ [62]; text := n; has_template := false |}.
Let conclusion (ts : list htok) : Prop :=
  Forall2 item_equiv (merge (out_items (minify_pieces o_look true false false 0 ts))) (merge (in_items o_look false false 0 ts)).

Ltac leaf :=
  intros;
  first [ discriminate
        | match goal with H : _ = _ |- _ => vm_compute in H; discriminate H end
        | vm_compute; reflexivity
        | repeat split; intros; first [discriminate | vm_compute; reflexivity] ].
Ltac in_cases :=
  let t := fresh "t" in let H := fresh "H" in
  intros t H; cbn [In] in H;
  repeat (destruct H as [H|H]; [subst t; leaf|]); destruct H.
Ltac pos_cases p H :=
  destruct p as [|? p]; cbn [app] in H;
  [ first [discriminate H | injection H as <- <-; leaf]
  | first [discriminate H | injection H as <- H; pos_cases p H] ].
Ltac pos_all := let p := fresh "p" in let t := fresh "t" in let r := fresh "r" in let H := fresh "H" in
  intros p t r H; pos_cases p H.
Ltac refute :=
  let HF := fresh "HF" in let E := fresh "E" in
  intros HF; vm_compute in HF; inversion HF as [|? ? ? ? E ?]; discriminate E.

(* `a <style></style>b` -> `ab` *)
Example cex_empty_style :
  let ts := [txt [97;32]; stag n_style; stc; etag n_style; txt [98]] in
  wf_text ts /\ wf_object_end_lookahead ts /\ wf_no_omitted_object_end ts /\ ~ conclusion ts.
Proof.
  cbv zeta. split; [in_cases|]. split; [pos_all|]. split; [in_cases|]. refute.
Qed.

(* `a </button>` at the end of input -> `a</button>` : the words "a", "\001" become the one word "a\001" *)
Example cex_object_end_lookahead :
  let ts := [txt [97;32]; etag [98;117;116;116;111;110]] in
  wf_text ts /\ wf_no_empty_style ts /\ wf_no_omitted_object_end ts /\ ~ conclusion ts.
Proof.
  cbv zeta. split; [in_cases|]. split; [pos_all|]. split; [in_cases|]. refute.
Qed.

(* `</rt> b` -> `b` : the words "\001", "b" become the one word "\001b" *)
Example cex_omitted_object_end :
  let ts := [etag [114;116]; txt [32;98]] in
  wf_text ts /\ wf_no_empty_style ts /\ wf_object_end_lookahead ts /\ ~ conclusion ts.
Proof.
  cbv zeta. split; [in_cases|]. split; [pos_all|]. split; [pos_all|]. refute.
Qed.
End Counterexamples.

(* ================= wf_tokens: head and tail ================= *)
Lemma wf_tail t rest : wf_tokens (t :: rest) -> wf_tokens rest.
Proof.
  intros (H1 & H2 & H3 & H4). split; [|split; [|split]].
  - intros x Hx. apply H1. right. exact Hx.
  - intros p x r E. apply (H2 (t :: p) x r). rewrite E. reflexivity.
  - intros p x r E. apply (H3 (t :: p) x r). rewrite E. reflexivity.
  - intros x Hx. apply H4. right. exact Hx.
Qed.

Lemma wf_head_text t rest : wf_tokens (t :: rest) -> tt t = HText ->
  data t <> [] /\ (Ws.all_ws (text t) = true -> Ws.all_ws (data t) = true).
Proof.
  intros (H1 & _) Ht. destruct (H1 t (or_introl eq_refl) Ht) as (A & _ & C). split; [exact A | exact C].
Qed.

Lemma wf_head_style t rest : wf_tokens (t :: rest) -> tt t = HStartTag -> name_is t n_style = true ->
  htt_eqb (tt (hpeek rest 1)) HEndTag = false.
Proof. intros (_ & H2 & _). apply (H2 [] t rest). reflexivity. Qed.

Lemma wf_head_object_end t rest : wf_tokens (t :: rest) -> tt t = HEndTag -> is_object t = true ->
  is_block t = false -> trailing_decision o_look rest = (false, true).
Proof. intros (_ & _ & H3 & _). apply (H3 [] t rest). reflexivity. Qed.

Lemma wf_head_omitted t rest : wf_tokens (t :: rest) -> tt t = HEndTag -> is_object t = true ->
  existsb (beqb (text t)) omit_always = false.
Proof. intros (_ & _ & _ & H4). apply H4. left. reflexivity. Qed.

(* ================= the invariant ================= *)
(* O / I: what the current cut has produced / consumed so far (b: whether a run is pending at all) *)
Record inv (o : hopts) (omit : bool) (skip : nat) (ts : list htok) (b : bool) (O I : bytes) : Prop := {
  inv_b : b = false -> O = [] /\ I = [];
  inv_w : words O = words I;
  inv_o : omit = true -> rflag O = true;
  (* the two runs end alike, or the trailing byte was trimmed on the look-ahead's promise that only white space follows
     up to the next boundary *)
  inv_f : rflag I = rflag O \/ (omit = false /\ trailing_decision o (skipn skip ts) = (true, false)) }.

Lemma inv_fresh o omit skip ts : inv o omit skip ts false [] [].
Proof. constructor; [intros _; split; reflexivity | reflexivity | intros _; reflexivity | left; reflexivity]. Qed.

Lemma inv_left o omit omit' skip skip' ts ts' b O I :
  inv o omit skip ts b O I -> (omit' = true -> omit = true) -> rflag I = rflag O -> inv o omit' skip' ts' b O I.
Proof.
  intros [Hb Hw Ho _] Hom Hf. constructor; [exact Hb | exact Hw | | left; exact Hf].
  intros E. apply Ho. apply Hom. exact E.
Qed.

Lemma inv_opaque o skip ts O I :
  words O = words I -> rflag I = rflag O -> inv o false skip ts true (O ++ opaque) (I ++ opaque).
Proof.
  intros Hw Hf. constructor.
  - discriminate.
  - apply words_app_opaque; assumption.
  - discriminate.
  - left. rewrite !rflag_app_opaque. reflexivity.
Qed.

Lemma inv_skip o omit k t rest b O I : inv o omit (S k) (t :: rest) b O I -> inv o omit k rest b O I.
Proof. intros [Hb Hw Ho Hf]. constructor; assumption. Qed.

Lemma inv_transparent o omit t rest b O I : tt t = HComment \/ tt t = HStartTagClose \/ tt t = HOther ->
  inv o omit 0 (t :: rest) b O I -> inv o omit 0 rest b O I.
Proof.
  intros Ht [Hb Hw Ho Hf]. constructor; try assumption.
  destruct Hf as [Hf | [E Htd]]; [left; exact Hf | right]. split; [exact E|].
  cbn [skipn] in *. rewrite <- (td_transparent o t rest Ht). exact Htd.
Qed.

(* ---------- text ---------- *)
Lemma tail_step o rest O I d d1 :
  d1 <> [] -> words (O ++ d1) = words (I ++ d) -> rflag (I ++ d) = rflag d1 ->
  forall r, r = (if Ws.ends_ws d1
                 then let '(trim, omit') := trailing_decision o rest in ((if trim then removelast d1 else d1), omit')
                 else (d1, false)) ->
  inv o (snd r) 0 rest true (O ++ fst r) (I ++ d).
Proof.
  intros Hne Hw Hf r ->. destruct (Ws.ends_ws d1) eqn:Ee.
  - assert (Hr : rflag d1 = true) by (rewrite rflag_ends by exact Hne; exact Ee).
    destruct (td_cases o rest) as [E|E]; rewrite E; cbn [fst snd].
    + constructor.
      * discriminate.
      * rewrite words_app_removelast_ws by exact Ee. exact Hw.
      * discriminate.
      * right. split; [reflexivity | exact E].
    + constructor.
      * discriminate.
      * exact Hw.
      * intros _. rewrite rflag_app_ne by exact Hne. exact Hr.
      * left. rewrite Hf. rewrite rflag_app_ne by exact Hne. reflexivity.
  - cbn [fst snd]. constructor.
    + discriminate.
    + exact Hw.
    + discriminate.
    + left. rewrite Hf. rewrite rflag_app_ne by exact Hne. reflexivity.
Qed.

Lemma text_step o omit t rest b O I :
  inv o omit 0 (t :: rest) b O I -> tt t = HText -> data t <> [] ->
  (Ws.all_ws (text t) = true -> Ws.all_ws (data t) = true) ->
  inv o (snd (text_out o omit (data t) rest)) 0 rest true (O ++ fst (text_out o omit (data t) rest)) (I ++ data t).
Proof.
  intros [Hb Hw Ho Hf] Ht Hne Hall.
  remember (data t) as d eqn:Ed. clear Ed.
  unfold text_out. cbv zeta.
  change HtmlWs.starts_ws with Ws.starts_ws. change HtmlWs.ends_ws with Ws.ends_ws.
  destruct Hf as [Hf | [Hom Htd]].
  - destruct (omit && Ws.starts_ws d) eqn:Ec.
    + apply andb_true_iff in Ec as [Eo Es]. specialize (Ho Eo). rewrite Ho in Hf.
      destruct d as [|c r]; [contradiction Hne; reflexivity|]. cbn [tl]. cbn [Ws.starts_ws] in Es.
      destruct r as [|c2 r2].
      * cbn [fst snd]. rewrite app_nil_r. constructor.
        -- discriminate.
        -- rewrite words_snoc_ws by exact Es. exact Hw.
        -- intros _. exact Ho.
        -- left. rewrite Ho. rewrite rflag_app_ne by discriminate. exact Es.
      * refine (tail_step o rest O I (c :: c2 :: r2) (c2 :: r2) _ _ _ _ eq_refl); [discriminate | |].
        -- rewrite (words_app_rflag O) by exact Ho.
           rewrite (words_app_lflag I (c :: c2 :: r2)) by exact Es.
           rewrite (words_cons_ws c) by exact Es. rewrite Hw. reflexivity.
        -- rewrite rflag_app_ne by discriminate. apply rflag_cons2.
    + destruct d as [|c r]; [contradiction Hne; reflexivity|].
      refine (tail_step o rest O I (c :: r) (c :: r) _ _ _ _ eq_refl); [discriminate | |].
      * apply words_app_congr_l; [exact Hw | symmetry; exact Hf].
      * apply rflag_app_ne. discriminate.
  - subst omit. cbn [skipn] in Htd. destruct (td_text o t rest Ht Htd) as [Ha Htd'].
    change HtmlWs.all_ws with Ws.all_ws in Ha. specialize (Hall Ha). cbn [andb].
    destruct d as [|c r]; [contradiction Hne; reflexivity|].
    rewrite (all_ws_ends (c :: r)) by (try discriminate; exact Hall).
    rewrite Htd'. cbn [fst snd]. constructor.
    + discriminate.
    + rewrite !all_ws_words_app; [exact Hw | exact Hall | apply all_ws_removelast; exact Hall].
    + discriminate.
    + right. split; [reflexivity | exact Htd'].
Qed.

(* ---------- tags ---------- *)
Lemma boundary_false t : is_boundary t = false ->
  is_block t = false /\ (name_is t n_template && htt_eqb (tt t) HEndTag) = false.
Proof. unfold is_boundary. intros H. apply orb_false_iff in H. exact H. Qed.

Lemma start_flags o omit t rest b O I : inv o omit 0 (t :: rest) b O I -> tt t = HStartTag -> is_block t = false ->
  rflag I = rflag O.
Proof.
  intros [_ _ _ [Hf | [_ Htd]]] Ht Hb; [exact Hf|].
  cbn [skipn] in Htd. rewrite (td_start o t rest Ht Htd) in Hb. discriminate Hb.
Qed.

Lemma object_token_flags o omit t rest b O I : inv o omit 0 (t :: rest) b O I ->
  tt t = HSvg \/ tt t = HMath \/ tt t = HTemplate -> rflag I = rflag O.
Proof.
  intros [_ _ _ [Hf | [_ Htd]]] Ht; [exact Hf|].
  cbn [skipn] in Htd. destruct (td_object o t rest Ht Htd).
Qed.

Lemma vanish_flags o omit t rest b O I : wf_tokens (t :: rest) -> inv o omit 0 (t :: rest) b O I ->
  tt t = HStartTag -> vanish t rest = true -> rflag I = rflag O.
Proof.
  intros Hwf Hinv Ht Hv. destruct (is_block t) eqn:Hb; [|exact (start_flags _ _ _ _ _ _ _ Hinv Ht Hb)].
  exfalso. unfold vanish in Hv.
  apply andb_true_iff in Hv as [Hv Hpk]. apply andb_true_iff in Hv as [_ Hn].
  apply orb_true_iff in Hn as [Hn|Hn].
  - rewrite (script_not_block t (or_introl Ht) Hn) in Hb. discriminate Hb.
  - rewrite (wf_head_style t rest Hwf Ht Hn) in Hpk. discriminate Hpk.
Qed.

Lemma omit2_object o t omit rest : is_object t = true -> omit2 o t omit rest = false.
Proof.
  intros H. unfold omit2. cbv zeta.
  destruct ((traits_of t =? trait_normalTag) && _ && _); [reflexivity|].
  unfold omit_after_tag. rewrite H, orb_true_r. reflexivity.
Qed.

Lemma omit2_inline o t omit rest : is_block t = false -> omit2 o t omit rest = true -> omit = true.
Proof.
  intros H. unfold omit2. cbv zeta.
  destruct ((traits_of t =? trait_normalTag) && _ && _); [discriminate|].
  unfold omit_after_tag. rewrite H. destruct (keepws o || is_object t); [discriminate | intros E; exact E].
Qed.

Lemma end_inline_inv o omit t rest b O I sk omit' :
  inv o omit 0 (t :: rest) b O I -> tt t = HEndTag -> is_boundary t = false -> is_object t = false ->
  sk = 0%nat \/ sk = sk_end t rest ->
  omit' = omit0 t omit \/ omit' = omit_after_tag o t (omit0 t omit) ->
  inv o omit' sk rest b O I.
Proof.
  intros Hinv Ht Hbd Hobj Hsk Hom.
  destruct (boundary_false t Hbd) as [Hb Htpl].
  assert (H0 : omit0 t omit = omit).
  { unfold omit0. rewrite Ht in Htpl. cbn [htt_eqb] in Htpl. rewrite andb_true_r in Htpl. rewrite Htpl. reflexivity. }
  assert (Hat : omit_after_tag o t omit = if keepws o then false else omit).
  { unfold omit_after_tag. rewrite Hobj, Hb, orb_false_r. reflexivity. }
  rewrite H0, Hat in Hom.
  assert (Himp : omit' = true -> omit = true).
  { destruct Hom as [->| ->]; [intros E; exact E|]. destruct (keepws o); [discriminate | intros E; exact E]. }
  destruct Hinv as [Hb0 Hw Ho [Hf | [E Htd]]].
  - constructor; [exact Hb0 | exact Hw | intros E; apply Ho, Himp, E | left; exact Hf].
  - cbn [skipn] in Htd. destruct (td_end o t rest Ht Hb Htd) as [Hk Htd'].
    constructor; [exact Hb0 | exact Hw | intros E'; apply Ho, Himp, E' | right]. split.
    + destruct Hom as [->| ->]; [exact E|]. rewrite Hk. exact E.
    + destruct Hsk as [->| ->]; [exact Htd' | apply td_sk_end; exact Htd'].
Qed.

Lemma end_object_flags o omit t rest b O I :
  inv o omit 0 (t :: rest) b O I -> tt t = HEndTag -> is_block t = false ->
  trailing_decision o_look rest = (false, true) -> rflag I = rflag O.
Proof.
  intros [_ _ _ [Hf | [_ Htd]]] Ht Hb Hlook; [exact Hf|].
  cbn [skipn] in Htd. destruct (td_end o t rest Ht Hb Htd) as [Hk Htd'].
  rewrite (td_keepws o o_look rest) in Htd' by exact Hk. rewrite Hlook in Htd'. discriminate Htd'.
Qed.

Lemma omit_after_object o t omit : is_object t = true -> omit_after_tag o t omit = false.
Proof. intros H. unfold omit_after_tag. rewrite H, orb_true_r. reflexivity. Qed.

Lemma end_omitted_not_object o t rest : tt t = HEndTag -> end_omitted o t rest = true ->
  (is_object t = true -> existsb (beqb (text t)) omit_always = false) -> is_object t = false.
Proof.
  intros Ht H Hwf. destruct (is_object t) eqn:Hobj; [|reflexivity].
  unfold end_omitted in H. apply andb_true_iff in H as [_ H].
  rewrite (Hwf eq_refl) in H. cbn [orb] in H.
  apply orb_true_iff in H as [H|H]; apply andb_true_iff in H as [H _].
  - rewrite <- Hobj. apply p_not_object; [right; exact Ht | exact H].
  - rewrite <- Hobj. apply optgroup_not_object; [right; exact Ht | exact H].
Qed.

(* ================= the main induction ================= *)
Lemma words_preserved_gen o : forall ts, wf_tokens ts -> forall omit inpre raw skip b O I,
  inv o omit skip ts b O I ->
  Forall2 item_equiv (merge (pre b O (out_items (minify_pieces o omit inpre raw skip ts))))
                     (merge (pre b I (in_items o inpre raw skip ts))).
Proof.
  induction ts as [|t rest IH]; intros Hwf omit inpre raw skip b O I Hinv.
  { change (minify_pieces o omit inpre raw skip []) with (@nil piece).
    change (in_items o inpre raw skip []) with (@nil item).
    rewrite out_items_nil. apply close_end. exact (inv_w _ _ _ _ _ _ _ Hinv). }
  pose proof (wf_tail t rest Hwf) as Hwf'.
  assert (IHfresh : forall omit inpre raw skip,
    Forall2 item_equiv (merge (out_items (minify_pieces o omit inpre raw skip rest))) (merge (in_items o inpre raw skip rest))).
  { intros om ip rw sk. exact (IH Hwf' om ip rw sk false [] [] (inv_fresh _ _ _ _)). }
  pose proof (inv_b _ _ _ _ _ _ _ Hinv) as Hb.
  pose proof (inv_w _ _ _ _ _ _ _ Hinv) as Hw.
  destruct skip as [|k].
  2:{ rewrite mp_skip, ii_skip. apply IH; [exact Hwf' | apply (inv_skip _ _ _ t); exact Hinv]. }
  destruct (tt t) eqn:Ht.
  - (* HError *)
    rewrite mp_error, ii_error by exact Ht. rewrite out_items_nil. apply close_end. exact Hw.
  - (* HComment *)
    rewrite mp_transparent, ii_transparent by (left; exact Ht).
    apply IH; [exact Hwf' | apply (inv_transparent _ _ t); [left; exact Ht | exact Hinv]].
  - (* HDoctype *)
    rewrite mp_doctype, ii_doctype by exact Ht. rewrite out_items_verb.
    apply close_boundary; [exact Hw | apply IHfresh].
  - (* HStartTag *)
    rewrite mp_start, ii_start by exact Ht.
    destruct (vanish t rest) eqn:Ev.
    { apply IH; [exact Hwf'|].
      apply (inv_left _ omit _ 0%nat _ (t :: rest)); [exact Hinv | intros E; exact E|].
      exact (vanish_flags _ _ _ _ _ _ _ Hwf Hinv Ht Ev). }
    destruct (docgone o t) eqn:Eg.
    + rewrite out_items_gone. apply tag_items_step; [exact Hb | exact Hw | | |].
      * intros _. apply IHfresh.
      * intros _ Hobj. rewrite (docgone_not_object o t (or_introl Ht) Eg) in Hobj. discriminate Hobj.
      * intros Hbd _. apply IH; [exact Hwf'|].
        apply (inv_left _ omit _ 0%nat _ (t :: rest)); [exact Hinv | intros E; exact E|].
        exact (start_flags _ _ _ _ _ _ _ Hinv Ht (proj1 (boundary_false t Hbd))).
    + rewrite out_items_tag. apply tag_items_step; [exact Hb | exact Hw | | |].
      * intros _. apply IHfresh.
      * intros Hbd Hobj. apply IH; [exact Hwf'|].
        rewrite (omit2_object o t omit rest Hobj).
        apply inv_opaque; [exact Hw|].
        exact (start_flags _ _ _ _ _ _ _ Hinv Ht (proj1 (boundary_false t Hbd))).
      * intros Hbd _. apply IH; [exact Hwf'|].
        apply (inv_left _ omit _ 0%nat _ (t :: rest)); [exact Hinv | |].
        -- apply omit2_inline. exact (proj1 (boundary_false t Hbd)).
        -- exact (start_flags _ _ _ _ _ _ _ Hinv Ht (proj1 (boundary_false t Hbd))).
  - (* HEndTag *)
    rewrite mp_end, ii_end by exact Ht.
    destruct (docgone o t) eqn:Eg.
    + rewrite out_items_gone. apply tag_items_step; [exact Hb | exact Hw | | |].
      * intros _. apply IHfresh.
      * intros _ Hobj. rewrite (docgone_not_object o t (or_intror Ht) Eg) in Hobj. discriminate Hobj.
      * intros Hbd Hobj. apply IH; [exact Hwf'|].
        apply (end_inline_inv o omit t rest); try assumption; left; reflexivity.
    + destruct (end_omitted o t rest) eqn:Eo.
      * rewrite out_items_gone. apply tag_items_step; [exact Hb | exact Hw | | |].
        -- intros _. apply IHfresh.
        -- intros _ Hobj.
           rewrite (end_omitted_not_object o t rest Ht Eo (wf_head_omitted t rest Hwf Ht)) in Hobj. discriminate Hobj.
        -- intros Hbd Hobj. apply IH; [exact Hwf'|].
           apply (end_inline_inv o omit t rest); try assumption; [right | left]; reflexivity.
      * rewrite out_items_tag. apply tag_items_step; [exact Hb | exact Hw | | |].
        -- intros _. apply IHfresh.
        -- intros Hbd Hobj. apply IH; [exact Hwf'|].
           rewrite (omit_after_object o t _ Hobj).
           apply inv_opaque; [exact Hw|].
           pose proof (proj1 (boundary_false t Hbd)) as Hblk.
           exact (end_object_flags _ _ _ _ _ _ _ Hinv Ht Hblk (wf_head_object_end t rest Hwf Ht Hobj Hblk)).
        -- intros Hbd Hobj. apply IH; [exact Hwf'|].
           apply (end_inline_inv o omit t rest); try assumption; right; reflexivity.
  - (* HText *)
    rewrite mp_text, ii_text by exact Ht.
    destruct ((raw && negb (has_template t)) || inpre).
    + rewrite out_items_verb. apply close_boundary; [exact Hw | apply IHfresh].
    + rewrite out_items_text. apply close_run; [exact Hb|].
      apply IH; [exact Hwf'|].
      destruct (wf_head_text t rest Hwf Ht) as [Hne Hall].
      apply (text_step o omit t rest b); assumption.
  - (* HSvg *)
    rewrite mp_object, ii_object by (left; exact Ht). rewrite out_items_obj.
    apply close_run; [exact Hb|]. apply IH; [exact Hwf'|].
    apply inv_opaque; [exact Hw|]. apply (object_token_flags _ _ _ _ _ _ _ Hinv). left; exact Ht.
  - (* HMath *)
    rewrite mp_object, ii_object by (right; left; exact Ht). rewrite out_items_obj.
    apply close_run; [exact Hb|]. apply IH; [exact Hwf'|].
    apply inv_opaque; [exact Hw|]. apply (object_token_flags _ _ _ _ _ _ _ Hinv). right; left; exact Ht.
  - (* HTemplate *)
    rewrite mp_object, ii_object by (right; right; exact Ht). rewrite out_items_obj.
    apply close_run; [exact Hb|]. apply IH; [exact Hwf'|].
    apply inv_opaque; [exact Hw|]. apply (object_token_flags _ _ _ _ _ _ _ Hinv). right; right; exact Ht.
  - (* HStartTagClose *)
    rewrite mp_transparent, ii_transparent by (right; left; exact Ht).
    apply IH; [exact Hwf' | apply (inv_transparent _ _ t); [right; left; exact Ht | exact Hinv]].
  - (* HOther *)
    rewrite mp_transparent, ii_transparent by (right; right; exact Ht).
    apply IH; [exact Hwf' | apply (inv_transparent _ _ t); [right; right; exact Ht | exact Hinv]].
Qed.

(* MAIN THEOREM: same boundaries and verbatim content in the same order; between two boundaries the same words *)
Theorem html_words_preserved : forall o ts, wf_tokens ts ->
  Forall2 item_equiv (merge (out_items (minify_pieces o true false false 0 ts))) (merge (in_items o false false 0 ts)).
Proof.
  intros o ts Hwf.
  exact (words_preserved_gen o ts Hwf true false false 0%nat false [] [] (inv_fresh _ _ _ _)).
Qed.

(* KeepWhitespace: a text token keeps a leading white-space byte it had when omitSpace is off (e.g. right after a tag) *)
Theorem keepws_keeps_leading_space : forall o t rest,
  tt t = HText -> data t <> [] -> (2 <= length (data t))%nat -> starts_ws (data t) = true ->
  exists p ps, minify_pieces o false false false 0 (t :: rest) = PText p :: ps /\ starts_ws p = true.
Proof.
  intros o t rest Ht Hne Hlen Hs.
  rewrite mp_text by exact Ht. cbn [andb orb].
  eexists. eexists. split; [reflexivity|].
  unfold text_out. cbv zeta. cbn [andb].
  destruct (data t) as [|c [|c2 r]]; [contradiction Hne; reflexivity | cbn [length] in Hlen; lia |].
  destruct (HtmlWs.ends_ws (c :: c2 :: r)); [|exact Hs].
  destruct (trailing_decision o rest) as [[|] om]; cbn [fst]; [|exact Hs].
  change (removelast (c :: c2 :: r)) with (c :: removelast (c2 :: r)). exact Hs.
Qed.
