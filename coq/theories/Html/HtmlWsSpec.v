(* Html/HtmlWsSpec.v — what "inter-word white space is collapsed or trimmed next to block boundaries, never joining or
   splitting rendered words" means for the token-level model: the document is cut at block boundaries (tags whose
   boundary makes white space insignificant: the blockTag trait of html/table.go, checked against the standard's list by
   C17; plus verbatim content); inline tags are transparent; replaced / inline-block elements (objectTag trait, svg, math,
   template tokens) count as one opaque non-space character; inside a cut, the words of the concatenated text must be
   the same before and after.  `</template>` is treated as a boundary because html.go sets omitSpace there (the loss of
   a space after an inline <template> is the open finding N07). *)
From MVGen Require Import Tables_gen.
From MV Require Import Base.MvBytes Base.Ws Html.HtmlWs.

Inductive item := IM (b : bytes) | IR (chars : bytes).
Fixpoint merge (l : list item) : list item :=
  match l with
  | [] => []
  | IR a :: r => match merge r with IR b :: r' => IR (a ++ b) :: r' | r' => IR a :: r' end
  | IM b :: r => IM b :: merge r
  end.
Definition item_equiv (a b : item) : Prop :=
  match a, b with
  | IM x, IM y => x = y
  | IR x, IR y => words x = words y
  | _, _ => False
  end.

Definition opaque : bytes := [1].                    (* one non-white-space character *)
Definition is_boundary (t : htok) : bool := is_block t || (name_is t n_template && htt_eqb (tt t) HEndTag).
Definition tag_items (t : htok) : list item :=
  if is_boundary t then [IM (text t)] else if is_object t then [IR opaque] else [].

Definition out_items (ps : list piece) : list item :=
  flat_map (fun p => match p with
                     | PText b => [IR b]
                     | PObj _ => [IR opaque]
                     | PVerb b => [IM b]
                     | PTag _ t | PGone t => tag_items t
                     end) ps.

(* the input as items; the same tokens are swallowed as in the model (empty script/style, text in select/optgroup/option) *)
Fixpoint in_items (o : hopts) (inpre raw : bool) (skip : nat) (ts : list htok) : list item :=
  match ts with
  | [] => []
  | t :: rest =>
    match skip with
    | S k => in_items o inpre raw k rest
    | O =>
      match tt t with
      | HError => []
      | HDoctype => IM [60;33;100;111;99;116;121;112;101;32;104;116;109;108;62] :: in_items o inpre raw 0 rest
      | HComment | HStartTagClose | HOther => in_items o inpre raw 0 rest
      | HSvg | HMath | HTemplate => IR opaque :: in_items o inpre raw 0 rest
      | HText =>
        if (raw && negb (has_template t)) || inpre then IM (text t) :: in_items o inpre raw 0 rest
        else IR (data t) :: in_items o inpre raw 0 rest
      | HStartTag =>
        if is_raw t && (name_is t n_script || name_is t n_style) && htt_eqb (tt (hpeek rest 1)) HEndTag
        then in_items o inpre false 2 rest
        else
          let inpre' := if name_is t n_pre then true else inpre in
          if (negb (keep_doc_tags o) && (name_is t n_html || name_is t n_head || name_is t n_body)) || name_is t n_colgroup
          then tag_items t ++ in_items o inpre' (is_raw t) 0 rest
          else
            let sk := if name_is t n_select || name_is t n_optgroup then skip_text (tl rest) else 0%nat in
            tag_items t ++ in_items o inpre' (is_raw t) (S sk) rest
      | HEndTag =>
        let inpre' := if name_is t n_pre then false else inpre in
        if (negb (keep_doc_tags o) && (name_is t n_html || name_is t n_head || name_is t n_body)) || name_is t n_colgroup
        then tag_items t ++ in_items o inpre' false 0 rest
        else
          let sk := if name_is t n_option || name_is t n_optgroup then skip_text rest else 0%nat in
          tag_items t ++ in_items o inpre' false sk rest
      end
    end
  end.
