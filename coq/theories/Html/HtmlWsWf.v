(* Html/HtmlWsWf.v — a boolean decision procedure for the hypothesis wf_tokens of html_words_preserved, proved sound.
   The extracted checker is run on every token list of the correspondence run, so the evidence says on how many of the
   real documents the theorem applies. *)
From MVGen Require Import Tables_gen.
From MV Require Import Base.MvBytes Base.Ws Html.HtmlWs Html.HtmlWsSpec Html.HtmlWsLemmas Html.HtmlWsProofs.

Definition bytes_nonempty (b : bytes) : bool := match b with [] => false | _ => true end.
Definition wf_text_tok (t : htok) : bool :=
  if htt_eqb (tt t) HText then
    bytes_nonempty (data t) && (negb (starts_ws (text t)) || starts_ws (data t)) && (negb (all_ws (text t)) || all_ws (data t))
  else true.
Definition pair_eqb (a b : bool * bool) : bool := Bool.eqb (fst a) (fst b) && Bool.eqb (snd a) (snd b).
Definition wf_pos_tok (t : htok) (rest : list htok) : bool :=
  (if htt_eqb (tt t) HStartTag && name_is t n_style then negb (htt_eqb (tt (hpeek rest 1)) HEndTag) else true) &&
  (if htt_eqb (tt t) HEndTag && is_object t then
     (if is_block t then true else pair_eqb (trailing_decision o_look rest) (false, true)) &&
     negb (existsb (beqb (text t)) omit_always)
   else true).
Fixpoint wf_tokens_b (ts : list htok) : bool :=
  match ts with
  | [] => true
  | t :: rest => wf_text_tok t && wf_pos_tok t rest && wf_tokens_b rest
  end.

Lemma htt_eqb_eq a b : htt_eqb a b = true <-> a = b.
Proof. destruct a, b; simpl; split; intro H; try reflexivity; try discriminate H. Qed.

Lemma pair_eqb_eq a b : pair_eqb a b = true -> a = b.
Proof.
  destruct a as [a1 a2], b as [b1 b2]. unfold pair_eqb. simpl. intro H.
  apply andb_true_iff in H as [H1 H2]. apply Bool.eqb_prop in H1. apply Bool.eqb_prop in H2. subst. reflexivity.
Qed.

Lemma wf_tokens_b_in ts : wf_tokens_b ts = true -> forall t, In t ts -> wf_text_tok t = true.
Proof.
  induction ts as [|x r IH]; intros H t Hin; [destruct Hin|].
  cbn [wf_tokens_b] in H. apply andb_true_iff in H as [H H3]. apply andb_true_iff in H as [H1 H2].
  destruct Hin as [<-|Hin]; [exact H1 | exact (IH H3 t Hin)].
Qed.

Lemma wf_tokens_b_pos ts : wf_tokens_b ts = true -> forall p t rest, ts = p ++ t :: rest -> wf_pos_tok t rest = true.
Proof.
  intros H p. revert ts H. induction p as [|y p IH]; intros ts H t rest E; subst ts; cbn [app wf_tokens_b] in H;
    apply andb_true_iff in H as [H H3]; apply andb_true_iff in H as [H1 H2].
  - exact H2.
  - exact (IH _ H3 t rest eq_refl).
Qed.

Theorem wf_tokens_b_sound : forall ts, wf_tokens_b ts = true -> wf_tokens ts.
Proof.
  intros ts H. split; [|split; [|split]].
  - intros t Hin Ht. pose proof (wf_tokens_b_in ts H t Hin) as W. unfold wf_text_tok in W.
    apply htt_eqb_eq in Ht as Ht'. rewrite Ht in W. cbn [htt_eqb] in W.
    apply andb_true_iff in W as [W W3]. apply andb_true_iff in W as [W1 W2].
    split; [|split].
    + destruct (data t); [discriminate W1 | discriminate].
    + intro S. rewrite S in W2. exact W2.
    + intro S. rewrite S in W3. exact W3.
  - intros p t rest E Ht Hn. pose proof (wf_tokens_b_pos ts H p t rest E) as W. unfold wf_pos_tok in W.
    apply andb_true_iff in W as [W _]. rewrite Ht, Hn in W. cbn [htt_eqb andb] in W.
    apply negb_true_iff in W. exact W.
  - intros p t rest E Ht Ho Hb. pose proof (wf_tokens_b_pos ts H p t rest E) as W. unfold wf_pos_tok in W.
    apply andb_true_iff in W as [_ W]. rewrite Ht, Ho in W. cbn [htt_eqb andb] in W.
    apply andb_true_iff in W as [W _]. rewrite Hb in W. apply pair_eqb_eq in W. exact W.
  - intros t Hin Ht Ho. apply in_split in Hin as (p & rest & E).
    pose proof (wf_tokens_b_pos ts H p t rest E) as W. unfold wf_pos_tok in W.
    apply andb_true_iff in W as [_ W]. rewrite Ht, Ho in W. cbn [htt_eqb andb] in W.
    apply andb_true_iff in W as [_ W]. apply negb_true_iff in W. exact W.
Qed.

(* the hypotheses are satisfiable by a non-trivial document: <div> a <b> c </b> </div> *)
Example wf_example :
  wf_tokens_b
    [ {| tt := HStartTag; data := [60;100;105;118]; text := [100;105;118]; has_template := false |};
      {| tt := HStartTagClose; data := [62]; text := []; has_template := false |};
      {| tt := HText; data := [32;97;32]; text := [32;97;32]; has_template := false |};
      {| tt := HStartTag; data := [60;98]; text := [98]; has_template := false |};
      {| tt := HStartTagClose; data := [62]; text := []; has_template := false |};
      {| tt := HText; data := [32;99;32]; text := [32;32;99;32]; has_template := false |};
      {| tt := HEndTag; data := [60;47;98;62]; text := [98]; has_template := false |};
      {| tt := HText; data := [32]; text := [32]; has_template := false |};
      {| tt := HEndTag; data := [60;47;100;105;118;62]; text := [100;105;118]; has_template := false |} ] = true.
Proof. vm_compute. reflexivity. Qed.
