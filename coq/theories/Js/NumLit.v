(* Js/NumLit.v — F2 model of the numeric-literal minifiers of /repo/js/util.go (removeUnderscoresAndSuffix, decimalNumber,
   binaryNumber, octalNumber, hexadecimalNumber) at precision 0: numeric separators are removed, a BigInt suffix `n` is
   kept, literals with a 0b / 0o / 0x prefix are rewritten in decimal when they fit the conversion's length guard, and
   the decimal text then goes through minify.Number (Num/NumModel.number0).
   The conversion accumulates in an int64 in Go; the model accumulates in Z and the theorems show that, for literals the
   length guards let through, the accumulator stays below 2^63 and the decimal text fits the literal's own bytes (the Go
   code writes it over them: b = b[:i+1]).  No proofs in this file; extracted and compared with the Go code on every run. *)
From MV Require Import Base.MvBytes Num.NumModel.

Definition c_underscore : byte := 95.
Definition c_n : byte := 110.

Definition remove_underscores (b : bytes) : bytes := filter (fun c => negb (c =? c_underscore)) b.
Definition strip_suffix (b : bytes) : bytes * bool :=
  match rev b with
  | c :: r => if c =? c_n then (rev r, true) else (b, false)
  | [] => (b, false)
  end.
Definition remove_underscores_and_suffix (b : bytes) : bytes * bool := strip_suffix (remove_underscores b).

Definition decimal_number (b : bytes) : bytes :=
  let (b1, suffix) := remove_underscores_and_suffix b in
  if suffix then b1 ++ [c_n] else number0 b1.

(* the value of one digit character as the Go code computes it for the radix *)
Definition bin_digit (c : byte) : Z := c - 48.
Definition hex_digit (c : byte) : Z := if c <=? 57 then c - 48 else if c <=? 70 then 10 + (c - 65) else 10 + (c - 97).
Definition radix_val (radix : Z) (dig : byte -> Z) (l : bytes) : Z := fold_left (fun n c => n * radix + dig c) l 0.

(* the shared tail: write n in decimal, then the suffix or minify.Number *)
Definition finish_int (n : Z) (suffix : bool) : bytes :=
  let dec := show_nat n in
  if suffix then dec ++ [c_n] else number0 dec.

Definition keep (b1 : bytes) (suffix : bool) : bytes := if suffix then b1 ++ [c_n] else b1.

Definition binary_number (b : bytes) : bytes :=
  let (b1, suffix) := remove_underscores_and_suffix b in
  if (zlen b1 <=? 2) || (65 <? zlen b1) then keep b1 suffix
  else finish_int (radix_val 2 bin_digit (skipn 2 b1)) suffix.

Definition octal_number (b : bytes) : bytes :=
  let (b1, suffix) := remove_underscores_and_suffix b in
  if (zlen b1 <=? 2) || (23 <? zlen b1) then keep b1 suffix
  else finish_int (radix_val 8 bin_digit (skipn 2 b1)) suffix.

Definition hex_guard (b1 : bytes) : bool :=
  (zlen b1 <=? 2) || (12 <? zlen b1) ||
  ((zlen b1 =? 12) && match nth_error b1 2 with
                      | Some c => ((68 <? c) && (c <=? 70)) || (100 <? c)
                      | None => false
                      end).
Definition hexadecimal_number (b : bytes) : bytes :=
  let (b1, suffix) := remove_underscores_and_suffix b in
  if hex_guard b1 then keep b1 suffix
  else finish_int (radix_val 16 hex_digit (skipn 2 b1)) suffix.
