(* Js/NumLitProofs.v — the numeric-literal minifiers of Js/NumLit.v keep the value of every well-formed literal, never
   overflow the int64 accumulator of the Go code, and the decimal text they write fits into the literal's own bytes. *)
From MV Require Import Base.MvBytes Num.NumModel Num.NumSpec Num.NumProofs Num.NumberLemmas Num.NumberProofs Js.NumLit Js.NumLitSpec.
From Coq Require Import ZifyBool.

(* ---------- separators and suffix ---------- *)
(* bytes that removeUnderscoresAndSuffix leaves alone *)
Definition clean (l : bytes) : Prop := Forall (fun c => c <> c_underscore /\ c <> c_n) l.

Lemma remove_underscores_clean l : clean l -> remove_underscores l = l.
Proof.
  induction 1 as [|c l [H1 _] _ IH]; [reflexivity|].
  unfold remove_underscores in *. cbn [filter]. apply Z.eqb_neq in H1. rewrite H1. cbn [negb]. rewrite IH. reflexivity.
Qed.

Lemma remove_underscores_app a b : remove_underscores (a ++ b) = remove_underscores a ++ remove_underscores b.
Proof. apply filter_app. Qed.

Lemma strip_suffix_clean l : clean l -> strip_suffix l = (l, false).
Proof.
  intros H. unfold strip_suffix. destruct (rev l) as [|c r] eqn:E; [reflexivity|].
  assert (Hin : In c l). { apply in_rev. rewrite E. left; reflexivity. }
  unfold clean in H. rewrite Forall_forall in H. destruct (H c Hin) as [_ Hn].
  apply Z.eqb_neq in Hn. rewrite Hn. reflexivity.
Qed.

Lemma strip_suffix_snoc l : strip_suffix (l ++ [c_n]) = (l, true).
Proof. unfold strip_suffix. rewrite rev_app_distr. cbn [rev app]. rewrite Z.eqb_refl, rev_involutive. reflexivity. Qed.

Lemma strip_suffix_cases l :
  (exists body, l = body ++ [c_n] /\ strip_suffix l = (body, true)) \/ strip_suffix l = (l, false).
Proof.
  unfold strip_suffix. destruct (rev l) as [|c r] eqn:E; [right; reflexivity|].
  destruct (c =? c_n) eqn:Ec; [left|right; reflexivity].
  apply Z.eqb_eq in Ec. subst c. exists (rev r). split; [|reflexivity].
  rewrite <- (rev_involutive l), E. reflexivity.
Qed.

Lemma ruas_clean l : clean l -> remove_underscores_and_suffix l = (l, false).
Proof. intros H. unfold remove_underscores_and_suffix. rewrite remove_underscores_clean by exact H. apply strip_suffix_clean; exact H. Qed.

Lemma ruas_clean_n l : clean l -> remove_underscores_and_suffix (l ++ [c_n]) = (l, true).
Proof.
  intros H. unfold remove_underscores_and_suffix. rewrite remove_underscores_app, remove_underscores_clean by exact H.
  change (remove_underscores [c_n]) with [c_n]. apply strip_suffix_snoc.
Qed.

Lemma zlen_remove_underscores l : zlen (remove_underscores l) <= zlen l.
Proof.
  induction l as [|c l IH]; [reflexivity|]. unfold remove_underscores in *. cbn [filter].
  destruct (negb (c =? c_underscore)); rewrite ?zlen_cons; lia.
Qed.

Lemma ruas_len b b1 sfx : remove_underscores_and_suffix b = (b1, sfx) -> zlen b1 <= zlen b.
Proof.
  unfold remove_underscores_and_suffix. intros H. pose proof (zlen_remove_underscores b) as Hl.
  destruct (strip_suffix_cases (remove_underscores b)) as [(body & Hb & Hs)|Hs]; rewrite Hs in H; inversion H; subst.
  - rewrite Hb, zlen_app in Hl. change (zlen [c_n]) with 1 in Hl. lia.
  - exact Hl.
Qed.

(* ---------- the alphabet of number lexemes ---------- *)
Definition lex_char (c : byte) : bool :=
  is_digit c || (c =? cdot) || (c =? ce) || (c =? cE) || (c =? cplus) || (c =? cminus).

Lemma digit_lex_char c : is_digit c = true -> lex_char c = true.
Proof. unfold lex_char. intros ->. reflexivity. Qed.

Lemma lex_char_clean c : lex_char c = true -> c <> c_underscore /\ c <> c_n.
Proof. unfold lex_char, is_digit, cdot, ce, cE, cplus, cminus, c_underscore, c_n. lia. Qed.

Lemma lex_char_no_prefix k c : lex_char c = true -> prefix_ok k c = false.
Proof. destruct k; unfold lex_char, is_digit, cdot, ce, cE, cplus, cminus; cbn [prefix_ok]; lia. Qed.

Lemma sign_bytes_chars s : Forall (fun c => lex_char c = true) (sign_bytes s).
Proof. unfold sign_bytes. destruct (s =? 1); [|destruct (s =? 2)]; repeat constructor. Qed.

Lemma digits_chars l : all_digits l -> Forall (fun c => lex_char c = true) l.
Proof. intros H. eapply Forall_impl; [|exact H]. intros c Hc. apply digit_lex_char; exact Hc. Qed.

Lemma wf_unlex_chars p : wf_lexed p -> Forall (fun c => lex_char c = true) (unlex p).
Proof.
  intros (Hsg & HI & HF & HIF & HdF & Hex). unfold unlex.
  repeat (apply Forall_app; split); auto using sign_bytes_chars, digits_chars.
  - destruct (l_dot p); [|constructor]. constructor; [reflexivity | auto using digits_chars].
  - destruct (l_exp p); [|constructor]. destruct Hex as (Hec & Hes & HE & HEn).
    constructor; [destruct Hec as [-> | ->]; reflexivity|].
    apply Forall_app; split; auto using sign_bytes_chars, digits_chars.
Qed.

Lemma chars_clean l : Forall (fun c => lex_char c = true) l -> clean l.
Proof. intros H. eapply Forall_impl; [|exact H]. intros c Hc. apply lex_char_clean; exact Hc. Qed.

Lemma digits_clean l : all_digits l -> clean l.
Proof. intros H. apply chars_clean, digits_chars, H. Qed.

(* ---------- how lit_value reads a decimal text ---------- *)
Lemma lit_value_decimal z q r : (forall k, prefix_ok k q = false) -> lit_value (z :: q :: r) = decimal_value (z :: q :: r).
Proof. intros H. unfold lit_value. rewrite !H, !andb_false_r. reflexivity. Qed.

(* a lexeme of the number grammar without a sign is read as that decimal number: it never looks like 0b / 0o / 0x,
   has no separator and does not end in n *)
Lemma lit_value_lexed s p : lex_number s = Some p -> l_sign p = 0 -> lit_value s = Some (false, value p).
Proof.
  intros Hlex Hsg. destruct (lex_number_sound _ _ Hlex) as [Hs Hwf].
  pose proof (wf_unlex_chars p Hwf) as Hch. rewrite <- Hs in Hch.
  assert (Hdec : decimal_value s = Some (false, value p)).
  { unfold decimal_value. rewrite ruas_clean by (apply chars_clean; exact Hch). cbv beta iota.
    rewrite Hlex, Hsg. reflexivity. }
  destruct s as [|z [|q r]]; try exact Hdec.
  rewrite lit_value_decimal; [exact Hdec|].
  intros k. apply lex_char_no_prefix.
  inversion Hch as [|? ? _ Hch']; subst. inversion Hch' as [|? ? Hq _]; subst. exact Hq.
Qed.

(* decimal digits followed by n are read as that BigInt *)
Lemma bigint_lit_value ds : all_digits ds -> ds <> [] -> lit_value (ds ++ [c_n]) = Some (true, (digits_val ds, 0)).
Proof.
  intros Hd Hn.
  assert (Hdec : decimal_value (ds ++ [c_n]) = Some (true, (digits_val ds, 0))).
  { unfold decimal_value. rewrite ruas_clean_n by (apply digits_clean; exact Hd). cbv beta iota.
    assert (Hf : forallb is_digit ds = true).
    { apply forallb_forall. intros c Hc. unfold all_digits in Hd. rewrite Forall_forall in Hd. auto. }
    rewrite Hf. destruct ds; [congruence|reflexivity]. }
  destruct ds as [|d [|d' ds]]; [congruence| |].
  - cbn [app] in *. rewrite lit_value_decimal; [exact Hdec|]. intros k; destruct k; reflexivity.
  - cbn [app] in *. rewrite lit_value_decimal; [exact Hdec|]. intros k. apply lex_char_no_prefix, digit_lex_char.
    inversion Hd as [|? ? _ Hd']; subst. inversion Hd' as [|? ? Hq _]; subst. exact Hq.
Qed.

(* ---------- minify.Number does not introduce a sign ---------- *)
Definition head_ns (l : bytes) : Prop := match l with [] => True | c :: _ => c <> cminus /\ c <> cplus end.

Lemma head_ns_digits l : all_digits l -> head_ns l.
Proof. intros H. destruct l as [|c l]; [exact I|]. inversion H as [|? ? Hc _]; subst. apply is_digit_not in Hc. cbn [head_ns]. tauto. Qed.

Lemma head_ns_app a b : all_digits a -> head_ns b -> head_ns (a ++ b).
Proof. intros Ha Hb. destruct a as [|c a]; [exact Hb|]. apply (head_ns_digits ((c :: a))) in Ha. exact Ha. Qed.

Lemma lexed_head_ns s p : lex_number s = Some p -> l_sign p = 0 -> head_ns s.
Proof.
  intros Hlex Hsg. destruct (lex_number_sound _ _ Hlex) as [Hs (_ & HI & HF & HIF & HdF & Hex)].
  rewrite Hs. unfold unlex. rewrite Hsg. change (sign_bytes 0) with (@nil byte). cbn [app].
  apply head_ns_app; [exact HI|].
  destruct (l_dot p).
  - cbn [app head_ns]. unfold cdot, cminus, cplus. lia.
  - cbn [app]. destruct (l_exp p); [|exact I]. destruct Hex as ([-> | ->] & _); cbn [head_ns]; unfold ce, cE, cminus, cplus; lia.
Qed.

Lemma head_ns_lexed s p : lex_number s = Some p -> head_ns s -> l_sign p = 0.
Proof.
  intros Hlex Hh. destruct (lex_number_sound _ _ Hlex) as [Hs (Hsg & _)].
  rewrite Hs in Hh. unfold unlex in Hh.
  destruct Hsg as [H|[H|H]]; [exact H| |]; rewrite H in Hh; cbn [sign_bytes app head_ns] in Hh.
  - change (1 =? 1) with true in Hh. cbn [app head_ns] in Hh. destruct Hh; congruence.
  - change (2 =? 1) with false in Hh. change (2 =? 2) with true in Hh. cbn [app head_ns] in Hh. destruct Hh; congruence.
Qed.

Lemma nl_out_head_ns total p o Ip Fp D mnorm Ip2 :
  all_digits D -> all_digits Ip2 -> head_ns (nl_out total p o Ip Fp D mnorm Ip2).
Proof.
  intros HD HI2.
  assert (He : forall t, head_ns (ce :: t)) by (intros t; cbn [head_ns]; unfold ce, cminus, cplus; lia).
  assert (Hd : forall t, head_ns (cdot :: t)) by (intros t; cbn [head_ns]; unfold cdot, cminus, cplus; lia).
  unfold nl_out. cbv zeta.
  repeat match goal with |- context [if ?c then _ else _] => destruct c end;
    try apply Hd; try (apply head_ns_app; [exact HD|]); try apply He.
  - apply head_ns_digits, zeros_digits.
  - apply head_ns_app; [|apply Hd].
    pose proof (firstn_skipn (Z.to_nat (mnorm + o)) D) as Hfs. rewrite <- Hfs in HD. apply all_digits_app in HD. tauto.
  - apply head_ns_app; [exact HI2|]. apply Hd.
  - apply head_ns_app; [exact HI2|]. apply He.
Qed.

Lemma number0_head_ns s p : lex_number s = Some p -> l_sign p = 0 -> head_ns (number0 s).
Proof.
  intros Hlex Hsg. pose proof (lexed_head_ns s p Hlex Hsg) as Hid.
  destruct (lex_number_sound _ _ Hlex) as [Hs Hwf].
  unfold number0. destruct s as [|a [|b s']]; auto. rewrite Hlex. rewrite number_lx_eq.
  destruct (exp_value p) as [o|]; [|exact Hid].
  destruct (trim p) as [Ip Fp] eqn:Et.
  destruct (negb (negb (is_nil Fp)) && is_zero_int Ip) eqn:Ez.
  { cbn [head_ns]. unfold c0, cminus, cplus. lia. }
  destruct (nl_mant Ip Fp) as [[D mnorm] Ip2] eqn:Em.
  destruct (mant_spec p Ip Fp D mnorm Ip2 o Hwf Et Ez Em) as (HD & HDn & HIp & HFp & _ & Hcase & _).
  destruct (nl_guard o mnorm (zlen D)); [exact Hid|].
  rewrite Hsg. change (0 =? 2) with false. cbv iota. cbn [app].
  apply nl_out_head_ns; [exact HD|].
  destruct Hcase as [(_ & _ & -> & _)|[(_ & -> & _)|(_ & _ & -> & _)]]; auto. constructor.
Qed.

Theorem number0_unsigned s p p' :
  lex_number s = Some p -> l_sign p = 0 -> lex_number (number0 s) = Some p' -> l_sign p' = 0.
Proof. intros Hlex Hsg Hlex'. eapply head_ns_lexed; [exact Hlex'|]. eapply number0_head_ns; eauto. Qed.

(* the text written by minify.Number for an unsigned lexeme is read back with the same value *)
Lemma number0_lit_value s p : lex_number s = Some p -> l_sign p = 0 -> zlen s <= 10 ^ 25 ->
  same_value (lit_value (number0 s)) (Some (false, value p)).
Proof.
  intros Hlex Hsg Hlen. destruct (number0_exact s p Hlex Hlen) as (p' & Hlex' & Hv & _).
  rewrite (lit_value_lexed _ _ Hlex' (number0_unsigned s p p' Hlex Hsg Hlex')).
  cbn [same_value]. split; [reflexivity | exact Hv].
Qed.

(* ---------- TARGET 3: decimal literals (separators, BigInt suffix, fractions and exponents without suffix) keep their value ---------- *)
Theorem decimal_literal_value : forall b v,
  decimal_value b = Some v -> zlen b <= 10 ^ 25 ->
  same_value (lit_value (minify_literal KDecimal b)) (Some v).
Proof.
  intros b v Hdv Hlen. cbn [minify_literal]. unfold decimal_number. unfold decimal_value in Hdv.
  destruct (remove_underscores_and_suffix b) as [b1 sfx] eqn:Er.
  pose proof (ruas_len _ _ _ Er) as Hl1.
  destruct sfx.
  - destruct (forallb is_digit b1 && negb (match b1 with [] => true | _ => false end)) eqn:E; [|discriminate].
    inversion Hdv; subst v. apply andb_true_iff in E as [E1 E2].
    assert (Hd : all_digits b1). { unfold all_digits. apply Forall_forall. rewrite forallb_forall in E1. exact E1. }
    assert (Hn : b1 <> []) by (destruct b1; [discriminate|congruence]).
    rewrite (bigint_lit_value b1 Hd Hn). cbn [same_value]. split; [reflexivity | apply val_eq_refl].
  - destruct (lex_number b1) as [p|] eqn:El; [|discriminate].
    destruct (l_sign p =? 0) eqn:Es; [|discriminate]. apply Z.eqb_eq in Es.
    inversion Hdv; subst v. apply number0_lit_value; auto. lia.
Qed.

(* ---------- the shape of a well-formed prefixed literal ---------- *)
Lemma digit_ok_clean k c : digit_ok k c = true -> c <> c_underscore /\ c <> c_n.
Proof. destruct k; cbn [digit_ok]; unfold is_bin_digit, is_oct_digit, is_hex_digit, is_digit, c_underscore, c_n; lia. Qed.

Lemma prefix_ok_clean k c : prefix_ok k c = true -> c <> c_underscore /\ c <> c_n.
Proof. destruct k; cbn [prefix_ok]; unfold c_underscore, c_n; lia. Qed.

Lemma sep_digits_filter isd : forall l pd, sep_digits isd pd l = true ->
  Forall (fun c => isd c = true) (remove_underscores l).
Proof.
  induction l as [|c r IH]; intros pd H; [constructor|].
  cbn [sep_digits] in H. unfold remove_underscores. cbn [filter]. fold (remove_underscores r).
  destruct (c =? c_underscore) eqn:E; cbn [negb].
  - apply andb_true_iff in H as [_ H]. eapply IH; eauto.
  - apply andb_true_iff in H as [H1 H]. constructor; eauto.
Qed.

Lemma shape_clean k p D : prefix_ok k p = true -> Forall (fun c => digit_ok k c = true) D -> clean (48 :: p :: D).
Proof.
  intros Hp HD. constructor; [unfold c_underscore, c_n; lia|]. constructor; [eapply prefix_ok_clean; eauto|].
  apply Forall_impl with (P := fun c => digit_ok k c = true); [|exact HD]. intros c Hc. exact (digit_ok_clean k c Hc).
Qed.

Lemma valid_shape k b : valid_prefixed k b = true ->
  exists p D sfx, remove_underscores_and_suffix b = (48 :: p :: D, sfx) /\ prefix_ok k p = true /\ D <> [] /\
    Forall (fun c => digit_ok k c = true) D.
Proof.
  destruct b as [|z [|p rest]]; try discriminate. unfold valid_prefixed. cbv zeta. intros H.
  apply andb_true_iff in H as [H H3]. apply andb_true_iff in H as [H1 H2]. apply Z.eqb_eq in H1. subst z.
  apply andb_true_iff in H3 as [H3 H4].
  pose proof (prefix_ok_clean k p H2) as [Hp1 Hp2].
  assert (Hru : remove_underscores (48 :: p :: rest) = 48 :: p :: remove_underscores rest).
  { unfold remove_underscores. cbn [filter]. apply Z.eqb_neq in Hp1. rewrite Hp1. reflexivity. }
  assert (Hgen : forall body, body <> [] -> sep_digits (digit_ok k) false body = true ->
            remove_underscores body <> [] /\ Forall (fun c => digit_ok k c = true) (remove_underscores body)).
  { intros body Hb Hs. split; [|eapply sep_digits_filter; eauto].
    destruct body as [|c r]; [congruence|]. cbn [sep_digits] in Hs.
    destruct (c =? c_underscore) eqn:E; [discriminate|]. unfold remove_underscores; cbn [filter]. rewrite E. discriminate. }
  assert (Hst : remove_underscores_and_suffix (48 :: p :: rest) = strip_suffix (48 :: p :: remove_underscores rest)).
  { unfold remove_underscores_and_suffix. f_equal. exact Hru. }
  destruct (strip_suffix_cases rest) as [(body & Hr & Hs)|Hs]; rewrite Hs in H3, H4; cbn [fst] in H3, H4.
  - destruct (Hgen body) as [HDn HD]; auto. { destruct body; [discriminate|congruence]. }
    exists p, (remove_underscores body), true. repeat split; auto.
    etransitivity; [exact Hst|].
    rewrite Hr, remove_underscores_app. change (remove_underscores [c_n]) with [c_n].
    change (48 :: p :: remove_underscores body ++ [c_n]) with ((48 :: p :: remove_underscores body) ++ [c_n]).
    apply strip_suffix_snoc.
  - destruct (Hgen rest) as [HDn HD]; auto. { destruct rest; [discriminate|congruence]. }
    exists p, (remove_underscores rest), false. repeat split; auto.
    etransitivity; [exact Hst|].
    apply strip_suffix_clean. eapply shape_clean; eauto.
Qed.

(* ---------- the conversion: guards, accumulator bounds, decimal width ---------- *)
(* the length guard of each kind (true = the literal is kept as it is) *)
Definition conv_guard (k : lit_kind) (b1 : bytes) : bool :=
  match k with
  | KBinary => (zlen b1 <=? 2) || (65 <? zlen b1)
  | KOctal => (zlen b1 <=? 2) || (23 <? zlen b1)
  | KHex => hex_guard b1
  | KDecimal => true
  end.

(* conv_guard is the guard of the model: the three prefixed minifiers, uniformly *)
Lemma minify_literal_prefixed k b : k <> KDecimal ->
  minify_literal k b =
  let (b1, sfx) := remove_underscores_and_suffix b in
  if conv_guard k b1 then keep b1 sfx
  else finish_int (radix_val (radix_of k) (digit_val k) (skipn 2 b1)) sfx.
Proof. destruct k; [congruence | reflexivity | reflexivity | reflexivity]. Qed.

Lemma hex_digit_range c : is_hex_digit c = true -> 0 <= hex_digit c < 16.
Proof.
  unfold is_hex_digit, is_digit, hex_digit. intros H.
  destruct (c <=? 57) eqn:E1; [lia|]. destruct (c <=? 70) eqn:E2; lia.
Qed.

Lemma digit_val_range k c : k <> KDecimal -> digit_ok k c = true -> 0 <= digit_val k c < radix_of k.
Proof.
  destruct k; intros Hk H; [congruence| | |]; cbn [digit_ok digit_val radix_of] in *.
  - unfold is_bin_digit, bin_digit in *. lia.
  - unfold is_oct_digit, bin_digit in *. lia.
  - apply hex_digit_range; exact H.
Qed.

Lemma fold_radix_bound r (d : byte -> Z) : 1 <= r -> forall (l : bytes) a, Forall (fun c => 0 <= d c < r) l -> 0 <= a ->
  0 <= fold_left (fun n c => n * r + d c) l a <= (a + 1) * r ^ zlen l - 1.
Proof.
  intros Hr. induction l as [|c l IH]; intros a Hl Ha.
  - cbn [fold_left]. change (zlen (@nil byte)) with 0. rewrite Z.pow_0_r. lia.
  - inversion Hl as [|? ? Hc Hl']; subst. cbn [fold_left].
    assert (Ha' : 0 <= a * r + d c) by nia.
    specialize (IH (a * r + d c) Hl' Ha').
    rewrite zlen_cons, Z.pow_add_r by (pose proof (zlen_nonneg l); lia). rewrite Z.pow_1_r.
    pose proof (Z.pow_pos_nonneg r (zlen l) ltac:(lia) (zlen_nonneg l)) as HP.
    set (P := r ^ zlen l) in *.
    assert ((a * r + d c + 1) * P <= (a + 1) * (r * P)) by nia.
    lia.
Qed.

Lemma radix_val_bound r d (l : bytes) : 1 <= r -> Forall (fun c => 0 <= d c < r) l ->
  0 <= radix_val r d l < r ^ zlen l.
Proof. intros Hr Hl. unfold radix_val. pose proof (fold_radix_bound r d Hr l 0 Hl ltac:(lia)). lia. Qed.

Lemma digits_range k D : k <> KDecimal -> Forall (fun c => digit_ok k c = true) D ->
  Forall (fun c => 0 <= digit_val k c < radix_of k) D.
Proof. intros Hk H. eapply Forall_impl; [|exact H]. intros c Hc. apply digit_val_range; auto. Qed.

Lemma pow16_small L : 1 <= L <= 9 -> 16 ^ L < 10 ^ (2 + L).
Proof.
  intros H. assert (HL : L = 1 \/ L = 2 \/ L = 3 \/ L = 4 \/ L = 5 \/ L = 6 \/ L = 7 \/ L = 8 \/ L = 9) by lia.
  repeat (destruct HL as [->|HL]; [reflexivity|]). subst L. reflexivity.
Qed.

(* the numeric core of TARGET 2, on the shape given by valid_shape *)
Lemma conv_bounds k p D : k <> KDecimal -> D <> [] -> Forall (fun c => digit_ok k c = true) D ->
  conv_guard k (48 :: p :: D) = false ->
  let n := radix_val (radix_of k) (digit_val k) D in
  0 <= n < 2 ^ 63 /\ n < 10 ^ 25 /\ zlen (show_nat n) <= 2 + zlen D.
Proof.
  intros Hk HDn HD Hg n.
  pose proof (digits_range k D Hk HD) as Hr.
  pose proof (zlen_pos D HDn) as HL.
  assert (Hfit : 0 <= n -> n < 2 ^ 63 -> n < 10 ^ (2 + zlen D) -> 0 <= n < 2 ^ 63 /\ n < 10 ^ 25 /\ zlen (show_nat n) <= 2 + zlen D).
  { intros H0 H1 H2. change (2 ^ 63) with 9223372036854775808 in *. change (10 ^ 25) with B25.
    repeat split; try (unfold B25; lia). apply (ndig_le n (2 + zlen D)); unfold B25; lia. }
  assert (Hpow : forall r, 1 <= r <= 10 -> r ^ zlen D <= 10 ^ (2 + zlen D)).
  { intros r Hr'. transitivity (10 ^ zlen D); [apply Z.pow_le_mono_l; lia | apply pow10_le; lia]. }
  destruct k; [congruence| | |]; cbn [conv_guard radix_of digit_val] in *.
  - (* binary: at most 63 digits *)
    rewrite !zlen_cons in Hg.
    pose proof (radix_val_bound 2 bin_digit D ltac:(lia) Hr) as Hb. fold n in Hb.
    assert (H63 : 2 ^ zlen D <= 2 ^ 63) by (apply Z.pow_le_mono_r; lia).
    specialize (Hpow 2 ltac:(lia)). apply Hfit; lia.
  - (* octal: at most 21 digits *)
    rewrite !zlen_cons in Hg.
    pose proof (radix_val_bound 8 bin_digit D ltac:(lia) Hr) as Hb. fold n in Hb.
    assert (H63 : 8 ^ zlen D <= 8 ^ 21) by (apply Z.pow_le_mono_r; lia).
    change (8 ^ 21) with (2 ^ 63) in H63.
    specialize (Hpow 8 ltac:(lia)). apply Hfit; lia.
  - (* hexadecimal: at most 10 digits, and with 10 digits the first one is at most D *)
    unfold hex_guard in Hg. rewrite !zlen_cons in Hg.
    pose proof (radix_val_bound 16 hex_digit D ltac:(lia) Hr) as Hb. fold n in Hb.
    assert (H10 : 16 ^ zlen D <= 16 ^ 10) by (apply Z.pow_le_mono_r; lia).
    change (16 ^ 10) with 1099511627776 in H10.
    apply Hfit; [lia | change (2 ^ 63) with 9223372036854775808; lia |].
    destruct (Z.eq_dec (zlen D) 10) as [E10|N10].
    + destruct D as [|c rest]; [congruence|]. cbn [nth_error] in Hg.
      rewrite zlen_cons in E10, Hg. inversion Hr as [|? ? Hc Hrest]; subst. inversion HD as [|? ? Hdc _]; subst.
      assert (Hc13 : hex_digit c <= 13).
      { cbn [digit_ok] in Hdc. unfold is_hex_digit, is_digit in Hdc. unfold hex_digit.
        destruct (c <=? 57) eqn:E1; [lia|]. destruct (c <=? 70) eqn:E2; lia. }
      pose proof (fold_radix_bound 16 hex_digit ltac:(lia) rest (0 * 16 + hex_digit c) Hrest ltac:(lia)) as Hf.
      unfold n, radix_val. cbn [fold_left]. replace (zlen rest) with 9 in Hf by lia.
      rewrite zlen_cons. replace (2 + (1 + zlen rest)) with 12 by lia.
      change (16 ^ 9) with 68719476736 in Hf. change (10 ^ 12) with 1000000000000. nia.
    + pose proof (pow16_small (zlen D) ltac:(lia)). lia.
Qed.

(* TARGET 2: the Go code accumulates in an int64 and writes the decimal digits over the literal (b = b[:i+1]):
   for every well-formed literal that the length guard sends to the conversion, the accumulator stays below 2^63 (no
   int64 overflow), below 10^25 (show_nat of the model is faithful) and the decimal text is not longer than the literal
   without separators and suffix, whose bytes it overwrites. *)
Theorem conversion_fits : forall k b,
  k <> KDecimal -> valid_prefixed k b = true ->
  let b1 := fst (remove_underscores_and_suffix b) in
  conv_guard k b1 = false ->
  let n := radix_val (radix_of k) (digit_val k) (skipn 2 b1) in
  0 <= n < 2 ^ 63 /\ n < 10 ^ 25 /\ zlen (show_nat n) <= zlen b1.
Proof.
  intros k b Hk Hv. destruct (valid_shape k b Hv) as (p & D & sfx & Hr & Hp & HDn & HD).
  rewrite Hr. cbn [fst skipn]. intros Hg. rewrite !zlen_cons.
  pose proof (conv_bounds k p D Hk HDn HD Hg) as H. cbv zeta in H. lia.
Qed.

(* ---------- reading back what the prefixed minifiers write ---------- *)
Lemma prefix_dispatch k p X : prefix_ok k p = true -> lit_value (48 :: p :: X) = prefixed_value k (48 :: p :: X).
Proof.
  intros H. destruct k; cbn [prefix_ok] in H; [discriminate| | |];
    apply orb_true_iff in H as [H|H]; apply Z.eqb_eq in H; subst p; reflexivity.
Qed.

(* a literal that is kept (separators removed, suffix put back) is read with the value of the original *)
Lemma lit_value_keep k p D sfx : prefix_ok k p = true -> Forall (fun c => digit_ok k c = true) D ->
  lit_value (keep (48 :: p :: D) sfx) = Some (sfx, (radix_val (radix_of k) (digit_val k) D, 0)).
Proof.
  intros Hp HD. pose proof (shape_clean k p D Hp HD) as Hcl.
  assert (Hr : remove_underscores_and_suffix (keep (48 :: p :: D) sfx) = (48 :: p :: D, sfx)).
  { unfold keep. destruct sfx; [apply ruas_clean_n | apply ruas_clean]; exact Hcl. }
  assert (Hk : keep (48 :: p :: D) sfx = 48 :: p :: (if sfx then D ++ [c_n] else D)) by (destruct sfx; reflexivity).
  rewrite Hk in *. rewrite (prefix_dispatch k p _ Hp). unfold prefixed_value. rewrite Hr. reflexivity.
Qed.

Lemma lit_value_keep_same k p D sfx : prefix_ok k p = true -> Forall (fun c => digit_ok k c = true) D ->
  same_value (lit_value (keep (48 :: p :: D) sfx)) (Some (sfx, (radix_val (radix_of k) (digit_val k) D, 0))).
Proof.
  intros Hp HD. rewrite (lit_value_keep k p D sfx Hp HD). cbn [same_value]. split; [reflexivity | apply val_eq_refl].
Qed.

Lemma show_nat_lexed n : 0 <= n < B25 ->
  lex_number (show_nat n) = Some (mk_plain 0 (show_nat n) false []) /\
  value (mk_plain 0 (show_nat n) false []) = (n, 0) /\ zlen (show_nat n) <= 10 ^ 25.
Proof.
  intros Hn. destruct (show_nat_spec n Hn) as (S1 & S2 & S3 & S4 & S5).
  assert (Hwf : wf_lexed (mk_plain 0 (show_nat n) false [])).
  { apply wf_mk_plain; auto; [constructor | left; apply show_nat_nonnil; exact Hn]. }
  split; [|split].
  - rewrite <- (lex_number_complete _ Hwf). f_equal. unfold unlex; cbn [mk_plain l_sign l_I l_dot l_F l_exp].
    change (sign_bytes 0) with (@nil byte). cbn [app]. rewrite !app_nil_r. reflexivity.
  - rewrite value_mk_plain, app_nil_r, S2. change (0 =? 2) with false. cbv iota. change (zlen (@nil byte)) with 0.
    f_equal; lia.
  - pose proof (ndig_le n 25 Hn ltac:(lia) ltac:(change (10 ^ 25) with B25; lia)) as H. unfold ndig in H.
    change (10 ^ 25) with B25. unfold B25. lia.
Qed.

(* the decimal text of n, with the suffix or through minify.Number, is read as n *)
Lemma lit_value_finish n sfx : 0 <= n < B25 -> same_value (lit_value (finish_int n sfx)) (Some (sfx, (n, 0))).
Proof.
  intros Hn. unfold finish_int. cbv zeta. destruct sfx.
  - destruct (show_nat_spec n Hn) as (S1 & S2 & _).
    rewrite (bigint_lit_value _ S1 (show_nat_nonnil n Hn)), S2. cbn [same_value]. split; [reflexivity | apply val_eq_refl].
  - destruct (show_nat_lexed n Hn) as (L1 & L2 & L3).
    pose proof (number0_lit_value _ _ L1 eq_refl L3) as H. rewrite L2 in H. exact H.
Qed.

(* ---------- TARGET 1: prefixed literals (0b / 0o / 0x, separators, optional BigInt suffix) keep their value ---------- *)
Theorem prefixed_literal_value : forall k b,
  k <> KDecimal -> valid_prefixed k b = true ->
  same_value (lit_value (minify_literal k b)) (prefixed_value k b).
Proof.
  intros k b Hk Hv. destruct (valid_shape k b Hv) as (p & D & sfx & Hr & Hp & HDn & HD).
  rewrite (minify_literal_prefixed k b Hk). unfold prefixed_value. rewrite Hr. cbn [skipn].
  destruct (conv_guard k (48 :: p :: D)) eqn:Eg.
  - exact (lit_value_keep_same k p D sfx Hp HD).
  - pose proof (conv_bounds k p D Hk HDn HD Eg) as (B1 & B2 & _).
    apply lit_value_finish. change B25 with (10 ^ 25). lia.
Qed.

(* ---------- sanity: the statements are not vacuous (literals at the edges of the guards) ---------- *)
(* 0xDFFFFFFFFF -> 962072674303 *)
Example ex_0 : valid_prefixed KHex [48; 120; 68; 70; 70; 70; 70; 70; 70; 70; 70; 70] = true /\ minify_literal KHex [48; 120; 68; 70; 70; 70; 70; 70; 70; 70; 70; 70] = [57; 54; 50; 48; 55; 50; 54; 55; 52; 51; 48; 51].
Proof. vm_compute. split; reflexivity. Qed.
(* 0xE000000000 -> 0xE000000000 *)
Example ex_1 : valid_prefixed KHex [48; 120; 69; 48; 48; 48; 48; 48; 48; 48; 48; 48] = true /\ minify_literal KHex [48; 120; 69; 48; 48; 48; 48; 48; 48; 48; 48; 48] = [48; 120; 69; 48; 48; 48; 48; 48; 48; 48; 48; 48].
Proof. vm_compute. split; reflexivity. Qed.
(* 0x3_E8 -> 1e3 *)
Example ex_2 : valid_prefixed KHex [48; 120; 51; 95; 69; 56] = true /\ minify_literal KHex [48; 120; 51; 95; 69; 56] = [49; 101; 51].
Proof. vm_compute. split; reflexivity. Qed.
(* 0XFFn -> 255n *)
Example ex_3 : valid_prefixed KHex [48; 88; 70; 70; 110] = true /\ minify_literal KHex [48; 88; 70; 70; 110] = [50; 53; 53; 110].
Proof. vm_compute. split; reflexivity. Qed.
(* 0b1_0_1n -> 5n *)
Example ex_4 : valid_prefixed KBinary [48; 98; 49; 95; 48; 95; 49; 110] = true /\ minify_literal KBinary [48; 98; 49; 95; 48; 95; 49; 110] = [53; 110].
Proof. vm_compute. split; reflexivity. Qed.
(* 0b111111111111111111111111111111111111111111111111111111111111111 -> 9223372036854775807 *)
Example ex_5 : valid_prefixed KBinary [48; 98; 49; 49; 49; 49; 49; 49; 49; 49; 49; 49; 49; 49; 49; 49; 49; 49; 49; 49; 49; 49; 49; 49; 49; 49; 49; 49; 49; 49; 49; 49; 49; 49; 49; 49; 49; 49; 49; 49; 49; 49; 49; 49; 49; 49; 49; 49; 49; 49; 49; 49; 49; 49; 49; 49; 49; 49; 49; 49; 49; 49; 49; 49; 49] = true /\ minify_literal KBinary [48; 98; 49; 49; 49; 49; 49; 49; 49; 49; 49; 49; 49; 49; 49; 49; 49; 49; 49; 49; 49; 49; 49; 49; 49; 49; 49; 49; 49; 49; 49; 49; 49; 49; 49; 49; 49; 49; 49; 49; 49; 49; 49; 49; 49; 49; 49; 49; 49; 49; 49; 49; 49; 49; 49; 49; 49; 49; 49; 49; 49; 49; 49; 49; 49] = [57; 50; 50; 51; 51; 55; 50; 48; 51; 54; 56; 53; 52; 55; 55; 53; 56; 48; 55].
Proof. vm_compute. split; reflexivity. Qed.
(* 0o777777777777777777777 -> 9223372036854775807 *)
Example ex_6 : valid_prefixed KOctal [48; 111; 55; 55; 55; 55; 55; 55; 55; 55; 55; 55; 55; 55; 55; 55; 55; 55; 55; 55; 55; 55; 55] = true /\ minify_literal KOctal [48; 111; 55; 55; 55; 55; 55; 55; 55; 55; 55; 55; 55; 55; 55; 55; 55; 55; 55; 55; 55; 55; 55] = [57; 50; 50; 51; 51; 55; 50; 48; 51; 54; 56; 53; 52; 55; 55; 53; 56; 48; 55].
Proof. vm_compute. split; reflexivity. Qed.
(* 0o7777777777777777777777 -> 0o7777777777777777777777 *)
Example ex_7 : valid_prefixed KOctal [48; 111; 55; 55; 55; 55; 55; 55; 55; 55; 55; 55; 55; 55; 55; 55; 55; 55; 55; 55; 55; 55; 55; 55] = true /\ minify_literal KOctal [48; 111; 55; 55; 55; 55; 55; 55; 55; 55; 55; 55; 55; 55; 55; 55; 55; 55; 55; 55; 55; 55; 55; 55] = [48; 111; 55; 55; 55; 55; 55; 55; 55; 55; 55; 55; 55; 55; 55; 55; 55; 55; 55; 55; 55; 55; 55; 55].
Proof. vm_compute. split; reflexivity. Qed.
(* 1_000.50e1 -> 10005 ; 0_0n -> 00n (BigInt digits are kept as they are) *)
Example ex_dec : decimal_value [49; 95; 48; 48; 48; 46; 53; 48; 101; 49] = Some (false, (100050, -1)) /\ minify_literal KDecimal [49; 95; 48; 48; 48; 46; 53; 48; 101; 49] = [49; 48; 48; 48; 53].
Proof. vm_compute. split; reflexivity. Qed.

Print Assumptions prefixed_literal_value.
Print Assumptions conversion_fits.
Print Assumptions decimal_literal_value.
Print Assumptions number0_unsigned.
