(* Js/NumLitSpec.v — specification side for JavaScript numeric literals (ECMA-262 12.9.3): NumericLiteral is a
   DecimalLiteral, a DecimalBigIntegerLiteral, or a 0b / 0o / 0x integer literal with an optional BigInt suffix n; digits may
   be separated by single underscores (NumericLiteralSeparator).  The value of a literal is m * 10^e (the exact mathematical
   value MV; Number literals are then rounded to a double by the engine, BigInt literals are exact): equal MVs give
   equal run-time values. *)
From MV Require Import Base.MvBytes Num.NumModel Num.NumSpec Js.NumLit.

Inductive lit_kind := KDecimal | KBinary | KOctal | KHex.

Definition is_bin_digit (c : byte) : bool := (c =? 48) || (c =? 49).
Definition is_oct_digit (c : byte) : bool := (48 <=? c) && (c <=? 55).
Definition is_hex_digit (c : byte) : bool := is_digit c || ((65 <=? c) && (c <=? 70)) || ((97 <=? c) && (c <=? 102)).

(* digits with single separators between them: d (_? d)* *)
Fixpoint sep_digits (isd : byte -> bool) (prev_digit : bool) (l : bytes) : bool :=
  match l with
  | [] => prev_digit
  | c :: r => if c =? c_underscore then prev_digit && sep_digits isd false r
              else isd c && sep_digits isd true r
  end.

Definition prefix_ok (k : lit_kind) (c : byte) : bool :=
  match k with
  | KBinary => (c =? 98) || (c =? 66)      (* b B *)
  | KOctal => (c =? 111) || (c =? 79)      (* o O *)
  | KHex => (c =? 120) || (c =? 88)        (* x X *)
  | KDecimal => false
  end.
Definition digit_ok (k : lit_kind) : byte -> bool :=
  match k with KBinary => is_bin_digit | KOctal => is_oct_digit | KHex => is_hex_digit | KDecimal => is_digit end.

(* a well-formed literal of the kind, as the parser hands it to the minifier (prefix + separated digits + optional n) *)
Definition valid_prefixed (k : lit_kind) (b : bytes) : bool :=
  match b with
  | z :: p :: rest =>
      (z =? 48) && prefix_ok k p &&
      (let body := fst (strip_suffix rest) in
       negb (match body with [] => true | _ => false end) && sep_digits (digit_ok k) false body)
  | _ => false
  end.

(* the mathematical value: (is BigInt, (m, e)) meaning m * 10^e *)
Definition radix_of (k : lit_kind) : Z := match k with KBinary => 2 | KOctal => 8 | KHex => 16 | KDecimal => 10 end.
Definition digit_val (k : lit_kind) : byte -> Z := match k with KHex => hex_digit | _ => bin_digit end.

Definition prefixed_value (k : lit_kind) (b : bytes) : option (bool * (Z * Z)) :=
  let (b1, suffix) := remove_underscores_and_suffix b in
  match b1 with
  | _ :: _ :: digits => Some (suffix, (radix_val (radix_of k) (digit_val k) digits, 0))
  | _ => None
  end.

(* decimal literals: without suffix the grammar of Num (no sign), with suffix an integer *)
Definition decimal_value (b : bytes) : option (bool * (Z * Z)) :=
  let (b1, suffix) := remove_underscores_and_suffix b in
  if suffix then (if forallb is_digit b1 && negb (match b1 with [] => true | _ => false end) then Some (true, (digits_val b1, 0)) else None)
  else match lex_number b1 with Some p => if l_sign p =? 0 then Some (false, value p) else None | None => None end.

(* the value of any literal the minifier may WRITE: a prefixed literal of a kind, or a decimal one *)
Definition lit_value (b : bytes) : option (bool * (Z * Z)) :=
  match b with
  | z :: p :: _ =>
      if (z =? 48) && prefix_ok KBinary p then prefixed_value KBinary b
      else if (z =? 48) && prefix_ok KOctal p then prefixed_value KOctal b
      else if (z =? 48) && prefix_ok KHex p then prefixed_value KHex b
      else decimal_value b
  | _ => decimal_value b
  end.

Definition same_value (a b : option (bool * (Z * Z))) : Prop :=
  match a, b with
  | Some (ba, va), Some (bb, vb) => ba = bb /\ val_eq va vb
  | _, _ => False
  end.

Definition minify_literal (k : lit_kind) (b : bytes) : bytes :=
  match k with
  | KDecimal => decimal_number b
  | KBinary => binary_number b
  | KOctal => octal_number b
  | KHex => hexadecimal_number b
  end.
