(* Js/PrintConstEx.v — the guard of a constant replacement is load-bearing: with the guard of `true` raised from OpUnary to
   OpUpdate (one entry of the regenerated tables changed, everything else as in the source) the tables are rejected by
   prec_tables_ok, and rightly so: the left operand of ** is printed at OpUpdate, so `true**2` comes out as `!0**2`,
   which the grammar does not derive as (!0)**2 (a UnaryExpression is not an operand of **; the text is a SyntaxError). *)
From Coq Require Import List String Arith Bool Lia.
Import ListNotations.
From MV Require Import Js.PrintModel Js.PrintSpec Js.PrintGen Js.PrintProofs.
Local Open Scope string_scope.

Definition pset (m : pmap) (k v : string) : pmap := map (fun kv => if String.eqb (fst kv) k then (k, v) else kv) m.
Definition T_bad : tables :=
  {| t_unary := t_unary T_gen; t_left := t_left T_gen; t_right := t_right T_gen; t_unop := t_unop T_gen;
     t_binop := t_binop T_gen; t_const := pset (t_const T_gen) "true" "OpUpdate" |}.

Example const_guard_needed :
  prec_tables_ok T_bad = false /\
  print T_bad 15 (EConst CTrue) = [TOp "NotToken"; TAtom "0"] /\
  print T_gen 15 (EConst CTrue) = [TL; TOp "NotToken"; TAtom "0"; TR] /\
  print T_bad 0 (EBin "ExpToken" (EConst CTrue) (EAtom "2")) = [TOp "NotToken"; TAtom "0"; TOp "ExpToken"; TAtom "2"] /\
  strip T_bad 0 (EBin "ExpToken" (EConst CTrue) (EAtom "2")) = EBin "ExpToken" (EPre "NotToken" (EAtom "0")) (EAtom "2").
Proof. vm_compute. repeat split. Qed.

(* only the one conjunct fails, and every other entry of the guard table is untouched *)
Example const_guard_needed_scope :
  const_ok T_bad CTrue = false /\ const_ok T_bad CFalse = true /\ const_ok T_bad CUndefined = true /\ const_ok T_bad CInfinity = true /\
  forallb (binary_ok T_bad) spec_binary && forallb (unary_ok T_bad) spec_prefix && forallb (unary_ok T_bad) spec_postfix = true.
Proof. vm_compute. repeat split. Qed.

(* the conclusion of print_derives fails for T_bad: !0**2 does not derive the tree (!0)**2 at any level *)
Lemma no_derivation_not_exp : forall l,
  ~ D l [TOp "NotToken"; TAtom "0"; TOp "ExpToken"; TAtom "2"] (EBin "ExpToken" (EPre "NotToken" (EAtom "0")) (EAtom "2")).
Proof.
  intros l H. inversion H; subst.
  match goal with H : slookup spec_binary "ExpToken" = Some _ |- _ => vm_compute in H; inversion H; subst end.
  match goal with H : D 15 _ (EPre _ _) |- _ => inversion H; subst end.
  match goal with H : slookup spec_prefix "NotToken" = Some _ |- _ => vm_compute in H; inversion H; subst end.
  lia.
Qed.
Example const_guard_needed_unsound :
  wf 0 (EBin "ExpToken" (EConst CTrue) (EAtom "2")) /\
  ~ D 0 (print T_bad 0 (EBin "ExpToken" (EConst CTrue) (EAtom "2"))) (strip T_bad 0 (EBin "ExpToken" (EConst CTrue) (EAtom "2"))).
Proof.
  split.
  - vm_compute. repeat split; lia.
  - destruct const_guard_needed as (_ & _ & _ & Hp & Hs). rewrite Hp, Hs. apply no_derivation_not_exp.
Qed.
