(* Js/PrintGen.v — the printer's tables as they are in the current source (coq/gen/JsTables_gen.v). *)
From MVGen Require Import JsTables_gen.
From MV Require Import Js.PrintModel Js.PrintSpec.
Definition T_gen : tables :=
  {| t_unary := js_unaryPrecMap; t_left := js_binaryLeftPrecMap; t_right := js_binaryRightPrecMap;
     t_unop := js_unaryOpPrecMap; t_binop := js_binaryOpPrecMap; t_const := js_constGuards |}.
Definition print_gen (prec : nat) (e : expr) : list tok := print T_gen prec e.
(* the guards of the constant replacements are exactly the printer's own levels of the replacement trees *)
Example consts_exact_gen : consts_exact T_gen = true.
Proof. vm_compute. reflexivity. Qed.
Example consts_ok_gen : consts_ok T_gen = true.
Proof. vm_compute. reflexivity. Qed.
