(* Js/PrintGen.v — the printer's tables as they are in the current source (coq/gen/JsTables_gen.v). *)
From MVGen Require Import JsTables_gen.
From MV Require Import Js.PrintModel.
Definition T_gen : tables :=
  {| t_unary := js_unaryPrecMap; t_left := js_binaryLeftPrecMap; t_right := js_binaryRightPrecMap;
     t_unop := js_unaryOpPrecMap; t_binop := js_binaryOpPrecMap |}.
Definition print_gen (prec : nat) (e : expr) : list tok := print T_gen prec e.
