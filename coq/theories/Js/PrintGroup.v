(* Js/PrintGroup.v — groupExpr (/repo/js/util.go), the helper every rewrite uses to put an operand under a new operator, and
   the SITE FACTS regenerated from js/*.go (coq/gen/JsGates_gen.v):
     - every groupExpr(x, P) operand of a BinaryExpr / UnaryExpr / CondExpr literal built by a rewrite passes a precedence P
       that is at least the grammar level its position needs (group_sites_ok), so that — by group_expr_wf — the tree the
       rewrite builds is again one a conforming parser could have produced, which is the hypothesis of print_derives;
     - every site that introduces syntax newer than ES5 is dominated by a minVersion test of at least the edition that
       introduced it (version_gates_ok; ECMA-262 editions pinned below). *)
From Coq Require Import List String Arith Bool ZArith Lia.
Import ListNotations.
From MVGen Require Import JsTables_gen JsGates_gen.
From MV Require Import Js.PrintModel Js.PrintSpec Js.PrintGen Js.PrintProofs.
Local Open Scope string_scope.

Definition is_group (e : expr) : bool := match e with EGroup _ => true | _ => false end.
Definition group_expr (T : tables) (p : nat) (e : expr) : expr :=
  let inside := expr_prec T e in
  if negb (is_group e) && Nat.ltb inside p && negb (Nat.eqb inside OpCoalesce && Nat.eqb p OpBitOr) then EGroup e else e.

(* the operand produced for a position that needs level [need] is well-formed there, as soon as need <= p; the one
   exception built into groupExpr (a ?? chain under ??, re-associated like && and ||) is excluded *)
Theorem group_expr_wf : forall T, prec_tables_ok T = true ->
  forall e l0 need p, wf l0 e -> need <= p ->
  ~ (expr_prec T e = OpCoalesce /\ p = OpBitOr) ->
  wf need (group_expr T p e).
Proof.
  intros T HT e l0 need p Hwf Hle Hex. unfold group_expr. cbv zeta.
  destruct (is_group e) eqn:G.
  - cbn [negb andb]. destruct e; try discriminate G. exact Hwf.
  - cbn [negb andb]. destruct (Nat.ltb_spec (expr_prec T e) p) as [Hlt|Hge].
    + destruct (Nat.eqb (expr_prec T e) OpCoalesce && Nat.eqb p OpBitOr) eqn:X.
      * exfalso. apply Hex. apply andb_true_iff in X as [X1 X2]. apply Nat.eqb_eq in X1. apply Nat.eqb_eq in X2. auto.
      * cbn [negb]. cbn [wf]. apply (wf_raise T HT e l0 0 Hwf). lia.
    + cbn [andb]. apply (wf_raise T HT e l0 need Hwf). lia.
Qed.

(* ---------- group sites ---------- *)
Definition resolve (T : tables) (pk pn : string) : option nat :=
  if String.eqb pk "left" then Some (plookup (t_left T) pn)
  else if String.eqb pk "right" then Some (plookup (t_right T) pn)
  else if String.eqb pk "unary" then Some (plookup (t_unary T) pn)
  else if String.eqb pk "const" then match index_of pn op_prec_names with Some n => Some n | None => None end
  else None.
Definition need_level (node op side : string) : option nat :=
  if String.eqb node "binary" then
    match slookup spec_binary op with Some (_, lf, rt) => Some (if String.eqb side "left" then lf else rt) | None => None end
  else if String.eqb node "unary" then
    match slookup spec_prefix op with Some (_, ol) => Some ol | None => None end
  else if String.eqb node "cond" then Some (if String.eqb side "test" then 2 else 1)
  else None.
Definition gsite_ok (T : tables) (s : string * string * string * string * (string * string)) : bool :=
  let '(_, node, op, side, (pk, pn)) := s in
  match need_level node op side, resolve T pk pn with
  | Some n, Some p => Nat.leb n p
  | _, _ => false
  end.

(* ---------- version gates ---------- *)
Local Open Scope Z_scope.
(* the ECMA-262 edition that introduced each construct (pinned from the standard's annex of additions) *)
Definition intro_year (feature : string) : Z :=
  if String.eqb feature "template-literal" then 2015
  else if String.eqb feature "shorthand-property" then 2015
  else if String.eqb feature "exponent-operator" then 2016
  else if String.eqb feature "optional-catch-binding" then 2019
  else if String.eqb feature "nullish-coalescing" then 2020
  else if String.eqb feature "optional-chaining" then 2020
  else if String.eqb feature "logical-assignment" then 2021
  else 99999.
Definition gate_ok (s : string * string * Z) : bool := let '(f, _, g) := s in intro_year f <=? g.
Definition has_feature (f : string) : bool := existsb (fun s => String.eqb (fst (fst s)) f) js_version_gates.
(* the translator found the sites it is known to look for (guards against an extraction that silently finds nothing) *)
Definition gates_complete : bool :=
  forallb has_feature ["template-literal"; "shorthand-property"; "exponent-operator"; "optional-catch-binding"; "nullish-coalescing"; "optional-chaining"]%string.
