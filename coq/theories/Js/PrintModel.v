(* Js/PrintModel.v — F2 model of the expression printer of /repo/js/js.go (minifyExpr) for the operator fragment:
   identifiers/literals, binary operators (all entries of binaryOpPrecMap except `in`/`instanceof`, whose printing adds
   word spacing only), prefix and postfix unary operators, the conditional operator, comma, parenthesised expressions
   (GroupExpr nodes, which parse/js keeps in the AST), calls with one argument, member access by dot and by index.
   The printer never ADDS parentheses around an operand: it relies on the parser having kept a GroupExpr wherever the
   source had parentheses, and only decides which groups can be DROPPED (`prec <= exprPrec(inner)`).  The four precedence
   maps are parameters; the instance used by the checks is read from the regenerated coq/gen/JsTables_gen.v.
   Rewrites that js.go applies on the fly (optimizeCondExpr, optimizeUnaryExpr, mergeBinaryExpr, ==null folding, the
   (a,b)&&c unwrapping at statement level, ?? chain flattening) are outside this model: the correspondence run uses
   operand shapes on which none of them fires. *)
From Coq Require Import List String Arith Bool.
Import ListNotations.
Local Open Scope string_scope.

(* parse/js OpPrec, in its declaration order (pinned from the dependency; compared with the real constants by the harness) *)
Definition op_prec_names : list string :=
  ["OpExpr"; "OpAssign"; "OpCoalesce"; "OpOr"; "OpAnd"; "OpBitOr"; "OpBitXor"; "OpBitAnd"; "OpEquals"; "OpCompare"; "OpShift";
   "OpAdd"; "OpMul"; "OpExp"; "OpUnary"; "OpUpdate"; "OpLHS"; "OpCall"; "OpNew"; "OpMember"; "OpPrimary"].
Fixpoint index_of (s : string) (l : list string) : option nat :=
  match l with
  | [] => None
  | x :: r => if String.eqb x s then Some 0 else option_map S (index_of s r)
  end.
Definition prec_of_name (s : string) : nat := match index_of s op_prec_names with Some n => n | None => 0 end.
Definition OpExpr := 0. Definition OpAssign := 1. Definition OpCoalesce := 2. Definition OpOr := 3. Definition OpAnd := 4.
Definition OpBitOr := 5. Definition OpUnary := 14. Definition OpUpdate := 15. Definition OpLHS := 16. Definition OpCall := 17.
Definition OpNew := 18. Definition OpMember := 19. Definition OpPrimary := 20.

(* a precedence map: token name -> level; absent entries read as 0 (Go's zero value of the map) *)
Definition pmap := list (string * string).
Fixpoint plookup (m : pmap) (tok : string) : nat :=
  match m with
  | [] => 0
  | (k, v) :: r => if String.eqb k tok then prec_of_name v else plookup r tok
  end.
Definition pmem (m : pmap) (tok : string) : bool := existsb (fun kv => String.eqb (fst kv) tok) m.

Record tables := {
  t_unary : pmap;      (* unaryPrecMap: level required of the operand *)
  t_left : pmap;       (* binaryLeftPrecMap *)
  t_right : pmap;      (* binaryRightPrecMap *)
  t_unop : pmap;       (* unaryOpPrecMap: level of the unary expression itself *)
  t_binop : pmap;      (* binaryOpPrecMap *)
  t_const : pmap       (* the `X < prec` guards of the four constant replacements in minifyExpr: constant -> OpPrec name X *)
}.

(* the constant atoms minifyExpr replaces by a shorter expression: literal true / false, undeclared undefined / Infinity *)
Inductive constk := CTrue | CFalse | CUndefined | CInfinity.

Inductive expr :=
| EAtom (tok : string)
| EBin (op : string) (x y : expr)          (* op = token name, e.g. "AddToken"; the comma is "CommaToken" *)
| EPre (op : string) (x : expr)            (* prefix: ! ~ typeof void delete + - ++ -- await *)
| EPost (op : string) (x : expr)           (* postfix ++ -- *)
| ECond (c x y : expr)
| EGroup (x : expr)
| ECall (f a : expr)
| EDot (x : expr) (name : string) (chain_has_call : bool)     (* DotExpr.Prec: OpCall when the chain contains a call *)
| EIndex (x i : expr) (chain_has_call : bool)
| EConst (k : constk).                     (* a Var / LiteralExpr in the AST; written as !0 !1 0[0] 1/0 *)

Inductive tok := TAtom (s : string) | TOp (name : string) | TQ | TColon | TL | TR | TLB | TRB | TDot.

Definition const_name (k : constk) : string :=
  match k with CTrue => "true" | CFalse => "false" | CUndefined => "undefined" | CInfinity => "Infinity" end.
(* the tree a parser builds from the replacement text *)
Definition const_expr (k : constk) : expr :=
  match k with
  | CTrue => EPre "NotToken" (EAtom "0")
  | CFalse => EPre "NotToken" (EAtom "1")
  | CUndefined => EIndex (EAtom "0") (EAtom "0") false
  | CInfinity => EBin "DivToken" (EAtom "1") (EAtom "0")
  end.
(* the replacement text itself, as js.go writes it (literal bytes, no recursive call of the printer) *)
Definition const_tokens (k : constk) : list tok :=
  match k with
  | CTrue => [TOp "NotToken"; TAtom "0"]
  | CFalse => [TOp "NotToken"; TAtom "1"]
  | CUndefined => [TAtom "0"; TLB; TAtom "0"; TRB]
  | CInfinity => [TAtom "1"; TOp "DivToken"; TAtom "0"]
  end.

Section Printer.
  Variable T : tables.

  Fixpoint expr_prec (e : expr) : nat :=
    match e with
    | EAtom _ => OpPrimary
    | EBin op _ _ => plookup (t_binop T) op
    | EPre op _ | EPost op _ => plookup (t_unop T) op
    | ECond _ _ _ => OpAssign
    | EGroup x => expr_prec x
    | ECall _ _ => OpCall
    | EDot _ _ c | EIndex _ _ c => if c then OpCall else OpMember
    | EConst _ => OpPrimary
    end.

  (* the X of `if X < prec` around the replacement of constant k *)
  Definition const_guard (k : constk) : nat := plookup (t_const T) (const_name k).

  Fixpoint print (prec : nat) (e : expr) : list tok :=
    match e with
    | EAtom s => [TAtom s]
    | EBin op x y => print (plookup (t_left T) op) x ++ [TOp op] ++ print (plookup (t_right T) op) y
    | EPre op x => TOp op :: print (plookup (t_unary T) op) x
    | EPost op x => print (plookup (t_unary T) op) x ++ [TOp op]
    | ECond c x y => print OpCoalesce c ++ [TQ] ++ print OpAssign x ++ [TColon] ++ print OpAssign y
    | EGroup x => if Nat.leb prec (expr_prec x) then print prec x else [TL] ++ print OpExpr x ++ [TR]
    | ECall f a => print OpCall f ++ [TL] ++ print OpAssign a ++ [TR]
    | EDot x n _ => print (if Nat.leb OpNew prec then OpMember else OpCall) x ++ [TDot; TAtom n]
    | EIndex x i _ => print (if Nat.ltb prec OpNew then OpCall else OpMember) x ++ [TLB] ++ print OpExpr i ++ [TRB]
    | EConst k => if Nat.ltb (const_guard k) prec then [TL] ++ const_tokens k ++ [TR] else const_tokens k
    end.

  (* the tree the parser rebuilds from the printed tokens: dropped groups vanish, the others stay *)
  Fixpoint strip (prec : nat) (e : expr) : expr :=
    match e with
    | EAtom s => EAtom s
    | EBin op x y => EBin op (strip (plookup (t_left T) op) x) (strip (plookup (t_right T) op) y)
    | EPre op x => EPre op (strip (plookup (t_unary T) op) x)
    | EPost op x => EPost op (strip (plookup (t_unary T) op) x)
    | ECond c x y => ECond (strip OpCoalesce c) (strip OpAssign x) (strip OpAssign y)
    | EGroup x => if Nat.leb prec (expr_prec x) then strip prec x else EGroup (strip OpExpr x)
    | ECall f a => ECall (strip OpCall f) (strip OpAssign a)
    | EDot x n c => EDot (strip (if Nat.leb OpNew prec then OpMember else OpCall) x) n c
    | EIndex x i c => EIndex (strip (if Nat.ltb prec OpNew then OpCall else OpMember) x) (strip OpExpr i) c
    | EConst k => if Nat.ltb (const_guard k) prec then EGroup (const_expr k) else const_expr k
    end.
End Printer.
