(* Js/PrintProofs.v — the printer's parenthesis decisions are sound: for every AST a conforming parser can produce, the
   printed tokens derive — in the ECMA-262 expression grammar with ITS OWN precedence tables — the same tree with exactly
   the dropped groups removed.  The only facts used about the minifier's maps are the inequalities of prec_tables_ok,
   which is re-checked on the maps regenerated from the source on every run. *)
From Coq Require Import List String Arith Bool Lia.
Import ListNotations.
From MVGen Require Import JsTables_gen.
From MV Require Import Js.PrintModel Js.PrintSpec Js.PrintGen.
Local Open Scope string_scope.

(* derivability at a level implies derivability at every lower level *)
Lemma D_weaken : forall l l' ts e, l' <= l -> D l ts e -> D l' ts e.
Proof.
  intros l l' ts e Hle HD. revert l' Hle.
  induction HD; intros l' Hle.
  - apply D_atom.
  - apply D_group; assumption.
  - eapply D_bin; eauto; lia.
  - eapply D_pre; eauto; lia.
  - eapply D_post; eauto; lia.
  - apply D_cond; auto; lia.
  - apply D_call; auto; lia.
  - apply D_dot_call; auto; lia.
  - apply D_dot_member; auto; lia.
  - apply D_index_call; auto; lia.
  - apply D_index_member; auto; lia.
Qed.

(* ---------- helper lemmas ---------- *)
Lemma slookup_In : forall A (l : list (string * A)) k v, slookup l k = Some v -> In (k, v) l.
Proof.
  induction l as [|[k' v'] r IH]; simpl; intros k v H; [discriminate|].
  destruct (String.eqb k' k) eqn:E.
  - apply String.eqb_eq in E. inversion H; subst. left; reflexivity.
  - right; auto.
Qed.
Local Arguments slookup : simpl never.

Lemma binary_facts : forall T, prec_tables_ok T = true -> forall op lv lf rt,
  slookup spec_binary op = Some (lv, lf, rt) ->
  plookup (t_binop T) op <= lv /\ lf <= plookup (t_left T) op /\ rt <= plookup (t_right T) op.
Proof.
  intros T HT op lv lf rt Hs. unfold prec_tables_ok in HT. apply andb_true_iff in HT; destruct HT as [HT _].
  apply andb_true_iff in HT; destruct HT as [HT _]. apply andb_true_iff in HT; destruct HT as [HT _].
  rewrite forallb_forall in HT. specialize (HT _ (slookup_In _ _ _ _ Hs)). unfold binary_ok in HT.
  repeat (apply andb_true_iff in HT; destruct HT as [HT ?]).
  repeat match goal with H : Nat.leb _ _ = true |- _ => apply Nat.leb_le in H end. auto.
Qed.

Lemma prefix_facts : forall T, prec_tables_ok T = true -> forall op lv ol,
  slookup spec_prefix op = Some (lv, ol) ->
  plookup (t_unop T) op <= lv /\ ol <= plookup (t_unary T) op.
Proof.
  intros T HT op lv ol Hs. unfold prec_tables_ok in HT. apply andb_true_iff in HT; destruct HT as [HT _].
  apply andb_true_iff in HT; destruct HT as [HT _]. apply andb_true_iff in HT; destruct HT as [_ HT].
  rewrite forallb_forall in HT. specialize (HT _ (slookup_In _ _ _ _ Hs)). unfold unary_ok in HT.
  repeat (apply andb_true_iff in HT; destruct HT as [HT ?]).
  repeat match goal with H : Nat.leb _ _ = true |- _ => apply Nat.leb_le in H end. auto.
Qed.

Lemma postfix_facts : forall T, prec_tables_ok T = true -> forall op lv ol,
  slookup spec_postfix op = Some (lv, ol) ->
  plookup (t_unop T) op <= lv /\ ol <= plookup (t_unary T) op.
Proof.
  intros T HT op lv ol Hs. unfold prec_tables_ok in HT. apply andb_true_iff in HT; destruct HT as [HT _].
  apply andb_true_iff in HT; destruct HT as [_ HT].
  rewrite forallb_forall in HT. specialize (HT _ (slookup_In _ _ _ _ Hs)). unfold unary_ok in HT.
  repeat (apply andb_true_iff in HT; destruct HT as [HT ?]).
  repeat match goal with H : Nat.leb _ _ = true |- _ => apply Nat.leb_le in H end. auto.
Qed.

(* the constants: the guard is at most the grammar level of the replacement *)
Lemma const_facts : forall T, prec_tables_ok T = true -> forall k, const_guard T k <= const_level k.
Proof.
  intros T HT k. unfold prec_tables_ok in HT. apply andb_true_iff in HT; destruct HT as [_ HT].
  unfold consts_ok in HT. rewrite forallb_forall in HT.
  assert (Hin : In k all_consts) by (destruct k; unfold all_consts; simpl; auto).
  specialize (HT k Hin). unfold const_ok in HT. apply andb_true_iff in HT; destruct HT as [_ HT].
  apply Nat.leb_le in HT. exact HT.
Qed.

(* facts about the grammar alone: the replacement text derives the replacement tree at const_level, the tree is one a
   conforming parser builds there, and const_level is the highest such level *)
Lemma const_level_derives : forall k, D (const_level k) (const_tokens k) (const_expr k).
Proof.
  destruct k; unfold const_level, const_tokens, const_expr.
  - eapply D_pre; [reflexivity|apply Nat.le_refl|apply D_atom].
  - eapply D_pre; [reflexivity|apply Nat.le_refl|apply D_atom].
  - apply (D_index_member 19 [TAtom "0"] [TAtom "0"]); [apply Nat.le_refl|apply D_atom|apply D_atom].
  - apply (D_bin 12 "DivToken" 12 12 13 [TAtom "1"] [TAtom "0"]); [reflexivity|apply Nat.le_refl|apply D_atom|apply D_atom].
Qed.
Lemma const_level_wf : forall k, wf (const_level k) (const_expr k).
Proof. destruct k; unfold const_level, const_expr; cbn [wf]; cbv [slookup spec_prefix spec_binary assign_ops map app String.eqb Ascii.eqb Bool.eqb]; auto. Qed.
Lemma const_level_tight : forall k, ~ wf (S (const_level k)) (const_expr k).
Proof. destruct k; unfold const_level, const_expr; cbn [wf]; cbv [slookup spec_prefix spec_binary assign_ops map app String.eqb Ascii.eqb Bool.eqb]; lia. Qed.

(* a tree that is well-formed at some level is well-formed at every level up to the printer's own level for it *)
Lemma wf_raise : forall T, prec_tables_ok T = true ->
  forall e l0 l, wf l0 e -> l <= expr_prec T e -> wf l e.
Proof.
  intros T HT e l0 l Hwf Hle. destruct e; simpl in *.
  - exact I.
  - destruct (slookup spec_binary op) as [[[lv lf] rt]|] eqn:Hs; [|contradiction].
    destruct (binary_facts T HT _ _ _ _ Hs) as (Hb & _ & _). destruct Hwf as (_ & ? & ?). repeat split; auto; lia.
  - destruct (slookup spec_prefix op) as [[lv ol]|] eqn:Hs; [|contradiction].
    destruct (prefix_facts T HT _ _ _ Hs) as (Hb & _). destruct Hwf as (_ & ?). split; auto; lia.
  - destruct (slookup spec_postfix op) as [[lv ol]|] eqn:Hs; [|contradiction].
    destruct (postfix_facts T HT _ _ _ Hs) as (Hb & _). destruct Hwf as (_ & ?). split; auto; lia.
  - unfold OpAssign in Hle. destruct Hwf as (_ & ? & ? & ?). repeat split; auto.
  - exact Hwf.
  - unfold OpCall in Hle. destruct Hwf as (_ & ? & ?). repeat split; auto.
  - destruct chain_has_call; unfold OpCall, OpMember in Hle; destruct Hwf as (_ & ?); split; auto.
  - destruct Hwf as (Hwf & Hi). split; auto.
    destruct chain_has_call; unfold OpCall, OpMember in Hle; destruct Hwf as (_ & ?); split; auto.
  - exact I.
Qed.

(* MAIN THEOREM *)
Theorem print_derives : forall T, prec_tables_ok T = true ->
  forall e l p, wf l e -> D (Nat.min l p) (print T p e) (strip T p e).
Proof.
  intros T HT e. induction e; intros l p Hwf; cbn [wf print strip] in *.
  - apply D_atom.
  - destruct (slookup spec_binary op) as [[[lv lf] rt]|] eqn:Hs; [|contradiction].
    destruct (binary_facts T HT _ _ _ _ Hs) as (Hb & Hl & Hr). destruct Hwf as (Hlv & Hx & Hy).
    specialize (IHe1 _ (plookup (t_left T) op) Hx). specialize (IHe2 _ (plookup (t_right T) op) Hy).
    rewrite Nat.min_l in IHe1 by assumption. rewrite Nat.min_l in IHe2 by assumption.
    eapply D_bin; eauto. lia.
  - destruct (slookup spec_prefix op) as [[lv ol]|] eqn:Hs; [|contradiction].
    destruct (prefix_facts T HT _ _ _ Hs) as (Hb & Ho). destruct Hwf as (Hlv & Hx).
    specialize (IHe _ (plookup (t_unary T) op) Hx). rewrite Nat.min_l in IHe by assumption.
    eapply D_pre; eauto. lia.
  - destruct (slookup spec_postfix op) as [[lv ol]|] eqn:Hs; [|contradiction].
    destruct (postfix_facts T HT _ _ _ Hs) as (Hb & Ho). destruct Hwf as (Hlv & Hx).
    specialize (IHe _ (plookup (t_unary T) op) Hx). rewrite Nat.min_l in IHe by assumption.
    eapply D_post; eauto. lia.
  - destruct Hwf as (Hl & Hc & Hx & Hy).
    specialize (IHe1 _ OpCoalesce Hc). specialize (IHe2 _ OpAssign Hx). specialize (IHe3 _ OpAssign Hy).
    unfold OpCoalesce, OpAssign in *. simpl in IHe1, IHe2, IHe3.
    apply D_cond; auto. lia.
  - destruct (Nat.leb p (expr_prec T e)) eqn:E.
    + apply Nat.leb_le in E.
      assert (Hw : wf (Nat.min l p) e) by (eapply wf_raise; eauto; lia).
      specialize (IHe _ p Hw). replace (Nat.min (Nat.min l p) p) with (Nat.min l p) in IHe by lia. exact IHe.
    + apply D_group. specialize (IHe 0 OpExpr Hwf). exact IHe.
  - destruct Hwf as (Hl & Hf & Ha).
    specialize (IHe1 _ OpCall Hf). specialize (IHe2 _ OpAssign Ha).
    unfold OpCall, OpAssign in *. simpl in IHe1, IHe2.
    apply D_call; auto. lia.
  - unfold OpNew, OpMember, OpCall in *.
    destruct chain_has_call.
    + destruct Hwf as (Hl & Hx).
      destruct (Nat.leb 18 p) eqn:E.
      * specialize (IHe _ 19 Hx). simpl in IHe. apply D_dot_call; auto. lia.
      * specialize (IHe _ 17 Hx). simpl in IHe. apply D_dot_call; auto. lia.
    + destruct Hwf as (Hl & Hx).
      destruct (Nat.leb 18 p) eqn:E.
      * specialize (IHe _ 19 Hx). simpl in IHe. apply D_dot_member; auto. lia.
      * apply Nat.leb_gt in E. specialize (IHe _ 17 Hx). simpl in IHe. apply D_dot_call; auto. lia.
  - unfold OpNew, OpMember, OpCall in *.
    destruct Hwf as (Hwf & Hi). specialize (IHe2 0 OpExpr Hi). unfold OpExpr in *. simpl in IHe2.
    destruct chain_has_call.
    + destruct Hwf as (Hl & Hx).
      destruct (Nat.ltb p 18) eqn:E.
      * specialize (IHe1 _ 17 Hx). simpl in IHe1. apply D_index_call; auto. lia.
      * specialize (IHe1 _ 19 Hx). simpl in IHe1. apply D_index_call; auto. lia.
    + destruct Hwf as (Hl & Hx).
      destruct (Nat.ltb p 18) eqn:E.
      * apply Nat.ltb_lt in E. specialize (IHe1 _ 17 Hx). simpl in IHe1. apply D_index_call; auto. lia.
      * specialize (IHe1 _ 19 Hx). simpl in IHe1. apply D_index_member; auto. lia.
  - pose proof (const_facts T HT k) as Hg.
    destruct (Nat.ltb_spec (const_guard T k) p) as [Hlt|Hge].
    + apply D_group. apply (D_weaken (const_level k)); [lia|apply const_level_derives].
    + apply (D_weaken (const_level k)); [lia|apply const_level_derives].
Qed.

(* whole expressions (statement level: printed at OpExpr) *)
Corollary print_derives_top : forall T e, prec_tables_ok T = true -> wf 0 e -> D 0 (print T 0 e) (strip T 0 e).
Proof. intros T e HT Hwf. exact (print_derives T HT e 0 0 Hwf). Qed.

(* the maps of the current source: T_gen (Js/PrintGen.v) *)
Example js_prec_tables_ok : prec_tables_ok T_gen = true.
Proof. vm_compute. reflexivity. Qed.

(* the re-association the relaxed spec_right of && and || permits does not change the value: short-circuit operators
   are associative (evaluation order of the operands is the token order in both readings) *)
Section Assoc.
  Variable V : Type.
  Variable truthy : V -> bool.
  Definition and_v (a b : V) : V := if truthy a then b else a.
  Definition or_v (a b : V) : V := if truthy a then a else b.
  Lemma and_assoc a b c : and_v (and_v a b) c = and_v a (and_v b c).
  Proof. unfold and_v. destruct (truthy a) eqn:Ea; [reflexivity|]. rewrite Ea. reflexivity. Qed.
  Lemma or_assoc a b c : or_v (or_v a b) c = or_v a (or_v b c).
  Proof. unfold or_v. destruct (truthy a) eqn:Ea; [rewrite Ea; reflexivity|reflexivity]. Qed.
End Assoc.

(* stripping is idempotent on its own output at the same level: printing the re-parsed tree drops nothing more.
   With the constant replacements the re-parsed tree contains !0 / 0[0] / 1/0 where the source had an atom, so the level
   of a stripped tree can be lower than that of the source tree (never higher), and the stability of the parentheses
   written around a replacement needs the guard to be at least the printer's own level of the replacement tree. *)
Lemma index_of_lt : forall s l n, index_of s l = Some n -> n < List.length l.
Proof.
  intros s l. induction l as [|x r IH]; intros n H; cbn [index_of] in H; [discriminate|].
  destruct (String.eqb x s).
  - inversion H. cbn [List.length]. lia.
  - destruct (index_of s r) as [m|]; [|discriminate]. inversion H. cbn [List.length]. specialize (IH m eq_refl). lia.
Qed.
Lemma prec_of_name_le : forall s, prec_of_name s <= OpPrimary.
Proof.
  intros s. unfold prec_of_name. destruct (index_of s op_prec_names) as [n|] eqn:E; [|unfold OpPrimary; lia].
  apply index_of_lt in E. unfold op_prec_names in E. cbn [List.length] in E. unfold OpPrimary. lia.
Qed.
Lemma plookup_le : forall m k, plookup m k <= OpPrimary.
Proof.
  induction m as [|[k' v] r IH]; intros k; cbn [plookup]; [unfold OpPrimary; lia|].
  destruct (String.eqb k' k); [apply prec_of_name_le|apply IH].
Qed.

Lemma const_self_prec_eq : forall T k, expr_prec T (const_expr k) = const_self_prec T k.
Proof. destruct k; reflexivity. Qed.
Lemma print_const_expr : forall T k q, print T q (const_expr k) = const_tokens k.
Proof. destruct k; reflexivity. Qed.

Lemma expr_prec_strip : forall T e q, expr_prec T (strip T q e) <= expr_prec T e.
Proof.
  intros T e. induction e; intros q; cbn [strip expr_prec]; auto.
  - destruct (Nat.leb q (expr_prec T e)); cbn [expr_prec]; auto.
  - assert (H : expr_prec T (const_expr k) <= OpPrimary).
    { rewrite const_self_prec_eq. destruct k; cbn [const_self_prec]; try apply plookup_le. unfold OpMember, OpPrimary; lia. }
    destruct (Nat.ltb (const_guard T k) q); cbn [expr_prec]; exact H.
Qed.

Lemma consts_exact_facts : forall T, consts_exact T = true -> forall k, const_guard T k = expr_prec T (const_expr k).
Proof.
  intros T HT k. unfold consts_exact in HT. rewrite forallb_forall in HT.
  assert (Hin : In k all_consts) by (destruct k; unfold all_consts; simpl; auto).
  specialize (HT k Hin). apply Nat.eqb_eq in HT. rewrite const_self_prec_eq. exact HT.
Qed.

(* what stability needs of the tables: the printer's own level of each replacement tree is at most its guard *)
Theorem strip_print_stable_le : forall T, (forall k, expr_prec T (const_expr k) <= const_guard T k) ->
  forall e p, print T p (strip T p e) = print T p e.
Proof.
  intros T HT e. induction e; intros p; cbn [strip print].
  - reflexivity.
  - rewrite IHe1, IHe2. reflexivity.
  - rewrite IHe. reflexivity.
  - rewrite IHe. reflexivity.
  - rewrite IHe1, IHe2, IHe3. reflexivity.
  - destruct (Nat.leb p (expr_prec T e)) eqn:E.
    + apply IHe.
    + cbn [print]. apply Nat.leb_gt in E. pose proof (expr_prec_strip T e OpExpr) as Hs.
      replace (Nat.leb p (expr_prec T (strip T OpExpr e))) with false by (symmetry; apply Nat.leb_gt; lia).
      rewrite IHe. reflexivity.
  - rewrite IHe1, IHe2. reflexivity.
  - rewrite IHe. reflexivity.
  - rewrite IHe1, IHe2. reflexivity.
  - destruct (Nat.ltb_spec (const_guard T k) p) as [Hlt|Hge].
    + cbn [print]. specialize (HT k).
      replace (Nat.leb p (expr_prec T (const_expr k))) with false by (symmetry; apply Nat.leb_gt; lia).
      rewrite print_const_expr. reflexivity.
    + apply print_const_expr.
Qed.

Theorem strip_print_stable : forall T, consts_exact T = true -> forall e p, print T p (strip T p e) = print T p e.
Proof.
  intros T HT. apply strip_print_stable_le. intros k. rewrite (consts_exact_facts T HT k). apply Nat.le_refl.
Qed.

(* the hypothesis is needed: with the guard of `true` one level below the printer's level of !0, the parentheses the
   printer writes at p = OpUnary are dropped when its output is printed again (the re-printed text is still a correct
   rendering — the first one was over-parenthesised — but it is not a fixed point) *)
Example strip_print_unstable :
  let T := {| t_unary := t_unary T_gen; t_left := t_left T_gen; t_right := t_right T_gen; t_unop := t_unop T_gen;
              t_binop := t_binop T_gen; t_const := [("true", "OpExp"); ("false", "OpUnary"); ("undefined", "OpMember"); ("Infinity", "OpMul")] |} in
  prec_tables_ok T = true /\ consts_exact T = false /\
  print T OpUnary (EConst CTrue) = [TL; TOp "NotToken"; TAtom "0"; TR] /\
  print T OpUnary (strip T OpUnary (EConst CTrue)) = [TOp "NotToken"; TAtom "0"].
Proof. vm_compute. auto. Qed.

(* non-vacuity: (a+b)*(c*d) keeps the first pair of parentheses and the second (right operand of * at the same level) *)
Example print_example :
  print T_gen 0 (EBin "MulToken" (EGroup (EBin "AddToken" (EAtom "a") (EAtom "b"))) (EGroup (EBin "MulToken" (EAtom "c") (EAtom "d")))) =
  [TL; TAtom "a"; TOp "AddToken"; TAtom "b"; TR; TOp "MulToken"; TL; TAtom "c"; TOp "MulToken"; TAtom "d"; TR] /\
  print T_gen 0 (EBin "AddToken" (EGroup (EBin "MulToken" (EAtom "a") (EAtom "b"))) (EAtom "c")) =
  [TAtom "a"; TOp "MulToken"; TAtom "b"; TOp "AddToken"; TAtom "c"].
Proof. vm_compute. auto. Qed.

(* the constants: -true keeps !0 bare, true**2 and true.x parenthesise it; undefined under a call *)
Example print_const_example :
  print T_gen 0 (EPre "NegToken" (EConst CTrue)) = [TOp "NegToken"; TOp "NotToken"; TAtom "0"] /\
  print T_gen 0 (EBin "ExpToken" (EConst CTrue) (EAtom "2")) = [TL; TOp "NotToken"; TAtom "0"; TR; TOp "ExpToken"; TAtom "2"] /\
  print T_gen 0 (EDot (EConst CFalse) "x" false) = [TL; TOp "NotToken"; TAtom "1"; TR; TDot; TAtom "x"] /\
  print T_gen 0 (EBin "MulToken" (EAtom "a") (EConst CInfinity)) = [TAtom "a"; TOp "MulToken"; TL; TAtom "1"; TOp "DivToken"; TAtom "0"; TR] /\
  print T_gen 0 (EBin "MulToken" (EConst CInfinity) (EAtom "a")) = [TAtom "1"; TOp "DivToken"; TAtom "0"; TOp "MulToken"; TAtom "a"] /\
  print T_gen 0 (ECall (EConst CUndefined) (EAtom "a")) = [TAtom "0"; TLB; TAtom "0"; TRB; TL; TAtom "a"; TR].
Proof. vm_compute. repeat split. Qed.

Print Assumptions print_derives.
Print Assumptions strip_print_stable.
