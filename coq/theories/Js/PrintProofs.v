(* Js/PrintProofs.v — the printer's parenthesis decisions are sound: for every AST a conforming parser can produce, the
   printed tokens derive — in the ECMA-262 expression grammar with ITS OWN precedence tables — the same tree with exactly
   the dropped groups removed.  The only facts used about the minifier's maps are the inequalities of prec_tables_ok,
   which is re-checked on the maps regenerated from the source on every run. *)
From Coq Require Import List String Arith Bool Lia.
Import ListNotations.
From MVGen Require Import JsTables_gen.
From MV Require Import Js.PrintModel Js.PrintSpec Js.PrintGen.
Local Open Scope string_scope.

(* derivability at a level implies derivability at every lower level *)
Lemma D_weaken : forall l l' ts e, l' <= l -> D l ts e -> D l' ts e.
Proof.
  intros l l' ts e Hle HD. revert l' Hle.
  induction HD; intros l' Hle.
  - apply D_atom.
  - apply D_group; assumption.
  - eapply D_bin; eauto; lia.
  - eapply D_pre; eauto; lia.
  - eapply D_post; eauto; lia.
  - apply D_cond; auto; lia.
  - apply D_call; auto; lia.
  - apply D_dot_call; auto; lia.
  - apply D_dot_member; auto; lia.
  - apply D_index_call; auto; lia.
  - apply D_index_member; auto; lia.
Qed.

(* ---------- helper lemmas ---------- *)
Lemma slookup_In : forall A (l : list (string * A)) k v, slookup l k = Some v -> In (k, v) l.
Proof.
  induction l as [|[k' v'] r IH]; simpl; intros k v H; [discriminate|].
  destruct (String.eqb k' k) eqn:E.
  - apply String.eqb_eq in E. inversion H; subst. left; reflexivity.
  - right; auto.
Qed.
Local Arguments slookup : simpl never.

Lemma binary_facts : forall T, prec_tables_ok T = true -> forall op lv lf rt,
  slookup spec_binary op = Some (lv, lf, rt) ->
  plookup (t_binop T) op <= lv /\ lf <= plookup (t_left T) op /\ rt <= plookup (t_right T) op.
Proof.
  intros T HT op lv lf rt Hs. unfold prec_tables_ok in HT.
  apply andb_true_iff in HT; destruct HT as [HT _]. apply andb_true_iff in HT; destruct HT as [HT _].
  rewrite forallb_forall in HT. specialize (HT _ (slookup_In _ _ _ _ Hs)). unfold binary_ok in HT.
  repeat (apply andb_true_iff in HT; destruct HT as [HT ?]).
  repeat match goal with H : Nat.leb _ _ = true |- _ => apply Nat.leb_le in H end. auto.
Qed.

Lemma prefix_facts : forall T, prec_tables_ok T = true -> forall op lv ol,
  slookup spec_prefix op = Some (lv, ol) ->
  plookup (t_unop T) op <= lv /\ ol <= plookup (t_unary T) op.
Proof.
  intros T HT op lv ol Hs. unfold prec_tables_ok in HT.
  apply andb_true_iff in HT; destruct HT as [HT _]. apply andb_true_iff in HT; destruct HT as [_ HT].
  rewrite forallb_forall in HT. specialize (HT _ (slookup_In _ _ _ _ Hs)). unfold unary_ok in HT.
  repeat (apply andb_true_iff in HT; destruct HT as [HT ?]).
  repeat match goal with H : Nat.leb _ _ = true |- _ => apply Nat.leb_le in H end. auto.
Qed.

Lemma postfix_facts : forall T, prec_tables_ok T = true -> forall op lv ol,
  slookup spec_postfix op = Some (lv, ol) ->
  plookup (t_unop T) op <= lv /\ ol <= plookup (t_unary T) op.
Proof.
  intros T HT op lv ol Hs. unfold prec_tables_ok in HT.
  apply andb_true_iff in HT; destruct HT as [_ HT].
  rewrite forallb_forall in HT. specialize (HT _ (slookup_In _ _ _ _ Hs)). unfold unary_ok in HT.
  repeat (apply andb_true_iff in HT; destruct HT as [HT ?]).
  repeat match goal with H : Nat.leb _ _ = true |- _ => apply Nat.leb_le in H end. auto.
Qed.

(* a tree that is well-formed at some level is well-formed at every level up to the printer's own level for it *)
Lemma wf_raise : forall T, prec_tables_ok T = true ->
  forall e l0 l, wf l0 e -> l <= expr_prec T e -> wf l e.
Proof.
  intros T HT e l0 l Hwf Hle. destruct e; simpl in *.
  - exact I.
  - destruct (slookup spec_binary op) as [[[lv lf] rt]|] eqn:Hs; [|contradiction].
    destruct (binary_facts T HT _ _ _ _ Hs) as (Hb & _ & _). destruct Hwf as (_ & ? & ?). repeat split; auto; lia.
  - destruct (slookup spec_prefix op) as [[lv ol]|] eqn:Hs; [|contradiction].
    destruct (prefix_facts T HT _ _ _ Hs) as (Hb & _). destruct Hwf as (_ & ?). split; auto; lia.
  - destruct (slookup spec_postfix op) as [[lv ol]|] eqn:Hs; [|contradiction].
    destruct (postfix_facts T HT _ _ _ Hs) as (Hb & _). destruct Hwf as (_ & ?). split; auto; lia.
  - unfold OpAssign in Hle. destruct Hwf as (_ & ? & ? & ?). repeat split; auto.
  - exact Hwf.
  - unfold OpCall in Hle. destruct Hwf as (_ & ? & ?). repeat split; auto.
  - destruct chain_has_call; unfold OpCall, OpMember in Hle; destruct Hwf as (_ & ?); split; auto.
  - destruct Hwf as (Hwf & Hi). split; auto.
    destruct chain_has_call; unfold OpCall, OpMember in Hle; destruct Hwf as (_ & ?); split; auto.
Qed.

(* MAIN THEOREM *)
Theorem print_derives : forall T, prec_tables_ok T = true ->
  forall e l p, wf l e -> D (Nat.min l p) (print T p e) (strip T p e).
Proof.
  intros T HT e. induction e; intros l p Hwf; cbn [wf print strip] in *.
  - apply D_atom.
  - destruct (slookup spec_binary op) as [[[lv lf] rt]|] eqn:Hs; [|contradiction].
    destruct (binary_facts T HT _ _ _ _ Hs) as (Hb & Hl & Hr). destruct Hwf as (Hlv & Hx & Hy).
    specialize (IHe1 _ (plookup (t_left T) op) Hx). specialize (IHe2 _ (plookup (t_right T) op) Hy).
    rewrite Nat.min_l in IHe1 by assumption. rewrite Nat.min_l in IHe2 by assumption.
    eapply D_bin; eauto. lia.
  - destruct (slookup spec_prefix op) as [[lv ol]|] eqn:Hs; [|contradiction].
    destruct (prefix_facts T HT _ _ _ Hs) as (Hb & Ho). destruct Hwf as (Hlv & Hx).
    specialize (IHe _ (plookup (t_unary T) op) Hx). rewrite Nat.min_l in IHe by assumption.
    eapply D_pre; eauto. lia.
  - destruct (slookup spec_postfix op) as [[lv ol]|] eqn:Hs; [|contradiction].
    destruct (postfix_facts T HT _ _ _ Hs) as (Hb & Ho). destruct Hwf as (Hlv & Hx).
    specialize (IHe _ (plookup (t_unary T) op) Hx). rewrite Nat.min_l in IHe by assumption.
    eapply D_post; eauto. lia.
  - destruct Hwf as (Hl & Hc & Hx & Hy).
    specialize (IHe1 _ OpCoalesce Hc). specialize (IHe2 _ OpAssign Hx). specialize (IHe3 _ OpAssign Hy).
    unfold OpCoalesce, OpAssign in *. simpl in IHe1, IHe2, IHe3.
    apply D_cond; auto. lia.
  - destruct (Nat.leb p (expr_prec T e)) eqn:E.
    + apply Nat.leb_le in E.
      assert (Hw : wf (Nat.min l p) e) by (eapply wf_raise; eauto; lia).
      specialize (IHe _ p Hw). replace (Nat.min (Nat.min l p) p) with (Nat.min l p) in IHe by lia. exact IHe.
    + apply D_group. specialize (IHe 0 OpExpr Hwf). exact IHe.
  - destruct Hwf as (Hl & Hf & Ha).
    specialize (IHe1 _ OpCall Hf). specialize (IHe2 _ OpAssign Ha).
    unfold OpCall, OpAssign in *. simpl in IHe1, IHe2.
    apply D_call; auto. lia.
  - unfold OpNew, OpMember, OpCall in *.
    destruct chain_has_call.
    + destruct Hwf as (Hl & Hx).
      destruct (Nat.leb 18 p) eqn:E.
      * specialize (IHe _ 19 Hx). simpl in IHe. apply D_dot_call; auto. lia.
      * specialize (IHe _ 17 Hx). simpl in IHe. apply D_dot_call; auto. lia.
    + destruct Hwf as (Hl & Hx).
      destruct (Nat.leb 18 p) eqn:E.
      * specialize (IHe _ 19 Hx). simpl in IHe. apply D_dot_member; auto. lia.
      * apply Nat.leb_gt in E. specialize (IHe _ 17 Hx). simpl in IHe. apply D_dot_call; auto. lia.
  - unfold OpNew, OpMember, OpCall in *.
    destruct Hwf as (Hwf & Hi). specialize (IHe2 0 OpExpr Hi). unfold OpExpr in *. simpl in IHe2.
    destruct chain_has_call.
    + destruct Hwf as (Hl & Hx).
      destruct (Nat.ltb p 18) eqn:E.
      * specialize (IHe1 _ 17 Hx). simpl in IHe1. apply D_index_call; auto. lia.
      * specialize (IHe1 _ 19 Hx). simpl in IHe1. apply D_index_call; auto. lia.
    + destruct Hwf as (Hl & Hx).
      destruct (Nat.ltb p 18) eqn:E.
      * apply Nat.ltb_lt in E. specialize (IHe1 _ 17 Hx). simpl in IHe1. apply D_index_call; auto. lia.
      * specialize (IHe1 _ 19 Hx). simpl in IHe1. apply D_index_member; auto. lia.
Qed.

(* whole expressions (statement level: printed at OpExpr) *)
Corollary print_derives_top : forall T e, prec_tables_ok T = true -> wf 0 e -> D 0 (print T 0 e) (strip T 0 e).
Proof. intros T e HT Hwf. exact (print_derives T HT e 0 0 Hwf). Qed.

(* the maps of the current source: T_gen (Js/PrintGen.v) *)
Example js_prec_tables_ok : prec_tables_ok T_gen = true.
Proof. vm_compute. reflexivity. Qed.

(* the re-association the relaxed spec_right of && and || permits does not change the value: short-circuit operators
   are associative (evaluation order of the operands is the token order in both readings) *)
Section Assoc.
  Variable V : Type.
  Variable truthy : V -> bool.
  Definition and_v (a b : V) : V := if truthy a then b else a.
  Definition or_v (a b : V) : V := if truthy a then a else b.
  Lemma and_assoc a b c : and_v (and_v a b) c = and_v a (and_v b c).
  Proof. unfold and_v. destruct (truthy a) eqn:Ea; [reflexivity|]. rewrite Ea. reflexivity. Qed.
  Lemma or_assoc a b c : or_v (or_v a b) c = or_v a (or_v b c).
  Proof. unfold or_v. destruct (truthy a) eqn:Ea; [rewrite Ea; reflexivity|reflexivity]. Qed.
End Assoc.

(* stripping is idempotent on its own output at the same level: printing the re-parsed tree drops nothing more *)
Lemma expr_prec_strip : forall T e q, expr_prec T (strip T q e) = expr_prec T e.
Proof.
  intros T e. induction e; intros q; simpl; auto.
  destruct (Nat.leb q (expr_prec T e)); simpl; auto.
Qed.

Theorem strip_print_stable : forall T e p, print T p (strip T p e) = print T p e.
Proof.
  intros T e. induction e; intros p; simpl.
  - reflexivity.
  - rewrite IHe1, IHe2. reflexivity.
  - rewrite IHe. reflexivity.
  - rewrite IHe. reflexivity.
  - rewrite IHe1, IHe2, IHe3. reflexivity.
  - destruct (Nat.leb p (expr_prec T e)) eqn:E.
    + apply IHe.
    + simpl. rewrite expr_prec_strip, E, IHe. reflexivity.
  - rewrite IHe1, IHe2. reflexivity.
  - rewrite IHe. reflexivity.
  - rewrite IHe1, IHe2. reflexivity.
Qed.

(* non-vacuity: (a+b)*(c*d) keeps the first pair of parentheses and the second (right operand of * at the same level) *)
Example print_example :
  print T_gen 0 (EBin "MulToken" (EGroup (EBin "AddToken" (EAtom "a") (EAtom "b"))) (EGroup (EBin "MulToken" (EAtom "c") (EAtom "d")))) =
  [TL; TAtom "a"; TOp "AddToken"; TAtom "b"; TR; TOp "MulToken"; TL; TAtom "c"; TOp "MulToken"; TAtom "d"; TR] /\
  print T_gen 0 (EBin "AddToken" (EGroup (EBin "MulToken" (EAtom "a") (EAtom "b"))) (EAtom "c")) =
  [TAtom "a"; TOp "MulToken"; TAtom "b"; TOp "AddToken"; TAtom "c"].
Proof. vm_compute. auto. Qed.
