(* Js/PrintRender.v — F2 model of how the expression printer of /repo/js/js.go turns its tokens into bytes (jsMinifier.write with
   the needsSpace / spaceBefore flags; writeSpaceBeforeIdent after word operators; writeSpaceBefore('+' '-' '/') after the
   operators + - / (binary and unary) so that `a + +b`, `a - --b`, `a / /re/` do not fuse; the space before `>` after `--`;
   the `<!--` guard after `<` `!`), and the specification side: a maximal-munch lexer for the punctuators, identifiers and
   numbers of the operator fragment.  The theorem (Js/PrintRenderProofs.v): lexing the rendered bytes gives back exactly the
   token surfaces — no two tokens fuse into another token, no token splits.
   No proofs in this file; the rendering is extracted and compared byte for byte with the real js.Minify. *)
From Coq Require Import List String Ascii Arith Bool ZArith.
Import ListNotations.
From MV Require Import Base.MvBytes Js.PrintModel.
Local Open Scope Z_scope.

(* ---------- surfaces ---------- *)
Fixpoint bytes_of_string (s : string) : bytes :=
  match s with EmptyString => [] | String c r => Z.of_nat (nat_of_ascii c) :: bytes_of_string r end.

Definition op_surface (name : string) : bytes :=
  bytes_of_string
    (if String.eqb name "EqToken" then "=" else if String.eqb name "AddEqToken" then "+=" else if String.eqb name "SubEqToken" then "-="
     else if String.eqb name "MulEqToken" then "*=" else if String.eqb name "DivEqToken" then "/=" else if String.eqb name "ModEqToken" then "%="
     else if String.eqb name "ExpEqToken" then "**=" else if String.eqb name "LtLtEqToken" then "<<=" else if String.eqb name "GtGtEqToken" then ">>="
     else if String.eqb name "GtGtGtEqToken" then ">>>=" else if String.eqb name "BitAndEqToken" then "&=" else if String.eqb name "BitXorEqToken" then "^="
     else if String.eqb name "BitOrEqToken" then "|=" else if String.eqb name "AndEqToken" then "&&=" else if String.eqb name "OrEqToken" then "||="
     else if String.eqb name "NullishEqToken" then "??=" else if String.eqb name "CommaToken" then "," else if String.eqb name "NullishToken" then "??"
     else if String.eqb name "OrToken" then "||" else if String.eqb name "AndToken" then "&&" else if String.eqb name "BitOrToken" then "|"
     else if String.eqb name "BitXorToken" then "^" else if String.eqb name "BitAndToken" then "&" else if String.eqb name "EqEqToken" then "=="
     else if String.eqb name "NotEqToken" then "!=" else if String.eqb name "EqEqEqToken" then "===" else if String.eqb name "NotEqEqToken" then "!=="
     else if String.eqb name "LtToken" then "<" else if String.eqb name "LtEqToken" then "<=" else if String.eqb name "GtToken" then ">"
     else if String.eqb name "GtEqToken" then ">=" else if String.eqb name "LtLtToken" then "<<" else if String.eqb name "GtGtToken" then ">>"
     else if String.eqb name "GtGtGtToken" then ">>>" else if String.eqb name "AddToken" then "+" else if String.eqb name "SubToken" then "-"
     else if String.eqb name "MulToken" then "*" else if String.eqb name "DivToken" then "/" else if String.eqb name "ModToken" then "%"
     else if String.eqb name "ExpToken" then "**" else if String.eqb name "BitNotToken" then "~" else if String.eqb name "TypeofToken" then "typeof"
     else if String.eqb name "PosToken" then "+" else if String.eqb name "NegToken" then "-" else if String.eqb name "PreIncrToken" then "++"
     else if String.eqb name "PreDecrToken" then "--" else if String.eqb name "PostIncrToken" then "++" else if String.eqb name "PostDecrToken" then "--"
     else if String.eqb name "NotToken" then "!" else if String.eqb name "VoidToken" then "void" else if String.eqb name "DeleteToken" then "delete"
     else if String.eqb name "InToken" then "in" else if String.eqb name "InstanceofToken" then "instanceof"
     else "?").

Definition tok_surface (t : tok) : bytes :=
  match t with
  | TAtom s => bytes_of_string s
  | TOp n => op_surface n
  | TQ => [63] | TColon => [58] | TL => [40] | TR => [41] | TLB => [91] | TRB => [93] | TDot => [46]
  end.

(* ---------- the writer ---------- *)
Definition is_ident_byte (c : byte) : bool :=        (* js.IsIdentifierContinue on ASCII: letters, digits, $ _ \ *)
  ((48 <=? c) && (c <=? 57)) || ((65 <=? c) && (c <=? 90)) || ((97 <=? c) && (c <=? 122)) || (c =? 36) || (c =? 95) || (c =? 92).

Record wstate := { w_out : bytes; w_last : byte; w_needs_space : bool; w_space_before : byte }.
Definition w_init : wstate := {| w_out := []; w_last := 0; w_needs_space := false; w_space_before := 0 |}.

(* jsMinifier.write *)
Definition write (b : bytes) (s : wstate) : wstate :=
  match b with
  | [] => s
  | c :: _ =>
    let sp := (w_needs_space s && is_ident_byte c) || (w_space_before s =? c) in
    {| w_out := w_out s ++ (if sp then [32] else []) ++ b; w_last := last b 0; w_needs_space := false; w_space_before := 0 |}
  end.
Definition set_needs_space (s : wstate) : wstate :=
  {| w_out := w_out s; w_last := w_last s; w_needs_space := true; w_space_before := w_space_before s |}.
Definition set_space_before (c : byte) (s : wstate) : wstate :=
  {| w_out := w_out s; w_last := w_last s; w_needs_space := w_needs_space s; w_space_before := c |}.

Definition is_name (n m : string) : bool := String.eqb n m.

(* one token, as minifyExpr writes it *)
Definition render_tok (t : tok) (s : wstate) : wstate :=
  match t with
  | TOp n =>
      if is_name n "AddToken" || is_name n "PosToken" then set_space_before 43 (write (op_surface n) s)
      else if is_name n "SubToken" || is_name n "NegToken" then set_space_before 45 (write (op_surface n) s)
      else if is_name n "DivToken" then set_space_before 47 (write (op_surface n) s)
      else if is_name n "GtToken" then write (op_surface n) (if w_last s =? 45 then write [32] s else s)
      else if is_name n "NotToken" then
        let lt_not := w_last s =? 60 in
        let s1 := write (op_surface n) s in
        if lt_not then set_space_before 45 s1 else s1
      else if is_name n "TypeofToken" || is_name n "VoidToken" || is_name n "DeleteToken" then set_needs_space (write (op_surface n) s)
      else if is_name n "InToken" || is_name n "InstanceofToken" then
        (* writeSpaceAfterIdent (a raw space, the flags stay), the word, writeSpaceBeforeIdent *)
        let s0 := if is_ident_byte (w_last s)
                  then {| w_out := w_out s ++ [32]; w_last := w_last s; w_needs_space := w_needs_space s; w_space_before := w_space_before s |}
                  else s in
        set_needs_space (write (op_surface n) s0)
      else write (op_surface n) s
  | _ => write (tok_surface t) s
  end.
Definition render (ts : list tok) : bytes := w_out (fold_left (fun s t => render_tok t s) ts w_init).

(* ---------- the specification: a maximal-munch lexer ---------- *)
Definition punctuators : list bytes :=
  map bytes_of_string
    [">>>="; "..."; "==="; "!=="; "**="; "<<="; ">>="; ">>>"; "&&="; "||="; "??="; "=>"; "=="; "!="; "<="; ">="; "&&"; "||"; "??"; "?."; "++"; "--";
     "+="; "-="; "*="; "/="; "%="; "&="; "|="; "^="; "<<"; ">>"; "**";
     "="; "+"; "-"; "*"; "/"; "%"; "<"; ">"; "&"; "|"; "^"; "!"; "~"; "?"; ":"; "("; ")"; "["; "]"; "."; ",";
     "{"; "}"; ";"]%string.     (* the statement punctuation (Js/StmtRender.v); no expression token contains these bytes *)

Fixpoint prefix_b (p l : bytes) : bool :=
  match p, l with
  | [], _ => true
  | x :: p', y :: l' => (x =? y) && prefix_b p' l'
  | _, [] => false
  end.
Fixpoint first_punct (ps : list bytes) (l : bytes) : option bytes :=
  match ps with
  | [] => None
  | p :: r => if prefix_b p l then Some p else first_punct r l
  end.
Fixpoint span_ident (l : bytes) : bytes * bytes :=
  match l with
  | c :: r => if is_ident_byte c then let (a, b) := span_ident r in (c :: a, b) else ([], l)
  | [] => ([], [])
  end.

(* words and numbers are runs of identifier bytes; punctuators by longest match (the list is ordered longest first);
   `?.` followed by a digit is `?` then `.` (ECMA-262 lookahead), spaces separate *)
Fixpoint bytes_eqb_dec (a b : bytes) : bool :=
  match a, b with
  | [], [] => true
  | x :: a', y :: b' => (x =? y) && bytes_eqb_dec a' b'
  | _, _ => false
  end.

Fixpoint lex (fuel : nat) (l : bytes) : option (list bytes) :=
  match fuel with
  | O => match l with [] => Some [] | _ => None end
  | S k =>
    match l with
    | [] => Some []
    | c :: r =>
      if c =? 32 then lex k r
      else if is_ident_byte c then
        let (w, rest) := span_ident l in
        match lex k rest with Some ts => Some (w :: ts) | None => None end
      else
        match first_punct punctuators l with
        | Some p =>
            let p' := if bytes_eqb_dec p [63; 46] && (match skipn 2 l with d :: _ => (48 <=? d) && (d <=? 57) | [] => false end) then [63] else p in
            match lex k (skipn (length p') l) with Some ts => Some (p' :: ts) | None => None end
        | None => None
        end
    end
  end.
Definition lex_bytes (l : bytes) : option (list bytes) := lex (S (length l)) l.
