(* Js/PrintRenderProofs.v — the bytes the expression printer writes lex back to exactly its tokens: no two tokens fuse into
   another token and none splits (the spaces the writer inserts are sufficient).
   1  lexer: fuel irrelevance, step lemmas for a space, a word, a punctuator (longest match = no punctuator extends
      surface ++ next byte)
   2  writer: a token emits spaces ++ surface; the state after a token depends on the token only (except `<!`)
   3  [chain]: fusion freedom of a token list under the writer; a fusion-free list lexes back (generic part)
   4  [expr_ok] and the token classes first / last / follow / pre of the printer
   5  adjacent pairs: closed tables by vm_compute, atoms by byte-class lemmas
   6  the printer's lists are fusion free (structural induction, any tables)
   7  render_lexes_back
   8  no TDot directly after an atom starting with a digit (the gap of the spec lexer), under table conditions
   9  checks: non-vacuity, necessity of the hypotheses *)
From Coq Require Import List String Ascii Arith Bool ZArith Lia.
Import ListNotations.
From MV Require Import Base.MvBytes Js.PrintModel Js.PrintRender.
Local Open Scope Z_scope.
Local Arguments is_ident_byte : simpl never.
Local Arguments Z.eqb : simpl never.
Local Arguments Z.leb : simpl never.

(* ================================================================================================================== *)
(* 1. The lexer: fuel irrelevance and the three step lemmas (space, word, punctuator)                                  *)
(* ================================================================================================================== *)

Lemma span_ident_length l : (length (fst (span_ident l)) + length (snd (span_ident l)) = length l)%nat.
Proof.
  induction l as [|c r IH]; simpl; [reflexivity|].
  destruct (is_ident_byte c); simpl; [|reflexivity].
  destruct (span_ident r) as [a b]; simpl in *. lia.
Qed.

Lemma span_ident_head c r : is_ident_byte c = true -> (length (snd (span_ident (c :: r))) <= length r)%nat.
Proof.
  intros H. simpl. rewrite H. pose proof (span_ident_length r) as L.
  destruct (span_ident r) as [a b]; simpl in *. lia.
Qed.

Lemma first_punct_in ps l p : first_punct ps l = Some p -> In p ps.
Proof.
  induction ps as [|q r IH]; simpl; [discriminate|].
  destruct (prefix_b q l); intros H; [inversion H; auto | auto].
Qed.

Lemma punctuators_nonempty p : In p punctuators -> p <> [].
Proof.
  intros H E. subst p.
  assert (forallb (fun p => negb (beqb p [])) punctuators = true) as F by (vm_compute; reflexivity).
  rewrite forallb_forall in F. specialize (F _ H). discriminate.
Qed.

Lemma skipn_length_le {A} n (l : list A) : (length (skipn n l) <= length l - n)%nat.
Proof. rewrite skipn_length. lia. Qed.

Lemma lex_fuel : forall k l k', (length l <= k)%nat -> (length l <= k')%nat -> lex k l = lex k' l.
Proof.
  induction k as [|k IH]; intros l k' H1 H2.
  - destruct l; simpl in H1; [|lia]. destruct k'; reflexivity.
  - destruct k' as [|k'].
    + destruct l; simpl in H2; [|lia]. reflexivity.
    + destruct l as [|c r]; [reflexivity|]. simpl in H1, H2.
      cbn [lex]. destruct (c =? 32); [apply IH; lia|].
      destruct (is_ident_byte c) eqn:Hc.
      * pose proof (span_ident_head c r Hc) as L.
        destruct (span_ident (c :: r)) as [w rest]; simpl in L.
        rewrite (IH rest k') by lia. reflexivity.
      * destruct (first_punct punctuators (c :: r)) as [p|] eqn:Hp; [|reflexivity].
        match goal with |- context [skipn (length ?x) _] => set (p' := x) end.
        assert (p' <> []) as Hne.
        { unfold p'. destruct (_ && _); [discriminate|]. apply punctuators_nonempty. eapply first_punct_in; eauto. }
        assert (length (skipn (length p') (c :: r)) <= length r)%nat as L.
        { rewrite skipn_length. destruct p'; [congruence|]. simpl length. lia. }
        rewrite (IH _ k') by lia. reflexivity.
Qed.

(* the lexer with exactly enough fuel *)
Definition lexf (l : bytes) : option (list bytes) := lex (length l) l.

Lemma lex_bytes_lexf l : lex_bytes l = lexf l.
Proof. unfold lex_bytes, lexf. apply lex_fuel; lia. Qed.

Lemma lexf_nil : lexf [] = Some [].
Proof. reflexivity. Qed.

Lemma lexf_space l : lexf (32 :: l) = lexf l.
Proof. unfold lexf. simpl length. cbn [lex]. reflexivity. Qed.

Lemma lexf_spaces sp l : forallb (Z.eqb 32) sp = true -> lexf (sp ++ l) = lexf l.
Proof.
  induction sp as [|c sp IH]; cbn [forallb app]; [reflexivity|]. intros H. apply andb_true_iff in H as [H1 H2].
  apply Z.eqb_eq in H1. subst c. rewrite lexf_space. auto.
Qed.

(* --- words --- *)
Definition hd_ident (l : bytes) : bool := match l with [] => false | c :: _ => is_ident_byte c end.

Lemma span_ident_app w rest :
  forallb is_ident_byte w = true -> hd_ident rest = false -> span_ident (w ++ rest) = (w, rest).
Proof.
  intros Hw Hr. induction w as [|c w IH]; simpl in *.
  - destruct rest as [|d r]; [reflexivity|]. simpl in *. rewrite Hr. reflexivity.
  - apply andb_true_iff in Hw as [H1 H2]. rewrite H1, (IH H2). reflexivity.
Qed.

Lemma ident_not_space c : is_ident_byte c = true -> (c =? 32) = false.
Proof. unfold is_ident_byte. intros H. destruct (c =? 32) eqn:E; [|reflexivity]. apply Z.eqb_eq in E. subst c. discriminate. Qed.

Lemma lexf_word w rest :
  w <> [] -> forallb is_ident_byte w = true -> hd_ident rest = false ->
  lexf (w ++ rest) = option_map (cons w) (lexf rest).
Proof.
  intros Hne Hw Hr. destruct w as [|c w]; [congruence|].
  unfold lexf at 1. simpl length. cbn [lex app].
  simpl in Hw. apply andb_true_iff in Hw as [H1 H2].
  rewrite (ident_not_space c H1), H1.
  change (c :: w ++ rest) with ((c :: w) ++ rest).
  rewrite span_ident_app by (simpl; rewrite ?H1, ?H2; auto).
  rewrite (lex_fuel _ rest (length rest)) by (rewrite ?app_length; lia).
  fold (lexf rest). destruct (lexf rest); reflexivity.
Qed.

(* --- punctuators --- *)
Lemma prefix_b_app_l q p x : prefix_b q p = true -> prefix_b q (p ++ x) = true.
Proof.
  revert p; induction q as [|a q IH]; intros p H; [reflexivity|].
  destruct p as [|b p]; simpl in *; [discriminate|].
  apply andb_true_iff in H as [H1 H2]. rewrite H1. simpl. auto.
Qed.

Lemma prefix_b_split q p c r :
  prefix_b q (p ++ c :: r) = true -> prefix_b q p = true \/ prefix_b (p ++ [c]) q = true.
Proof.
  revert q; induction p as [|y p IH]; intros q H.
  - destruct q as [|x q]; [left; reflexivity|]. simpl in H. apply andb_true_iff in H as [H1 _].
    right. simpl. rewrite Z.eqb_sym, H1. reflexivity.
  - destruct q as [|x q]; [left; reflexivity|]. simpl in H. apply andb_true_iff in H as [H1 H2].
    destruct (IH _ H2) as [G|G]; [left|right]; simpl; rewrite ?H1, ?(Z.eqb_sym y x), ?H1; auto.
Qed.

(* some punctuator extends p ++ [c] *)
Definition punct_ext (p : bytes) (c : byte) : bool := existsb (prefix_b (p ++ [c])) punctuators.

Lemma first_punct_ext ps p c r :
  (forall q, In q ps -> prefix_b (p ++ [c]) q = false) -> first_punct ps (p ++ c :: r) = first_punct ps p.
Proof.
  induction ps as [|q ps IH]; intros H; [reflexivity|]. simpl.
  assert (prefix_b q (p ++ c :: r) = prefix_b q p) as E.
  { destruct (prefix_b q p) eqn:E1; [apply prefix_b_app_l; auto|].
    destruct (prefix_b q (p ++ c :: r)) eqn:E2; [|reflexivity].
    destruct (prefix_b_split _ _ _ _ E2) as [G|G]; [congruence|]. rewrite H in G by (left; reflexivity). discriminate. }
  rewrite E, IH; [reflexivity|]. intros; apply H; right; auto.
Qed.

(* p is a punctuator the lexer can return: the first match on its own bytes, not `?.`, not starting with an identifier
   byte or a space *)
Definition punct_okb (p : bytes) : bool :=
  match p with
  | [] => false
  | c :: _ =>
      negb (is_ident_byte c) && negb (c =? 32) && negb (bytes_eqb_dec p [63; 46]) &&
      match first_punct punctuators p with Some q => beqb q p | None => false end
  end.

Definition nofuse_punct (p : bytes) (nxt : option byte) : bool :=
  match nxt with None => true | Some c => negb (punct_ext p c) end.

Lemma skipn_app_exact {A} (p r : list A) : skipn (length p) (p ++ r) = r.
Proof. induction p; simpl; auto. Qed.

Lemma lexf_punct p rest :
  punct_okb p = true -> nofuse_punct p (hd_error rest) = true ->
  lexf (p ++ rest) = option_map (cons p) (lexf rest).
Proof.
  intros Hp Hn. destruct p as [|c p]; [discriminate|]. unfold punct_okb in Hp.
  apply andb_true_iff in Hp as [Hp H4]. apply andb_true_iff in Hp as [Hp H3]. apply andb_true_iff in Hp as [H1 H2].
  apply negb_true_iff in H1, H2, H3.
  destruct (first_punct punctuators (c :: p)) as [q|] eqn:Hq; [|discriminate]. apply beqb_eq in H4. subst q.
  assert (first_punct punctuators ((c :: p) ++ rest) = Some (c :: p)) as F.
  { destruct rest as [|d r]; [rewrite app_nil_r; exact Hq|].
    simpl in Hn. apply negb_true_iff in Hn. unfold punct_ext in Hn.
    rewrite first_punct_ext; [exact Hq|]. intros q Hin.
    destruct (prefix_b ((c :: p) ++ [d]) q) eqn:E; [|reflexivity].
    assert (existsb (prefix_b ((c :: p) ++ [d])) punctuators = true) by (apply existsb_exists; eauto). congruence. }
  unfold lexf at 1. rewrite app_length. simpl length. cbn [lex app plus].
  rewrite H2, H1. change (c :: p ++ rest) with ((c :: p) ++ rest). rewrite F, H3. cbn [andb].
  rewrite skipn_app_exact.
  rewrite (lex_fuel _ rest (length rest)) by lia.
  fold (lexf rest). destruct (lexf rest); reflexivity.
Qed.

(* --- one token surface, either kind --- *)
Definition word_b (w : bytes) : bool := negb (beqb w []) && forallb is_ident_byte w.
Definition surf_okb (a : bytes) : bool := word_b a || punct_okb a.
Definition nofuse (a : bytes) (nxt : option byte) : bool :=
  if hd_ident a then match nxt with None => true | Some c => negb (is_ident_byte c) end
  else nofuse_punct a nxt.

Lemma word_b_hd a : word_b a = true -> hd_ident a = true.
Proof. unfold word_b. destruct a as [|c a]; simpl; [discriminate|]. intros H. apply andb_true_iff in H as [H _]. exact H. Qed.
Lemma punct_okb_hd a : punct_okb a = true -> hd_ident a = false.
Proof.
  unfold punct_okb. destruct a as [|c a]; simpl; [reflexivity|]. intros H.
  repeat (apply andb_true_iff in H as [H ?]). apply negb_true_iff in H. exact H.
Qed.

Lemma lexf_tok a rest :
  surf_okb a = true -> nofuse a (hd_error rest) = true -> lexf (a ++ rest) = option_map (cons a) (lexf rest).
Proof.
  unfold surf_okb, nofuse. intros H N. apply orb_true_iff in H as [H|H].
  - rewrite (word_b_hd _ H) in N. unfold word_b in H. apply andb_true_iff in H as [H1 H2].
    apply lexf_word; auto.
    + intros E. subst a. discriminate.
    + destruct rest as [|d r]; simpl in *; [reflexivity|]. apply negb_true_iff in N. exact N.
  - rewrite (punct_okb_hd _ H) in N. apply lexf_punct; auto.
Qed.

(* ================================================================================================================== *)
(* 2. The writer as a state machine over (last byte, needsSpace, spaceBefore): what one token emits                    *)
(* ================================================================================================================== *)

Definition mk (l : byte) (ns : bool) (sb : byte) : wstate :=
  {| w_out := []; w_last := l; w_needs_space := ns; w_space_before := sb |}.
Definition clear (s : wstate) : wstate := mk (w_last s) (w_needs_space s) (w_space_before s).
Definition emit (t : tok) (s : wstate) : bytes := w_out (render_tok t (clear s)).
Definition after (t : tok) (s : wstate) : wstate := clear (render_tok t s).

Ltac name_cases :=
  repeat match goal with
  | |- context [if ?b then _ else _] =>
      lazymatch b with context [is_name] => destruct b eqn:? end
  end.
Ltac if_cases :=
  repeat (match goal with
  | |- context [if ?b then _ else _] =>
      lazymatch type of b with bool => idtac | _ => fail end;
      lazymatch b with context [if _ then _ else _] => fail | _ => destruct b eqn:? end
  end; simpl).

Lemma write_split b s :
  w_out (write b s) = w_out s ++ w_out (write b (clear s)) /\ clear (write b s) = clear (write b (clear s)).
Proof.
  destruct s as [o l ns sb]. destruct b as [|c b]; simpl; [rewrite app_nil_r; auto|]. auto.
Qed.

Lemma render_tok_split t s :
  w_out (render_tok t s) = w_out s ++ emit t s /\ after t s = after t (clear s).
Proof.
  unfold emit, after.
  destruct t as [a|name| | | | | | |]; cbn [render_tok]; try apply write_split.
  name_cases.
  all: destruct s as [o l ns sb]; generalize (op_surface name) as b; intros b; destruct b as [|c b].
  all: unfold clear, mk; simpl.
  all: if_cases; simpl; rewrite <- ?app_assoc, ?app_nil_r; simpl; auto.
Qed.

(* the bytes of a token list from a state, token by token *)
Fixpoint R (s : wstate) (ts : list tok) : bytes :=
  match ts with [] => [] | t :: r => emit t s ++ R (after t s) r end.

Lemma fold_render ts : forall s,
  w_out (fold_left (fun s t => render_tok t s) ts s) = w_out s ++ R (clear s) ts.
Proof.
  induction ts as [|t r IH]; intros s; simpl; [rewrite app_nil_r; reflexivity|].
  rewrite IH. destruct (render_tok_split t s) as [A B]. rewrite A, <- app_assoc.
  f_equal. f_equal. fold (after t s). rewrite B. reflexivity.
Qed.

Lemma render_R ts : render ts = R w_init ts.
Proof. unfold render. rewrite fold_render. reflexivity. Qed.

Ltac spaces_witness :=
  first [ exists []; split; reflexivity | exists [32]; split; reflexivity
        | exists [32; 32]; split; reflexivity | exists [32; 32; 32]; split; reflexivity ].

(* a token is written as its surface after 0..3 spaces *)
Lemma emit_shape t s :
  tok_surface t <> [] -> exists sp, forallb (Z.eqb 32) sp = true /\ emit t s = sp ++ tok_surface t.
Proof.
  unfold emit. destruct s as [o l ns sb]. unfold clear, mk; simpl.
  destruct t as [a|name| | | | | | |]; cbn [render_tok tok_surface]; intros Hne.
  2: { revert Hne. generalize (op_surface name) as b; intros b Hne. destruct b as [|c b]; [congruence|].
       name_cases; simpl; if_cases; spaces_witness. }
  1: destruct (bytes_of_string a) as [|c b]; [congruence|].
  all: simpl; if_cases; spaces_witness.
Qed.

Lemma emit_nonempty t s : tok_surface t <> [] -> emit t s <> [].
Proof.
  intros H. destruct (emit_shape t s H) as (sp & _ & E). rewrite E. intros C. apply app_eq_nil in C as [_ C]. auto.
Qed.

(* the first byte a token puts out: a space, or the first byte of its surface *)
Lemma emit_hd t s :
  tok_surface t <> [] -> hd_error (emit t s) = Some 32 \/ hd_error (emit t s) = hd_error (tok_surface t).
Proof.
  intros H. destruct (emit_shape t s H) as (sp & F & E). rewrite E. destruct sp as [|c sp]; [right; reflexivity|].
  left. cbn [forallb] in F. apply andb_true_iff in F as [F _]. apply Z.eqb_eq in F. subst c. reflexivity.
Qed.

(* the state after a token does not depend on the state before it, except the `<!` guard *)
Lemma after_cases t s :
  tok_surface t <> [] -> after t s = after t w_init \/ (t = TOp "NotToken" /\ after t s = mk 33 false 45).
Proof.
  unfold after. destruct s as [o l ns sb]. unfold w_init.
  destruct t as [a|name| | | | | | |]; cbn [render_tok tok_surface]; intros Hne.
  2: { name_cases.
       all: try match goal with H : is_name ?n "NotToken" = true |- _ =>
                  unfold is_name in H; apply String.eqb_eq in H; subst n; simpl; if_cases; auto; fail end.
       all: revert Hne; generalize (op_surface name) as b; intros b Hne; (destruct b as [|c b]; [congruence|]).
       all: simpl; if_cases; auto. }
  1: destruct (bytes_of_string a) as [|c b]; [congruence|].
  all: simpl; auto.
Qed.

Lemma ident_not_45 l : is_ident_byte l = true -> (l =? 45) = false.
Proof. intros H. destruct (l =? 45) eqn:E; [|reflexivity]. apply Z.eqb_eq in E. subst l. discriminate. Qed.

(* what a token emits depends on the last byte only through its class *)
Lemma emit_last_ident t l ns sb : is_ident_byte l = true -> emit t (mk l ns sb) = emit t (mk 97 ns sb).
Proof.
  intros Hl. unfold emit, clear, mk; simpl.
  destruct t as [a|name| | | | | | |]; cbn [render_tok tok_surface]; try reflexivity.
  - destruct (bytes_of_string a); reflexivity.
  - name_cases; simpl; rewrite ?Hl, ?(ident_not_45 l Hl);
      change (is_ident_byte 97) with true; change (97 =? 45) with false.
    all: generalize (op_surface name) as b; intros b; destruct b; simpl; if_cases; reflexivity.
Qed.

(* ================================================================================================================== *)
(* 3. Fusion freedom of a token list, and the generic theorem: a fusion-free list lexes back                           *)
(* ================================================================================================================== *)

(* the byte that follows a token: the first byte the next token [u] puts out from the state the token left *)
Definition nextb (s : wstate) (u : option tok) : option byte :=
  match u with None => None | Some u => hd_error (emit u s) end.
Definition follow_of (r : list tok) (f : option tok) : option tok :=
  match r with [] => f | u :: _ => Some u end.

(* [chain s ts f]: written from state s and followed by token f (or the end), every token of ts has a lexable surface
   and does not fuse with the byte after it *)
Fixpoint chain (s : wstate) (ts : list tok) (f : option tok) : Prop :=
  match ts with
  | [] => True
  | t :: r =>
      surf_okb (tok_surface t) = true /\
      nofuse (tok_surface t) (nextb (after t s) (follow_of r f)) = true /\
      chain (after t s) r f
  end.
Fixpoint afters (s : wstate) (ts : list tok) : wstate :=
  match ts with [] => s | t :: r => afters (after t s) r end.

Lemma follow_of_app r ys f : follow_of (r ++ ys) f = follow_of r (follow_of ys f).
Proof. destruct r; reflexivity. Qed.

Lemma chain_app xs : forall s ys f,
  chain s xs (follow_of ys f) -> chain (afters s xs) ys f -> chain s (xs ++ ys) f.
Proof.
  induction xs as [|t r IH]; intros s ys f H1 H2; simpl in *; [exact H2|].
  destruct H1 as (A & B & C). rewrite follow_of_app. auto.
Qed.

Lemma afters_app xs ys s : afters s (xs ++ ys) = afters (afters s xs) ys.
Proof. revert s; induction xs; intros; simpl; auto. Qed.

Lemma surf_okb_nonempty a : surf_okb a = true -> a <> [].
Proof. intros H E. subst a. discriminate. Qed.

Lemma hd_error_app {A} (x y : list A) : x <> [] -> hd_error (x ++ y) = hd_error x.
Proof. destruct x; [congruence|reflexivity]. Qed.

Lemma chain_lex ts : forall s, chain s ts None -> lexf (R s ts) = Some (map tok_surface ts).
Proof.
  induction ts as [|t r IH]; intros s H; [reflexivity|].
  destruct H as (A & B & C). cbn [R map].
  destruct (emit_shape t s (surf_okb_nonempty _ A)) as (sp & F & E).
  rewrite E, <- app_assoc, (lexf_spaces _ _ F), lexf_tok; auto.
  - rewrite (IH _ C). reflexivity.
  - destruct r as [|u r']; [exact B|]. cbn [R]. destruct C as (A' & _ & _).
    rewrite hd_error_app by (apply emit_nonempty, surf_okb_nonempty, A'). exact B.
Qed.

Theorem chain_lexes_back ts :
  chain w_init ts None -> lex_bytes (render ts) = Some (map tok_surface ts).
Proof. intros H. rewrite lex_bytes_lexf, render_R. apply chain_lex, H. Qed.

(* ================================================================================================================== *)
(* 4. Well-formed trees and the token classes of the printer                                                           *)
(* ================================================================================================================== *)

Definition word_operator (s : string) : bool :=
  (String.eqb s "typeof" || String.eqb s "void" || String.eqb s "delete" || String.eqb s "in" || String.eqb s "instanceof")%string.

Definition bin_ops : list string :=
  ["EqToken"; "AddEqToken"; "SubEqToken"; "MulEqToken"; "DivEqToken"; "ModEqToken"; "ExpEqToken"; "LtLtEqToken"; "GtGtEqToken";
   "GtGtGtEqToken"; "BitAndEqToken"; "BitXorEqToken"; "BitOrEqToken"; "AndEqToken"; "OrEqToken"; "NullishEqToken"; "CommaToken";
   "NullishToken"; "OrToken"; "AndToken"; "BitOrToken"; "BitXorToken"; "BitAndToken"; "EqEqToken"; "NotEqToken"; "EqEqEqToken";
   "NotEqEqToken"; "LtToken"; "LtEqToken"; "GtToken"; "GtEqToken"; "LtLtToken"; "GtGtToken"; "GtGtGtToken"; "AddToken"; "SubToken";
   "MulToken"; "DivToken"; "ModToken"; "ExpToken"; "InToken"; "InstanceofToken"]%string.
Definition pre_ops : list string :=
  ["BitNotToken"; "TypeofToken"; "PosToken"; "NegToken"; "PreIncrToken"; "PreDecrToken"; "NotToken"; "VoidToken"; "DeleteToken"]%string.
Definition post_ops : list string := ["PostIncrToken"; "PostDecrToken"]%string.
Definition mem_str (s : string) (l : list string) : bool := existsb (String.eqb s) l.

(* an identifier: letters, digits, $ _ (no escapes), not starting with a digit, not one of the word operators *)
Definition ident_part (c : byte) : bool := is_ident_byte c && negb (c =? 92).
Definition ident_start (c : byte) : bool := ident_part c && negb (is_digit c).
Definition ident_okb (s : string) : bool :=
  match bytes_of_string s with [] => false | c :: r => ident_start c && forallb ident_part r end && negb (word_operator s).

Fixpoint expr_ok (e : expr) : bool :=
  match e with
  | EAtom s => ident_okb s
  | EConst _ => true
  | EGroup x => expr_ok x
  | EPre op x => mem_str op pre_ops && expr_ok x
  | EPost op x => mem_str op post_ops && expr_ok x
  | EBin op x y => mem_str op bin_ops && expr_ok x && expr_ok y
  | ECond c x y => expr_ok c && expr_ok x && expr_ok y
  | ECall f a => expr_ok f && expr_ok a
  | EDot x n _ => expr_ok x && ident_okb n
  | EIndex x i _ => expr_ok x && expr_ok i
  end.

Lemma mem_str_In s l : mem_str s l = true -> In s l.
Proof.
  unfold mem_str. intros H. apply existsb_exists in H as (x & Hin & E). apply String.eqb_eq in E. subst; auto.
Qed.

(* token classes *)
Definition word_tok (s : string) : Prop := word_b (bytes_of_string s) = true.
Definition first_list : list tok := map TOp pre_ops ++ [TL].
Definition last_list : list tok := map TOp post_ops ++ [TR; TRB].
Definition follow_list : list tok := map TOp (bin_ops ++ post_ops) ++ [TQ; TColon; TR; TRB; TL; TLB; TDot].
Definition pre_list : list tok := map TOp (bin_ops ++ pre_ops) ++ [TL; TLB; TQ; TColon].
Definition first_ok (u : tok) : Prop := In u first_list \/ exists s, u = TAtom s /\ word_tok s.
Definition last_ok (u : tok) : Prop := In u last_list \/ exists s, u = TAtom s /\ word_tok s.
Definition follow_ok (f : option tok) : Prop := match f with None => True | Some u => In u follow_list end.

Lemma ident_okb_word s : ident_okb s = true -> word_tok s.
Proof.
  unfold ident_okb, word_tok, word_b. destruct (bytes_of_string s) as [|c r]; [discriminate|]. intros H.
  apply andb_true_iff in H as [H _]. apply andb_true_iff in H as [H1 H2].
  unfold ident_start, ident_part in H1. cbn [beqb negb andb forallb].
  repeat (apply andb_true_iff in H1 as [H1 ?]). rewrite H1. cbn [andb].
  apply forallb_forall. intros x Hx. rewrite forallb_forall in H2. specialize (H2 _ Hx).
  unfold ident_part in H2. apply andb_true_iff in H2 as [H2 _]. exact H2.
Qed.

(* ================================================================================================================== *)
(* 5. Adjacent pairs: closed tables by computation, atoms by the byte-class lemmas                                     *)
(* ================================================================================================================== *)

(* no punctuator contains an identifier byte or a space *)
Lemma punct_bytes p c : In p punctuators -> In c p -> is_ident_byte c = false /\ (c =? 32) = false.
Proof.
  intros Hp Hc.
  assert (forallb (forallb (fun c => negb (is_ident_byte c) && negb (c =? 32))) punctuators = true) as F by (vm_compute; reflexivity).
  rewrite forallb_forall in F. specialize (F _ Hp). rewrite forallb_forall in F. specialize (F _ Hc).
  apply andb_true_iff in F as [F1 F2]. apply negb_true_iff in F1, F2. auto.
Qed.

Lemma prefix_b_in a c p : prefix_b (a ++ [c]) p = true -> In c p.
Proof.
  revert p; induction a as [|x a IH]; intros p H; destruct p as [|y p]; simpl in H; try discriminate.
  - apply andb_true_iff in H as [H _]. apply Z.eqb_eq in H. subst. left; reflexivity.
  - apply andb_true_iff in H as [_ H]. right. auto.
Qed.

Lemma punct_ext_none a c : is_ident_byte c = true \/ c = 32 -> punct_ext a c = false.
Proof.
  intros Hc. unfold punct_ext. destruct (existsb _ _) eqn:E; [|reflexivity].
  apply existsb_exists in E as (p & Hp & H). apply prefix_b_in in H.
  destruct (punct_bytes _ _ Hp H) as [H1 H2]. destruct Hc as [Hc|Hc]; [congruence|]. subst c. discriminate.
Qed.

Lemma nofuse_none a : nofuse a None = true.
Proof. unfold nofuse. destruct (hd_ident a); reflexivity. Qed.

Lemma nofuse_space a : nofuse a (Some 32) = true.
Proof. unfold nofuse. destruct (hd_ident a); [reflexivity|]. simpl. rewrite punct_ext_none; auto. Qed.

Lemma nofuse_punct_ident a c : hd_ident a = false -> is_ident_byte c = true -> nofuse a (Some c) = true.
Proof. intros H Hc. unfold nofuse. rewrite H. simpl. rewrite punct_ext_none; auto. Qed.

Lemma word_tok_cons w : word_tok w -> exists c b, bytes_of_string w = c :: b /\ is_ident_byte c = true /\ forallb is_ident_byte b = true.
Proof.
  unfold word_tok, word_b. destruct (bytes_of_string w) as [|c b]; [discriminate|]. cbn [beqb negb andb forallb].
  intros H. apply andb_true_iff in H as [H1 H2]. eauto.
Qed.

(* an atom after any token: the space of needsSpace if the token was a word, nothing to fuse with otherwise *)
Lemma nofuse_atom a w s :
  word_tok w -> (hd_ident a = true -> w_needs_space s = true) -> nofuse a (nextb s (Some (TAtom w))) = true.
Proof.
  intros Hw Hns. destruct (word_tok_cons _ Hw) as (c & b & E & Hc & _).
  unfold nextb, emit. cbn [render_tok tok_surface]. rewrite E. destruct s as [o l ns sb]. simpl.
  destruct (hd_ident a) eqn:Ha.
  - simpl in Hns. rewrite (Hns eq_refl), Hc. simpl. apply nofuse_space.
  - destruct (_ || _); simpl; [apply nofuse_space | apply nofuse_punct_ident; auto].
Qed.

Lemma surf_table : forallb (fun t => surf_okb (tok_surface t)) (pre_list ++ follow_list ++ first_list ++ last_list) = true.
Proof. vm_compute. reflexivity. Qed.

Lemma surf_ok_in t : In t pre_list \/ In t follow_list \/ In t first_list \/ In t last_list -> surf_okb (tok_surface t) = true.
Proof.
  intros H. pose proof surf_table as F. rewrite forallb_forall in F. apply F.
  rewrite !in_app_iff. tauto.
Qed.

Lemma surf_ok_word w : word_tok w -> surf_okb (tok_surface (TAtom w)) = true.
Proof. unfold word_tok, surf_okb. simpl. intros ->. reflexivity. Qed.

(* operator or opener, then the first token of an expression *)
Lemma pre_first_table :
  forallb (fun a => forallb (fun u => nofuse (tok_surface a) (nextb (after a w_init) (Some u))) first_list
                    && implb (hd_ident (tok_surface a)) (w_needs_space (after a w_init))) pre_list = true.
Proof. vm_compute. reflexivity. Qed.
Lemma not_first_table :
  forallb (fun u => nofuse (tok_surface (TOp "NotToken")) (nextb (mk 33 false 45) (Some u))) first_list = true.
Proof. vm_compute. reflexivity. Qed.

Lemma pre_first a u s : In a pre_list -> first_ok u -> nofuse (tok_surface a) (nextb (after a s) (Some u)) = true.
Proof.
  intros Ha Hu. pose proof pre_first_table as F. rewrite forallb_forall in F. specialize (F _ Ha).
  apply andb_true_iff in F as [F1 F2]. rewrite forallb_forall in F1.
  assert (tok_surface a <> []) as Hne by (apply surf_okb_nonempty, surf_ok_in; auto).
  destruct (after_cases a s Hne) as [E|[E1 E2]].
  - rewrite E. destruct Hu as [Hu|(w & -> & Hw)]; [apply F1, Hu|].
    apply nofuse_atom; auto. intros H. rewrite H in F2. exact F2.
  - rewrite E2. subst a. destruct Hu as [Hu|(w & -> & Hw)].
    + pose proof not_first_table as G. rewrite forallb_forall in G. apply G, Hu.
    + apply nofuse_atom; auto; discriminate.
Qed.

(* the last token of an expression, then what may follow an expression *)
Lemma last_follow_table :
  forallb (fun L => forallb (fun u => nofuse (tok_surface L) (nextb (after L w_init) (Some u))) follow_list) last_list = true.
Proof. vm_compute. reflexivity. Qed.
Lemma word_follow_table :
  forallb (fun u => match hd_error (emit u (mk 97 false 0)) with Some c => negb (is_ident_byte c) | None => false end) follow_list = true.
Proof. vm_compute. reflexivity. Qed.

Lemma last_ident (l : bytes) : l <> [] -> forallb is_ident_byte l = true -> is_ident_byte (last l 0) = true.
Proof.
  induction l as [|c r IH]; [congruence|]. intros _ H. cbn [forallb] in H. apply andb_true_iff in H as [H1 H2].
  destruct r as [|d r]; [exact H1|]. change (last (c :: d :: r) 0) with (last (d :: r) 0). apply IH; [discriminate|exact H2].
Qed.

Lemma after_atom w s : bytes_of_string w <> [] -> after (TAtom w) s = mk (last (bytes_of_string w) 0) false 0.
Proof. unfold after. cbn [render_tok tok_surface]. destruct (bytes_of_string w); [congruence|]. reflexivity. Qed.

Lemma last_follow L f s : last_ok L -> follow_ok f -> nofuse (tok_surface L) (nextb (after L s) f) = true.
Proof.
  intros HL Hf. destruct f as [u|]; [|apply nofuse_none]. simpl in Hf.
  destruct HL as [HL|(w & -> & Hw)].
  - assert (tok_surface L <> []) as Hne by (apply surf_okb_nonempty, surf_ok_in; auto).
    destruct (after_cases L s Hne) as [E|[E1 _]].
    + rewrite E. pose proof last_follow_table as F. rewrite forallb_forall in F. specialize (F _ HL).
      rewrite forallb_forall in F. apply F, Hf.
    + subst L. exfalso. simpl in HL. repeat (destruct HL as [HL|HL]; [discriminate|]). exact HL.
  - destruct (word_tok_cons _ Hw) as (c & b & E & Hc & Hb).
    rewrite after_atom by (rewrite E; discriminate).
    unfold nextb. rewrite emit_last_ident.
    2: { apply last_ident; rewrite E; [discriminate|]. cbn [forallb]. rewrite Hc, Hb. reflexivity. }
    pose proof word_follow_table as F. rewrite forallb_forall in F. specialize (F _ Hf).
    unfold nofuse. cbn [tok_surface]. rewrite E. cbn [hd_ident]. rewrite Hc.
    destruct (hd_error _); [exact F|reflexivity].
Qed.

(* ================================================================================================================== *)
(* 6. The printer's token lists are fusion free                                                                        *)
(* ================================================================================================================== *)

Definition Chain (ts : list tok) (f : option tok) : Prop := forall s, chain s ts f.
Definition hd_first (ts : list tok) : Prop := match ts with [] => False | u :: _ => first_ok u end.

Lemma hd_first_app xs ys : hd_first xs -> hd_first (xs ++ ys).
Proof. destruct xs; simpl; [intros []|auto]. Qed.

Lemma Chain_app xs ys f : Chain xs (follow_of ys f) -> Chain ys f -> Chain (xs ++ ys) f.
Proof. intros H1 H2 s. apply chain_app; auto. Qed.

Lemma Chain_pre a ys f : In a pre_list -> hd_first ys -> Chain ys f -> Chain (a :: ys) f.
Proof.
  intros Ha Hy H s. destruct ys as [|u r]; [contradiction|]. simpl in Hy.
  change (chain s (a :: u :: r) f) with
    (surf_okb (tok_surface a) = true /\ nofuse (tok_surface a) (nextb (after a s) (Some u)) = true /\ chain (after a s) (u :: r) f).
  split; [apply surf_ok_in; auto | split; [apply pre_first; auto | apply H]].
Qed.

Lemma last_ok_surf L : last_ok L -> surf_okb (tok_surface L) = true.
Proof. intros [H|(w & -> & Hw)]; [apply surf_ok_in; auto | apply surf_ok_word; auto]. Qed.

Lemma Chain_last L f : last_ok L -> follow_ok f -> Chain [L] f.
Proof. intros HL Hf s. cbn [chain]. split; [apply last_ok_surf; auto | split; [apply last_follow; auto | exact I]]. Qed.

Lemma Chain_last_cons L u r f : last_ok L -> In u follow_list -> Chain (u :: r) f -> Chain (L :: u :: r) f.
Proof. intros HL Hu H. apply (Chain_app [L] (u :: r)); [apply Chain_last; auto | exact H]. Qed.

Lemma in_follow_bin op : In op bin_ops -> In (TOp op) follow_list.
Proof. intros H. apply in_or_app. left. apply in_map, in_or_app. auto. Qed.
Lemma in_follow_post op : In op post_ops -> In (TOp op) follow_list.
Proof. intros H. apply in_or_app. left. apply in_map, in_or_app. auto. Qed.
Lemma in_pre_bin op : In op bin_ops -> In (TOp op) pre_list.
Proof. intros H. apply in_or_app. left. apply in_map, in_or_app. auto. Qed.
Lemma in_pre_pre op : In op pre_ops -> In (TOp op) pre_list.
Proof. intros H. apply in_or_app. left. apply in_map, in_or_app. auto. Qed.
Lemma in_first_pre op : In op pre_ops -> first_ok (TOp op).
Proof. intros H. left. apply in_or_app. left. apply in_map. auto. Qed.
Lemma in_last_post op : In op post_ops -> last_ok (TOp op).
Proof. intros H. left. apply in_or_app. left. apply in_map. auto. Qed.

Ltac in_tail := apply in_or_app; right; simpl; tauto.
Lemma follow_TQ : In TQ follow_list. Proof. in_tail. Qed.
Lemma follow_TColon : In TColon follow_list. Proof. in_tail. Qed.
Lemma follow_TR : In TR follow_list. Proof. in_tail. Qed.
Lemma follow_TRB : In TRB follow_list. Proof. in_tail. Qed.
Lemma follow_TL : In TL follow_list. Proof. in_tail. Qed.
Lemma follow_TLB : In TLB follow_list. Proof. in_tail. Qed.
Lemma follow_TDot : In TDot follow_list. Proof. in_tail. Qed.
Lemma follow_Div : In (TOp "DivToken") follow_list. Proof. apply in_follow_bin. simpl. tauto. Qed.
Lemma pre_TL : In TL pre_list. Proof. in_tail. Qed.
Lemma pre_TLB : In TLB pre_list. Proof. in_tail. Qed.
Lemma pre_TQ : In TQ pre_list. Proof. in_tail. Qed.
Lemma pre_TColon : In TColon pre_list. Proof. in_tail. Qed.
Lemma pre_Not : In (TOp "NotToken") pre_list. Proof. apply in_pre_pre. simpl. tauto. Qed.
Lemma pre_Div : In (TOp "DivToken") pre_list. Proof. apply in_pre_bin. simpl. tauto. Qed.
Lemma first_Not : first_ok (TOp "NotToken"). Proof. apply in_first_pre. simpl. tauto. Qed.
Lemma first_TL : first_ok TL. Proof. left. in_tail. Qed.
Lemma last_TR : last_ok TR. Proof. left. in_tail. Qed.
Lemma last_TRB : last_ok TRB. Proof. left. in_tail. Qed.
Lemma word_digit0 : word_tok "0". Proof. reflexivity. Qed.
Lemma word_digit1 : word_tok "1". Proof. reflexivity. Qed.
Lemma first_atom w : word_tok w -> first_ok (TAtom w). Proof. right; eauto. Qed.
Lemma last_atom w : word_tok w -> last_ok (TAtom w). Proof. right; eauto. Qed.

#[export] Hint Resolve follow_TQ follow_TColon follow_TR follow_TRB follow_TL follow_TLB follow_TDot follow_Div
  pre_TL pre_TLB pre_TQ pre_TColon pre_Not pre_Div first_Not first_TL last_TR last_TRB word_digit0 word_digit1 first_atom last_atom
  in_follow_bin in_follow_post in_pre_bin in_pre_pre in_first_pre in_last_post : toks.

(* `.name` *)
Lemma Chain_dot n f : word_tok n -> follow_ok f -> Chain [TDot; TAtom n] f.
Proof.
  intros Hn Hf s. cbn [chain follow_of]. split; [reflexivity|]. split.
  - apply nofuse_atom; auto; discriminate.
  - split; [apply last_ok_surf; auto with toks|]. split; [apply last_follow; auto with toks | exact I].
Qed.

Ltac chain_pre := apply Chain_pre; [auto with toks | cbn [hd_first]; auto with toks | ].
Ltac chain_last := apply Chain_last; [auto with toks | auto with toks].
Ltac chain_last_cons := apply Chain_last_cons; [auto with toks | auto with toks | ].

Lemma Chain_const k f : follow_ok f -> Chain (const_tokens k) f.
Proof.
  intros Hf. destruct k; cbn [const_tokens].
  - chain_pre. chain_last.
  - chain_pre. chain_last.
  - chain_last_cons. chain_pre. chain_last_cons. chain_last.
  - chain_last_cons. chain_pre. chain_last.
Qed.

Lemma hd_first_const k : hd_first (const_tokens k).
Proof. destruct k; cbn [const_tokens hd_first]; auto with toks. Qed.

Section PrinterPart.
  Variable T : tables.

  Lemma print_chain e : expr_ok e = true ->
    forall prec, hd_first (print T prec e) /\ (forall f, follow_ok f -> Chain (print T prec e) f).
  Proof.
    induction e as [s|op x IHx y IHy|op x IHx|op x IHx|c IHc x IHx y IHy|x IHx|g IHg a IHa|x IHx n ch|x IHx i IHi ch|k];
      cbn [expr_ok]; intros Hok prec; cbn [print].
    - (* EAtom *) apply ident_okb_word in Hok. split; [cbn [follow_ok follow_of hd_first app]; auto with toks|]. intros f Hf. apply Chain_last; auto with toks.
    - (* EBin *)
      apply andb_true_iff in Hok as [Hok Hy]. apply andb_true_iff in Hok as [Hop Hx]. apply mem_str_In in Hop.
      specialize (IHx Hx). specialize (IHy Hy). split; [apply hd_first_app, IHx|].
      intros f Hf. apply Chain_app.
      + apply IHx. cbn [follow_ok follow_of hd_first app]; auto with toks.
      + apply Chain_pre; auto with toks; apply IHy; auto.
    - (* EPre *)
      apply andb_true_iff in Hok as [Hop Hx]. apply mem_str_In in Hop. specialize (IHx Hx).
      split; [cbn [follow_ok follow_of hd_first app]; auto with toks|]. intros f Hf. apply Chain_pre; auto with toks; apply IHx; auto.
    - (* EPost *)
      apply andb_true_iff in Hok as [Hop Hx]. apply mem_str_In in Hop. specialize (IHx Hx).
      split; [apply hd_first_app, IHx|]. intros f Hf. apply Chain_app.
      + apply IHx. cbn [follow_ok follow_of hd_first app]; auto with toks.
      + apply Chain_last; auto with toks.
    - (* ECond *)
      apply andb_true_iff in Hok as [Hok Hy]. apply andb_true_iff in Hok as [Hc Hx].
      specialize (IHc Hc). specialize (IHx Hx). specialize (IHy Hy). split; [apply hd_first_app, IHc|].
      intros f Hf. apply Chain_app; [apply IHc; cbn [follow_ok follow_of hd_first app]; auto with toks|].
      apply Chain_pre; auto with toks; [apply hd_first_app, IHx|].
      apply Chain_app; [apply IHx; cbn [follow_ok follow_of hd_first app]; auto with toks|].
      apply Chain_pre; auto with toks; apply IHy; auto.
    - (* EGroup *)
      specialize (IHx Hok). destruct (Nat.leb prec (expr_prec T x)); [apply IHx|].
      split; [cbn [follow_ok follow_of hd_first app]; auto with toks|]. intros f Hf.
      apply Chain_pre; auto with toks; [apply hd_first_app, IHx|].
      apply Chain_app; [apply IHx; cbn [follow_ok follow_of hd_first app]; auto with toks|]. apply Chain_last; auto with toks.
    - (* ECall *)
      apply andb_true_iff in Hok as [Hg Ha]. specialize (IHg Hg). specialize (IHa Ha).
      split; [apply hd_first_app, IHg|]. intros f Hf.
      apply Chain_app; [apply IHg; cbn [follow_ok follow_of hd_first app]; auto with toks|].
      apply Chain_pre; auto with toks; [apply hd_first_app, IHa|].
      apply Chain_app; [apply IHa; cbn [follow_ok follow_of hd_first app]; auto with toks|]. apply Chain_last; auto with toks.
    - (* EDot *)
      apply andb_true_iff in Hok as [Hx Hn]. specialize (IHx Hx). apply ident_okb_word in Hn.
      split; [apply hd_first_app, IHx|]. intros f Hf.
      apply Chain_app; [apply IHx; cbn [follow_ok follow_of hd_first app]; auto with toks|]. apply Chain_dot; auto.
    - (* EIndex *)
      apply andb_true_iff in Hok as [Hx Hi]. specialize (IHx Hx). specialize (IHi Hi).
      split; [apply hd_first_app, IHx|]. intros f Hf.
      apply Chain_app; [apply IHx; cbn [follow_ok follow_of hd_first app]; auto with toks|].
      apply Chain_pre; auto with toks; [apply hd_first_app, IHi|].
      apply Chain_app; [apply IHi; cbn [follow_ok follow_of hd_first app]; auto with toks|]. apply Chain_last; auto with toks.
    - (* EConst *)
      destruct (Nat.ltb (const_guard T k) prec).
      + split; [cbn [follow_ok follow_of hd_first app]; auto with toks|]. intros f Hf.
        apply Chain_pre; auto with toks; [apply hd_first_app, hd_first_const|].
        apply Chain_app; [apply Chain_const; cbn [follow_ok follow_of hd_first app]; auto with toks|]. apply Chain_last; auto with toks.
      + split; [apply hd_first_const|]. intros f Hf. apply Chain_const; auto.
  Qed.
End PrinterPart.

(* ================================================================================================================== *)
(* 7. The theorem                                                                                                      *)
(* ================================================================================================================== *)

Theorem render_lexes_back : forall T prec e,
  expr_ok e = true ->
  lex_bytes (render (print T prec e)) = Some (map tok_surface (print T prec e)).
Proof.
  intros T prec e Hok. apply chain_lexes_back.
  destruct (print_chain T e Hok prec) as [_ H]. apply H. exact I.
Qed.

(* ================================================================================================================== *)
(* 8. What the specification lexer does not model: a number followed by a dot                                          *)
(* ================================================================================================================== *)
(* A JavaScript lexer reads `0.` as one number, so `!0.q` or `1/0.q` would not lex as the token list; the lexer above
   takes runs of identifier bytes and would not see it.  The printer never writes it: no TDot directly follows an atom
   that starts with a digit, provided the operand of every member access is a left-hand-side expression (what a parser
   builds) and the tables give every operator expression a level below OpCall and guard the constants !0 !1 1/0 below
   OpCall (the instance has OpUnary and OpMul). *)

Definition digit_atom (t : tok) : bool :=
  match t with TAtom s => match bytes_of_string s with c :: _ => is_digit c | [] => false end | _ => false end.
Definition is_dot (t : tok) : bool := match t with TDot => true | _ => false end.
Definition starts_dot (ts : list tok) : bool := match ts with b :: _ => is_dot b | [] => false end.
Fixpoint no_digit_dot (ts : list tok) : bool :=
  match ts with
  | a :: r => negb (digit_atom a && starts_dot r) && no_digit_dot r
  | [] => true
  end.
Definition ends_digit (ts : list tok) : bool := digit_atom (last ts TL).

Definition lhs_shape (e : expr) : bool :=
  match e with EAtom _ | ECall _ _ | EDot _ _ _ | EIndex _ _ _ | EConst _ | EGroup _ => true | _ => false end.
Fixpoint dot_ok (e : expr) : bool :=
  match e with
  | EAtom _ | EConst _ => true
  | EGroup x | EPre _ x | EPost _ x => dot_ok x
  | EBin _ x y | ECall x y | EIndex x y _ => dot_ok x && dot_ok y
  | ECond c x y => dot_ok c && dot_ok x && dot_ok y
  | EDot x _ _ => lhs_shape x && dot_ok x
  end.
Definition tables_dot_ok (T : tables) : bool :=
  forallb (fun op => Nat.ltb (plookup (t_binop T) op) OpCall) bin_ops &&
  forallb (fun op => Nat.ltb (plookup (t_unop T) op) OpCall) (pre_ops ++ post_ops) &&
  forallb (fun k => Nat.ltb (const_guard T k) OpCall) [CTrue; CFalse; CInfinity].

Lemma ndd_mid xs t ys :
  is_dot t = false -> digit_atom t = false ->
  no_digit_dot xs = true -> no_digit_dot ys = true -> no_digit_dot (xs ++ t :: ys) = true.
Proof.
  intros Hd Hg Hx Hy. induction xs as [|a r IH].
  - cbn [app no_digit_dot]. rewrite Hg, Hy. reflexivity.
  - cbn [app no_digit_dot] in *. apply andb_true_iff in Hx as [H1 H2]. rewrite (IH H2), andb_true_r.
    destruct r as [|b r']; [cbn [app starts_dot]; rewrite Hd, andb_false_r; reflexivity | exact H1].
Qed.

Lemma ndd_app xs ys :
  ends_digit xs = false -> no_digit_dot xs = true -> no_digit_dot ys = true -> no_digit_dot (xs ++ ys) = true.
Proof.
  intros He Hx Hy. induction xs as [|a r IH]; [exact Hy|].
  cbn [app no_digit_dot] in *. apply andb_true_iff in Hx as [H1 H2].
  destruct r as [|b r'].
  - unfold ends_digit in He. cbn [last] in He. cbn [app]. rewrite He, Hy. reflexivity.
  - rewrite IH; auto. rewrite andb_true_r. exact H1.
Qed.

Lemma ends_digit_snoc xs t : ends_digit (xs ++ [t]) = digit_atom t.
Proof. unfold ends_digit. rewrite last_last. reflexivity. Qed.

Lemma starts_dot_app xs ys : xs <> [] -> starts_dot (xs ++ ys) = starts_dot xs.
Proof. destruct xs; [congruence|reflexivity]. Qed.

Lemma ident_not_digit_atom s : ident_okb s = true -> digit_atom (TAtom s) = false.
Proof.
  unfold ident_okb, digit_atom. destruct (bytes_of_string s) as [|c r]; [reflexivity|]. intros H.
  apply andb_true_iff in H as [H _]. apply andb_true_iff in H as [H _]. unfold ident_start in H.
  apply andb_true_iff in H as [_ H]. apply negb_true_iff in H. exact H.
Qed.

Section DigitDot.
  Variable T : tables.
  Hypothesis HT : tables_dot_ok T = true.

  Lemma prec_lhs e : expr_ok e = true -> (OpCall <= expr_prec T e)%nat -> lhs_shape e = true.
  Proof.
    unfold tables_dot_ok in HT. apply andb_true_iff in HT as [HT' _]. apply andb_true_iff in HT' as [H1 H2].
    rewrite forallb_forall in H1, H2.
    destruct e; cbn [expr_ok expr_prec lhs_shape]; intros Hok Hp; try reflexivity; exfalso.
    - apply andb_true_iff in Hok as [Hok _]. apply andb_true_iff in Hok as [Hop _]. apply mem_str_In in Hop.
      specialize (H1 _ Hop). apply Nat.ltb_lt in H1. lia.
    - apply andb_true_iff in Hok as [Hop _]. apply mem_str_In in Hop.
      specialize (H2 op (in_or_app _ _ _ (or_introl Hop))). apply Nat.ltb_lt in H2. lia.
    - apply andb_true_iff in Hok as [Hop _]. apply mem_str_In in Hop.
      specialize (H2 op (in_or_app _ _ _ (or_intror Hop))). apply Nat.ltb_lt in H2. lia.
    - unfold OpAssign, OpCall in Hp. lia.
  Qed.

  Definition ddq (prec : nat) (e : expr) (ts : list tok) : Prop :=
    ts <> [] /\ no_digit_dot ts = true /\ starts_dot ts = false /\
    (lhs_shape e = true -> (OpCall <= prec)%nat -> ends_digit ts = false).

  Lemma app_nonempty_l {A} (xs ys : list A) : xs <> [] -> xs ++ ys <> [].
  Proof. destruct xs; [congruence|discriminate]. Qed.

  Lemma print_ddq e : expr_ok e = true -> dot_ok e = true -> forall prec, ddq prec e (print T prec e).
  Proof.
    induction e as [s|op x IHx y IHy|op x IHx|op x IHx|c IHc x IHx y IHy|x IHx|g IHg a IHa|x IHx n ch|x IHx i IHi ch|k];
      cbn [expr_ok dot_ok]; intros Hok Hdot prec; cbn [print]; unfold ddq.
    - (* EAtom *) pose proof (ident_not_digit_atom _ Hok) as D.
      split; [discriminate|]. split; [cbn [no_digit_dot starts_dot]; rewrite andb_false_r; reflexivity|]. split; [reflexivity|].
      intros _ _. exact D.
    - (* EBin *)
      apply andb_true_iff in Hok as [Hok Hy]. apply andb_true_iff in Hok as [_ Hx]. apply andb_true_iff in Hdot as [Dx Dy].
      destruct (IHx Hx Dx (plookup (t_left T) op)) as (N1 & A1 & S1 & _).
      destruct (IHy Hy Dy (plookup (t_right T) op)) as (N2 & A2 & S2 & _).
      split; [apply app_nonempty_l; auto|]. split; [apply ndd_mid; auto|]. split; [rewrite starts_dot_app; auto|discriminate].
    - (* EPre *)
      apply andb_true_iff in Hok as [_ Hx]. destruct (IHx Hx Hdot (plookup (t_unary T) op)) as (N1 & A1 & S1 & _).
      split; [discriminate|]. split; [apply (ndd_mid [] (TOp op)); auto|]. split; [reflexivity|discriminate].
    - (* EPost *)
      apply andb_true_iff in Hok as [_ Hx]. destruct (IHx Hx Hdot (plookup (t_unary T) op)) as (N1 & A1 & S1 & _).
      split; [apply app_nonempty_l; auto|]. split; [apply ndd_mid; auto|]. split; [rewrite starts_dot_app; auto|discriminate].
    - (* ECond *)
      apply andb_true_iff in Hok as [Hok Hy]. apply andb_true_iff in Hok as [Hc Hx].
      apply andb_true_iff in Hdot as [Hdot Dy]. apply andb_true_iff in Hdot as [Dc Dx].
      destruct (IHc Hc Dc OpCoalesce) as (N0 & A0 & S0 & _).
      destruct (IHx Hx Dx OpAssign) as (N1 & A1 & S1 & _).
      destruct (IHy Hy Dy OpAssign) as (N2 & A2 & S2 & _).
      split; [apply app_nonempty_l; auto|].
      split; [apply ndd_mid; auto; apply ndd_mid; auto|]. split; [rewrite starts_dot_app; auto|discriminate].
    - (* EGroup *)
      destruct (Nat.leb prec (expr_prec T x)) eqn:Hle.
      + destruct (IHx Hok Hdot prec) as (N1 & A1 & S1 & E1). repeat split; auto. intros _ Hp. apply E1; auto.
        apply prec_lhs; auto. apply Nat.leb_le in Hle. lia.
      + destruct (IHx Hok Hdot OpExpr) as (N1 & A1 & S1 & _).
        split; [discriminate|]. split; [apply (ndd_mid [] TL); auto; apply ndd_mid; auto|]. split; [reflexivity|].
        intros _ _. rewrite !app_assoc, ends_digit_snoc. reflexivity.
    - (* ECall *)
      apply andb_true_iff in Hok as [Hg Ha]. apply andb_true_iff in Hdot as [Dg Da].
      destruct (IHg Hg Dg OpCall) as (N1 & A1 & S1 & _). destruct (IHa Ha Da OpAssign) as (N2 & A2 & S2 & _).
      split; [apply app_nonempty_l; auto|]. split; [apply ndd_mid; auto; apply ndd_mid; auto|].
      split; [rewrite starts_dot_app; auto|]. intros _ _. rewrite !app_assoc, ends_digit_snoc. reflexivity.
    - (* EDot *)
      apply andb_true_iff in Hok as [Hx Hn]. apply andb_true_iff in Hdot as [Lx Dx].
      set (p := if Nat.leb OpNew prec then OpMember else OpCall).
      assert (OpCall <= p)%nat as Hp by (unfold p, OpMember, OpCall; destruct (Nat.leb OpNew prec); lia).
      destruct (IHx Hx Dx p) as (N1 & A1 & S1 & E1).
      split; [apply app_nonempty_l; auto|]. split; [apply ndd_app; [apply E1; auto | exact A1 |
                            cbn [no_digit_dot starts_dot digit_atom andb negb]; rewrite ?andb_false_r; reflexivity]|].
      split; [rewrite starts_dot_app; auto|]. intros _ _.
      change [TDot; TAtom n] with ([TDot] ++ [TAtom n]). rewrite app_assoc, ends_digit_snoc. apply ident_not_digit_atom, Hn.
    - (* EIndex *)
      apply andb_true_iff in Hok as [Hx Hi]. apply andb_true_iff in Hdot as [Dx Di].
      destruct (IHx Hx Dx (if Nat.ltb prec OpNew then OpCall else OpMember)) as (N1 & A1 & S1 & _).
      destruct (IHi Hi Di OpExpr) as (N2 & A2 & S2 & _).
      split; [apply app_nonempty_l; auto|]. split; [apply ndd_mid; auto; apply ndd_mid; auto|].
      split; [rewrite starts_dot_app; auto|]. intros _ _. rewrite !app_assoc, ends_digit_snoc. reflexivity.
    - (* EConst *)
      destruct (Nat.ltb (const_guard T k) prec) eqn:Hg.
      + split; [discriminate|]. split; [destruct k; reflexivity|]. split; [reflexivity|].
        intros _ _. rewrite !app_assoc, ends_digit_snoc. reflexivity.
      + split; [destruct k; discriminate|]. split; [destruct k; reflexivity|]. split; [destruct k; reflexivity|].
        intros _ Hp. apply Nat.ltb_ge in Hg.
        unfold tables_dot_ok in HT. apply andb_true_iff in HT as [_ H3]. rewrite forallb_forall in H3.
        destruct k; try reflexivity; exfalso.
        * specialize (H3 CTrue (or_introl eq_refl)). apply Nat.ltb_lt in H3. lia.
        * specialize (H3 CFalse (or_intror (or_introl eq_refl))). apply Nat.ltb_lt in H3. lia.
        * specialize (H3 CInfinity (or_intror (or_intror (or_introl eq_refl)))). apply Nat.ltb_lt in H3. lia.
  Qed.
End DigitDot.

Theorem print_no_digit_dot : forall T prec e,
  tables_dot_ok T = true -> expr_ok e = true -> dot_ok e = true -> no_digit_dot (print T prec e) = true.
Proof. intros T prec e HT Hok Hdot. destruct (print_ddq T HT e Hok Hdot prec) as (_ & H & _). exact H. Qed.

(* both together: the bytes lex back to the tokens, and the token list has no place where a real lexer would read on *)
Theorem render_lexes_back_strict : forall T prec e,
  tables_dot_ok T = true -> expr_ok e = true -> dot_ok e = true ->
  lex_bytes (render (print T prec e)) = Some (map tok_surface (print T prec e)) /\
  no_digit_dot (print T prec e) = true.
Proof. intros. split; [apply render_lexes_back; auto | apply print_no_digit_dot; auto]. Qed.

(* ================================================================================================================== *)
(* 9. Checks: the statement is not vacuous, and the hypotheses are needed                                              *)
(* ================================================================================================================== *)
Module Checks.
  Local Open Scope string_scope.
  Definition T0 : tables := {| t_unary := []; t_left := []; t_right := []; t_unop := []; t_binop := []; t_const := [] |}.
  Definition a := EAtom "a". Definition b := EAtom "b".
  Definition shows (e : expr) (txt : string) : Prop :=
    expr_ok e = true /\ render (print T0 0 e) = bytes_of_string txt /\
    lex_bytes (render (print T0 0 e)) = Some (map tok_surface (print T0 0 e)).

  (* the places where the writer's flags matter *)
  Example ex_add_pos : shows (EBin "AddToken" a (EPre "PosToken" b)) "a+ +b". Proof. vm_compute. auto. Qed.
  Example ex_add_incr : shows (EBin "AddToken" a (EPre "PreIncrToken" b)) "a+ ++b". Proof. vm_compute. auto. Qed.
  Example ex_sub_decr : shows (EBin "SubToken" a (EPre "PreDecrToken" b)) "a- --b". Proof. vm_compute. auto. Qed.
  Example ex_post_add_pre : shows (EBin "AddToken" (EPost "PostIncrToken" a) (EPre "PreIncrToken" b)) "a+++ ++b".
  Proof. vm_compute. auto. Qed.
  Example ex_post_post : shows (EPost "PostIncrToken" (EPost "PostIncrToken" a)) "a++++". Proof. vm_compute. auto. Qed.
  Example ex_decr_gt : shows (EBin "GtToken" (EPost "PostDecrToken" a) b) "a-- >b". Proof. vm_compute. auto. Qed.
  Example ex_lt_not_decr : shows (EBin "LtToken" a (EPre "NotToken" (EPre "PreDecrToken" b))) "a<! --b". Proof. vm_compute. auto. Qed.
  Example ex_words : shows (EBin "InToken" (EPre "TypeofToken" a) (EPre "VoidToken" (EPre "NegToken" b))) "typeof a in void-b".
  Proof. vm_compute. auto. Qed.
  Example ex_typeof_in : shows (EBin "InstanceofToken" (EConst CUndefined) (EConst CTrue)) "0[0]instanceof!0". Proof. vm_compute. auto. Qed.
  Example ex_cond_dot : shows (ECond a (EDot b "q" false) (ECall a (EIndex b a false))) "a?b.q:a(b[a])". Proof. vm_compute. auto. Qed.

  (* operator names outside their class: a binary name in prefix position fuses, and so does an unknown name
     (surface "?"); no parser builds these trees *)
  Example class_needed :
    let e := EBin "GtToken" a (EPre "GtToken" b) in
    render (print T0 0 e) = bytes_of_string "a>>b" /\
    lex_bytes (render (print T0 0 e)) = Some (map bytes_of_string ["a"; ">>"; "b"]) /\
    map tok_surface (print T0 0 e) = map bytes_of_string ["a"; ">"; ">"; "b"].
  Proof. vm_compute. auto. Qed.
  Example known_needed :
    let e := EBin "AwaitToken" a (EPre "AwaitToken" b) in
    lex_bytes (render (print T0 0 e)) = Some (map bytes_of_string ["a"; "??"; "b"]) /\
    map tok_surface (print T0 0 e) = map bytes_of_string ["a"; "?"; "?"; "b"].
  Proof. vm_compute. auto. Qed.
  (* an empty atom writes nothing and cannot come back as a token *)
  Example atom_needed :
    lex_bytes (render (print T0 0 (EAtom ""))) = Some [] /\ map tok_surface (print T0 0 (EAtom "")) = [[]].
  Proof. vm_compute. auto. Qed.

  (* the digit-dot condition on the tables is needed: with a guard of OpPrimary the printer writes 1/0.q *)
  Definition T1 : tables := {| t_unary := []; t_left := []; t_right := []; t_unop := []; t_binop := []; t_const := [("Infinity", "OpPrimary")] |}.
  Example tables_needed :
    let e := EDot (EConst CInfinity) "q" false in
    expr_ok e = true /\ dot_ok e = true /\ tables_dot_ok T1 = false /\
    render (print T1 0 e) = bytes_of_string "1/0.q" /\ no_digit_dot (print T1 0 e) = false.
  Proof. vm_compute. auto 6. Qed.
  (* with the guards of js.go (OpUnary for !0 !1, OpMul for 1/0, OpMember for 0[0]) it is parenthesised *)
  Definition T2 : tables := {| t_unary := []; t_left := []; t_right := []; t_unop := []; t_binop := [];
    t_const := [("true", "OpUnary"); ("false", "OpUnary"); ("Infinity", "OpMul"); ("undefined", "OpMember")] |}.
  Example tables_real :
    let e := EDot (EConst CInfinity) "q" false in
    tables_dot_ok T2 = true /\ render (print T2 0 e) = bytes_of_string "(1/0).q".
  Proof. vm_compute. auto. Qed.
End Checks.

Print Assumptions render_lexes_back.
Print Assumptions print_no_digit_dot.
Print Assumptions render_lexes_back_strict.
