(* Js/PrintSpec.v — the expression grammar of ECMA-262 (ed. 2022, clause 13) for the operator fragment, written as a
   level-indexed derivation relation with ITS OWN tables (transcribed from the standard, not from the minifier), the shape
   of the ASTs a conforming parser produces (wf), and the relation the minifier's precedence maps must have to these
   tables for the printer to be sound (prec_tables_ok).
   Levels are the positions in parse/js's OpPrec enumeration (PrintModel.op_prec_names); the grammar's productions:
     Expression(0): Expression , AssignmentExpression
     AssignmentExpression(1): ConditionalExpression | LeftHandSideExpression assignop AssignmentExpression
     ConditionalExpression(1): ShortCircuitExpression ? AssignmentExpression : AssignmentExpression
     CoalesceExpression(2): (CoalesceExpression | BitwiseORExpression) ?? BitwiseORExpression
     LogicalOR(3), LogicalAND(4), BitwiseOR(5), XOR(6), AND(7), Equality(8), Relational(9), Shift(10), Additive(11),
     Multiplicative(12): left-recursive binary levels
     ExponentiationExpression(13): UpdateExpression ** ExponentiationExpression
     UnaryExpression(14): (delete|void|typeof|+|-|~|!|await) UnaryExpression
     UpdateExpression(15): LeftHandSideExpression (++|--) | (++|--) UnaryExpression
     LeftHandSideExpression(16), CallExpression(17), MemberExpression(19), PrimaryExpression(20)
   One deliberate relaxation: the right operand of && and || may itself be an unparenthesised && / || chain
   (spec_right = level instead of level + 1): the minifier prints a&&(b&&c) as a&&b&&c, "changes order in AST but not in
   execution"; the semantic harmlessness of that re-association is assoc_sound in PrintProofs.v. *)
From Coq Require Import List String Arith Bool.
Import ListNotations.
From MV Require Import Js.PrintModel.
Local Open Scope string_scope.

Definition assign_ops : list string :=
  ["EqToken"; "MulEqToken"; "DivEqToken"; "ModEqToken"; "ExpEqToken"; "AddEqToken"; "SubEqToken"; "LtLtEqToken"; "GtGtEqToken";
   "GtGtGtEqToken"; "BitAndEqToken"; "BitXorEqToken"; "BitOrEqToken"; "AndEqToken"; "OrEqToken"; "NullishEqToken"].
(* (token, level, left operand level, right operand level) *)
Definition spec_binary : list (string * (nat * nat * nat)) :=
  map (fun a => (a, (1, 16, 1))) assign_ops ++
  [("CommaToken", (0, 0, 1));
   ("NullishToken", (2, 5, 5));
   ("OrToken", (3, 3, 3)); ("AndToken", (4, 4, 4));
   ("BitOrToken", (5, 5, 6)); ("BitXorToken", (6, 6, 7)); ("BitAndToken", (7, 7, 8));
   ("EqEqToken", (8, 8, 9)); ("NotEqToken", (8, 8, 9)); ("EqEqEqToken", (8, 8, 9)); ("NotEqEqToken", (8, 8, 9));
   ("LtToken", (9, 9, 10)); ("LtEqToken", (9, 9, 10)); ("GtToken", (9, 9, 10)); ("GtEqToken", (9, 9, 10));
   ("InToken", (9, 9, 10)); ("InstanceofToken", (9, 9, 10));
   ("LtLtToken", (10, 10, 11)); ("GtGtToken", (10, 10, 11)); ("GtGtGtToken", (10, 10, 11));
   ("AddToken", (11, 11, 12)); ("SubToken", (11, 11, 12));
   ("MulToken", (12, 12, 13)); ("DivToken", (12, 12, 13)); ("ModToken", (12, 12, 13));
   ("ExpToken", (13, 15, 13))].
(* (token, level of the unary expression, level of its operand) *)
Definition spec_prefix : list (string * (nat * nat)) :=
  [("NotToken", (14, 14)); ("BitNotToken", (14, 14)); ("TypeofToken", (14, 14)); ("VoidToken", (14, 14)); ("DeleteToken", (14, 14));
   ("PosToken", (14, 14)); ("NegToken", (14, 14)); ("AwaitToken", (14, 14)); ("PreIncrToken", (15, 14)); ("PreDecrToken", (15, 14))].
Definition spec_postfix : list (string * (nat * nat)) := [("PostIncrToken", (15, 16)); ("PostDecrToken", (15, 16))].

Fixpoint slookup {A} (l : list (string * A)) (k : string) : option A :=
  match l with [] => None | (k', v) :: r => if String.eqb k' k then Some v else slookup r k end.

(* ---------- derivations ---------- *)
(* D l ts e: the token list ts derives the tree e from a nonterminal of level at least l *)
Inductive D : nat -> list tok -> expr -> Prop :=
| D_atom l s : D l [TAtom s] (EAtom s)
| D_group l ts e : D 0 ts e -> D l ([TL] ++ ts ++ [TR]) (EGroup e)
| D_bin l op lv lf rt ts1 ts2 x y : slookup spec_binary op = Some (lv, lf, rt) -> l <= lv ->
    D lf ts1 x -> D rt ts2 y -> D l (ts1 ++ [TOp op] ++ ts2) (EBin op x y)
| D_pre l op lv ol ts x : slookup spec_prefix op = Some (lv, ol) -> l <= lv -> D ol ts x -> D l (TOp op :: ts) (EPre op x)
| D_post l op lv ol ts x : slookup spec_postfix op = Some (lv, ol) -> l <= lv -> D ol ts x -> D l (ts ++ [TOp op]) (EPost op x)
| D_cond l t1 t2 t3 c x y : l <= 1 -> D 2 t1 c -> D 1 t2 x -> D 1 t3 y -> D l (t1 ++ [TQ] ++ t2 ++ [TColon] ++ t3) (ECond c x y)
| D_call l tf ta f a : l <= 17 -> D 17 tf f -> D 1 ta a -> D l (tf ++ [TL] ++ ta ++ [TR]) (ECall f a)
| D_dot_call l ts x n c : l <= 17 -> D 17 ts x -> D l (ts ++ [TDot; TAtom n]) (EDot x n c)
| D_dot_member l ts x n c : l <= 19 -> D 19 ts x -> D l (ts ++ [TDot; TAtom n]) (EDot x n c)
| D_index_call l ts ti x i c : l <= 17 -> D 17 ts x -> D 0 ti i -> D l (ts ++ [TLB] ++ ti ++ [TRB]) (EIndex x i c)
| D_index_member l ts ti x i c : l <= 19 -> D 19 ts x -> D 0 ti i -> D l (ts ++ [TLB] ++ ti ++ [TRB]) (EIndex x i c).

(* ---------- the ASTs of a conforming parser: every operand is at the level its position needs, or parenthesised ---------- *)
Fixpoint wf (l : nat) (e : expr) : Prop :=
  match e with
  | EAtom _ => True
  | EGroup x => wf 0 x
  | EBin op x y => match slookup spec_binary op with
                   | Some (lv, lf, rt) => l <= lv /\ wf lf x /\ wf rt y
                   | None => False
                   end
  | EPre op x => match slookup spec_prefix op with Some (lv, ol) => l <= lv /\ wf ol x | None => False end
  | EPost op x => match slookup spec_postfix op with Some (lv, ol) => l <= lv /\ wf ol x | None => False end
  | ECond c x y => l <= 1 /\ wf 2 c /\ wf 1 x /\ wf 1 y
  | ECall f a => l <= 17 /\ wf 17 f /\ wf 1 a
  | EDot x _ c => if c then l <= 17 /\ wf 17 x else l <= 19 /\ wf 19 x
  | EIndex x i c => (if c then l <= 17 /\ wf 17 x else l <= 19 /\ wf 19 x) /\ wf 0 i
  | EConst _ => True          (* a literal / an identifier reference: PrimaryExpression *)
  end.

(* ---------- what the minifier's maps must satisfy ---------- *)
Definition binary_ok (T : tables) (e : string * (nat * nat * nat)) : bool :=
  let '(op, (lv, lf, rt)) := e in
  pmem (t_binop T) op && pmem (t_left T) op && pmem (t_right T) op &&
  Nat.leb (plookup (t_binop T) op) lv && Nat.leb lf (plookup (t_left T) op) && Nat.leb rt (plookup (t_right T) op).
Definition unary_ok (T : tables) (e : string * (nat * nat)) : bool :=
  let '(op, (lv, ol)) := e in
  pmem (t_unop T) op && pmem (t_unary T) op && Nat.leb (plookup (t_unop T) op) lv && Nat.leb ol (plookup (t_unary T) op).
(* the grammar level of the text that replaces a constant: !0 and !1 are UnaryExpressions, 0[0] is a MemberExpression,
   1/0 a MultiplicativeExpression (const_level_derives / const_level_tight in PrintProofs.v) *)
Definition const_level (k : constk) : nat :=
  match k with CTrue | CFalse => 14 | CUndefined => 19 | CInfinity => 12 end.
Definition all_consts : list constk := [CTrue; CFalse; CUndefined; CInfinity].
(* the replacement is parenthesised at every position that needs more than its grammar level: guard <= level.
   (That the replacement TEXT derives the replacement TREE at that level is a fact about the grammar alone.) *)
Definition const_ok (T : tables) (k : constk) : bool :=
  pmem (t_const T) (const_name k) && Nat.leb (const_guard T k) (const_level k).
Definition consts_ok (T : tables) : bool := forallb (const_ok T) all_consts.
Definition prec_tables_ok (T : tables) : bool :=
  forallb (binary_ok T) spec_binary && forallb (unary_ok T) spec_prefix && forallb (unary_ok T) spec_postfix && consts_ok T.

(* the guard is exactly the level the printer itself assigns to the replacement tree (exprPrec of !0, 0[0], 1/0): the
   parentheses written around a replacement are then kept when the output is printed again *)
Definition const_self_prec (T : tables) (k : constk) : nat :=
  match k with
  | CTrue | CFalse => plookup (t_unop T) "NotToken"
  | CUndefined => OpMember
  | CInfinity => plookup (t_binop T) "DivToken"
  end.
Definition consts_exact (T : tables) : bool :=
  forallb (fun k => Nat.eqb (const_guard T k) (const_self_prec T k)) all_consts.
