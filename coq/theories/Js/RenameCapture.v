(* Js/RenameCapture.v — renaming a whole program is capture-free: every use still resolves to its own declaration,
   globals stay unbound, names outside renamed scopes are untouched. *)
From MV Require Import Base.MvBytes Js.RenameModel.
From Coq Require Import Arith.

Section Capture.
  Variable start cont : bytes.
  Variable keywords : list bytes.
  Notation rename_vars := (rename_vars start cont keywords).
  Notation is_reserved := (is_reserved keywords).
  Notation rename_program := (rename_program start cont keywords).

  (* size bound: a scope declaring k variables and using a variables from outside stays within the indices for which
     getName's loop ends by its test (RenameProofs.v proves the facts below under exactly this bound) *)
  Definition small (k a : nat) : Prop :=
    Z.of_nat k * Z.of_nat (S (S (length keywords + a))) < name_bound start cont.

  (* facts about one scope (proved in RenameProofs.v for scopes below the size bound; assumed here as hypotheses so
     that this file does not depend on the arithmetic of getName; instantiated in RenameTop.v) *)
  Hypothesis rv_length : forall k avoid, length (rename_vars k avoid 0) = k.
  Hypothesis rv_distinct : forall k avoid, small k (length avoid) -> NoDup (rename_vars k avoid 0).
  Hypothesis rv_unreserved : forall k avoid, small k (length avoid) ->
    Forall (fun n => is_reserved avoid n = false) (rename_vars k avoid 0).

  Variable prog : list scope.
  Variable orig : names.            (* names in the input program *)

  Definition used_in (sc : scope) (v : nat) : Prop := In v (sdeclared sc) \/ In v (sundeclared sc).

  (* what the parser's scope analysis guarantees (checked by the harness on every generated program) *)
  Record wf_prog : Prop := {
    (* an enclosing scope comes earlier in the list (it is renamed first) *)
    wf_parent : forall i sc p, nth_error prog i = Some sc -> sparent sc = Some p -> (p < i)%nat;
    (* a variable is declared once in the whole program *)
    wf_once : NoDup (concat (map sdeclared prog));
    (* a scope does not list its own declarations as undeclared *)
    wf_disjoint : forall sc v, In sc prog -> In v (sundeclared sc) -> ~ In v (sdeclared sc);
    (* closure: what a scope uses from outside is declared in, or itself used from outside by, the enclosing scope;
       at top level it is a global (declared nowhere) *)
    wf_closure : forall i sc v, nth_error prog i = Some sc -> In v (sundeclared sc) ->
      match sparent sc with
      | Some p => exists psc, nth_error prog p = Some psc /\ used_in psc v
      | None => declared_somewhere prog v = false
      end;
    (* no scope that keeps its names lies below a scope that is renamed (functions containing `with` below renamed
       functions are the known finding K14/K15 and are outside this theorem) *)
    wf_unrenamed_on_top : forall i sc p psc, nth_error prog i = Some sc -> srename sc = false ->
      sparent sc = Some p -> nth_error prog p = Some psc -> srename psc = false;
    (* the input program itself resolves correctly in the scopes that keep their names *)
    wf_orig : forall i sc v, nth_error prog i = Some sc -> srename sc = false -> used_in sc v ->
      resolve (S (length prog)) prog orig i (orig v) = (if declared_somewhere prog v then Some v else None);
    (* every scope is below the size bound of getName (more than 10^17 names with the real alphabets) *)
    wf_small : forall sc, In sc prog -> small (length (sdeclared sc)) (length (sundeclared sc))
  }.

  Definition final : names := rename_program orig prog.

  (* ================= helper lemmas ================= *)
  Notation rename_scope := (rename_scope start cont keywords).

  (* ---- generic list facts ---- *)
  Lemma find_unique {A} (f : A -> bool) l v :
    In v l -> f v = true -> (forall w, In w l -> f w = true -> w = v) -> find f l = Some v.
  Proof.
    induction l as [|a l IH]; simpl; intros Hin Hv Hu; [easy|].
    destruct (f a) eqn:E.
    - f_equal. apply Hu; auto.
    - destruct Hin as [->|Hin]; [congruence|]. apply IH; auto.
  Qed.

  Lemma find_none_all {A} (f : A -> bool) l : (forall w, In w l -> f w = false) -> find f l = None.
  Proof.
    induction l as [|a l IH]; simpl; intros H; [reflexivity|].
    rewrite (H a (or_introl eq_refl)). apply IH. intros; apply H; right; assumption.
  Qed.

  Lemma find_ext_on {A} (f g : A -> bool) l : (forall w, In w l -> f w = g w) -> find f l = find g l.
  Proof.
    induction l as [|a l IH]; simpl; intros H; [reflexivity|].
    rewrite (H a (or_introl eq_refl)). destruct (g a); [reflexivity|]. apply IH. intros; apply H; right; assumption.
  Qed.

  Lemma NoDup_app_disj {A} (l1 l2 : list A) x : NoDup (l1 ++ l2) -> In x l1 -> In x l2 -> False.
  Proof.
    induction l1 as [|a l1 IH]; simpl; intros ND H1 H2; [easy|].
    inversion ND; subst. destruct H1 as [->|H1].
    - apply H3. apply in_or_app; right; assumption.
    - apply IH; assumption.
  Qed.

  Lemma NoDup_app_remove_l {A} (l1 l2 : list A) : NoDup (l1 ++ l2) -> NoDup l2.
  Proof. induction l1 as [|a l1 IH]; simpl; intros ND; [assumption|]. inversion ND; auto. Qed.

  Lemma NoDup_app_remove_r {A} (l1 l2 : list A) : NoDup (l1 ++ l2) -> NoDup l1.
  Proof.
    induction l1 as [|a l1 IH]; simpl; intros ND; [constructor|]. inversion ND; subst.
    constructor; [|auto]. intros H; apply H1. apply in_or_app; left; assumption.
  Qed.

  Lemma concat_nodup_unique {A} : forall (ll : list (list A)) a b la lb x,
    NoDup (concat ll) -> nth_error ll a = Some la -> nth_error ll b = Some lb -> In x la -> In x lb -> a = b.
  Proof.
    induction ll as [|l0 ll IH]; intros a b la lb x ND Ha Hb Hxa Hxb; [destruct a; discriminate|].
    simpl in ND. destruct a as [|a], b as [|b]; simpl in *.
    - reflexivity.
    - injection Ha as <-. exfalso. eapply NoDup_app_disj; eauto.
      apply in_concat. exists lb; split; [eapply nth_error_In; eauto | assumption].
    - injection Hb as <-. exfalso. eapply NoDup_app_disj; eauto.
      apply in_concat. exists la; split; [eapply nth_error_In; eauto | assumption].
    - f_equal. eapply IH; eauto. eapply NoDup_app_remove_l; eauto.
  Qed.

  Lemma in_combine_ex : forall (vs : list nat) (ns : list bytes) v,
    length ns = length vs -> In v vs -> exists n, In (v, n) (combine vs ns).
  Proof.
    induction vs as [|v0 vs IH]; intros [|n0 ns] v L Hin; simpl in *; try easy.
    destruct Hin as [->|Hin]; [eexists; left; reflexivity|].
    injection L as L. destruct (IH ns v L Hin) as [n Hn]. exists n; right; assumption.
  Qed.

  Lemma combine_inj_r : forall (vs : list nat) (ns : list bytes) a b n,
    NoDup ns -> In (a, n) (combine vs ns) -> In (b, n) (combine vs ns) -> a = b.
  Proof.
    induction vs as [|v0 vs IH]; intros [|n0 ns] a b n ND Ha Hb; simpl in *; try easy.
    inversion ND; subst.
    destruct Ha as [Ea|Ha], Hb as [Eb|Hb].
    - congruence.
    - inversion Ea; subst. apply in_combine_r in Hb. contradiction.
    - inversion Eb; subst. apply in_combine_r in Ha. contradiction.
    - eapply IH; eauto.
  Qed.

  (* ---- step 1: set_names ---- *)
  Lemma set_names_cons nm v vs n ns :
    set_names nm (v :: vs) (n :: ns) = set_names (fun x => if Nat.eqb x v then n else nm x) vs ns.
  Proof. reflexivity. Qed.

  Lemma set_names_notin : forall vs ns nm v, ~ In v vs -> set_names nm vs ns v = nm v.
  Proof.
    induction vs as [|v0 vs IH]; intros [|n0 ns] nm v Hn; try reflexivity.
    rewrite set_names_cons, IH by (intro; apply Hn; right; assumption).
    destruct (Nat.eqb_spec v v0); [subst; exfalso; apply Hn; left; reflexivity | reflexivity].
  Qed.

  Lemma set_names_in : forall vs ns nm v n, NoDup vs -> In (v, n) (combine vs ns) -> set_names nm vs ns v = n.
  Proof.
    induction vs as [|v0 vs IH]; intros [|n0 ns] nm v n ND Hin; try (simpl in Hin; contradiction).
    rewrite set_names_cons. inversion ND; subst.
    destruct Hin as [E|Hin].
    - inversion E; subst. rewrite set_names_notin by assumption. rewrite Nat.eqb_refl. reflexivity.
    - apply IH; assumption.
  Qed.

  (* ---- one scope ---- *)
  Lemma rename_scope_other nm sc v : ~ In v (sdeclared sc) -> rename_scope nm sc v = nm v.
  Proof.
    intros H. unfold RenameModel.rename_scope.
    destruct (srename sc); [apply set_names_notin; assumption | reflexivity].
  Qed.

  Lemma rename_scope_decl nm sc : srename sc = true -> NoDup (sdeclared sc) ->
    small (length (sdeclared sc)) (length (sundeclared sc)) ->
    (forall w u, In w (sdeclared sc) -> In u (sundeclared sc) -> rename_scope nm sc w <> nm u) /\
    (forall w1 w2, In w1 (sdeclared sc) -> In w2 (sdeclared sc) ->
       rename_scope nm sc w1 = rename_scope nm sc w2 -> w1 = w2).
  Proof.
    intros Hr ND Sm. unfold RenameModel.rename_scope. rewrite Hr.
    assert (Sm' : small (length (sdeclared sc)) (length (map nm (sundeclared sc)))) by (rewrite map_length; exact Sm).
    set (ns := rename_vars (length (sdeclared sc)) (map nm (sundeclared sc)) 0).
    assert (L : length ns = length (sdeclared sc)) by apply rv_length.
    split.
    - intros w u Hw Hu. destruct (in_combine_ex _ ns w L Hw) as [n Hn].
      rewrite (set_names_in _ _ nm _ _ ND Hn).
      apply in_combine_r in Hn.
      pose proof (rv_unreserved (length (sdeclared sc)) (map nm (sundeclared sc)) Sm') as F.
      rewrite Forall_forall in F. specialize (F n Hn).
      unfold RenameModel.is_reserved in F. apply orb_false_iff in F as [_ F].
      intros E.
      assert (X : existsb (beqb n) (map nm (sundeclared sc)) = true).
      { apply existsb_exists. exists (nm u). split; [apply in_map; assumption | apply beqb_eq; assumption]. }
      congruence.
    - intros w1 w2 H1 H2 E.
      destruct (in_combine_ex _ ns w1 L H1) as [n1 Hn1]. destruct (in_combine_ex _ ns w2 L H2) as [n2 Hn2].
      rewrite (set_names_in _ _ nm _ _ ND Hn1), (set_names_in _ _ nm _ _ ND Hn2) in E. subst n2.
      eapply combine_inj_r; [apply (rv_distinct (length (sdeclared sc)) (map nm (sundeclared sc)) Sm') | exact Hn1 | exact Hn2].
  Qed.

  (* ---- step 2: a scope list leaves the names of the variables it does not rename alone ---- *)
  Lemma fold_other : forall l nm v,
    (forall sc, In sc l -> srename sc = true -> ~ In v (sdeclared sc)) -> fold_left rename_scope l nm v = nm v.
  Proof.
    induction l as [|a l IH]; intros nm v H; simpl; [reflexivity|].
    rewrite IH by (intros; apply H; [right|]; assumption).
    unfold RenameModel.rename_scope. destruct (srename a) eqn:E; [|reflexivity].
    apply set_names_notin. apply H; [left; reflexivity | assumption].
  Qed.

  Lemma declared_somewhere_true v :
    declared_somewhere prog v = true <-> exists j scj, nth_error prog j = Some scj /\ In v (sdeclared scj).
  Proof.
    unfold declared_somewhere. rewrite existsb_exists. split.
    - intros (sc & Hin & He). apply existsb_exists in He as (w & Hw & E). apply Nat.eqb_eq in E; subst w.
      apply In_nth_error in Hin as [j Hj]. eauto.
    - intros (j & scj & Hj & Hd). exists scj. split; [eapply nth_error_In; eauto|].
      apply existsb_exists. exists v; split; [assumption | apply Nat.eqb_refl].
  Qed.

  Section WithWf.
    Hypothesis WF : wf_prog.

    Lemma decl_unique a b sa sb v : nth_error prog a = Some sa -> nth_error prog b = Some sb ->
      In v (sdeclared sa) -> In v (sdeclared sb) -> a = b.
    Proof.
      intros Ha Hb Hva Hvb.
      apply (concat_nodup_unique (map sdeclared prog) a b (sdeclared sa) (sdeclared sb) v (wf_once WF));
        try assumption; apply map_nth_error; assumption.
    Qed.

    Lemma sdeclared_nodup i sc : nth_error prog i = Some sc -> NoDup (sdeclared sc).
    Proof.
      intros Hi. pose proof (wf_once WF) as ND. apply nth_error_split in Hi as (l1 & l2 & E & _).
      rewrite E, map_app, concat_app in ND. apply NoDup_app_remove_l in ND. simpl in ND.
      apply NoDup_app_remove_r in ND. assumption.
    Qed.

    (* ---- step 3: what a scope uses is declared in the scope itself, above it, or nowhere ---- *)
    Lemma decl_above : forall i sc u, nth_error prog i = Some sc -> used_in sc u ->
      forall j scj, nth_error prog j = Some scj -> In u (sdeclared scj) -> (j <= i)%nat.
    Proof.
      induction i as [i IH] using lt_wf_ind. intros sc u Hi Hu j scj Hj Hd.
      destruct Hu as [Hu|Hu].
      - rewrite (decl_unique j i scj sc u Hj Hi Hd Hu). apply le_n.
      - pose proof (wf_closure WF i sc u Hi Hu) as C. destruct (sparent sc) as [p|] eqn:P.
        + destruct C as (psc & Hp & Hus). pose proof (wf_parent WF i sc p Hi P) as Hlt.
          pose proof (IH p Hlt psc u Hp Hus j scj Hj Hd). lia.
        + exfalso. assert (declared_somewhere prog u = true) by (apply declared_somewhere_true; eauto). congruence.
    Qed.

    Lemma undecl_above i sc u : nth_error prog i = Some sc -> In u (sundeclared sc) ->
      forall j scj, nth_error prog j = Some scj -> In u (sdeclared scj) -> (j < i)%nat.
    Proof.
      intros Hi Hu j scj Hj Hd. pose proof (wf_closure WF i sc u Hi Hu) as C.
      destruct (sparent sc) as [p|] eqn:P.
      - destruct C as (psc & Hp & Hus). pose proof (decl_above p psc u Hp Hus j scj Hj Hd).
        pose proof (wf_parent WF i sc p Hi P). lia.
      - exfalso. assert (declared_somewhere prog u = true) by (apply declared_somewhere_true; eauto). congruence.
    Qed.

    Lemma not_decl_later i sc l1 l2 v : prog = l1 ++ sc :: l2 -> length l1 = i ->
      (forall j scj, nth_error prog j = Some scj -> In v (sdeclared scj) -> (j <= i)%nat) ->
      forall sc', In sc' l2 -> ~ In v (sdeclared sc').
    Proof.
      intros E L H sc' Hin Hd. apply In_nth_error in Hin as [k Hk].
      assert (Hn : nth_error prog (length l1 + S k) = Some sc').
      { rewrite E, nth_error_app2 by lia. replace (length l1 + S k - length l1)%nat with (S k) by lia. exact Hk. }
      pose proof (H _ _ Hn Hd). lia.
    Qed.

    (* ---- step 4: final names in a renamed scope ---- *)
    Lemma renamed_scope_final i sc : nth_error prog i = Some sc -> srename sc = true ->
      (forall w u, In w (sdeclared sc) -> In u (sundeclared sc) -> final w <> final u) /\
      (forall w1 w2, In w1 (sdeclared sc) -> In w2 (sdeclared sc) -> final w1 = final w2 -> w1 = w2).
    Proof.
      intros Hi R. pose proof (sdeclared_nodup i sc Hi) as ND.
      destruct (nth_error_split _ _ Hi) as (l1 & l2 & E & L).
      set (nm1 := fold_left rename_scope l1 orig).
      assert (Efin : forall x, final x = fold_left rename_scope l2 (rename_scope nm1 sc) x).
      { intros x. unfold final, RenameModel.rename_program. rewrite E at 1. rewrite fold_left_app. reflexivity. }
      assert (F1 : forall w, In w (sdeclared sc) -> final w = rename_scope nm1 sc w).
      { intros w Hw. rewrite Efin. apply fold_other. intros sc' Hin _.
        eapply (not_decl_later i sc l1 l2 w E L); [|exact Hin].
        intros j scj Hj Hd. rewrite (decl_unique j i scj sc w Hj Hi Hd Hw). apply le_n. }
      assert (F2 : forall u, In u (sundeclared sc) -> final u = nm1 u).
      { intros u Hu. rewrite Efin. rewrite fold_other.
        - apply rename_scope_other. intros Hd. pose proof (undecl_above i sc u Hi Hu i sc Hi Hd). lia.
        - intros sc' Hin _. eapply (not_decl_later i sc l1 l2 u E L); [|exact Hin].
          intros j scj Hj Hd. pose proof (undecl_above i sc u Hi Hu j scj Hj Hd). lia. }
      destruct (rename_scope_decl nm1 sc R ND (wf_small WF sc (nth_error_In _ _ Hi))) as [A B]. split.
      - intros w u Hw Hu. rewrite (F1 w Hw), (F2 u Hu). apply A; assumption.
      - intros w1 w2 H1 H2. rewrite (F1 w1 H1), (F1 w2 H2). apply B; assumption.
    Qed.

    (* ---- scopes that keep their names ---- *)
    Lemma unrenamed_decl_only : forall i sc v, nth_error prog i = Some sc -> srename sc = false -> used_in sc v ->
      forall j scj, nth_error prog j = Some scj -> In v (sdeclared scj) -> srename scj = false.
    Proof.
      induction i as [i IH] using lt_wf_ind. intros sc v Hi R Hu j scj Hj Hd.
      destruct Hu as [Hu|Hu].
      - pose proof (decl_unique j i scj sc v Hj Hi Hd Hu); subst j. congruence.
      - pose proof (wf_closure WF i sc v Hi Hu) as C. destruct (sparent sc) as [p|] eqn:P.
        + destruct C as (psc & Hp & Hus). pose proof (wf_parent WF i sc p Hi P) as Hlt.
          apply (IH p Hlt psc v Hp (wf_unrenamed_on_top WF i sc p psc Hi R P Hp) Hus j scj Hj Hd).
        + exfalso. assert (declared_somewhere prog v = true) by (apply declared_somewhere_true; eauto). congruence.
    Qed.

    Lemma unrenamed_final_orig i sc v : nth_error prog i = Some sc -> srename sc = false -> used_in sc v ->
      final v = orig v.
    Proof.
      intros Hi R Hu. unfold final, RenameModel.rename_program. apply fold_other.
      intros sc' Hin Hr Hd. apply In_nth_error in Hin as [j Hj].
      pose proof (unrenamed_decl_only i sc v Hi R Hu j sc' Hj Hd). congruence.
    Qed.

    Lemma resolve_unrenamed : forall fuel i sc n, nth_error prog i = Some sc -> srename sc = false ->
      resolve fuel prog final i n = resolve fuel prog orig i n.
    Proof.
      induction fuel as [|fuel IH]; intros i sc n Hi R; simpl; [reflexivity|]. rewrite Hi.
      assert (Ef : find (fun v => beqb (final v) n) (sdeclared sc) = find (fun v => beqb (orig v) n) (sdeclared sc)).
      { apply find_ext_on. intros w Hw. rewrite (unrenamed_final_orig i sc w Hi R (or_introl Hw)). reflexivity. }
      rewrite Ef; clear Ef. destruct (find _ (sdeclared sc)); [reflexivity|].
      destruct (sparent sc) as [p|] eqn:P; [|reflexivity].
      destruct (nth_error prog p) as [psc|] eqn:Hp.
      - apply (IH p psc n Hp (wf_unrenamed_on_top WF i sc p psc Hi R P Hp)).
      - destruct fuel; simpl; [reflexivity | rewrite Hp; reflexivity].
    Qed.

    Lemma resolve_fuel nm n : forall f1 f2 i, (i < f1)%nat -> (i < f2)%nat ->
      resolve f1 prog nm i n = resolve f2 prog nm i n.
    Proof.
      induction f1 as [|f1 IH]; intros f2 i H1 H2; [lia|]. destruct f2 as [|f2]; [lia|]. simpl.
      destruct (nth_error prog i) as [sc|] eqn:E; [|reflexivity].
      destruct (find _ (sdeclared sc)); [reflexivity|].
      destruct (sparent sc) as [p|] eqn:P; [|reflexivity].
      pose proof (wf_parent WF _ _ _ E P). apply IH; lia.
    Qed.

    (* ---- step 5 ---- *)
    Lemma capture_free_aux : forall i fuel sc v, (i < fuel)%nat -> nth_error prog i = Some sc -> used_in sc v ->
      resolve fuel prog final i (final v) = (if declared_somewhere prog v then Some v else None).
    Proof.
      induction i as [i IH] using lt_wf_ind. intros fuel sc v Hf Hi Hu.
      destruct (srename sc) eqn:R.
      - destruct fuel as [|f]; [lia|]. simpl. rewrite Hi.
        destruct (renamed_scope_final i sc Hi R) as [A B].
        destruct Hu as [Hd|Hu].
        + rewrite (find_unique _ _ v Hd).
          * assert (D : declared_somewhere prog v = true) by (apply declared_somewhere_true; eauto).
            rewrite D. reflexivity.
          * apply beqb_eq. reflexivity.
          * intros w Hw Ew. apply beqb_eq in Ew. apply B; assumption.
        + rewrite find_none_all.
          * pose proof (wf_closure WF i sc v Hi Hu) as C. destruct (sparent sc) as [p|] eqn:P.
            -- destruct C as (psc & Hp & Hus). pose proof (wf_parent WF i sc p Hi P) as Hlt.
               eapply IH; eauto. lia.
            -- rewrite C. reflexivity.
          * intros w Hw. destruct (beqb (final w) (final v)) eqn:Eb; [|reflexivity].
            apply beqb_eq in Eb. exfalso. eapply A; eauto.
      - rewrite (resolve_unrenamed fuel i sc _ Hi R), (unrenamed_final_orig i sc v Hi R Hu).
        rewrite (resolve_fuel orig (orig v) fuel (S (length prog)) i Hf).
        + apply (wf_orig WF i sc v Hi R Hu).
        + assert (i < length prog)%nat by (apply nth_error_Some; congruence). lia.
    Qed.
  End WithWf.

  (* MAIN THEOREM: every use (variable v visible in scope i) resolves, by its printed name, to v itself — or to nothing
     when v is a global *)
  Theorem rename_capture_free : wf_prog -> forall i sc v, nth_error prog i = Some sc -> used_in sc v ->
    resolve (S (length prog)) prog final i (final v) = (if declared_somewhere prog v then Some v else None).
  Proof.
    intros WF i sc v Hi Hu. apply (capture_free_aux WF i (S (length prog)) sc v); try assumption.
    assert (i < length prog)%nat by (apply nth_error_Some; congruence). lia.
  Qed.

  (* names that are observable outside renamed scopes are emitted unchanged: top-level declarations, globals, and every
     name declared in a scope that is not renamed *)
  Theorem unrenamed_names_unchanged : forall v,
    (forall sc, In sc prog -> srename sc = true -> ~ In v (sdeclared sc)) -> final v = orig v.
  Proof. intros v H. unfold final, RenameModel.rename_program. apply fold_other. exact H. Qed.

  (* with name keeping no identifier changes at all *)
  Theorem keep_names_identity : (forall sc, In sc prog -> srename sc = false) -> forall v, final v = orig v.
  Proof.
    intros H v. apply unrenamed_names_unchanged. intros sc Hin Hr. rewrite (H sc Hin) in Hr. discriminate.
  Qed.
End Capture.
