(* Js/RenameModel.v — F1 model of the JS identifier renamer (/repo/js/vars.go: getName, isReserved, renameScope) and
   of the order in which js.go renames the scopes of a program (a scope is renamed when its function / block is
   entered, i.e. after all its ancestors).
   Variables are numbers; a scope lists the variables it declares (in the order renameScope visits them: function
   arguments first, then by decreasing use count) and the variables it uses without declaring them (parse/js
   Scope.Undeclared after following Link).  The alphabets come from the source (coq/gen/JsTables_gen.v). *)
From MV Require Import Base.MvBytes.
From Coq Require Import Arith.

Section Renamer.
  Variable start cont : bytes.          (* identStart, identContinue *)
  Variable keywords : list bytes.       (* js.Keywords of the parser: reserved when longer than one character *)

  Definition nS : Z := zlen start.
  Definition nC : Z := zlen cont.
  Definition sch (i : Z) : byte := nth (Z.to_nat i) start 0.
  Definition cch (i : Z) : byte := nth (Z.to_nat i) cont 0.

  (* the loop "n := 2; for { offset := nS * nC^(n-1); if index < offset {break}; index -= offset; n++ }" *)
  Fixpoint name_len_loop (fuel : nat) (index offset : Z) (n : nat) : Z * nat :=
    match fuel with
    | O => (index, n)
    | S f => if index <? offset then (index, n) else name_len_loop f (index - offset) (offset * nC) (S n)
    end.
  Fixpoint cont_digits (k : nat) (index : Z) : bytes :=
    match k with O => [] | S k' => cch (index mod nC) :: cont_digits k' (index / nC) end.
  Definition name_fuel : nat := 10.
  Definition get_name (index : Z) : bytes :=
    if index <? nS then [sch index]
    else let '(idx, n) := name_len_loop name_fuel (index - nS) (nS * nC) 2 in
         sch (idx mod nS) :: cont_digits (n - 1) (idx / nS).
  (* indices for which the loop ends by its test (more than 10^17 names with the real alphabets) *)
  Definition name_bound : Z := nS * nC ^ 9.

  (* isReserved(name, undeclared) with [avoid] = current names of the scope's undeclared variables *)
  Definition is_reserved (avoid : list bytes) (name : bytes) : bool :=
    (Nat.ltb 1 (length name) && existsb (beqb name) keywords) || existsb (beqb name) avoid.

  (* for _, v := range scope.Declared { v.Data = getName(i); i++; for isReserved(v.Data) { v.Data = getName(i); i++ } } *)
  Fixpoint next_free (fuel : nat) (avoid : list bytes) (i : Z) : Z :=
    match fuel with
    | O => i
    | S f => if is_reserved avoid (get_name i) then next_free f avoid (i + 1) else i
    end.
  Definition skip_fuel (avoid : list bytes) : nat := S (length keywords + length avoid).
  Fixpoint rename_vars (k : nat) (avoid : list bytes) (i : Z) : list bytes :=
    match k with
    | O => []
    | S k' => let j := next_free (skip_fuel avoid) avoid i in get_name j :: rename_vars k' avoid (j + 1)
    end.

  (* ---------- programs ---------- *)
  Record scope := {
    sparent : option nat;          (* index of the enclosing scope in the program's scope list; None = top level *)
    sdeclared : list nat;          (* variables declared here, in renameScope's order *)
    sundeclared : list nat;        (* variables used here or below and declared further up (or nowhere: globals) *)
    srename : bool                 (* renameScope acts on this scope (false: top level, KeepVarNames, function with `with`) *)
  }.
  Definition names := nat -> bytes.
  Definition set_names (nm : names) (vs : list nat) (ns : list bytes) : names :=
    fold_left (fun f p => fun v => if Nat.eqb v (fst p) then snd p else f v) (combine vs ns) nm.

  (* scopes are renamed in list order (an ancestor comes before its descendants) *)
  Definition rename_scope (nm : names) (s : scope) : names :=
    if srename s then set_names nm (sdeclared s) (rename_vars (length (sdeclared s)) (map nm (sundeclared s)) 0) else nm.
  Definition rename_program (orig : names) (prog : list scope) : names := fold_left rename_scope prog orig.

  (* ---------- specification: lexical resolution of a printed name ---------- *)
  (* walk from scope index [s] outwards; the first scope declaring a variable printed as [n] binds it *)
  Fixpoint resolve (fuel : nat) (prog : list scope) (nm : names) (s : nat) (n : bytes) : option nat :=
    match fuel with
    | O => None
    | S f =>
      match nth_error prog s with
      | None => None
      | Some sc =>
        match find (fun v => beqb (nm v) n) (sdeclared sc) with
        | Some v => Some v
        | None => match sparent sc with Some p => resolve f prog nm p n | None => None end
        end
      end
    end.
  (* the declaration a use of variable v in scope s refers to: the variable itself when some scope declares it, else
     none (a global) *)
  Definition declared_somewhere (prog : list scope) (v : nat) : bool :=
    existsb (fun sc => existsb (Nat.eqb v) (sdeclared sc)) prog.
End Renamer.
