(* Js/RenameProofs.v — the renamer hands out pairwise different, unreserved names, and renaming a whole program never
   changes which declaration a name refers to. *)
From MV Require Import Base.MvBytes Js.RenameModel.
From Coq Require Import Arith.

Section RenamerProofs.
  Variable start cont : bytes.
  Variable keywords : list bytes.
  Hypothesis start_nodup : NoDup start.
  Hypothesis cont_nodup : NoDup cont.
  Hypothesis start_len : (2 <= length start)%nat.
  Hypothesis cont_len : (2 <= length cont)%nat.

  Notation get_name := (get_name start cont).
  Notation name_bound := (name_bound start cont).
  Notation rename_vars := (rename_vars start cont keywords).
  Notation is_reserved := (is_reserved keywords).

  (* ---------- helpers: alphabets ---------- *)
  Local Notation NS := (nS start).
  Local Notation NC := (nC cont).
  Local Notation sch := (sch start).
  Local Notation cch := (cch cont).
  Local Notation cont_digits := (cont_digits cont).
  Local Notation loop := (name_len_loop cont).
  Local Notation next_free := (next_free start cont keywords).

  Lemma nS_ge : 2 <= NS.
  Proof. unfold nS, zlen. lia. Qed.
  Lemma nC_ge : 2 <= NC.
  Proof. unfold nC, zlen. lia. Qed.

  Lemma sch_inj a b : 0 <= a < NS -> 0 <= b < NS -> sch a = sch b -> a = b.
  Proof.
    unfold nS, zlen, RenameModel.sch. intros Ha Hb H.
    assert (E : Z.to_nat a = Z.to_nat b).
    { apply (proj1 (NoDup_nth start 0) start_nodup); [lia | lia | exact H]. }
    lia.
  Qed.
  Lemma cch_inj a b : 0 <= a < NC -> 0 <= b < NC -> cch a = cch b -> a = b.
  Proof.
    unfold nC, zlen, RenameModel.cch. intros Ha Hb H.
    assert (E : Z.to_nat a = Z.to_nat b).
    { apply (proj1 (NoDup_nth cont 0) cont_nodup); [lia | lia | exact H]. }
    lia.
  Qed.
  Lemma sch_in a : 0 <= a < NS -> In (sch a) start.
  Proof. unfold nS, zlen, RenameModel.sch. intros Ha. apply nth_In. lia. Qed.
  Lemma cch_in a : 0 <= a < NC -> In (cch a) cont.
  Proof. unfold nC, zlen, RenameModel.cch. intros Ha. apply nth_In. lia. Qed.

  (* ---------- helpers: the digits ---------- *)
  Lemma cont_digits_length k x : length (cont_digits k x) = k.
  Proof. revert x; induction k as [|k IH]; intros x; cbn [RenameModel.cont_digits length]; [reflexivity | now rewrite IH]. Qed.

  Lemma cont_digits_in k x : Forall (fun c => In c cont) (cont_digits k x).
  Proof.
    revert x; induction k as [|k IH]; intros x; cbn [RenameModel.cont_digits]; constructor; [|apply IH].
    apply cch_in. apply Z.mod_pos_bound. pose proof nC_ge; lia.
  Qed.

  Lemma pow_nat_succ (k : nat) : NC ^ Z.of_nat (S k) = NC * NC ^ Z.of_nat k.
  Proof. rewrite Nat2Z.inj_succ. apply Z.pow_succ_r. lia. Qed.
  Lemma pow_nat_pos (k : nat) : 0 < NC ^ Z.of_nat k.
  Proof. apply Z.pow_pos_nonneg; [pose proof nC_ge; lia | lia]. Qed.

  Lemma cont_digits_inj k : forall a b, 0 <= a < NC ^ Z.of_nat k -> 0 <= b < NC ^ Z.of_nat k ->
    cont_digits k a = cont_digits k b -> a = b.
  Proof.
    pose proof nC_ge as HC.
    induction k as [|k IH]; intros a b Ha Hb H.
    - change (Z.of_nat 0) with 0 in *. rewrite Z.pow_0_r in *. lia.
    - rewrite pow_nat_succ in Ha, Hb. cbn [RenameModel.cont_digits] in H. injection H as H1 H2.
      assert (Em : a mod NC = b mod NC).
      { apply cch_inj; try (apply Z.mod_pos_bound; lia). exact H1. }
      assert (Ed : a / NC = b / NC).
      { apply IH; try exact H2; split; try (apply Z.div_pos; lia); apply Z.div_lt_upper_bound; lia. }
      rewrite (Z.div_mod a NC), (Z.div_mod b NC) by lia. rewrite Em, Ed. reflexivity.
  Qed.

  (* ---------- helpers: the length loop ---------- *)
  (* sum of the first k offsets offset, offset*nC, ... *)
  Fixpoint gsum (k : nat) (offset : Z) : Z :=
    match k with O => 0 | S k' => offset + gsum k' (offset * NC) end.

  Lemma loop_spec : forall fuel index offset n, 0 <= index -> 0 < offset ->
    index < offset * NC ^ (Z.of_nat fuel - 1) ->
    exists d, loop fuel index offset n = (index - gsum d offset, (n + d)%nat) /\
              0 <= index - gsum d offset < offset * NC ^ Z.of_nat d.
  Proof.
    pose proof nC_ge as HC.
    induction fuel as [|f IH]; intros index offset n Hi Ho Hb.
    - change (Z.of_nat 0 - 1) with (-1) in Hb. rewrite Z.pow_neg_r in Hb by lia. lia.
    - cbn [RenameModel.name_len_loop]. destruct (Z.ltb_spec index offset) as [Hlt | Hge].
      + exists O. cbn [gsum]. rewrite Nat.add_0_r, Z.sub_0_r. change (Z.of_nat 0) with 0. rewrite Z.pow_0_r. split; [reflexivity | lia].
      + replace (Z.of_nat (S f) - 1) with (Z.of_nat f) in Hb by lia.
        destruct f as [|f'].
        { change (Z.of_nat 0) with 0 in Hb. rewrite Z.pow_0_r in Hb. lia. }
        rewrite pow_nat_succ in Hb.
        destruct (IH (index - offset) (offset * NC) (S n)) as [d [E B]]; try nia.
        { replace (Z.of_nat (S f') - 1) with (Z.of_nat f') by lia. nia. }
        exists (S d). cbn [gsum]. rewrite pow_nat_succ.
        replace (index - (offset + gsum d (offset * NC))) with (index - offset - gsum d (offset * NC)) by lia.
        replace (n + S d)%nat with (S n + d)%nat by lia.
        split; [exact E | nia].
  Qed.

  Lemma get_name_small i : 0 <= i < NS -> get_name i = [sch i].
  Proof. intros H. unfold RenameModel.get_name. destruct (Z.ltb_spec i NS); [reflexivity | lia]. Qed.

  Lemma get_name_big i : NS <= i < name_bound ->
    exists d idx, idx = i - NS - gsum d (NS * NC) /\
      get_name i = sch (idx mod NS) :: cont_digits (S d) (idx / NS) /\
      0 <= idx < NS * NC * NC ^ Z.of_nat d.
  Proof.
    pose proof nC_ge as HC. pose proof nS_ge as HS.
    intros [H1 H2]. unfold RenameModel.name_bound in H2. unfold RenameModel.get_name.
    destruct (Z.ltb_spec i NS); [lia|].
    destruct (loop_spec name_fuel (i - NS) (NS * NC) 2) as [d [E B]]; try nia.
    { unfold name_fuel. change (Z.of_nat 10 - 1) with 9. assert (0 < NC ^ 9) by (apply Z.pow_pos_nonneg; lia). nia. }
    exists d, (i - NS - gsum d (NS * NC)). split; [reflexivity|]. rewrite E.
    replace (2 + d - 1)%nat with (S d) by lia. split; [reflexivity | exact B].
  Qed.

  (* 1. getName is injective on the indices the loop can handle, its first byte is an identifier-start character and
        the others identifier-continue characters *)
  Theorem get_name_injective : forall i j, 0 <= i < name_bound -> 0 <= j < name_bound -> get_name i = get_name j -> i = j.
  Proof.
    pose proof nC_ge as HC. pose proof nS_ge as HS.
    intros i j Hi Hj H.
    destruct (Z.lt_ge_cases i NS) as [Li | Li]; destruct (Z.lt_ge_cases j NS) as [Lj | Lj].
    - rewrite !get_name_small in H by lia. injection H as H. apply sch_inj; [lia | lia | exact H].
    - rewrite get_name_small in H by lia. destruct (get_name_big j) as [d [idx [_ [E _]]]]; [lia|].
      rewrite E in H. apply (f_equal (@length _)) in H. cbn [length] in H. rewrite cont_digits_length in H. discriminate.
    - rewrite (get_name_small j) in H by lia. destruct (get_name_big i) as [d [idx [_ [E _]]]]; [lia|].
      rewrite E in H. apply (f_equal (@length _)) in H. cbn [length] in H. rewrite cont_digits_length in H. discriminate.
    - destruct (get_name_big i) as [d [a [Ea [E Ba]]]]; [lia|].
      destruct (get_name_big j) as [d' [b [Eb [E' Bb]]]]; [lia|].
      rewrite E, E' in H.
      assert (d = d').
      { apply (f_equal (@length _)) in H. cbn [length] in H. rewrite !cont_digits_length in H. lia. }
      subst d'. assert (H1 := f_equal (@hd _ 0) H). assert (H2 := f_equal (@tl _) H). cbn [hd tl] in H1, H2.
      assert (Em : a mod NS = b mod NS).
      { apply sch_inj; try (apply Z.mod_pos_bound; lia). exact H1. }
      assert (Ed : a / NS = b / NS).
      { apply (cont_digits_inj (S d)); try exact H2; rewrite pow_nat_succ;
          (split; [apply Z.div_pos; lia | apply Z.div_lt_upper_bound; nia]). }
      assert (a = b).
      { rewrite (Z.div_mod a NS), (Z.div_mod b NS) by lia. rewrite Em, Ed. reflexivity. }
      lia.
  Qed.

  Theorem get_name_shape : forall i, 0 <= i < name_bound ->
    exists c r, get_name i = c :: r /\ In c start /\ Forall (fun x => In x cont) r.
  Proof.
    pose proof nS_ge as HS.
    intros i Hi. destruct (Z.lt_ge_cases i NS) as [Li | Li].
    - exists (sch i), []. split; [apply get_name_small; lia|]. split; [apply sch_in; lia | constructor].
    - destruct (get_name_big i) as [d [a [_ [E _]]]]; [lia|].
      eexists _, _. split; [exact E|]. split; [|apply cont_digits_in].
      apply sch_in. apply Z.mod_pos_bound. lia.
  Qed.

  (* ---------- helpers: next_free ---------- *)
  Lemma next_free_range fuel avoid i : i <= next_free fuel avoid i <= i + Z.of_nat fuel.
  Proof.
    revert i; induction fuel as [|f IH]; intros i; cbn [RenameModel.next_free]; [lia|].
    destruct (RenameModel.is_reserved _ _ _); [|lia]. specialize (IH (i + 1)). lia.
  Qed.

  (* when the result is still reserved, every index tried was reserved *)
  Lemma next_free_all_reserved fuel avoid : forall i,
    is_reserved avoid (get_name (next_free fuel avoid i)) = true ->
    forall t, i <= t < i + Z.of_nat fuel -> is_reserved avoid (get_name t) = true.
  Proof.
    induction fuel as [|f IH]; intros i H t Ht; [lia|].
    cbn [RenameModel.next_free] in H.
    destruct (RenameModel.is_reserved keywords avoid (get_name i)) eqn:R.
    - destruct (Z.eq_dec t i) as [->|Hne]; [exact R|]. apply (IH (i + 1) H). lia.
    - rewrite R in H. discriminate.
  Qed.

  Lemma is_reserved_in avoid n : is_reserved avoid n = true -> In n (keywords ++ avoid).
  Proof.
    unfold RenameModel.is_reserved. intros H. apply in_or_app.
    apply orb_true_iff in H as [H | H].
    - apply andb_true_iff in H as [_ H]. apply existsb_exists in H as [x [Hx E]]. apply beqb_eq in E. subst x. now left.
    - apply existsb_exists in H as [x [Hx E]]. apply beqb_eq in E. subst x. now right.
  Qed.

  Fixpoint zseq (i : Z) (n : nat) : list Z := match n with O => [] | S n' => i :: zseq (i + 1) n' end.
  Lemma zseq_length i n : length (zseq i n) = n.
  Proof. revert i; induction n as [|n IH]; intros i; cbn [zseq length]; [reflexivity | now rewrite IH]. Qed.
  Lemma zseq_in i n t : In t (zseq i n) <-> i <= t < i + Z.of_nat n.
  Proof.
    revert i; induction n as [|n IH]; intros i; cbn [zseq In]; [lia|].
    rewrite IH. lia.
  Qed.
  Lemma names_nodup n : forall i, 0 <= i -> i + Z.of_nat n <= name_bound -> NoDup (map get_name (zseq i n)).
  Proof.
    induction n as [|n IH]; intros i H0 Hb; cbn [zseq map]; constructor.
    - intros Hin. apply in_map_iff in Hin as [t [E Ht]]. apply zseq_in in Ht.
      apply get_name_injective in E; lia.
    - apply IH; lia.
  Qed.

  Lemma next_free_unreserved avoid i : 0 <= i -> i + Z.of_nat (skip_fuel keywords avoid) <= name_bound ->
    is_reserved avoid (get_name (next_free (skip_fuel keywords avoid) avoid i)) = false.
  Proof.
    intros H0 Hb.
    destruct (RenameModel.is_reserved keywords avoid (get_name (next_free (skip_fuel keywords avoid) avoid i))) eqn:R;
      [|reflexivity].
    exfalso. pose proof (next_free_all_reserved _ _ _ R) as Hall.
    set (F := skip_fuel keywords avoid) in *.
    assert (Hle : (length (map get_name (zseq i F)) <= length (keywords ++ avoid))%nat).
    { apply NoDup_incl_length; [apply names_nodup; lia|].
      intros x Hx. apply in_map_iff in Hx as [t [<- Ht]]. apply zseq_in in Ht. apply is_reserved_in. apply Hall. exact Ht. }
    rewrite map_length, zseq_length, app_length in Hle. unfold F, skip_fuel in Hle. lia.
  Qed.

  (* 2. one scope: the names given to its declared variables are pairwise different, none is a keyword (longer than one
        character) and none is the current name of a variable the scope uses from outside *)
  Theorem rename_vars_length : forall k avoid i, length (rename_vars k avoid i) = k.
  Proof.
    induction k as [|k IH]; intros avoid i; cbn [RenameModel.rename_vars length]; [reflexivity | now rewrite IH].
  Qed.

  Lemma rename_vars_in : forall k avoid i x, In x (rename_vars k avoid i) ->
    exists t, i <= t < i + Z.of_nat k * Z.of_nat (S (skip_fuel keywords avoid)) /\ x = get_name t.
  Proof.
    induction k as [|k IH]; intros avoid i x Hx; cbn [RenameModel.rename_vars In] in Hx; [contradiction|].
    pose proof (next_free_range (skip_fuel keywords avoid) avoid i) as R.
    destruct Hx as [<- | Hx].
    - eexists; split; [|reflexivity]. lia.
    - apply IH in Hx as [t [Ht ->]]. exists t. split; [lia | reflexivity].
  Qed.

  Theorem rename_vars_distinct : forall k avoid i, 0 <= i ->
    i + Z.of_nat k * Z.of_nat (S (skip_fuel keywords avoid)) < name_bound -> NoDup (rename_vars k avoid i).
  Proof.
    induction k as [|k IH]; intros avoid i H0 Hb; cbn [RenameModel.rename_vars]; constructor.
    - pose proof (next_free_range (skip_fuel keywords avoid) avoid i) as R.
      intros Hin. apply rename_vars_in in Hin as [t [Ht E]].
      apply get_name_injective in E; lia.
    - pose proof (next_free_range (skip_fuel keywords avoid) avoid i) as R. apply IH; lia.
  Qed.

  Theorem rename_vars_unreserved : forall k avoid i, 0 <= i ->
    i + Z.of_nat k * Z.of_nat (S (skip_fuel keywords avoid)) < name_bound ->
    Forall (fun n => is_reserved avoid n = false) (rename_vars k avoid i).
  Proof.
    induction k as [|k IH]; intros avoid i H0 Hb; cbn [RenameModel.rename_vars]; constructor.
    - apply next_free_unreserved; lia.
    - pose proof (next_free_range (skip_fuel keywords avoid) avoid i) as R. apply IH; lia.
  Qed.
End RenamerProofs.
