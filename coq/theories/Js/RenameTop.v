(* Js/RenameTop.v — closed forms of the renamer theorems: the hypotheses of RenameCapture.v about rename_vars are
   discharged with the theorems of RenameProofs.v (valid below the size bound, which wf_prog's field wf_small
   provides), plus a concrete program showing that wf_prog is satisfiable. *)
From MV Require Import Base.MvBytes Js.RenameModel Js.RenameProofs Js.RenameCapture.
From Coq Require Import Arith.

(* ---------- the three hypotheses of Section Capture, from RenameProofs ---------- *)
Section Discharge.
  Variable start cont : bytes.
  Variable keywords : list bytes.
  Hypothesis start_nodup : NoDup start.
  Hypothesis cont_nodup : NoDup cont.
  Hypothesis start_len : (2 <= length start)%nat.
  Hypothesis cont_len : (2 <= length cont)%nat.

  Lemma rv_length_closed : forall k avoid, length (rename_vars start cont keywords k avoid 0) = k.
  Proof. intros k avoid. apply rename_vars_length. Qed.

  Lemma small_bound k avoid : small start cont keywords k (length avoid) ->
    0 + Z.of_nat k * Z.of_nat (S (skip_fuel keywords avoid)) < name_bound start cont.
  Proof. intros Sm. rewrite Z.add_0_l. exact Sm. Qed.

  Lemma rv_distinct_closed : forall k avoid, small start cont keywords k (length avoid) ->
    NoDup (rename_vars start cont keywords k avoid 0).
  Proof.
    intros k avoid Sm.
    exact (rename_vars_distinct start cont keywords start_nodup cont_nodup start_len cont_len k avoid 0
             (Z.le_refl 0) (small_bound k avoid Sm)).
  Qed.

  Lemma rv_unreserved_closed : forall k avoid, small start cont keywords k (length avoid) ->
    Forall (fun n => is_reserved keywords avoid n = false) (rename_vars start cont keywords k avoid 0).
  Proof.
    intros k avoid Sm.
    exact (rename_vars_unreserved start cont keywords start_nodup cont_nodup start_len cont_len k avoid 0
             (Z.le_refl 0) (small_bound k avoid Sm)).
  Qed.
End Discharge.

(* ---------- closed theorems ---------- *)
Theorem rename_capture_free_closed : forall start cont keywords prog orig,
  NoDup start -> NoDup cont -> (2 <= length start)%nat -> (2 <= length cont)%nat ->
  wf_prog start cont keywords prog orig ->
  forall i sc v, nth_error prog i = Some sc -> used_in sc v ->
  resolve (S (length prog)) prog (final start cont keywords prog orig) i (final start cont keywords prog orig v) =
  (if declared_somewhere prog v then Some v else None).
Proof.
  intros start cont keywords prog orig Hs Hc Ls Lc WF.
  apply (rename_capture_free start cont keywords
           (rv_length_closed start cont keywords)
           (rv_distinct_closed start cont keywords Hs Hc Ls Lc)
           (rv_unreserved_closed start cont keywords Hs Hc Ls Lc) prog orig WF).
Qed.

Theorem unrenamed_names_unchanged_closed : forall start cont keywords prog orig v,
  (forall sc, In sc prog -> srename sc = true -> ~ In v (sdeclared sc)) ->
  final start cont keywords prog orig v = orig v.
Proof. exact unrenamed_names_unchanged. Qed.

Theorem keep_names_identity_closed : forall start cont keywords prog orig,
  (forall sc, In sc prog -> srename sc = false) -> forall v, final start cont keywords prog orig v = orig v.
Proof. exact keep_names_identity. Qed.

Theorem get_name_injective_closed : forall start cont,
  NoDup start -> NoDup cont -> (2 <= length start)%nat -> (2 <= length cont)%nat ->
  forall i j, 0 <= i < name_bound start cont -> 0 <= j < name_bound start cont ->
  get_name start cont i = get_name start cont j -> i = j.
Proof. exact get_name_injective. Qed.

Theorem get_name_shape_closed : forall start cont,
  (2 <= length start)%nat -> (2 <= length cont)%nat ->
  forall i, 0 <= i < name_bound start cont ->
  exists c r, get_name start cont i = c :: r /\ In c start /\ Forall (fun x => In x cont) r.
Proof. exact get_name_shape. Qed.

Theorem rename_vars_length_closed : forall start cont keywords k avoid i,
  length (rename_vars start cont keywords k avoid i) = k.
Proof. exact rename_vars_length. Qed.

Theorem rename_vars_distinct_closed : forall start cont keywords,
  NoDup start -> NoDup cont -> (2 <= length start)%nat -> (2 <= length cont)%nat ->
  forall k avoid i, 0 <= i ->
  i + Z.of_nat k * Z.of_nat (S (skip_fuel keywords avoid)) < name_bound start cont ->
  NoDup (rename_vars start cont keywords k avoid i).
Proof. exact rename_vars_distinct. Qed.

Theorem rename_vars_unreserved_closed : forall start cont keywords,
  NoDup start -> NoDup cont -> (2 <= length start)%nat -> (2 <= length cont)%nat ->
  forall k avoid i, 0 <= i ->
  i + Z.of_nat k * Z.of_nat (S (skip_fuel keywords avoid)) < name_bound start cont ->
  Forall (fun n => is_reserved keywords avoid n = false) (rename_vars start cont keywords k avoid i).
Proof. exact rename_vars_unreserved. Qed.

(* ---------- non-vacuity: a concrete program satisfying wf_prog ----------
   var f (0); g (9) is a global
   top level (not renamed):  declares f, uses g
   function (renamed):       declares x1 x2, uses f g
   block (renamed):          declares x3, uses x1 *)
Module Example1.
  Definition ex_start : bytes := [97; 98].           (* "ab" *)
  Definition ex_cont : bytes := [97; 98; 48].        (* "ab0" *)
  Definition ex_keywords : list bytes := [[100; 111]].   (* "do" *)
  Definition ex_prog : list scope := [
    Build_scope None [0%nat] [9%nat] false;
    Build_scope (Some 0%nat) [1%nat; 2%nat] [0%nat; 9%nat] true;
    Build_scope (Some 1%nat) [3%nat] [1%nat] true ].
  Definition ex_orig (v : nat) : bytes :=
    match v with
    | 0%nat => [102]                   (* "f" *)
    | 9%nat => [103]                   (* "g" *)
    | _ => [120; 48 + Z.of_nat v]      (* "x1", "x2", "x3", ... *)
    end.

  Ltac scope_cases i H :=
    destruct i as [|[|[|i]]]; simpl in H; [| | | destruct i; discriminate H]; injection H as <-.

  Example ex_wf : wf_prog ex_start ex_cont ex_keywords ex_prog ex_orig.
  Proof.
    constructor.
    - intros i sc p H P. scope_cases i H; simpl in P; try discriminate P; injection P as <-; lia.
    - simpl. repeat constructor; simpl; intuition discriminate.
    - intros sc v Hin Hu Hd. simpl in Hin. destruct Hin as [<-|[<-|[<-|[]]]]; simpl in Hu, Hd; intuition congruence.
    - intros i sc v H Hu. scope_cases i H; simpl in Hu |- *.
      + destruct Hu as [<-|[]]. reflexivity.
      + eexists; split; [reflexivity|]. unfold used_in; simpl. intuition.
      + eexists; split; [reflexivity|]. unfold used_in; simpl. intuition.
    - intros i sc p psc H R P Hp. scope_cases i H; simpl in R, P; discriminate.
    - intros i sc v H R Hu. scope_cases i H; simpl in R; try discriminate R.
      destruct Hu as [Hu|Hu]; simpl in Hu; destruct Hu as [<-|[]]; vm_compute; reflexivity.
    - intros sc Hin. simpl in Hin. destruct Hin as [<-|[<-|[<-|[]]]]; vm_compute; reflexivity.
  Qed.

  Definition ex_final := final ex_start ex_cont ex_keywords ex_prog ex_orig.
  Eval vm_compute in map ex_final [0; 1; 2; 3; 9]%nat.
  (* f and g keep their names; x1 -> "a", x2 -> "b"; x3 -> "b" (it must avoid x1's "a" and may shadow x2, which the
     block does not use) *)
  Example ex_final_values : map ex_final [0; 1; 2; 3; 9]%nat = [[102]; [97]; [98]; [98]; [103]].
  Proof. vm_compute. reflexivity. Qed.

  (* every use resolves to its own declaration; the global g stays unbound *)
  Example ex_capture_free : forall i sc v, nth_error ex_prog i = Some sc -> used_in sc v ->
    resolve 4 ex_prog ex_final i (ex_final v) = (if declared_somewhere ex_prog v then Some v else None).
  Proof.
    apply (rename_capture_free_closed ex_start ex_cont ex_keywords ex_prog ex_orig);
      try (repeat constructor; simpl; intuition discriminate); try (simpl; lia).
    exact ex_wf.
  Qed.
End Example1.

Print Assumptions rename_capture_free_closed.
Print Assumptions Example1.ex_wf.
Print Assumptions Example1.ex_capture_free.
