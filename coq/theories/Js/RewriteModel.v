(* Js/RewriteModel.v — F1 transcription of the expression rewrites that js.go applies on the fly while printing
   (/repo/js/util.go: optimizeUnaryExpr, optimizeBooleanExpr, optimizeCondExpr with isBooleanExpr, isFalsy/isTruthy,
   isTrue/isFalse, isEqualExpr, finalExpr, groupExpr, mayRunCode; /repo/js/js.go minifyExpr: the order in which a node is
   rewritten and its children are printed, the (a,b)&&c -> a,b&&c unwrapping, the GroupExpr case) on the fragment
     identifiers, true / false, ! && || == != === !== and every other binary operator of the maps, ?:, comma,
     parentheses, calls with one argument, simple assignment,
   i.e. everything the rewrites look at except null / undefined / typeof / string and number literals (toNullishExpr, the
   a===null||a===undefined folding, the !"str" shortcuts, which need literal kinds the expression type does not carry; the
   correspondence generator does not produce them).  print_rw is the token sequence js.Minify writes for such an
   expression: the rewrites are applied at each node with the precedence of its position, exactly as minifyExpr does. *)
From Coq Require Import List String Arith Bool ZArith.
Import ListNotations.
From MV Require Import Js.PrintModel Js.PrintGroup.
Local Open Scope string_scope.

Definition OpEquals := 8.
Definition OpCompare := 9.

Section Rewrite.
  Variable T : tables.

  Definition binp (op : string) : nat := plookup (t_binop T) op.
  Definition leftp (op : string) : nat := plookup (t_left T) op.
  Definition rightp (op : string) : nat := plookup (t_right T) op.
  Definition is_op (a b : string) : bool := String.eqb a b.

  Fixpoint inner_expr (e : expr) : expr := match e with EGroup x => inner_expr x | _ => e end.

  Fixpoint is_boolean_expr (e : expr) : bool :=
    match e with
    | EPre op _ => is_op op "NotToken"
    | EBin op x y =>
        let p := binp op in
        if Nat.eqb p OpAnd || Nat.eqb p OpOr then is_boolean_expr x && is_boolean_expr y
        else Nat.eqb p OpCompare || Nat.eqb p OpEquals
    | EConst CTrue | EConst CFalse => true
    | EGroup x => is_boolean_expr x
    | _ => false
    end.

  Definition invert_op (op : string) : string :=
    if is_op op "EqEqToken" then "NotEqToken" else if is_op op "NotEqToken" then "EqEqToken"
    else if is_op op "EqEqEqToken" then "NotEqEqToken" else if is_op op "NotEqEqToken" then "EqEqEqToken" else "ErrorToken".

  (* isFalsy: Some true = known falsy, Some false = known truthy, None = unknown.  Groups and `!` are looked through. *)
  Fixpoint is_falsy_aux (negated : bool) (e : expr) : option bool :=
    match e with
    | EGroup x => is_falsy_aux negated x
    | EPre op x => if is_op op "NotToken" then is_falsy_aux (negb negated) x else None
    | EConst CFalse | EConst CUndefined => Some (negb negated)
    | EConst CTrue => Some negated
    | _ => None
    end.
  Definition is_falsy (e : expr) : option bool := is_falsy_aux false e.
  Definition is_truthy (e : expr) : option bool := option_map negb (is_falsy e).

  Definition is_true (e : expr) : bool :=
    match inner_expr e with
    | EConst CTrue => true
    | EPre op x => if is_op op "NotToken" then match is_falsy x with Some b => b | None => false end else false
    | _ => false
    end.
  Definition is_false (e : expr) : bool :=
    match inner_expr e with
    | EConst CFalse => true
    | EPre op x => if is_op op "NotToken" then match is_truthy x with Some b => b | None => false end else false
    | _ => false
    end.

  (* isEqualExpr: the same variable on both sides (undefined and Infinity are variables too) *)
  Definition is_equal_expr (a b : expr) : bool :=
    match inner_expr a, inner_expr b with
    | EAtom x, EAtom y => String.eqb x y
    | EConst CUndefined, EConst CUndefined | EConst CInfinity, EConst CInfinity => true
    | _, _ => false
    end.

  Definition final_expr (e : expr) : expr :=
    let i := inner_expr e in
    let i := match i with EBin op _ y => if is_op op "CommaToken" then y else i | _ => i end in
    match i with EBin op x _ => if is_op op "EqToken" then x else i | _ => i end.

  (* mayRunCode *)
  Fixpoint may_run_code (e : expr) : bool :=
    match e with
    | EAtom _ | EConst _ => false
    | EGroup x => may_run_code x
    | EPre op x => negb (is_op op "NotToken" || is_op op "TypeofToken" || is_op op "VoidToken") || may_run_code x
    | EBin op x y =>
        if is_op op "AndToken" || is_op op "OrToken" || is_op op "NullishToken" || is_op op "EqEqEqToken" || is_op op "NotEqEqToken"
        then may_run_code x || may_run_code y else true
    | ECond c x y => may_run_code c || may_run_code x || may_run_code y
    | _ => true
    end.

  (* the loop of optimizeUnaryExpr: strips `!` (toggling) and parentheses *)
  Fixpoint strip_nots (invert : bool) (e : expr) : bool * expr :=
    match e with
    | EPre op x => if is_op op "NotToken" then strip_nots (negb invert) x else (invert, e)
    | EGroup x => strip_nots invert x
    | _ => (invert, e)
    end.

  Definition is_equals_bin (e : expr) : bool :=
    match e with EBin op _ _ => Nat.eqb (binp op) OpEquals | _ => false end.
  Definition flip_eq (e : expr) : expr := match e with EBin op a b => EBin (invert_op op) a b | _ => e end.

  (* optimizeUnaryExpr on !x *)
  Definition optimize_unary (whole : expr) (prec : nat) : expr :=
    match whole with
    | EPre op0 x0 =>
      if negb (is_op op0 "NotToken") then whole else
      let '(invert, e2) := strip_nots true x0 in
      if negb invert && is_boolean_expr e2 then group_expr T prec e2
      else match e2 with
      | EBin op a b =>
        if negb invert then whole
        else if Nat.eqb (binp op) OpEquals then group_expr T prec (EBin (invert_op op) a b)
        else if is_op op "AndToken" || is_op op "OrToken" then
          let op' := if is_op op "AndToken" then "OrToken" else "AndToken" in
          let prec_inside := binp op' in
          let needs_group := Nat.ltb prec_inside prec && negb (Nat.eqb prec_inside OpCoalesce && Nat.eqb prec OpBitOr) in
          let is_eq_x := is_equals_bin a in
          let is_eq_y := is_equals_bin b in
          let needs_group_x := negb is_eq_x && Nat.leb (leftp op) (expr_prec T a) && Nat.ltb (expr_prec T a) OpUnary in
          let needs_group_y := negb is_eq_y && Nat.leb (rightp op) (expr_prec T b) && Nat.ltb (expr_prec T b) OpUnary in
          let score := (3 - (if needs_group then 2 else 0) - 2 + (if is_eq_x then 1 else 0) + (if is_eq_y then 1 else 0)
                        - (if needs_group_x then 2 else 0) - (if needs_group_y then 2 else 0)
                        + (if is_op op' "OrToken" then (if Nat.eqb (expr_prec T a) OpOr then 2 else 0) + (if Nat.eqb (expr_prec T b) OpAnd then 2 else 0) else 0))%Z in
          if (0 <? score)%Z then
            let x' := if is_eq_x then flip_eq a else EPre "NotToken" (if needs_group_x then EGroup a else a) in
            let y' := if is_eq_y then flip_eq b else EPre "NotToken" (if needs_group_y then EGroup b else b) in
            let r := EBin op' x' y' in
            if needs_group then EGroup r else r
          else whole
        else whole
      | _ => whole
      end
    | _ => whole
    end.

  Definition optimize_boolean (e : expr) (invert : bool) (prec : nat) : expr :=
    if invert then
      if is_equals_bin e then flip_eq e
      else optimize_unary (EPre "NotToken" (group_expr T OpUnary e)) prec
    else if is_boolean_expr e then group_expr T prec e
    else EPre "NotToken" (EPre "NotToken" (group_expr T OpUnary e)).

  Definition or_and_guard (op : string) (fc other : expr) : bool :=
    (Nat.ltb (expr_prec T fc) OpAssign || Nat.leb (leftp op) (expr_prec T fc)) &&
    (Nat.ltb (expr_prec T other) OpAssign || Nat.leb (rightp op) (expr_prec T other)).

  (* optimizeCondExpr (fragment: no nullish rewriting) *)
  Definition optimize_cond (whole : expr) (prec : nat) : expr :=
    match whole with
    | ECond c0 x0 y0 =>
      let '(c, x, y) :=
        match c0 with
        | EPre op1 u1 =>
            if is_op op1 "NotToken" then
              match u1 with
              | EPre op2 u2 => if is_op op2 "NotToken" then (if is_boolean_expr u2 then (u2, x0, y0) else (c0, x0, y0)) else (u1, y0, x0)
              | _ => (u1, y0, x0)
              end
            else (c0, x0, y0)
        | _ => (c0, x0, y0)
        end in
      let fc := final_expr c in
      match is_truthy c with
      | Some true => x
      | Some false => y
      | None =>
        if is_equal_expr fc x && or_and_guard "OrToken" fc y then EBin "OrToken" (group_expr T (leftp "OrToken") c) y
        else if is_equal_expr fc y && or_and_guard "AndToken" fc x then EBin "AndToken" (group_expr T (leftp "AndToken") c) x
        else if is_equal_expr x y then group_expr T prec (EBin "CommaToken" c x)
        else
          match x, y with
          | ECall f a, ECall f' b =>
              if is_equal_expr f f' && negb (may_run_code c) then ECall f (ECond c a b) else
              (* falls through to the same tests as below: calls are neither true nor false nor conditionals *)
              if Nat.leb prec OpExpr then
                match c with
                | EGroup (EBin opc l r) => if is_op opc "CommaToken" && Nat.leb OpCoalesce (expr_prec T r) then EBin "CommaToken" l (ECond r x y) else ECond c x y
                | _ => ECond c x y
                end
              else ECond c x y
          | _, _ =>
            let tx := is_true x in let fx := is_false x in let ty := is_true y in let fy := is_false y in
            if (tx && fy) || (fx && ty) then optimize_boolean c fx prec
            else if tx || ty then
              let cond := optimize_boolean c ty (leftp "OrToken") in
              if ty then EBin "OrToken" cond (group_expr T (rightp "OrToken") x) else EBin "OrToken" cond (group_expr T (rightp "OrToken") y)
            else if fx || fy then
              let cond := optimize_boolean c fx (leftp "AndToken") in
              if fx then EBin "AndToken" cond (group_expr T (rightp "AndToken") y) else EBin "AndToken" cond (group_expr T (rightp "AndToken") x)
            else
              match x with
              | ECond c2 x2 y2 =>
                  if is_equal_expr y y2 then ECond (EBin "AndToken" (group_expr T (leftp "AndToken") c) (group_expr T (rightp "AndToken") c2)) x2 y
                  else if Nat.leb prec OpExpr then
                    match c with
                    | EGroup (EBin opc l r) => if is_op opc "CommaToken" && Nat.leb OpCoalesce (expr_prec T r) then EBin "CommaToken" l (ECond r x y) else ECond c x y
                    | _ => ECond c x y
                    end
                  else ECond c x y
              | _ =>
                  if Nat.leb prec OpExpr then
                    match c with
                    | EGroup (EBin opc l r) => if is_op opc "CommaToken" && Nat.leb OpCoalesce (expr_prec T r) then EBin "CommaToken" l (ECond r x y) else ECond c x y
                    | _ => ECond c x y
                    end
                  else ECond c x y
              end
          end
      end
    | _ => whole
    end.

  (* minifyExpr: rewrite the node for its position, then print it, children through minifyExpr again.  The rewrites can
     build new conditionals (f(a?x:y)), so the recursion is on fuel; out of fuel prints a marker that no real output has. *)
  Definition rewrite_node (e : expr) (prec : nat) : expr :=
    match e with
    | ECond _ _ _ => optimize_cond e prec
    | EPre _ _ => optimize_unary e prec
    | _ => e
    end.

  Fixpoint print_rw (fuel : nat) (prec : nat) (e0 : expr) : list tok :=
    match fuel with
    | O => [TAtom "OUT-OF-FUEL"]
    | S k =>
      match rewrite_node e0 prec with
      | EAtom s => [TAtom s]
      | EConst c => if Nat.ltb (const_guard T c) prec then [TL] ++ const_tokens c ++ [TR] else const_tokens c
      | EBin op x y =>
          if is_op op "CommaToken" then
            (* a CommaExpr: every item is printed at OpAssign; a comma on the left is the rest of the same flat list *)
            (match x with
             | EBin opl _ _ => if is_op opl "CommaToken" then print_rw k OpExpr x else print_rw k OpAssign x
             | _ => print_rw k OpAssign x
             end) ++ [TOp op] ++ print_rw k OpAssign y
          else
          (* (a,b) op c  ->  a,b op c  at statement level: the leading items are written as list items, the last item stays
             the left operand of op *)
          let unwrap :=
            if Nat.leb prec OpExpr then
              match x with
              | EGroup (EBin opc l r) =>
                  if is_op opc "CommaToken" && Nat.leb OpAnd (expr_prec T r) && Nat.leb (leftp op) (expr_prec T r) then Some (opc, l, r) else None
              | _ => None
              end
            else None in
          match unwrap with
          | Some (opc, l, r) =>
              (match l with
               | EBin opl _ _ => if is_op opl "CommaToken" then print_rw k OpExpr l else print_rw k OpAssign l
               | _ => print_rw k OpAssign l
               end) ++ [TOp opc] ++ print_rw k (leftp op) r ++ [TOp op] ++ print_rw k (rightp op) y
          | None => print_rw k (leftp op) x ++ [TOp op] ++ print_rw k (rightp op) y
          end
      | EPre op x => TOp op :: print_rw k (plookup (t_unary T) op) x
      | EPost op x => print_rw k (plookup (t_unary T) op) x ++ [TOp op]
      | ECond c x y => print_rw k OpCoalesce c ++ [TQ] ++ print_rw k OpAssign x ++ [TColon] ++ print_rw k OpAssign y
      | EGroup x =>
          let x1 := match x with ECond _ _ _ => optimize_cond x OpExpr | _ => x end in
          if Nat.leb prec (expr_prec T x1) then print_rw k prec x1 else [TL] ++ print_rw k OpExpr x1 ++ [TR]
      | ECall f a => print_rw k OpCall f ++ [TL] ++ print_rw k OpAssign a ++ [TR]
      | EDot x n _ => print_rw k (if Nat.leb OpNew prec then OpMember else OpCall) x ++ [TDot; TAtom n]
      | EIndex x i _ => print_rw k (if Nat.ltb prec OpNew then OpCall else OpMember) x ++ [TLB] ++ print_rw k OpExpr i ++ [TRB]
      end
    end.
End Rewrite.
