(* Js/RewritePipe.v — the whole expression pipeline of js.go on the fragment of Js/RewriteModel.v, as a TREE:
   [rw fuel prec e] is the expression exactly as minifyExpr writes it at a position of precedence [prec] — rewrites applied
   at every node, kept parentheses as EGroup, dropped ones gone, the (a,b)&&c unwrapping done — and [emit] writes a tree
   without taking any decision (every EGroup is a pair of parentheses, nothing else is).  print_rw (the token model that
   is compared with the real minifier on every run) is emit after rw (print_rw_is_emit_rw), so that
     - what the output MEANS is the meaning of the tree rw returns (RewriteProofs: same value, same effects), and
     - that the output PARSES BACK to that tree is a statement about rw's result alone: it is parser-shaped (wf) at the
       level of its position, hence emit derives it in the ECMA-262 grammar (PrintSpec.D). *)
From Coq Require Import List String Arith Bool ZArith.
Import ListNotations.
From MV Require Import Js.PrintModel Js.PrintSpec Js.PrintGroup Js.RewriteModel.
Local Open Scope string_scope.

Fixpoint emit (e : expr) : list tok :=
  match e with
  | EAtom s => [TAtom s]
  | EConst c => const_tokens c
  | EBin op x y => emit x ++ [TOp op] ++ emit y
  | EPre op x => TOp op :: emit x
  | EPost op x => emit x ++ [TOp op]
  | ECond c x y => emit c ++ [TQ] ++ emit x ++ [TColon] ++ emit y
  | EGroup x => [TL] ++ emit x ++ [TR]
  | ECall f a => emit f ++ [TL] ++ emit a ++ [TR]
  | EDot x n _ => emit x ++ [TDot; TAtom n]
  | EIndex x i _ => emit x ++ [TLB] ++ emit i ++ [TRB]
  end.

(* the tree a conforming parser builds from emit's tokens: constants stand for their replacement expressions *)
Fixpoint deconst (e : expr) : expr :=
  match e with
  | EAtom s => EAtom s
  | EConst c => const_expr c
  | EBin op x y => EBin op (deconst x) (deconst y)
  | EPre op x => EPre op (deconst x)
  | EPost op x => EPost op (deconst x)
  | ECond c x y => ECond (deconst c) (deconst x) (deconst y)
  | EGroup x => EGroup (deconst x)
  | ECall f a => ECall (deconst f) (deconst a)
  | EDot x n c => EDot (deconst x) n c
  | EIndex x i c => EIndex (deconst x) (deconst i) c
  end.

Section Pipe.
  Variable T : tables.

  (* None = out of fuel *)
  Definition obind {A B} (o : option A) (f : A -> option B) : option B := match o with Some a => f a | None => None end.

  Fixpoint rw (fuel : nat) (prec : nat) (e0 : expr) : option expr :=
    match fuel with
    | O => None
    | S k =>
      match rewrite_node T e0 prec with
      | EAtom s => Some (EAtom s)
      | EConst c => Some (if Nat.ltb (const_guard T c) prec then EGroup (EConst c) else EConst c)
      | EBin op x y =>
          if is_op op "CommaToken" then
            obind (match x with
                   | EBin opl _ _ => if is_op opl "CommaToken" then rw k OpExpr x else rw k OpAssign x
                   | _ => rw k OpAssign x
                   end) (fun x' => obind (rw k OpAssign y) (fun y' => Some (EBin op x' y')))
          else
          let unwrap :=
            if Nat.leb prec OpExpr then
              match x with
              | EGroup (EBin opc l r) =>
                  if is_op opc "CommaToken" && Nat.leb OpAnd (expr_prec T r) && Nat.leb (leftp T op) (expr_prec T r) then Some (opc, l, r) else None
              | _ => None
              end
            else None in
          match unwrap with
          | Some (opc, l, r) =>
              (* the tree the tokens parse to: l , (r op y) *)
              obind (match l with
                     | EBin opl _ _ => if is_op opl "CommaToken" then rw k OpExpr l else rw k OpAssign l
                     | _ => rw k OpAssign l
                     end) (fun l' => obind (rw k (leftp T op) r) (fun r' => obind (rw k (rightp T op) y) (fun y' => Some (EBin opc l' (EBin op r' y')))))
          | None => obind (rw k (leftp T op) x) (fun x' => obind (rw k (rightp T op) y) (fun y' => Some (EBin op x' y')))
          end
      | EPre op x => obind (rw k (plookup (t_unary T) op) x) (fun x' => Some (EPre op x'))
      | EPost op x => obind (rw k (plookup (t_unary T) op) x) (fun x' => Some (EPost op x'))
      | ECond c x y => obind (rw k OpCoalesce c) (fun c' => obind (rw k OpAssign x) (fun x' => obind (rw k OpAssign y) (fun y' => Some (ECond c' x' y'))))
      | EGroup x =>
          let x1 := match x with ECond _ _ _ => optimize_cond T x OpExpr | _ => x end in
          if Nat.leb prec (expr_prec T x1) then rw k prec x1 else obind (rw k OpExpr x1) (fun x' => Some (EGroup x'))
      | ECall f a => obind (rw k OpCall f) (fun f' => obind (rw k OpAssign a) (fun a' => Some (ECall f' a')))
      | EDot x n c => obind (rw k (if Nat.leb OpNew prec then OpMember else OpCall) x) (fun x' => Some (EDot x' n c))
      | EIndex x i c => obind (rw k (if Nat.ltb prec OpNew then OpCall else OpMember) x) (fun x' => obind (rw k OpExpr i) (fun i' => Some (EIndex x' i' c)))
      end
    end.
End Pipe.
