(* Js/RewritePipeProofs.v — the whole expression pipeline (rewrites at every node + parenthesis decisions): what is written
   parses back, in the ECMA-262 grammar, to a tree that evaluates like the input.
     B1  print_rw_is_emit_rw             print_rw = emit after rw
     B2  rw_preserves_value_and_effects  the written tree evaluates like the input (value and store)
     B3  rw_parser_shaped                the written tree is parser-shaped at the level of its position
     MAIN pipeline_output_parses_back    the tokens derive that tree in the grammar
   Hypotheses that had to be added, each with a proved example of why (end of the sections concerned):
     - simple_targets (B2): the target of every simple assignment is an identifier / constant name / member expression once
       its parentheses are removed.  `(true?a:b)=b` is written `a=b` and `(a,b)=a` is written `a,b=a`: both inputs are early
       SyntaxErrors in ECMA-262 (invalid assignment target), which the rewrites turn into valid programs.
     - exact_tables_ok (B3): the printer's own level of every operator IS its grammar level, and the operand levels of
       && and || are the grammar's.  prec_tables_ok alone lets a map entry be lower than the grammar level; the De Morgan
       rewrite then writes !(x+y&&b) as !x+y||!b (exact_tables_needed).  The maps of the current source are exact.
     - rw_parser_shaped speaks about wfx, not wf: wf reads the chain_has_call flag of a member node as its level, and when
       the printer drops the parentheses of (f(a)).b the written tree keeps the stale flag (stale_flag_not_wf).  The
       grammar does not know the flag; wfx is wf without it, and is exactly derivability (emit_derives, derives_wfx).
   emit_derives has its side condition as no_const u = true (no EConst anywhere), which deconst establishes. *)
From Coq Require Import List String Arith Bool ZArith Lia.
Import ListNotations.
From MV Require Import Js.PrintModel Js.PrintSpec Js.PrintGen Js.PrintProofs Js.PrintGroup Js.RewriteModel Js.RewriteSem Js.RewriteProofs Js.RewritePipe.
Local Open Scope string_scope.
Local Arguments slookup : simpl never.

(* ---------- B1: the token model that is compared with the real minifier IS emit after rw ---------- *)
Lemma obind_some : forall A B (o : option A) (f : A -> option B) b, obind o f = Some b -> exists a, o = Some a /\ f a = Some b.
Proof. intros A B [a|] f b H; [exists a; auto|discriminate H]. Qed.

Ltac ob H := let a := fresh "t" in let H1 := fresh "R" in
  apply obind_some in H; destruct H as [a [H1 H]].

Theorem print_rw_is_emit_rw : forall T fuel prec e t, rw T fuel prec e = Some t -> print_rw T fuel prec e = emit t.
Proof.
  intros T fuel. induction fuel as [|k IH]; intros prec e t H; [discriminate H|].
  cbn [rw print_rw] in *.
  destruct (rewrite_node T e prec) as [s|op x y|op x|op x|c x y|x|f a|x n c|x i c|c].
  - injection H as <-. reflexivity.
  - destruct (is_op op "CommaToken").
    + ob H. ob H. injection H as <-. cbn [emit]. rewrite (IH _ _ _ R0).
      destruct x as [ |opl ? ?| | | | | | | | ]; try (rewrite (IH _ _ _ R); reflexivity).
      destruct (is_op opl "CommaToken"); rewrite (IH _ _ _ R); reflexivity.
    + cbv zeta in *.
      match type of H with match ?u with _ => _ end = _ => destruct u as [[[opc l] r]|] end.
      * ob H. ob H. ob H. injection H as <-. cbn [emit]. rewrite (IH _ _ _ R0), (IH _ _ _ R1).
        rewrite <- ?app_assoc. cbn [app].
        destruct l as [ |opl ? ?| | | | | | | | ]; try (rewrite (IH _ _ _ R); reflexivity).
        destruct (is_op opl "CommaToken"); rewrite (IH _ _ _ R); reflexivity.
      * ob H. ob H. injection H as <-. cbn [emit]. rewrite (IH _ _ _ R), (IH _ _ _ R0). reflexivity.
  - ob H. injection H as <-. cbn [emit]. rewrite (IH _ _ _ R). reflexivity.
  - ob H. injection H as <-. cbn [emit]. rewrite (IH _ _ _ R). reflexivity.
  - ob H. ob H. ob H. injection H as <-. cbn [emit]. rewrite (IH _ _ _ R), (IH _ _ _ R0), (IH _ _ _ R1). reflexivity.
  - cbv zeta in *. destruct (Nat.leb prec _).
    + apply IH. exact H.
    + ob H. injection H as <-. cbn [emit]. rewrite (IH _ _ _ R). reflexivity.
  - ob H. ob H. injection H as <-. cbn [emit]. rewrite (IH _ _ _ R), (IH _ _ _ R0). reflexivity.
  - ob H. injection H as <-. cbn [emit]. rewrite (IH _ _ _ R). reflexivity.
  - ob H. ob H. injection H as <-. cbn [emit]. rewrite (IH _ _ _ R), (IH _ _ _ R0). reflexivity.
  - injection H as <-. destruct (Nat.ltb (const_guard T c) prec); reflexivity.
Qed.

(* ---------- case principles: every outcome of a rewrite, with the tests that lead to it ---------- *)
Section Cases.
  Variable T : tables.

  Definition demorgan (op : string) (a b : expr) (prec : nat) : expr :=
    let op' := if is_op op "AndToken" then "OrToken" else "AndToken" in
    let prec_inside := binp T op' in
    let needs_group := Nat.ltb prec_inside prec && negb (Nat.eqb prec_inside OpCoalesce && Nat.eqb prec OpBitOr) in
    let is_eq_x := is_equals_bin T a in
    let is_eq_y := is_equals_bin T b in
    let needs_group_x := negb is_eq_x && Nat.leb (leftp T op) (expr_prec T a) && Nat.ltb (expr_prec T a) OpUnary in
    let needs_group_y := negb is_eq_y && Nat.leb (rightp T op) (expr_prec T b) && Nat.ltb (expr_prec T b) OpUnary in
    let x' := if is_eq_x then flip_eq a else EPre "NotToken" (if needs_group_x then EGroup a else a) in
    let y' := if is_eq_y then flip_eq b else EPre "NotToken" (if needs_group_y then EGroup b else b) in
    let r := EBin op' x' y' in
    if needs_group then EGroup r else r.

  Lemma optimize_unary_cases : forall (P : expr -> Prop) op0 x0 prec,
    P (EPre op0 x0) ->
    (forall e2, op0 = "NotToken" -> strip_nots true x0 = (false, e2) -> is_boolean_expr T e2 = true -> P (group_expr T prec e2)) ->
    (forall op a b, op0 = "NotToken" -> strip_nots true x0 = (true, EBin op a b) -> binp T op = OpEquals ->
       P (group_expr T prec (EBin (invert_op op) a b))) ->
    (forall op a b, op0 = "NotToken" -> strip_nots true x0 = (true, EBin op a b) -> op = "AndToken" \/ op = "OrToken" ->
       P (demorgan op a b prec)) ->
    P (optimize_unary T (EPre op0 x0) prec).
  Proof.
    intros P op0 x0 prec Hw Hb He Hd. unfold optimize_unary.
    unfold is_op at 1. destruct (String.eqb_spec op0 "NotToken") as [-> | N]; [|exact Hw]. cbn [negb].
    destruct (strip_nots true x0) as [invert e2] eqn:ES.
    destruct (negb invert && is_boolean_expr T e2) eqn:B.
    - apply andb_true_iff in B. destruct B as [B1 B2]. apply negb_true_iff in B1. subst invert. apply Hb; auto.
    - destruct e2 as [ | op a b | | | | | | | | ]; try exact Hw.
      destruct invert; cbn [negb]; [|exact Hw].
      destruct (Nat.eqb (binp T op) OpEquals) eqn:L.
      + apply Nat.eqb_eq in L. apply He; auto.
      + destruct (is_op op "AndToken" || is_op op "OrToken") eqn:EA; [|exact Hw].
        cbv zeta.
        match goal with |- P (if ?t then _ else _) => destruct t end; [|exact Hw].
        assert (Hop : op = "AndToken" \/ op = "OrToken").
        { apply orb_true_iff in EA. destruct EA as [EA|EA]; apply String.eqb_eq in EA; auto. }
        specialize (Hd op a b eq_refl eq_refl Hop). unfold demorgan in Hd. cbv zeta in Hd. exact Hd.
  Qed.

  Lemma optimize_cond_cases : forall (P : expr -> Prop) c0 x0 y0 prec c x y,
    cond_norm T c0 x0 y0 = (c, x, y) ->
    (is_truthy c = Some true -> P x) ->
    (is_truthy c = Some false -> P y) ->
    (is_equal_expr (final_expr c) x = true -> or_and_guard T "OrToken" (final_expr c) y = true ->
       P (EBin "OrToken" (group_expr T (leftp T "OrToken") c) y)) ->
    (is_equal_expr (final_expr c) y = true -> or_and_guard T "AndToken" (final_expr c) x = true ->
       P (EBin "AndToken" (group_expr T (leftp T "AndToken") c) x)) ->
    (is_equal_expr x y = true -> P (group_expr T prec (EBin "CommaToken" c x))) ->
    (forall f a f' b, x = ECall f a -> y = ECall f' b -> P (ECall f (ECond c a b))) ->
    P (hoist T c x y prec) ->
    P (cond_rest T c x y prec) ->
    P (optimize_cond T (ECond c0 x0 y0) prec).
  Proof.
    intros P c0 x0 y0 prec c x y En Ht Hf Hor Hand Hsame Hcall Hhoist Hrest. unfold optimize_cond.
    match goal with |- P (match ?n with _ => _ end) => change n with (cond_norm T c0 x0 y0) end.
    rewrite En. cbv zeta.
    destruct (is_truthy c) as [[|]|] eqn:Htr; [apply Ht; reflexivity|apply Hf; reflexivity|].
    destruct (is_equal_expr (final_expr c) x && or_and_guard T "OrToken" (final_expr c) y) eqn:E1.
    { apply andb_true_iff in E1. destruct E1. apply Hor; assumption. }
    destruct (is_equal_expr (final_expr c) y && or_and_guard T "AndToken" (final_expr c) x) eqn:E2.
    { apply andb_true_iff in E2. destruct E2. apply Hand; assumption. }
    destruct (is_equal_expr x y) eqn:E3; [apply Hsame; reflexivity|].
    destruct x as [ | | | | | |f a| | | ]; try exact Hrest.
    destruct y as [ | | | | | |f' b| | | ]; try exact Hrest.
    destruct (is_equal_expr f f' && negb (may_run_code c)) eqn:E4.
    - eapply Hcall; reflexivity.
    - exact Hhoist.
  Qed.
End Cases.

Section Cases2.
  Variable T : tables.
  Lemma hoist_cases : forall (P : expr -> Prop) c x y prec,
    P (ECond c x y) ->
    (forall opc l r, c = EGroup (EBin opc l r) -> prec <= OpExpr -> opc = "CommaToken" -> OpCoalesce <= expr_prec T r ->
       P (EBin "CommaToken" l (ECond r x y))) ->
    P (hoist T c x y prec).
  Proof.
    intros P c x y prec H1 H2. unfold hoist. destruct (Nat.leb_spec prec OpExpr) as [Hp|Hp]; [|exact H1].
    destruct c as [ | | | | |c| | | | ]; try exact H1. destruct c as [ |opc l r| | | | | | | | ]; try exact H1.
    destruct (is_op opc "CommaToken" && Nat.leb OpCoalesce (expr_prec T r)) eqn:E; [|exact H1].
    apply andb_true_iff in E. destruct E as [E1 E2]. apply String.eqb_eq in E1. apply Nat.leb_le in E2.
    eapply H2; eauto.
  Qed.

  Lemma cond_rest_cases : forall (P : expr -> Prop) c x y prec,
    (forall inv, P (optimize_boolean T c inv prec)) ->
    (forall inv z, z = x \/ z = y -> P (EBin "OrToken" (optimize_boolean T c inv (leftp T "OrToken")) (group_expr T (rightp T "OrToken") z))) ->
    (forall inv z, z = x \/ z = y -> P (EBin "AndToken" (optimize_boolean T c inv (leftp T "AndToken")) (group_expr T (rightp T "AndToken") z))) ->
    (forall c2 x2 y2, x = ECond c2 x2 y2 ->
       P (ECond (EBin "AndToken" (group_expr T (leftp T "AndToken") c) (group_expr T (rightp T "AndToken") c2)) x2 y)) ->
    P (hoist T c x y prec) ->
    P (cond_rest T c x y prec).
  Proof.
    intros P c x y prec Hb Hor Hand Hn Hh. unfold cond_rest. cbv zeta.
    destruct ((is_true x && is_false y) || (is_false x && is_true y)); [apply Hb|].
    destruct (is_true x || is_true y).
    { destruct (is_true y); apply Hor; auto. }
    destruct (is_false x || is_false y).
    { destruct (is_false x); apply Hand; auto. }
    destruct x as [ | | | |c2 x2 y2| | | | | ]; try exact Hh.
    destruct (is_equal_expr y y2); [eapply Hn; reflexivity|exact Hh].
  Qed.

  Lemma optimize_boolean_cases : forall (P : expr -> Prop) c inv prec,
    (is_equals_bin T c = true -> P (flip_eq c)) ->
    P (optimize_unary T (EPre "NotToken" (group_expr T OpUnary c)) prec) ->
    (is_boolean_expr T c = true -> P (group_expr T prec c)) ->
    P (EPre "NotToken" (EPre "NotToken" (group_expr T OpUnary c))) ->
    P (optimize_boolean T c inv prec).
  Proof.
    intros P c inv prec H1 H2 H3 H4. unfold optimize_boolean. destruct inv.
    - destruct (is_equals_bin T c) eqn:E; auto.
    - destruct (is_boolean_expr T c) eqn:E; auto.
  Qed.
End Cases2.

Ltac bsplit :=
  repeat match goal with
  | H : _ && _ = true |- _ => apply andb_true_iff in H; destruct H
  | |- _ && _ = true => apply andb_true_iff; split
  end.

(* ---------- a property of the targets of all "EqToken" nodes is kept by the rewrites (they build no assignment and
   leave every assignment they move untouched) ---------- *)
Section Targets.
  Variable okt : expr -> bool.
  Variable T : tables.
  Fixpoint tg (e : expr) : bool :=
    match e with
    | EAtom _ | EConst _ => true
    | EBin op x y => (negb (String.eqb op "EqToken") || okt x) && tg x && tg y
    | EPre _ x | EPost _ x | EGroup x | EDot x _ _ => tg x
    | ECond c x y => tg c && tg x && tg y
    | ECall f a => tg f && tg a
    | EIndex x i _ => tg x && tg i
    end.

  Lemma tg_group_expr : forall p e, tg (group_expr T p e) = tg e.
  Proof. intros p e. unfold group_expr. cbv zeta. match goal with |- tg (if ?b then _ else _) = _ => destruct b end; reflexivity. Qed.

  Lemma tg_strip_nots : forall x inv inv' e2, strip_nots inv x = (inv', e2) -> tg x = true -> tg e2 = true.
  Proof.
    induction x; intros inv inv' e2 H Hx; cbn [strip_nots] in H; try (injection H as <- <-; exact Hx).
    - destruct (is_op op "NotToken"); [eapply IHx; eauto|injection H as <- <-; exact Hx].
    - eapply IHx; eauto.
  Qed.

  Lemma invert_op_not_eq : forall op, String.eqb (invert_op op) "EqToken" = false.
  Proof. intro op. unfold invert_op. repeat match goal with |- context [if ?b then _ else _] => destruct b end; reflexivity. Qed.

  Lemma tg_inverted : forall op a b, tg a = true -> tg b = true -> tg (EBin (invert_op op) a b) = true.
  Proof. intros op a b Ha Hb. cbn [tg]. rewrite invert_op_not_eq, Ha, Hb. reflexivity. Qed.

  Lemma tg_bin_parts : forall op a b, tg (EBin op a b) = true -> tg a = true /\ tg b = true.
  Proof. intros op a b H. cbn [tg] in H. bsplit. auto. Qed.

  Lemma tg_flip_eq : forall e, tg e = true -> tg (flip_eq e) = true.
  Proof. intros e H. destruct e; try exact H. cbn [flip_eq]. apply tg_bin_parts in H. destruct H. apply tg_inverted; assumption. Qed.

  Lemma tg_neg_operand : forall a (g : bool), tg a = true ->
    tg (if is_equals_bin T a then flip_eq a else EPre "NotToken" (if g then EGroup a else a)) = true.
  Proof. intros a g H. destruct (is_equals_bin T a); [apply tg_flip_eq; exact H|destruct g; exact H]. Qed.

  Lemma tg_demorgan : forall op a b prec, tg a = true -> tg b = true -> tg (demorgan T op a b prec) = true.
  Proof.
    intros op a b prec Ha Hb. unfold demorgan. cbv zeta.
    match goal with |- tg (if ?g then EGroup ?r else ?r) = true => assert (R : tg r = true); [|destruct g; exact R] end.
    match goal with |- tg (EBin ?o ?x ?y) = true => assert (X : tg x = true) by (apply tg_neg_operand; exact Ha);
      assert (Y : tg y = true) by (apply tg_neg_operand; exact Hb); cbn [tg]; rewrite X, Y end.
    destruct (is_op op "AndToken"); reflexivity.
  Qed.

  Lemma tg_optimize_unary : forall e prec, tg e = true -> tg (optimize_unary T e prec) = true.
  Proof.
    intros e prec H. destruct e as [ | | op0 x0 | | | | | | | ]; try exact H.
    apply optimize_unary_cases.
    - exact H.
    - intros e2 _ ES _. rewrite tg_group_expr. eapply tg_strip_nots; eauto.
    - intros op a b _ ES _. rewrite tg_group_expr. pose proof (tg_strip_nots _ _ _ _ ES H) as H2.
      apply tg_bin_parts in H2. destruct H2. apply tg_inverted; assumption.
    - intros op a b _ ES _. pose proof (tg_strip_nots _ _ _ _ ES H) as H2.
      apply tg_bin_parts in H2. destruct H2. apply tg_demorgan; assumption.
  Qed.

  Lemma tg_optimize_boolean : forall c inv prec, tg c = true -> tg (optimize_boolean T c inv prec) = true.
  Proof.
    intros c inv prec H. apply optimize_boolean_cases.
    - intros _. apply tg_flip_eq. exact H.
    - apply tg_optimize_unary. cbn [tg]. rewrite tg_group_expr. exact H.
    - intros _. rewrite tg_group_expr. exact H.
    - cbn [tg]. rewrite tg_group_expr. exact H.
  Qed.

  Lemma tg_cond_norm : forall c0 x0 y0 c x y, cond_norm T c0 x0 y0 = (c, x, y) ->
    tg c0 = true -> tg x0 = true -> tg y0 = true -> tg c = true /\ tg x = true /\ tg y = true.
  Proof.
    intros c0 x0 y0 c x y H Hc Hx Hy. unfold cond_norm in H.
    destruct c0 as [ | |op1 u1| | | | | | | ]; try (injection H as <- <- <-; auto).
    destruct (is_op op1 "NotToken"); [|injection H as <- <- <-; auto].
    destruct u1 as [ | |op2 u2| | | | | | | ]; try (injection H as <- <- <-; auto).
    destruct (is_op op2 "NotToken"); [|injection H as <- <- <-; auto].
    destruct (is_boolean_expr T u2); injection H as <- <- <-; auto.
  Qed.

  Lemma tg_hoist : forall c x y prec, tg c = true -> tg x = true -> tg y = true -> tg (hoist T c x y prec) = true.
  Proof.
    intros c x y prec Hc Hx Hy. apply hoist_cases.
    - cbn [tg]. rewrite Hc, Hx, Hy. reflexivity.
    - intros opc l r -> _ -> _. cbn [tg] in Hc. bsplit. cbn [tg]. cbn. rewrite H0, H1, Hx, Hy. reflexivity.
  Qed.

  Lemma tg_cond_rest : forall c x y prec, tg c = true -> tg x = true -> tg y = true -> tg (cond_rest T c x y prec) = true.
  Proof.
    intros c x y prec Hc Hx Hy. apply cond_rest_cases.
    - intro inv. apply tg_optimize_boolean. exact Hc.
    - intros inv z Hz. cbn [tg]. cbn. rewrite tg_optimize_boolean by exact Hc. rewrite tg_group_expr. destruct Hz; subst z; assumption.
    - intros inv z Hz. cbn [tg]. cbn. rewrite tg_optimize_boolean by exact Hc. rewrite tg_group_expr. destruct Hz; subst z; assumption.
    - intros c2 x2 y2 ->. cbn [tg] in Hx. bsplit. cbn [tg]. cbn. rewrite !tg_group_expr, Hc, H, H1, Hy. reflexivity.
    - apply tg_hoist; assumption.
  Qed.

  Lemma tg_optimize_cond : forall e prec, tg e = true -> tg (optimize_cond T e prec) = true.
  Proof.
    intros e prec H. destruct e as [ | | | |c0 x0 y0| | | | | ]; try exact H.
    cbn [tg] in H. bsplit.
    destruct (cond_norm T c0 x0 y0) as [[c x] y] eqn:En.
    destruct (tg_cond_norm _ _ _ _ _ _ En H H1 H0) as (Hc & Hx & Hy).
    eapply optimize_cond_cases; [exact En| | | | | | | | ].
    - intros _. exact Hx.
    - intros _. exact Hy.
    - intros _ _. cbn [tg]. cbn. rewrite tg_group_expr, Hc, Hy. reflexivity.
    - intros _ _. cbn [tg]. cbn. rewrite tg_group_expr, Hc, Hx. reflexivity.
    - intros _. rewrite tg_group_expr. cbn [tg]. cbn. rewrite Hc, Hx. reflexivity.
    - intros f a f' b -> ->. cbn [tg] in Hx, Hy. bsplit. cbn [tg]. rewrite Hc. cbn. bsplit; assumption.
    - apply tg_hoist; assumption.
    - apply tg_cond_rest; assumption.
  Qed.

  Lemma tg_rewrite_node : forall e prec, tg e = true -> tg (rewrite_node T e prec) = true.
  Proof. intros e prec H. destruct e; try exact H; [apply tg_optimize_unary|apply tg_optimize_cond]; exact H. Qed.
End Targets.

(* ---------- B2 ---------- *)
Fixpoint no_const_assign (e : expr) : bool :=
  match e with
  | EAtom _ | EConst _ => true
  | EBin op x y =>
      negb (String.eqb op "EqToken" && match inner_expr x with EConst _ => true | _ => false end) && no_const_assign x && no_const_assign y
  | EPre _ x | EPost _ x | EGroup x | EDot x _ _ => no_const_assign x
  | ECond c x y => no_const_assign c && no_const_assign x && no_const_assign y
  | ECall f a => no_const_assign f && no_const_assign a
  | EIndex x i _ => no_const_assign x && no_const_assign i
  end.

(* the target of every simple assignment is (parentheses removed) an identifier, a constant name or a member expression:
   ECMA-262 makes everything else an early SyntaxError (AssignmentTargetType must be simple) *)
Definition simple_target (x : expr) : bool :=
  match inner_expr x with EAtom _ | EConst _ | EDot _ _ _ | EIndex _ _ _ => true | _ => false end.
Definition simple_targets (e : expr) : bool := tg simple_target e.

Definition not_const_target (x : expr) : bool := negb (match inner_expr x with EConst _ => true | _ => false end).
Lemma no_const_assign_tg : forall e, no_const_assign e = tg not_const_target e.
Proof.
  induction e; cbn [no_const_assign tg]; try reflexivity; try assumption;
    try (rewrite ?IHe1, ?IHe2, ?IHe3; reflexivity).
  rewrite IHe1, IHe2. unfold not_const_target. rewrite negb_andb. reflexivity.
Qed.

(* ---------- shapes ---------- *)
Definition atom_of (e : expr) : option string := match inner_expr e with EAtom n => Some n | _ => None end.
(* neither an identifier nor a conditional under its parentheses *)
Definition solid (e : expr) : bool := match inner_expr e with EAtom _ | ECond _ _ _ => false | _ => true end.

Lemma inner_group_expr : forall T p e, inner_expr (group_expr T p e) = inner_expr e.
Proof. intros T p e. unfold group_expr. cbv zeta. match goal with |- inner_expr (if ?b then _ else _) = _ => destruct b end; reflexivity. Qed.
Lemma inner_idem : forall e, inner_expr (inner_expr e) = inner_expr e.
Proof. induction e; try reflexivity. exact IHe. Qed.
Lemma inner_not_group : forall e x, inner_expr e <> EGroup x.
Proof. induction e; intros x0 H; try discriminate H. exact (IHe _ H). Qed.

Lemma expr_prec_inner : forall T e, expr_prec T (inner_expr e) = expr_prec T e.
Proof. induction e; try reflexivity. exact IHe. Qed.

Lemma boolean_solid : forall T e, is_boolean_expr T e = true -> solid e = true.
Proof.
  intros T e. unfold solid. induction e; intro H; cbn [is_boolean_expr] in H; try discriminate H; try reflexivity.
  cbn [inner_expr]. apply IHe. exact H.
Qed.

Lemma strip_nots_shape : forall x inv inv' e2, strip_nots inv x = (inv', e2) ->
  match e2 with EGroup _ => False | _ => True end.
Proof.
  induction x; intros inv inv' e2 H; cbn [strip_nots] in H; try (injection H as <- <-; exact I).
  - destruct (is_op op "NotToken"); [eapply IHx; eauto|injection H as <- <-; exact I].
  - eapply IHx; eauto.
Qed.

Lemma solid_optimize_unary : forall T op0 x0 prec, solid (optimize_unary T (EPre op0 x0) prec) = true.
Proof.
  intros T op0 x0 prec. apply optimize_unary_cases.
  - reflexivity.
  - intros e2 _ _ B. unfold solid. rewrite inner_group_expr. exact (boolean_solid _ _ B).
  - intros op a b _ _ _. unfold solid. rewrite inner_group_expr. reflexivity.
  - intros op a b _ _ _. unfold demorgan. cbv zeta. match goal with |- solid (if ?g then _ else _) = true => destruct g end; reflexivity.
Qed.

Definition unwrap_sel (T : tables) (prec : nat) (op : string) (x : expr) : option (string * expr * expr) :=
  if Nat.leb prec OpExpr then
    match x with
    | EGroup (EBin opc l r) =>
        if is_op opc "CommaToken" && Nat.leb OpAnd (expr_prec T r) && Nat.leb (leftp T op) (expr_prec T r) then Some (opc, l, r) else None
    | _ => None
    end
  else None.
Lemma unwrap_sel_some : forall T prec op x opc l r, unwrap_sel T prec op x = Some (opc, l, r) ->
  x = EGroup (EBin opc l r) /\ opc = "CommaToken" /\ prec <= OpExpr /\ OpAnd <= expr_prec T r /\ leftp T op <= expr_prec T r.
Proof.
  intros T prec op x opc l r H. unfold unwrap_sel in H. destruct (Nat.leb_spec prec OpExpr) as [Hp|Hp]; [|discriminate H].
  destruct x as [ | | | | |x| | | | ]; try discriminate H. destruct x as [ |opc0 l0 r0| | | | | | | | ]; try discriminate H.
  destruct (is_op opc0 "CommaToken" && Nat.leb OpAnd (expr_prec T r0) && Nat.leb (leftp T op) (expr_prec T r0)) eqn:E; [|discriminate H].
  injection H as -> -> ->. bsplit. apply String.eqb_eq in H. apply Nat.leb_le in H0, H1. auto.
Qed.
Ltac name_unwrap H T prec op x U :=
  match type of H with match ?u with _ => _ end = _ => change u with (unwrap_sel T prec op x) in H; destruct (unwrap_sel T prec op x) as [[[?opc ?l] ?r]|] eqn:U end.

Section Shapes.
  Variable T : tables.

  Lemma atom_prec : forall x n, inner_expr x = EAtom n -> expr_prec T x = OpPrimary.
  Proof. intros x n H. rewrite <- expr_prec_inner, H. reflexivity. Qed.

  (* an identifier in parentheses is written as the bare identifier *)
  Lemma rw_atom : forall fuel p x n t, inner_expr x = EAtom n -> p <= OpPrimary -> rw T fuel p x = Some t -> t = EAtom n.
  Proof.
    induction fuel as [|k IH]; intros p x n t Hx Hp H; [discriminate H|].
    destruct x; try discriminate Hx.
    - cbn [rw rewrite_node] in H. cbn [inner_expr] in Hx. congruence.
    - cbn [inner_expr] in Hx. cbn [rw rewrite_node] in H. cbv zeta in H.
      assert (X1 : match x with ECond _ _ _ => optimize_cond T x OpExpr | _ => x end = x) by (destruct x; try reflexivity; discriminate Hx).
      rewrite X1 in H. rewrite (atom_prec _ _ Hx) in H.
      apply Nat.leb_le in Hp. rewrite Hp in H. apply Nat.leb_le in Hp. eapply IH; eauto.
  Qed.

  (* anything else that is not a conditional does not become an identifier *)
  Lemma rw_solid : forall fuel p x t, solid x = true -> rw T fuel p x = Some t -> atom_of t = None.
  Proof.
    induction fuel as [|k IH]; intros p x t Hx H; [discriminate H|].
    assert (Hs : solid (rewrite_node T x p) = true).
    { destruct x; try exact Hx; try discriminate Hx. apply solid_optimize_unary. }
    cbn [rw] in H. clear Hx. revert Hs H. generalize (rewrite_node T x p) as e'. intros e' Hs H.
    destruct e' as [s|op x1 y1|op x1|op x1|c1 x1 y1|x1|f a|x1 n c|x1 i c|c]; try discriminate Hs.
    - destruct (is_op op "CommaToken").
      + ob H. ob H. injection H as <-. reflexivity.
      + cbv zeta in H.
        match type of H with match ?u with _ => _ end = _ => destruct u as [[[opc l] r]|] end.
        * ob H. ob H. ob H. injection H as <-. reflexivity.
        * ob H. ob H. injection H as <-. reflexivity.
    - ob H. injection H as <-. reflexivity.
    - ob H. injection H as <-. reflexivity.
    - cbv zeta in H.
      assert (X1 : match x1 with ECond _ _ _ => optimize_cond T x1 OpExpr | _ => x1 end = x1) by (destruct x1; try reflexivity; discriminate Hs).
      rewrite X1 in H. destruct (Nat.leb p (expr_prec T x1)).
      + eapply IH; [|exact H]. exact Hs.
      + ob H. injection H as <-. unfold atom_of. cbn [inner_expr]. eapply IH; [|exact R]. exact Hs.
    - ob H. ob H. injection H as <-. reflexivity.
    - ob H. injection H as <-. reflexivity.
    - ob H. ob H. injection H as <-. reflexivity.
    - injection H as <-. destruct (Nat.ltb (const_guard T c) p); reflexivity.
  Qed.

  Lemma rw_keeps_atom_of : forall fuel p x t, p <= OpPrimary -> (match inner_expr x with ECond _ _ _ => False | _ => True end) ->
    rw T fuel p x = Some t -> atom_of t = atom_of x.
  Proof.
    intros fuel p x t Hp Hx H. unfold atom_of at 2. destruct (inner_expr x) eqn:E; try contradiction;
      try (eapply rw_solid; [|exact H]; unfold solid; rewrite E; reflexivity).
    rewrite (rw_atom _ _ _ _ _ E Hp H). reflexivity.
  Qed.
End Shapes.

Lemma tg_inner : forall okt e, tg okt e = true -> tg okt (inner_expr e) = true.
Proof. induction e; intro H; try exact H. apply IHe. exact H. Qed.

Lemma no_hazard : forall T e, no_const_assign e = true -> const_assign_hazard T e = false.
Proof.
  intros T e H. rewrite no_const_assign_tg in H. destruct e as [ | | | |c0 x0 y0| | | | | ]; try reflexivity.
  unfold const_assign_hazard. cbn [tg] in H. bsplit.
  destruct (cond_norm T c0 x0 y0) as [[c x] y] eqn:En.
  destruct (tg_cond_norm _ _ _ _ _ _ _ _ En H H1 H0) as (Hc & _ & _). cbv zeta.
  assert (A : assigns_const c = false); [|rewrite A; reflexivity].
  unfold assigns_const. apply tg_inner in Hc. unfold last_of. cbv zeta.
  assert (G : forall t, tg not_const_target t = true -> targets_const t = false).
  { intros t Ht. destruct t; try reflexivity. cbn [tg] in Ht. bsplit. cbn [targets_const]. unfold is_op.
    destruct (String.eqb op "EqToken"); [|reflexivity]. cbn [negb orb] in H2. unfold not_const_target in H2.
    apply negb_true_iff in H2. rewrite H2. reflexivity. }
  destruct (inner_expr c) as [ |op l r| | | | | | | | ]; try (apply G; exact Hc).
  destruct (is_op op "CommaToken"); [|apply G; exact Hc]. cbn [tg] in Hc. bsplit. apply G. assumption.
Qed.

Section PipeSem.
  Variable T : tables.
  Variables (V S : Type) (truthy : V -> bool) (vtrue vfalse vundef vinf : V).
  Hypothesis truthy_true : truthy vtrue = true.
  Hypothesis truthy_false : truthy vfalse = false.
  Hypothesis truthy_undef : truthy vundef = false.
  Variables (var : string -> S -> V) (assign : string -> V -> S -> S).
  Hypothesis var_assign_same : forall x v s, var x (assign x v s) = v.
  Variables (call : V -> V -> S -> V * S) (strict_eq : V -> V -> bool) (loose_eq : V -> V -> S -> bool * S)
            (compare : string -> V -> V -> S -> bool * S) (arith : string -> V -> V -> S -> V * S)
            (pure_unop : string -> V -> V) (unop member : string -> V -> S -> V * S)
            (index : V -> V -> S -> V * S) (nullish : V -> bool).
  Hypothesis HT : sem_tables_ok T = true.
  Notation ev := (eval T V S truthy vtrue vfalse vundef vinf var assign call strict_eq loose_eq compare arith pure_unop unop member index nullish).

  Notation same a b := (forall s, ev a s = ev b s).

  Lemma eval_assign_atom : forall x y s, ev (EBin "EqToken" x y) s =
    match atom_of x with
    | Some name => let '(v, s1) := ev y s in (v, assign name v s1)
    | None => let '(a, s1) := ev x s in let '(b, s2) := ev y s1 in arith "EqToken" a b s2
    end.
  Proof. intros x y s. rewrite eval_assign. unfold atom_of. destruct (inner_expr x); reflexivity. Qed.

  Lemma cong_bin : forall op x y x' y', same x' x -> same y' y ->
    (op = "EqToken" -> atom_of x' = atom_of x) -> same (EBin op x' y') (EBin op x y).
  Proof.
    intros op x y x' y' Hx Hy Ha s.
    destruct (String.eqb_spec op "EqToken") as [-> | N].
    - rewrite !eval_assign_atom, (Ha eq_refl). destruct (atom_of x).
      + rewrite Hy. reflexivity.
      + rewrite Hx. destruct (ev x s) as [a s1]. rewrite Hy. reflexivity.
    - rewrite !eval_bin. apply String.eqb_neq in N. rewrite N.
      repeat match goal with |- (if ?b then _ else _) = _ => destruct b end;
        rewrite Hx; destruct (ev x s) as [a s1]; rewrite ?Hy; reflexivity.
  Qed.

  (* (l, r) op y  and  l, (r op y): the same evaluation for every operator but the comma and the simple assignment *)
  Lemma eval_reassoc : forall op l r y, String.eqb op "CommaToken" = false -> String.eqb op "EqToken" = false ->
    same (EBin "CommaToken" l (EBin op r y)) (EBin op (EGroup (EBin "CommaToken" l r)) y).
  Proof.
    intros op l r y Nc Ne s. rewrite eval_comma. rewrite (eval_bin T V S truthy vtrue vfalse vundef vinf var assign call strict_eq loose_eq compare arith pure_unop unop member index nullish op (EGroup (EBin "CommaToken" l r)) y s).
    rewrite Nc, Ne.
    repeat match goal with |- _ = (if ?b then _ else _) => destruct b eqn:? end;
      rewrite eval_group, eval_comma; destruct (ev l s) as [vl sl]; rewrite eval_bin;
      repeat match goal with H : _ = _ |- _ => rewrite H end; reflexivity.
  Qed.

  Lemma group_arg : forall x okt, tg okt x = true -> no_const_assign x = true ->
    let x1 := match x with ECond _ _ _ => optimize_cond T x OpExpr | _ => x end in same x1 x /\ tg okt x1 = true.
  Proof.
    intros x okt Ht Hn. destruct x; cbv zeta; try (split; [intro; reflexivity|exact Ht]).
    split; [|apply tg_optimize_cond; exact Ht].
    intro s. eapply optimize_cond_sound; eauto. apply no_hazard. exact Hn.
  Qed.

  Lemma cong_pre : forall op x x', same x' x -> same (EPre op x') (EPre op x).
  Proof. intros op x x' H s. rewrite !eval_pre, H. reflexivity. Qed.
  Lemma cong_post : forall op x x', same x' x -> same (EPost op x') (EPost op x).
  Proof. intros op x x' H s. cbn [eval]. rewrite H. reflexivity. Qed.
  Lemma cong_cond : forall c x y c' x' y', same c' c -> same x' x -> same y' y -> same (ECond c' x' y') (ECond c x y).
  Proof. intros c x y c' x' y' Hc Hx Hy s. rewrite !eval_cond, Hc. destruct (ev c s) as [v s1]. rewrite Hx, Hy. reflexivity. Qed.
  Lemma cong_call : forall f a f' a', same f' f -> same a' a -> same (ECall f' a') (ECall f a).
  Proof. intros f a f' a' Hf Ha s. rewrite !eval_call, Hf. destruct (ev f s) as [v s1]. rewrite Ha. reflexivity. Qed.
  Lemma cong_dot : forall x x' n c, same x' x -> same (EDot x' n c) (EDot x n c).
  Proof. intros x x' n c H s. cbn [eval]. rewrite H. reflexivity. Qed.
  Lemma cong_index : forall x i x' i' c, same x' x -> same i' i -> same (EIndex x' i' c) (EIndex x i c).
  Proof. intros x i x' i' c Hx Hi s. cbn [eval]. rewrite Hx. destruct (ev x s) as [v s1]. rewrite Hi. reflexivity. Qed.

  Lemma rw_same : forall fuel prec e t,
    tg not_const_target e = true -> tg simple_target e = true -> rw T fuel prec e = Some t -> same t e.
  Proof.
    induction fuel as [|k IH]; intros prec e t Hn Hs H; [discriminate H|].
    Ltac useIH := match goal with IH : forall (p : nat) (e t : expr), _ -> _ -> rw _ ?k p e = Some t -> _, R : rw _ ?k ?p ?e = Some ?t |- forall s, _ = eval _ _ _ _ _ _ _ _ _ _ _ _ _ _ _ _ _ _ _ _ ?e s => apply (IH p e t); assumption end.
    assert (E1 : same (rewrite_node T e prec) e).
    { intro s. eapply rewrite_node_sound; eauto. apply no_hazard. rewrite no_const_assign_tg. exact Hn. }
    intro s0. rewrite <- E1. revert s0. change (same t (rewrite_node T e prec)).
    pose proof (tg_rewrite_node _ T e prec Hn) as Hn'. pose proof (tg_rewrite_node _ T e prec Hs) as Hs'.
    cbn [rw] in H. clear E1 Hn Hs. revert Hn' Hs' H. generalize (rewrite_node T e prec) as e'. clear e. intros e' Hn Hs H.
    destruct e' as [s|op x y|op x|op x|c x y|x|f a|x n c|x i c|c]; cbn [tg] in Hn, Hs.
    - injection H as <-. intro; reflexivity.
    - apply andb_true_iff in Hs. destruct Hs as [Hs Hsy]. apply andb_true_iff in Hs. destruct Hs as [Hst Hsx].
      apply andb_true_iff in Hn. destruct Hn as [Hn Hny]. apply andb_true_iff in Hn. destruct Hn as [_ Hnx].
      destruct (is_op op "CommaToken") eqn:EC.
      + apply String.eqb_eq in EC. subst op. ob H. ob H. injection H as <-.
        apply cong_bin; [|useIH|discriminate].
        destruct x as [ |opl ? ?| | | | | | | | ]; try (useIH).
        destruct (is_op opl "CommaToken"); useIH.
      + cbv zeta in H. name_unwrap H T prec op x U.
        * apply unwrap_sel_some in U. destruct U as (-> & -> & _ & _ & _).
          ob H. ob H. ob H. injection H as <-.
          cbn [tg] in Hsx, Hnx.
          apply andb_true_iff in Hsx. destruct Hsx as [Hsx Hsr]. apply andb_true_iff in Hsx. destruct Hsx as [_ Hsl].
          apply andb_true_iff in Hnx. destruct Hnx as [Hnx Hnr]. apply andb_true_iff in Hnx. destruct Hnx as [_ Hnl].
          assert (NE : String.eqb op "EqToken" = false).
          { destruct (String.eqb op "EqToken"); [|reflexivity]. vm_compute in Hst. discriminate Hst. }
          assert (L : same t0 l).
          { destruct l as [ |opl ? ?| | | | | | | | ]; try (useIH). destruct (is_op opl "CommaToken"); useIH. }
          intro s. rewrite <- (eval_reassoc op l r y EC NE s). revert s.
          apply cong_bin; [exact L| |discriminate].
          apply cong_bin; [useIH|useIH|].
          intros ->. discriminate NE.
        * ob H. ob H. injection H as <-.
          apply cong_bin; [useIH|useIH|].
          intros ->. change (simple_target x = true) in Hst. unfold simple_target in Hst.
          eapply rw_keeps_atom_of; [apply plookup_le| |exact R]. destruct (inner_expr x); try discriminate Hst; exact I.
    - ob H. injection H as <-. apply cong_pre. useIH.
    - ob H. injection H as <-. apply cong_post. useIH.
    - bsplit. ob H. ob H. ob H. injection H as <-. apply cong_cond; useIH.
    - assert (Hnx : no_const_assign x = true) by (rewrite no_const_assign_tg; exact Hn).
      destruct (group_arg x _ Hn Hnx) as [G1 G2]. destruct (group_arg x _ Hs Hnx) as [_ G3].
      cbv zeta in H, G1, G2, G3.
      destruct (Nat.leb prec _).
      + intro s. rewrite eval_group, <- G1. revert s. useIH.
      + ob H. injection H as <-. intro s. rewrite !eval_group, <- G1. revert s. useIH.
    - bsplit. ob H. ob H. injection H as <-. apply cong_call; useIH.
    - ob H. injection H as <-. apply cong_dot; useIH.
    - bsplit. ob H. ob H. injection H as <-. apply cong_index; useIH.
    - injection H as <-. destruct (Nat.ltb (const_guard T c) prec); intro; reflexivity.
  Qed.

  (* B2: the tree that is written evaluates like the input: same value, same store *)
  Theorem rw_preserves_value_and_effects : forall fuel prec e t,
    no_const_assign e = true -> simple_targets e = true -> rw T fuel prec e = Some t -> forall s, ev t s = ev e s.
  Proof.
    intros fuel prec e t Hn Hs H. rewrite no_const_assign_tg in Hn. exact (rw_same fuel prec e t Hn Hs H).
  Qed.
End PipeSem.

(* ---------- simple_targets is needed ----------
   JavaScript:  (true ? a : b) = b   and   (a, b) = a   are early SyntaxErrors (the target of = is not simple).  The model,
   like the parser the minifier uses, takes them; the conditional folds to `a`, the comma list is unwrapped, and what is
   written, `a=b` and `a,b=a`, ASSIGNS where the input (whatever it means) does not.  Instance of the semantics: the one of
   RewriteProofs.ConstAssignCounterexample (an assignment to a non-identifier leaves the store alone). *)
Module SimpleTargetsNeeded.
  Import ConstAssignCounterexample.
  Definition e1 := EBin "EqToken" (EGroup (ECond (EConst CTrue) (EAtom "a") (EAtom "b"))) (EAtom "b").
  Definition e2 := EBin "EqToken" (EGroup (EBin "CommaToken" (EAtom "a") (EAtom "b"))) (EAtom "a").
  Example cond_target :
    no_const_assign e1 = true /\ simple_targets e1 = false /\
    rw T_gen 5 0 e1 = Some (EBin "EqToken" (EAtom "a") (EAtom "b")) /\
    print_rw T_gen 5 0 e1 = [TAtom "a"; TOp "EqToken"; TAtom "b"] /\
    ev e1 s0 = (7, s0) /\ ev (EBin "EqToken" (EAtom "a") (EAtom "b")) s0 = (7, ("a", 7) :: s0).
  Proof. vm_compute. repeat split; reflexivity. Qed.
  Example comma_target :
    no_const_assign e2 = true /\ simple_targets e2 = false /\
    rw T_gen 5 0 e2 = Some (EBin "CommaToken" (EAtom "a") (EBin "EqToken" (EAtom "b") (EAtom "a"))) /\
    print_rw T_gen 5 0 e2 = [TAtom "a"; TOp "CommaToken"; TAtom "b"; TOp "EqToken"; TAtom "a"] /\
    ev e2 s0 = (5, s0) /\ ev (EBin "CommaToken" (EAtom "a") (EBin "EqToken" (EAtom "b") (EAtom "a"))) s0 = (5, ("b", 5) :: s0).
  Proof. vm_compute. repeat split; reflexivity. Qed.
End SimpleTargetsNeeded.

(* ---------- B3 ---------- *)
(* ---------- parser-shaped, without the chain_has_call flag ----------
   wf reads the flag of EDot / EIndex as the level of the node.  The flag is an annotation the parser computes; when the
   printer drops the parentheses of (f(a)).b the written tree keeps the stale flag (false) over a call.  The grammar (D)
   does not know the flag, and neither does wfx: it is wf with "either reading" at member nodes. *)
Fixpoint wfx (l : nat) (e : expr) : Prop :=
  match e with
  | EAtom _ => True
  | EGroup x => wfx 0 x
  | EBin op x y => match slookup spec_binary op with
                   | Some (lv, lf, rt) => l <= lv /\ wfx lf x /\ wfx rt y
                   | None => False
                   end
  | EPre op x => match slookup spec_prefix op with Some (lv, ol) => l <= lv /\ wfx ol x | None => False end
  | EPost op x => match slookup spec_postfix op with Some (lv, ol) => l <= lv /\ wfx ol x | None => False end
  | ECond c x y => l <= 1 /\ wfx 2 c /\ wfx 1 x /\ wfx 1 y
  | ECall f a => l <= 17 /\ wfx 17 f /\ wfx 1 a
  | EDot x _ _ => (l <= 17 /\ wfx 17 x) \/ (l <= 19 /\ wfx 19 x)
  | EIndex x i _ => ((l <= 17 /\ wfx 17 x) \/ (l <= 19 /\ wfx 19 x)) /\ wfx 0 i
  | EConst _ => True
  end.

Lemma wf_wfx : forall e l, wf l e -> wfx l e.
Proof.
  induction e; intros l H; cbn [wf wfx] in *; auto.
  - destruct (slookup spec_binary op) as [[[lv lf] rt]|]; [|contradiction]. destruct H as (? & ? & ?). auto.
  - destruct (slookup spec_prefix op) as [[lv ol]|]; [|contradiction]. destruct H. auto.
  - destruct (slookup spec_postfix op) as [[lv ol]|]; [|contradiction]. destruct H. auto.
  - destruct H as (? & ? & ? & ?). auto.
  - destruct H as (? & ? & ?). auto.
  - destruct chain_has_call; destruct H; auto.
  - destruct H as [H Hi]. split; [|auto]. destruct chain_has_call; destruct H; auto.
Qed.

Lemma wf_weaken : forall e l l', wf l e -> l' <= l -> wf l' e.
Proof.
  destruct e; intros l l' H Hle; cbn [wf] in *; auto.
  - destruct (slookup spec_binary op) as [[[lv lf] rt]|]; [|contradiction]. destruct H as (? & ? & ?). repeat split; auto; lia.
  - destruct (slookup spec_prefix op) as [[lv ol]|]; [|contradiction]. destruct H. split; auto; lia.
  - destruct (slookup spec_postfix op) as [[lv ol]|]; [|contradiction]. destruct H. split; auto; lia.
  - destruct H as (? & ? & ? & ?). repeat split; auto; lia.
  - destruct H as (? & ? & ?). repeat split; auto; lia.
  - destruct chain_has_call; destruct H; split; auto; lia.
  - destruct H as [H Hi]. split; [|auto]. destruct chain_has_call; destruct H; split; auto; lia.
Qed.

Lemma wfx_weaken : forall e l l', wfx l e -> l' <= l -> wfx l' e.
Proof.
  destruct e; intros l l' H Hle; cbn [wfx] in *; auto.
  - destruct (slookup spec_binary op) as [[[lv lf] rt]|]; [|contradiction]. destruct H as (? & ? & ?). repeat split; auto; lia.
  - destruct (slookup spec_prefix op) as [[lv ol]|]; [|contradiction]. destruct H. split; auto; lia.
  - destruct (slookup spec_postfix op) as [[lv ol]|]; [|contradiction]. destruct H. split; auto; lia.
  - destruct H as (? & ? & ? & ?). repeat split; auto; lia.
  - destruct H as (? & ? & ?). repeat split; auto; lia.
  - destruct H as [[? ?]|[? ?]]; [left|right]; split; auto; lia.
  - destruct H as [H Hi]. split; [|auto]. destruct H as [[? ?]|[? ?]]; [left|right]; split; auto; lia.
Qed.

(* ---------- emit ---------- *)
Lemma emit_deconst : forall t, emit (deconst t) = emit t.
Proof.
  induction t; cbn [deconst emit]; rewrite ?IHt, ?IHt1, ?IHt2, ?IHt3; try reflexivity.
  destruct k; reflexivity.
Qed.

Fixpoint no_const (e : expr) : bool :=
  match e with
  | EAtom _ => true
  | EConst _ => false
  | EBin _ x y | ECall x y | EIndex x y _ => no_const x && no_const y
  | EPre _ x | EPost _ x | EGroup x | EDot x _ _ => no_const x
  | ECond c x y => no_const c && no_const x && no_const y
  end.
Lemma no_const_deconst : forall t, no_const (deconst t) = true.
Proof.
  induction t; cbn [deconst no_const]; rewrite ?IHt, ?IHt1, ?IHt2, ?IHt3; try reflexivity.
  destruct k; reflexivity.
Qed.
Lemma deconst_no_const : forall u, no_const u = true -> deconst u = u.
Proof.
  induction u; cbn [deconst no_const]; intro H; bsplit; rewrite ?IHu, ?IHu1, ?IHu2, ?IHu3 by assumption; try reflexivity.
  discriminate H.
Qed.

(* a constant-free parser-shaped tree is derived, in the grammar, by the tokens emit writes for it *)
Theorem emit_derives : forall u l, wfx l u -> no_const u = true -> D l (emit u) u.
Proof.
  induction u; intros l H Hc; cbn [wfx emit no_const] in *; bsplit.
  - apply D_atom.
  - destruct (slookup spec_binary op) as [[[lv lf] rt]|] eqn:Hs; [|contradiction]. destruct H as (? & ? & ?).
    eapply D_bin; eauto.
  - destruct (slookup spec_prefix op) as [[lv ol]|] eqn:Hs; [|contradiction]. destruct H. eapply D_pre; eauto.
  - destruct (slookup spec_postfix op) as [[lv ol]|] eqn:Hs; [|contradiction]. destruct H. eapply D_post; eauto.
  - destruct H as (? & ? & ? & ?). apply D_cond; auto.
  - apply D_group. auto.
  - destruct H as (? & ? & ?). apply D_call; auto.
  - destruct H as [[? ?]|[? ?]]; [apply D_dot_call|apply D_dot_member]; auto.
  - destruct H as [H Hi]. destruct H as [[? ?]|[? ?]]; [apply D_index_call|apply D_index_member]; auto.
  - discriminate Hc.
Qed.

(* and conversely: wfx is exactly derivability of the emitted tokens *)
Lemma derives_wfx : forall l ts u, D l ts u -> wfx l u.
Proof.
  intros l ts u H. induction H; cbn [wfx]; auto.
  - rewrite H. auto.
  - rewrite H. auto.
  - rewrite H. auto.
Qed.

(* ---------- what the rewrites need of the tables beyond prec_tables_ok ----------
   prec_tables_ok allows the printer's own level of an operator to be LOWER than its grammar level (that only costs
   parentheses).  The De Morgan rewrite decides from exprPrec(operand) < leftPrec(op) that an operand "is already
   parenthesised", and the c?x:y -> c||y rewrite from rightPrec(op) <= exprPrec(y) that y needs none: both read the maps
   as the grammar levels themselves.  exact_tables_ok says that they are. *)
Definition exact_binary (T : tables) (e : string * (nat * nat * nat)) : bool :=
  let '(op, (lv, _, _)) := e in Nat.eqb (plookup (t_binop T) op) lv.
Definition exact_unary (T : tables) (e : string * (nat * nat)) : bool :=
  let '(op, (lv, _)) := e in Nat.eqb (plookup (t_unop T) op) lv.
Definition exact_tables_ok (T : tables) : bool :=
  forallb (exact_binary T) spec_binary && forallb (exact_unary T) spec_prefix && forallb (exact_unary T) spec_postfix &&
  Nat.eqb (leftp T "AndToken") 4 && Nat.eqb (rightp T "AndToken") 4 && Nat.eqb (leftp T "OrToken") 3 && Nat.eqb (rightp T "OrToken") 3.

Example js_exact_tables_ok : exact_tables_ok T_gen = true.
Proof. vm_compute. reflexivity. Qed.

(* facts about the grammar tables alone *)
Lemma spec_noncomma_level : forall op lv lf rt, slookup spec_binary op = Some (lv, lf, rt) -> String.eqb op "CommaToken" = false -> 1 <= lv.
Proof.
  intros op lv lf rt Hs Hc.
  assert (A : forallb (fun e : string * (nat * nat * nat) => let '(o, (v, _, _)) := e in String.eqb o "CommaToken" || Nat.leb 1 v) spec_binary = true) by (vm_compute; reflexivity).
  rewrite forallb_forall in A. specialize (A _ (slookup_In _ _ _ _ Hs)). cbv beta iota in A. rewrite Hc in A. apply Nat.leb_le in A. exact A.
Qed.
Lemma spec_not : slookup spec_prefix "NotToken" = Some (14, 14). Proof. reflexivity. Qed.
Lemma spec_and : slookup spec_binary "AndToken" = Some (4, 4, 4). Proof. reflexivity. Qed.
Lemma spec_or : slookup spec_binary "OrToken" = Some (3, 3, 3). Proof. reflexivity. Qed.
Lemma spec_comma : slookup spec_binary "CommaToken" = Some (0, 0, 1). Proof. reflexivity. Qed.
Lemma spec_four_eq : forall op, four_eq op = true -> slookup spec_binary op = Some (8, 8, 9).
Proof.
  intros op H. unfold four_eq in H. repeat (apply orb_true_iff in H; destruct H as [H|H]); apply String.eqb_eq in H; subst op; reflexivity.
Qed.
Lemma invert_four_eq : forall op, four_eq op = true -> four_eq (invert_op op) = true.
Proof.
  intros op H. unfold four_eq in H. repeat (apply orb_true_iff in H; destruct H as [H|H]); apply String.eqb_eq in H; subst op; reflexivity.
Qed.

Section Exact.
  Variable T : tables.
  Hypothesis HP : prec_tables_ok T = true.
  Hypothesis HS : sem_tables_ok T = true.
  Hypothesis HE : exact_tables_ok T = true.

  Ltac split_he :=
    let H := fresh "HE0" in
    pose proof HE as H; unfold exact_tables_ok in H;
    do 6 (let H2 := fresh "HEc" in apply andb_true_iff in H; destruct H as [H H2]).

  Lemma exact_bin : forall op lv lf rt, slookup spec_binary op = Some (lv, lf, rt) -> binp T op = lv.
  Proof.
    intros op lv lf rt Hs. split_he. rewrite forallb_forall in HE0. specialize (HE0 _ (slookup_In _ _ _ _ Hs)).
    unfold exact_binary in HE0. apply Nat.eqb_eq in HE0. exact HE0.
  Qed.
  Lemma exact_pre : forall op lv ol, slookup spec_prefix op = Some (lv, ol) -> plookup (t_unop T) op = lv.
  Proof.
    intros op lv ol Hs. split_he. rewrite forallb_forall in HEc4. specialize (HEc4 _ (slookup_In _ _ _ _ Hs)).
    unfold exact_unary in HEc4. apply Nat.eqb_eq in HEc4. exact HEc4.
  Qed.
  Lemma exact_post : forall op lv ol, slookup spec_postfix op = Some (lv, ol) -> plookup (t_unop T) op = lv.
  Proof.
    intros op lv ol Hs. split_he. rewrite forallb_forall in HEc3. specialize (HEc3 _ (slookup_In _ _ _ _ Hs)).
    unfold exact_unary in HEc3. apply Nat.eqb_eq in HEc3. exact HEc3.
  Qed.
  Lemma leftp_and : leftp T "AndToken" = 4. Proof. split_he. apply Nat.eqb_eq. assumption. Qed.
  Lemma rightp_and : rightp T "AndToken" = 4. Proof. split_he. apply Nat.eqb_eq. assumption. Qed.
  Lemma leftp_or : leftp T "OrToken" = 3. Proof. split_he. apply Nat.eqb_eq. assumption. Qed.
  Lemma rightp_or : rightp T "OrToken" = 3. Proof. split_he. apply Nat.eqb_eq. assumption. Qed.

  (* an unparenthesised operand at a position of level l has, for the printer too, at least level l *)
  Lemma wf_le_prec : forall a l, wf l a -> is_group a = false -> l <= OpPrimary -> l <= expr_prec T a.
  Proof.
    intros a l H G Hl. destruct a; cbn [wf expr_prec] in *; try exact Hl; try discriminate G.
    - destruct (slookup spec_binary op) as [[[lv lf] rt]|] eqn:Hs; [|contradiction].
      pose proof (exact_bin _ _ _ _ Hs) as E. unfold binp in E. rewrite E. tauto.
    - destruct (slookup spec_prefix op) as [[lv ol]|] eqn:Hs; [|contradiction]. rewrite (exact_pre _ _ _ Hs). tauto.
    - destruct (slookup spec_postfix op) as [[lv ol]|] eqn:Hs; [|contradiction]. rewrite (exact_post _ _ _ Hs). tauto.
    - unfold OpAssign. tauto.
    - unfold OpCall. tauto.
    - destruct chain_has_call; unfold OpCall, OpMember; tauto.
    - destruct chain_has_call; unfold OpCall, OpMember; tauto.
  Qed.

  Lemma boolean_prec : forall e, is_boolean_expr T e = true -> expr_prec T e <> OpCoalesce.
  Proof.
    induction e; intro H; cbn [is_boolean_expr] in H; try discriminate H; cbn [expr_prec].
    - fold (binp T op) in *.
      destruct (Nat.eqb (binp T op) OpAnd || Nat.eqb (binp T op) OpOr) eqn:L.
      + apply orb_true_iff in L. destruct L as [L|L]; apply Nat.eqb_eq in L; rewrite L; discriminate.
      + apply orb_true_iff in H. destruct H as [L2|L2]; apply Nat.eqb_eq in L2; rewrite L2; discriminate.
    - unfold is_op in H. apply String.eqb_eq in H. subst op. rewrite (exact_pre _ _ _ spec_not). discriminate.
    - apply IHe. exact H.
    - discriminate.
  Qed.

  (* subterms reached through ! and parentheses are parser-shaped at some level *)
  Lemma wf_strip_nots : forall x inv inv' e2 l, strip_nots inv x = (inv', e2) -> wf l x -> exists l2, wf l2 e2.
  Proof.
    induction x; intros inv inv' e2 l H Hx; cbn [strip_nots] in H; try (injection H as <- <-; exists l; exact Hx).
    - destruct (is_op op "NotToken"); [|injection H as <- <-; exists l; exact Hx].
      cbn [wf] in Hx. destruct (slookup spec_prefix op) as [[lv ol]|]; [|contradiction]. destruct Hx. eapply IHx; eauto.
    - cbn [wf] in Hx. eapply IHx; eauto.
  Qed.

  Lemma wf_inverted : forall op a b l, binp T op = OpEquals -> wf l (EBin op a b) -> wf 8 (EBin (invert_op op) a b).
  Proof.
    intros op a b l L H. pose proof (binp_equals_four T HS _ L) as F.
    cbn [wf] in *. rewrite (spec_four_eq _ F) in H. rewrite (spec_four_eq _ (invert_four_eq _ F)). destruct H as (_ & ? & ?). auto.
  Qed.
  Lemma prec_inverted : forall op a b, binp T op = OpEquals -> expr_prec T (EBin (invert_op op) a b) = OpEquals.
  Proof.
    intros op a b L. pose proof (binp_equals_four T HS _ L) as F. cbn [expr_prec].
    exact (four_eq_binp T HS _ (invert_four_eq _ F)).
  Qed.
  Lemma wf_flip_eq : forall e l, is_equals_bin T e = true -> wf l e -> wf 8 (flip_eq e).
  Proof.
    intros e l H Hw. destruct e; try discriminate H. cbn [is_equals_bin] in H. apply Nat.eqb_eq in H. cbn [flip_eq]. eapply wf_inverted; eauto.
  Qed.

  (* an operand of the De Morgan form *)
  Lemma wf_neg_operand : forall a q lq, wf lq a -> lq <= OpPrimary -> q <= lq ->
    wf 8 (if is_equals_bin T a then flip_eq a
          else EPre "NotToken" (if negb (is_equals_bin T a) && Nat.leb q (expr_prec T a) && Nat.ltb (expr_prec T a) OpUnary then EGroup a else a)).
  Proof.
    intros a q lq Ha Hl Hq. destruct (is_equals_bin T a) eqn:E; [eapply wf_flip_eq; eauto|].
    cbn [negb andb wf]. rewrite spec_not. split; [lia|].
    destruct (Nat.leb_spec q (expr_prec T a)) as [Hqa|Hqa]; cbn [andb].
    - destruct (Nat.ltb_spec (expr_prec T a) OpUnary) as [Hu|Hu].
      + cbn [wf]. eapply wf_weaken; [exact Ha|lia].
      + eapply wf_raise; eauto.
    - destruct (is_group a) eqn:G.
      + destruct a; try discriminate G. exact Ha.
      + pose proof (wf_le_prec _ _ Ha G Hl). lia.
  Qed.

  Lemma wf_demorgan : forall op a b prec l l2, op = "AndToken" \/ op = "OrToken" -> wf l2 (EBin op a b) ->
    wf (Nat.min l prec) (demorgan T op a b prec).
  Proof.
    intros op a b prec l l2 Hop H. unfold demorgan. cbv zeta.
    assert (Hab : exists la, la <= OpPrimary /\ leftp T op <= la /\ rightp T op <= la /\ wf la a /\ wf la b).
    { destruct Hop as [-> | ->]; cbn [wf] in H.
      - rewrite spec_and in H. destruct H as (_ & ? & ?). exists 4. rewrite leftp_and, rightp_and. unfold OpPrimary. repeat split; auto; lia.
      - rewrite spec_or in H. destruct H as (_ & ? & ?). exists 3. rewrite leftp_or, rightp_or. unfold OpPrimary. repeat split; auto; lia. }
    destruct Hab as (la & Hla & Hql & Hqr & Hwa & Hwb).
    pose proof (wf_neg_operand a (leftp T op) la Hwa Hla Hql) as X.
    pose proof (wf_neg_operand b (rightp T op) la Hwb Hla Hqr) as Y.
    revert X Y.
    generalize (if is_equals_bin T a then flip_eq a else EPre "NotToken" (if negb (is_equals_bin T a) && Nat.leb (leftp T op) (expr_prec T a) && Nat.ltb (expr_prec T a) OpUnary then EGroup a else a)) as x'.
    generalize (if is_equals_bin T b then flip_eq b else EPre "NotToken" (if negb (is_equals_bin T b) && Nat.leb (rightp T op) (expr_prec T b) && Nat.ltb (expr_prec T b) OpUnary then EGroup b else b)) as y'.
    intros y' x' X Y.
    destruct (is_op op "AndToken").
    - rewrite (exact_bin _ _ _ _ spec_or).
      assert (Hw : wf 3 (EBin "OrToken" x' y')).
      { cbn [wf]. rewrite spec_or. repeat split; [lia|eapply wf_weaken; eauto; lia|eapply wf_weaken; eauto; lia]. }
      change (Nat.eqb 3 OpCoalesce) with false. cbn [andb negb]. rewrite andb_true_r.
      destruct (Nat.ltb_spec 3 prec) as [Hlt|Hge].
      + change (wf 0 (EBin "OrToken" x' y')). eapply wf_weaken; [exact Hw|lia].
      + eapply wf_weaken; [exact Hw|lia].
    - rewrite (exact_bin _ _ _ _ spec_and).
      assert (Hw : wf 4 (EBin "AndToken" x' y')).
      { cbn [wf]. rewrite spec_and. repeat split; [lia|eapply wf_weaken; eauto; lia|eapply wf_weaken; eauto; lia]. }
      change (Nat.eqb 4 OpCoalesce) with false. cbn [andb negb]. rewrite andb_true_r.
      destruct (Nat.ltb_spec 4 prec) as [Hlt|Hge].
      + change (wf 0 (EBin "AndToken" x' y')). eapply wf_weaken; [exact Hw|lia].
      + eapply wf_weaken; [exact Hw|lia].
  Qed.

  Theorem optimize_unary_wf : forall e prec l, wf l e -> wf (Nat.min l prec) (optimize_unary T e prec).
  Proof.
    intros e prec l H. assert (W : wf (Nat.min l prec) e) by (eapply wf_weaken; [exact H|lia]).
    destruct e as [ | | op0 x0 | | | | | | | ]; try exact W.
    apply optimize_unary_cases.
    - exact W.
    - intros e2 -> ES B. cbn [wf] in H. rewrite spec_not in H. destruct H as [_ H].
      destruct (wf_strip_nots _ _ _ _ _ ES H) as [l2 H2].
      eapply group_expr_wf; eauto; [lia|]. intros [C _]. exact (boolean_prec _ B C).
    - intros op a b -> ES L. cbn [wf] in H. rewrite spec_not in H. destruct H as [_ H].
      destruct (wf_strip_nots _ _ _ _ _ ES H) as [l2 H2].
      eapply group_expr_wf; [exact HP|eapply wf_inverted; eauto|lia|].
      intros [C _]. rewrite (prec_inverted _ _ _ L) in C. discriminate C.
    - intros op a b -> ES Hop. cbn [wf] in H. rewrite spec_not in H. destruct H as [_ H].
      destruct (wf_strip_nots _ _ _ _ _ ES H) as [l2 H2]. eapply wf_demorgan; eauto.
  Qed.

  Theorem optimize_boolean_wf : forall c inv prec l0 need, wf l0 c -> need <= prec -> need <= 8 ->
    wf need (optimize_boolean T c inv prec).
  Proof.
    intros c inv prec l0 need H Hp H8. apply optimize_boolean_cases.
    - intro E. eapply wf_weaken; [eapply wf_flip_eq; eauto|exact H8].
    - assert (W : wf 14 (EPre "NotToken" (group_expr T OpUnary c))).
      { cbn [wf]. rewrite spec_not. split; [lia|]. eapply group_expr_wf; eauto. intros [_ C]. discriminate C. }
      eapply wf_weaken; [apply (optimize_unary_wf _ prec 14 W)|lia].
    - intro B. eapply group_expr_wf; eauto. intros [C _]. exact (boolean_prec _ B C).
    - cbn [wf]. rewrite spec_not. split; [lia|]. split; [lia|]. eapply group_expr_wf; eauto. intros [_ C]. discriminate C.
  Qed.

  Lemma wf_cond_norm : forall c0 x0 y0 c x y, cond_norm T c0 x0 y0 = (c, x, y) ->
    wf 2 c0 -> wf 1 x0 -> wf 1 y0 -> wf 2 c /\ wf 1 x /\ wf 1 y.
  Proof.
    intros c0 x0 y0 c x y H Hc Hx Hy. unfold cond_norm in H.
    destruct c0 as [ | |op1 u1| | | | | | | ]; try (injection H as <- <- <-; auto).
    destruct (is_op op1 "NotToken") eqn:E1; [|injection H as <- <- <-; auto].
    apply String.eqb_eq in E1. subst op1. pose proof Hc as Hc'. cbn [wf] in Hc. rewrite spec_not in Hc. destruct Hc as [_ Hu1].
    assert (W1 : wf 2 u1) by (eapply wf_weaken; eauto; lia).
    destruct u1 as [ | |op2 u2| | | | | | | ]; try (injection H as <- <- <-; auto).
    destruct (is_op op2 "NotToken") eqn:E2; [|injection H as <- <- <-; auto].
    apply String.eqb_eq in E2. subst op2.
    destruct (is_boolean_expr T u2); injection H as <- <- <-; [|auto].
    cbn [wf] in Hu1. rewrite spec_not in Hu1. destruct Hu1 as [_ Hu2]. repeat split; auto. eapply wf_weaken; eauto; lia.
  Qed.

  (* the operand a rewrite leaves bare under || / && : or_and_guard has checked that it needs no parentheses *)
  Lemma wf_guarded : forall z q, wf 1 z -> (Nat.ltb (expr_prec T z) OpAssign || Nat.leb q (expr_prec T z)) = true -> wf q z.
  Proof.
    intros z q H G. apply orb_true_iff in G. destruct G as [G|G].
    - apply Nat.ltb_lt in G. destruct (is_group z) eqn:Gz.
      + destruct z; try discriminate Gz. exact H.
      + assert (1 <= OpPrimary) by (unfold OpPrimary; lia). pose proof (wf_le_prec _ _ H Gz H0). unfold OpAssign in G. lia.
    - apply Nat.leb_le in G. eapply wf_raise; eauto.
  Qed.

  Lemma hoist_wf : forall c x y prec l, l <= 1 -> wf 2 c -> wf 1 x -> wf 1 y -> wf (Nat.min l prec) (hoist T c x y prec).
  Proof.
    intros c x y prec l Hl Hc Hx Hy. apply hoist_cases.
    - cbn [wf]. repeat split; auto. lia.
    - intros opc l0 r -> Hp -> Hr. cbn [wf] in Hc. rewrite spec_comma in Hc. destruct Hc as (_ & Hl0 & Hr1).
      cbn [wf]. rewrite spec_comma. unfold OpExpr in Hp. repeat split; auto; try lia.
      eapply wf_raise; eauto.
  Qed.

  Lemma cond_rest_wf : forall c x y prec l, l <= 1 -> wf 2 c -> wf 1 x -> wf 1 y -> wf (Nat.min l prec) (cond_rest T c x y prec).
  Proof.
    intros c x y prec l Hl Hc Hx Hy. apply cond_rest_cases.
    - intro inv. apply (optimize_boolean_wf c inv _ 2 _ Hc); lia.
    - intros inv z Hz. cbn [wf]. rewrite spec_or. split; [lia|]. split.
      + apply (optimize_boolean_wf c inv _ 2 _ Hc); [rewrite leftp_or; lia|lia].
      + eapply group_expr_wf; [exact HP|destruct Hz; subst z; eauto|rewrite rightp_or; lia|].
        intros [_ C]. rewrite rightp_or in C. discriminate C.
    - intros inv z Hz. cbn [wf]. rewrite spec_and. split; [lia|]. split.
      + apply (optimize_boolean_wf c inv _ 2 _ Hc); [rewrite leftp_and; lia|lia].
      + eapply group_expr_wf; [exact HP|destruct Hz; subst z; eauto|rewrite rightp_and; lia|].
        intros [_ C]. rewrite rightp_and in C. discriminate C.
    - intros c2 x2 y2 ->. cbn [wf] in Hx. destruct Hx as (_ & Hc2 & Hx2 & _).
      cbn [wf]. rewrite spec_and. split; [lia|]. repeat split; auto; try lia.
      + eapply group_expr_wf; eauto; [rewrite leftp_and; lia|]. intros [_ C]. rewrite leftp_and in C. discriminate C.
      + eapply group_expr_wf; eauto; [rewrite rightp_and; lia|]. intros [_ C]. rewrite rightp_and in C. discriminate C.
    - apply hoist_wf; assumption.
  Qed.

  Theorem optimize_cond_wf : forall e prec l, wf l e -> wf (Nat.min l prec) (optimize_cond T e prec).
  Proof.
    intros e prec l H. assert (W : wf (Nat.min l prec) e) by (eapply wf_weaken; [exact H|lia]).
    destruct e as [ | | | |c0 x0 y0| | | | | ]; try exact W. clear W.
    cbn [wf] in H. destruct H as (Hl & Hc0 & Hx0 & Hy0).
    destruct (cond_norm T c0 x0 y0) as [[c x] y] eqn:En.
    destruct (wf_cond_norm _ _ _ _ _ _ En Hc0 Hx0 Hy0) as (Hc & Hx & Hy).
    eapply optimize_cond_cases; [exact En| | | | | | | | ].
    - intros _. eapply wf_weaken; [exact Hx|lia].
    - intros _. eapply wf_weaken; [exact Hy|lia].
    - intros _ G. unfold or_and_guard in G. apply andb_true_iff in G. destruct G as [_ G]. rewrite rightp_or in G.
      cbn [wf]. rewrite spec_or. split; [lia|]. split; [|apply wf_guarded; assumption].
      eapply group_expr_wf; eauto; [rewrite leftp_or; lia|]. intros [_ C]. rewrite leftp_or in C. discriminate C.
    - intros _ G. unfold or_and_guard in G. apply andb_true_iff in G. destruct G as [_ G]. rewrite rightp_and in G.
      cbn [wf]. rewrite spec_and. split; [lia|]. split; [|apply wf_guarded; assumption].
      eapply group_expr_wf; eauto; [rewrite leftp_and; lia|]. intros [_ C]. rewrite leftp_and in C. discriminate C.
    - intros _. eapply (group_expr_wf T HP _ 0).
      + cbn [wf]. rewrite spec_comma. repeat split; auto. eapply wf_weaken; eauto; lia.
      + lia.
      + intros [C _]. cbn [expr_prec] in C. pose proof (exact_bin _ _ _ _ spec_comma) as B. unfold binp in B. rewrite B in C. discriminate C.
    - intros f a f' b -> ->. cbn [wf] in Hx, Hy. destruct Hx as (_ & Hf & Ha). destruct Hy as (_ & _ & Hb).
      cbn [wf]. repeat split; auto; lia.
    - apply hoist_wf; assumption.
    - apply cond_rest_wf; assumption.
  Qed.

  Theorem rewrite_node_wf : forall e prec l, wf l e -> wf (Nat.min l prec) (rewrite_node T e prec).
  Proof.
    intros e prec l H. destruct e; try (eapply wf_weaken; [exact H|lia]).
    - apply optimize_unary_wf. exact H.
    - apply optimize_cond_wf. exact H.
  Qed.

  Lemma group_arg_wf : forall x, wf 0 x -> wf 0 (match x with ECond _ _ _ => optimize_cond T x OpExpr | _ => x end).
  Proof. intros x H. destruct x; try exact H. exact (optimize_cond_wf _ OpExpr 0 H). Qed.

  Lemma const_wfx : forall c l, l <= const_level c -> wfx l (const_expr c).
  Proof. intros c l H. apply wf_wfx. eapply wf_weaken; [apply const_level_wf|exact H]. Qed.

  (* B3 *)
  Theorem rw_shaped : forall fuel e l p t, wf l e -> rw T fuel p e = Some t -> wfx (Nat.min l p) (deconst t).
  Proof.
    induction fuel as [|k IH]; intros e l p t Hwf H; [discriminate H|].
    pose proof (rewrite_node_wf e p l Hwf) as W. cbn [rw] in H.
    assert (Hm : Nat.min l p <= p) by lia.
    revert W Hm H. generalize (Nat.min l p) as m. generalize (rewrite_node T e p) as e'. clear e l Hwf.
    intros e' m W Hm H.
    destruct e' as [s|op x y|op x|op x|c x y|x|f a|x n c|x i c|c]; cbn [wf] in W.
    - injection H as <-. exact I.
    - destruct (slookup spec_binary op) as [[[lv lf] rt]|] eqn:Hs; [|contradiction]. destruct W as (Hlv & Hx & Hy).
      destruct (binary_facts T HP _ _ _ _ Hs) as (_ & Hlf & Hrt). fold (leftp T op) in Hlf. fold (rightp T op) in Hrt.
      destruct (is_op op "CommaToken") eqn:EC.
      + apply String.eqb_eq in EC. subst op. rewrite spec_comma in Hs. injection Hs as <- <- <-.
        ob H. ob H. injection H as <-. cbn [deconst wfx]. rewrite spec_comma. split; [exact Hlv|]. split.
        * destruct x as [ |opl ? ?| | | | | | | | ]; try exact (IH _ 0 OpAssign _ Hx R).
          destruct (is_op opl "CommaToken"); [exact (IH _ 0 OpExpr _ Hx R)|exact (IH _ 0 OpAssign _ Hx R)].
        * exact (IH _ 1 OpAssign _ Hy R0).
      + cbv zeta in H. name_unwrap H T p op x U.
        * apply unwrap_sel_some in U. destruct U as (-> & -> & Hp & _ & Hr).
          ob H. ob H. ob H. injection H as <-.
          cbn [wf] in Hx. rewrite spec_comma in Hx. destruct Hx as (_ & Hl0 & Hr1).
          cbn [deconst wfx]. rewrite spec_comma, Hs. unfold OpExpr in Hp. split; [lia|]. split; [|split; [|split]].
          -- destruct l as [ |opl ? ?| | | | | | | | ]; try exact (IH _ 0 OpAssign _ Hl0 R).
             destruct (is_op opl "CommaToken"); [exact (IH _ 0 OpExpr _ Hl0 R)|exact (IH _ 0 OpAssign _ Hl0 R)].
          -- exact (spec_noncomma_level _ _ _ _ Hs EC).
          -- assert (Wr : wf (leftp T op) r) by (eapply wf_raise; eauto).
             pose proof (IH _ _ _ _ Wr R0) as Q. eapply wfx_weaken; [exact Q|lia].
          -- pose proof (IH _ _ _ _ Hy R1) as Q. eapply wfx_weaken; [exact Q|lia].
        * ob H. ob H. injection H as <-. cbn [deconst wfx]. rewrite Hs. split; [exact Hlv|]. split.
          -- pose proof (IH _ _ _ _ Hx R) as Q. eapply wfx_weaken; [exact Q|lia].
          -- pose proof (IH _ _ _ _ Hy R0) as Q. eapply wfx_weaken; [exact Q|lia].
    - destruct (slookup spec_prefix op) as [[lv ol]|] eqn:Hs; [|contradiction]. destruct W as (Hlv & Hx).
      destruct (prefix_facts T HP _ _ _ Hs) as (_ & Ho).
      ob H. injection H as <-. cbn [deconst wfx]. rewrite Hs. split; [exact Hlv|].
      pose proof (IH _ _ _ _ Hx R) as Q. eapply wfx_weaken; [exact Q|lia].
    - destruct (slookup spec_postfix op) as [[lv ol]|] eqn:Hs; [|contradiction]. destruct W as (Hlv & Hx).
      destruct (postfix_facts T HP _ _ _ Hs) as (_ & Ho).
      ob H. injection H as <-. cbn [deconst wfx]. rewrite Hs. split; [exact Hlv|].
      pose proof (IH _ _ _ _ Hx R) as Q. eapply wfx_weaken; [exact Q|lia].
    - destruct W as (Hl & Hc & Hx & Hy). ob H. ob H. ob H. injection H as <-. cbn [deconst wfx].
      split; [exact Hl|]. split; [exact (IH _ 2 OpCoalesce _ Hc R)|]. split; [exact (IH _ 1 OpAssign _ Hx R0)|exact (IH _ 1 OpAssign _ Hy R1)].
    - pose proof (group_arg_wf x W) as W1. cbv zeta in H.
      revert W1 H. generalize (match x with ECond _ _ _ => optimize_cond T x OpExpr | _ => x end) as x1. intros x1 W1 H.
      destruct (Nat.leb_spec p (expr_prec T x1)) as [Hle|Hgt].
      + assert (W2 : wf m x1) by (eapply wf_raise; eauto; lia).
        pose proof (IH _ _ _ _ W2 H) as Q. eapply wfx_weaken; [exact Q|lia].
      + ob H. injection H as <-. cbn [deconst wfx]. exact (IH _ 0 OpExpr _ W1 R).
    - destruct W as (Hl & Hf & Ha). ob H. ob H. injection H as <-. cbn [deconst wfx].
      split; [exact Hl|]. split; [exact (IH _ 17 OpCall _ Hf R)|exact (IH _ 1 OpAssign _ Ha R0)].
    - ob H. injection H as <-. cbn [deconst wfx]. unfold OpNew, OpMember, OpCall in *.
      destruct c; destruct W as (Hl & Hx).
      + left. split; [exact Hl|]. pose proof (IH _ _ _ _ Hx R) as Q. eapply wfx_weaken; [exact Q|]. destruct (Nat.leb 18 p); lia.
      + destruct (Nat.leb_spec 18 p) as [Hp|Hp].
        * right. split; [exact Hl|]. exact (IH _ 19 19 _ Hx R).
        * left. split; [lia|]. exact (IH _ 19 17 _ Hx R).
    - ob H. ob H. injection H as <-. cbn [deconst wfx]. unfold OpNew, OpMember, OpCall in *. destruct W as (W & Hi).
      split; [|exact (IH _ 0 OpExpr _ Hi R0)].
      destruct c; destruct W as (Hl & Hx).
      + left. split; [exact Hl|]. pose proof (IH _ _ _ _ Hx R) as Q. eapply wfx_weaken; [exact Q|]. destruct (Nat.ltb p 18); lia.
      + destruct (Nat.ltb_spec p 18) as [Hp|Hp].
        * left. split; [lia|]. exact (IH _ 19 17 _ Hx R).
        * right. split; [exact Hl|]. exact (IH _ 19 19 _ Hx R).
    - injection H as <-. pose proof (const_facts T HP c) as Hg.
      destruct (Nat.ltb_spec (const_guard T c) p) as [Hlt|Hge]; cbn [deconst wfx]; apply const_wfx; lia.
  Qed.
End Exact.

(* ---------- B3 and MAIN, for all tables that satisfy the three checks ---------- *)
Theorem rw_parser_shaped : forall T, prec_tables_ok T = true -> sem_tables_ok T = true -> exact_tables_ok T = true ->
  forall fuel e l p t, wf l e -> rw T fuel p e = Some t -> wfx (Nat.min l p) (deconst t).
Proof. exact rw_shaped. Qed.

(* MAIN: what js.Minify writes for an expression of the fragment derives, in the ECMA-262 grammar, the tree rw returns
   (constants read as the expressions that replace them), which evaluates like the input (rw_preserves_value_and_effects) *)
Theorem pipeline_output_parses_back : forall T, prec_tables_ok T = true -> sem_tables_ok T = true -> exact_tables_ok T = true ->
  forall fuel e l p t, wf l e -> rw T fuel p e = Some t -> D (Nat.min l p) (print_rw T fuel p e) (deconst t).
Proof.
  intros T HP HS HE fuel e l p t Hwf H.
  rewrite (print_rw_is_emit_rw T fuel p e t H), <- emit_deconst.
  apply emit_derives; [exact (rw_parser_shaped T HP HS HE fuel e l p t Hwf H)|apply no_const_deconst].
Qed.

(* the maps of the current source *)
Corollary pipeline_output_parses_back_gen : forall fuel e l p t, wf l e -> rw T_gen fuel p e = Some t ->
  D (Nat.min l p) (print_rw T_gen fuel p e) (deconst t).
Proof.
  apply pipeline_output_parses_back; [exact js_prec_tables_ok|exact ConstAssignCounterexample.tables_ok|exact js_exact_tables_ok].
Qed.

(* ---------- rw_parser_shaped does not hold for wf itself: the stale chain_has_call flag ----------
   (f(a)).b  — the parser gives the member node Prec = OpMember (its object is a parenthesised primary), flag false.  At a
   position below OpNew the object is printed at OpCall, the parentheses go, and f(a).b is written: correct, and derived by
   the grammar (pipeline_output_parses_back), but the tree keeps flag false over a call, which wf rejects. *)
Example stale_flag_not_wf :
  let e := EDot (EGroup (ECall (EAtom "f") (EAtom "a"))) "b" false in
  let t := EDot (ECall (EAtom "f") (EAtom "a")) "b" false in
  wf 0 e /\ rw T_gen 5 0 e = Some t /\ ~ wf 0 (deconst t) /\ wfx 0 (deconst t) /\
  print_rw T_gen 5 0 e = [TAtom "f"; TL; TAtom "a"; TR; TDot; TAtom "b"].
Proof.
  cbv zeta. split; [cbn; lia|]. split; [vm_compute; reflexivity|]. split; [cbn; lia|]. split; [|vm_compute; reflexivity].
  cbn. left. lia.
Qed.

(* ---------- exact_tables_ok is needed ----------
   A map that gives + the level OpExpr satisfies prec_tables_ok (lower than the grammar level is allowed: it only costs
   parentheses in the plain printer) and sem_tables_ok.  optimizeUnaryExpr then takes x+y, whose level is below the left
   level of &&, for an operand that is already parenthesised, and writes  !(x+y&&b)  as  !x+y||!b . *)
Definition T_slack : tables :=
  {| t_unary := t_unary T_gen; t_left := t_left T_gen; t_right := t_right T_gen; t_unop := t_unop T_gen;
     t_binop := ("AddToken", "OpExpr") :: t_binop T_gen; t_const := t_const T_gen |}.
Example exact_tables_needed :
  let e := EPre "NotToken" (EGroup (EBin "AndToken" (EBin "AddToken" (EAtom "x") (EAtom "y")) (EAtom "b"))) in
  let t := EBin "OrToken" (EPre "NotToken" (EBin "AddToken" (EAtom "x") (EAtom "y"))) (EPre "NotToken" (EAtom "b")) in
  prec_tables_ok T_slack = true /\ sem_tables_ok T_slack = true /\ exact_tables_ok T_slack = false /\
  wf 0 e /\ rw T_slack 6 0 e = Some t /\ ~ wfx 0 (deconst t) /\
  print_rw T_slack 6 0 e = [TOp "NotToken"; TAtom "x"; TOp "AddToken"; TAtom "y"; TOp "OrToken"; TOp "NotToken"; TAtom "b"].
Proof.
  cbv zeta. split; [vm_compute; reflexivity|]. split; [vm_compute; reflexivity|]. split; [vm_compute; reflexivity|].
  split; [vm_compute; intuition lia|]. split; [vm_compute; reflexivity|]. split; [|vm_compute; reflexivity].
  vm_compute. intuition lia.
Qed.

Check print_rw_is_emit_rw.
Check rw_preserves_value_and_effects.
Check emit_deconst.
Check emit_derives.
Check rw_parser_shaped.
Check pipeline_output_parses_back.
Print Assumptions print_rw_is_emit_rw.
Print Assumptions rw_preserves_value_and_effects.
Print Assumptions emit_derives.
Print Assumptions rw_parser_shaped.
Print Assumptions pipeline_output_parses_back.
