(* Js/RewriteProofs.v — the on-the-fly rewrites of js.go preserve value and side effects (all expressions of the fragment,
   all stores, every interpretation of the abstract operators). *)
From Coq Require Import List String Arith Bool ZArith Lia.
Import ListNotations.
From MV Require Import Js.PrintModel Js.PrintGroup Js.RewriteModel Js.RewriteSem.
Local Open Scope string_scope.

(* ---------- the one hypothesis optimize_cond_sound needs (see const_assign_counterexample below) ----------
   The condition, after the `!` normalisation of optimizeCondExpr, ends in an assignment whose target is one of the
   "variables" undefined / Infinity, AND one of the two rewrites  c ? x : y -> c || y  /  c && x  that read the assigned
   variable back fires. *)
Section Hazard.
  Variable T : tables.
  Definition cond_norm (c0 x0 y0 : expr) : expr * expr * expr :=
    match c0 with
    | EPre op1 u1 =>
        if is_op op1 "NotToken" then
          match u1 with
          | EPre op2 u2 => if is_op op2 "NotToken" then (if is_boolean_expr T u2 then (u2, x0, y0) else (c0, x0, y0)) else (u1, y0, x0)
          | _ => (u1, y0, x0)
          end
        else (c0, x0, y0)
    | _ => (c0, x0, y0)
    end.
  (* the expression finalExpr looks at: parentheses removed, then the last item of a comma expression *)
  Definition last_of (c : expr) : expr :=
    let i := inner_expr c in match i with EBin op _ y => if is_op op "CommaToken" then y else i | _ => i end.
  Definition targets_const (t : expr) : bool :=
    match t with
    | EBin op x _ => is_op op "EqToken" && match inner_expr x with EConst _ => true | _ => false end
    | _ => false
    end.
  Definition assigns_const (c : expr) : bool := targets_const (last_of c).
  Definition const_assign_hazard (e : expr) : bool :=
    match e with
    | ECond c0 x0 y0 =>
        let '(c, x, y) := cond_norm c0 x0 y0 in
        let fc := final_expr c in
        assigns_const c &&
        ((is_equal_expr fc x && or_and_guard T "OrToken" fc y) || (is_equal_expr fc y && or_and_guard T "AndToken" fc x))
    | _ => false
    end.
End Hazard.

Section Proofs.
  Variable T : tables.
  Variables V S : Type.
  Variable truthy : V -> bool.
  Variables vtrue vfalse vundef vinf : V.
  Hypothesis truthy_true : truthy vtrue = true.
  Hypothesis truthy_false : truthy vfalse = false.
  Hypothesis truthy_undef : truthy vundef = false.
  Variable var : string -> S -> V.
  Variable assign : string -> V -> S -> S.
  Hypothesis var_assign_same : forall x v s, var x (assign x v s) = v.
  Variable call : V -> V -> S -> V * S.
  Variable strict_eq : V -> V -> bool.
  Variable loose_eq : V -> V -> S -> bool * S.
  Variable compare : string -> V -> V -> S -> bool * S.
  Variable arith : string -> V -> V -> S -> V * S.
  Variable pure_unop : string -> V -> V.
  Variable unop : string -> V -> S -> V * S.
  Variable member : string -> V -> S -> V * S.
  Variable index : V -> V -> S -> V * S.
  Variable nullish : V -> bool.
  Hypothesis HT : sem_tables_ok T = true.

  Notation ev := (eval T V S truthy vtrue vfalse vundef vinf var assign call strict_eq loose_eq compare arith pure_unop unop member index nullish).
  Notation vb := (vbool V vtrue vfalse).

  (* ---------- the operator map ---------- *)
  Ltac split_ht :=
    let H := fresh "HT0" in
    pose proof HT as H; unfold sem_tables_ok in H;
    repeat (let H2 := fresh "HTc" in apply andb_true_iff in H; destruct H as [H H2]).

  Ltac find_false := match goal with H : negb (Nat.eqb ?a ?a) = true |- _ => rewrite Nat.eqb_refl in H; discriminate H end.

  Lemma plookup_entry : forall m k, plookup m k <> 0 -> exists v, In (k, v) m /\ plookup m k = prec_of_name v.
  Proof.
    induction m as [|[k' v'] r IH]; simpl; intros k H.
    - congruence.
    - destruct (String.eqb_spec k' k) as [-> | N].
      + exists v'. split; [left; reflexivity|reflexivity].
      + destruct (IH k H) as [v [Hin Hv]]. exists v. split; [right; exact Hin|exact Hv].
  Qed.

  Lemma binp_entry_facts : forall op, binp T op <> 0 ->
    (binp T op = OpEquals -> four_eq op = true) /\ (binp T op = OpAnd -> op = "AndToken") /\ (binp T op = OpOr -> op = "OrToken").
  Proof.
    intros op H. unfold binp in *. destruct (plookup_entry _ _ H) as [v [Hin Hv]].
    split_ht. rewrite forallb_forall in HT0. specialize (HT0 _ Hin). cbn [fst snd] in HT0.
    apply andb_true_iff in HT0. destruct HT0 as [HT0 H3]. apply andb_true_iff in HT0. destruct HT0 as [H1 H2].
    rewrite <- Hv in H1, H2, H3.
    repeat split; intro E; rewrite E in *.
    - exact H1.
    - apply String.eqb_eq. exact H2.
    - apply String.eqb_eq. exact H3.
  Qed.

  Lemma binp_equals_four : forall op, binp T op = OpEquals -> four_eq op = true.
  Proof. intros op E. apply binp_entry_facts; [rewrite E; discriminate|exact E]. Qed.
  Lemma binp_and_name : forall op, binp T op = OpAnd -> op = "AndToken".
  Proof. intros op E. apply binp_entry_facts; [rewrite E; discriminate|exact E]. Qed.
  Lemma binp_or_name : forall op, binp T op = OpOr -> op = "OrToken".
  Proof. intros op E. apply binp_entry_facts; [rewrite E; discriminate|exact E]. Qed.

  Lemma binp_And : binp T "AndToken" = OpAnd. Proof. split_ht. apply Nat.eqb_eq. assumption. Qed.
  Lemma binp_Or : binp T "OrToken" = OpOr. Proof. split_ht. apply Nat.eqb_eq. assumption. Qed.
  Lemma binp_EqEq : binp T "EqEqToken" = OpEquals. Proof. split_ht. apply Nat.eqb_eq. assumption. Qed.
  Lemma binp_NotEq : binp T "NotEqToken" = OpEquals. Proof. split_ht. apply Nat.eqb_eq. assumption. Qed.
  Lemma binp_EqEqEq : binp T "EqEqEqToken" = OpEquals. Proof. split_ht. apply Nat.eqb_eq. assumption. Qed.
  Lemma binp_NotEqEq : binp T "NotEqEqToken" = OpEquals. Proof. split_ht. apply Nat.eqb_eq. assumption. Qed.

  Lemma four_eq_cases : forall op, four_eq op = true ->
    op = "EqEqToken" \/ op = "NotEqToken" \/ op = "EqEqEqToken" \/ op = "NotEqEqToken".
  Proof.
    intros op H. unfold four_eq in H.
    repeat (apply orb_true_iff in H; destruct H as [H|H]); apply String.eqb_eq in H; auto.
  Qed.
  Lemma four_eq_binp : forall op, four_eq op = true -> binp T op = OpEquals.
  Proof.
    intros op H. destruct (four_eq_cases _ H) as [-> | [-> | [-> | ->]]];
      [apply binp_EqEq|apply binp_NotEq|apply binp_EqEqEq|apply binp_NotEqEq].
  Qed.

  (* an operator on the equality or relational level is none of the operators eval treats by name *)
  Lemma level_not_special : forall op, binp T op = OpEquals \/ binp T op = OpCompare ->
    String.eqb op "AndToken" = false /\ String.eqb op "OrToken" = false /\ String.eqb op "NullishToken" = false /\
    String.eqb op "CommaToken" = false /\ String.eqb op "EqToken" = false.
  Proof.
    intros op H. split_ht.
    repeat split; apply String.eqb_neq; intros ->.
    - rewrite binp_And in H. destruct H; discriminate.
    - rewrite binp_Or in H. destruct H; discriminate.
    - destruct H as [H|H].
      + apply binp_equals_four in H. discriminate H.
      + rewrite H in *. find_false.
    - destruct H as [H|H]; rewrite H in *; find_false.
    - destruct H as [H|H]; rewrite H in *; find_false.
  Qed.

  (* ---------- one-step equations of eval ---------- *)
  Lemma eval_group : forall x s, ev (EGroup x) s = ev x s.
  Proof. reflexivity. Qed.
  Lemma eval_pre : forall op x s, ev (EPre op x) s =
    let '(v, s1) := ev x s in
    if String.eqb op "NotToken" then (vb (negb (truthy v)), s1)
    else if String.eqb op "TypeofToken" || String.eqb op "VoidToken" then (pure_unop op v, s1)
    else unop op v s1.
  Proof. reflexivity. Qed.
  Lemma eval_not : forall x s, ev (EPre "NotToken" x) s = let '(v, s1) := ev x s in (vb (negb (truthy v)), s1).
  Proof. reflexivity. Qed.
  Lemma eval_and : forall x y s, ev (EBin "AndToken" x y) s = let '(v, s1) := ev x s in if truthy v then ev y s1 else (v, s1).
  Proof. reflexivity. Qed.
  Lemma eval_or : forall x y s, ev (EBin "OrToken" x y) s = let '(v, s1) := ev x s in if truthy v then (v, s1) else ev y s1.
  Proof. reflexivity. Qed.
  Lemma eval_nullish : forall x y s, ev (EBin "NullishToken" x y) s = let '(v, s1) := ev x s in if nullish v then ev y s1 else (v, s1).
  Proof. reflexivity. Qed.
  Lemma eval_comma : forall x y s, ev (EBin "CommaToken" x y) s = let '(_, s1) := ev x s in ev y s1.
  Proof. reflexivity. Qed.
  Lemma eval_assign : forall x y s, ev (EBin "EqToken" x y) s =
    match inner_expr x with
    | EAtom name => let '(v, s1) := ev y s in (v, assign name v s1)
    | _ => let '(a, s1) := ev x s in let '(b, s2) := ev y s1 in arith "EqToken" a b s2
    end.
  Proof. reflexivity. Qed.
  Lemma eval_cond : forall c x y s, ev (ECond c x y) s = let '(v, s1) := ev c s in if truthy v then ev x s1 else ev y s1.
  Proof. reflexivity. Qed.
  Lemma eval_call : forall f a s, ev (ECall f a) s = let '(fv, s1) := ev f s in let '(av, s2) := ev a s1 in call fv av s2.
  Proof. reflexivity. Qed.
  Lemma eval_bin : forall op x y s, ev (EBin op x y) s =
    if String.eqb op "AndToken" then let '(v, s1) := ev x s in if truthy v then ev y s1 else (v, s1)
    else if String.eqb op "OrToken" then let '(v, s1) := ev x s in if truthy v then (v, s1) else ev y s1
    else if String.eqb op "NullishToken" then let '(v, s1) := ev x s in if nullish v then ev y s1 else (v, s1)
    else if String.eqb op "CommaToken" then let '(_, s1) := ev x s in ev y s1
    else if String.eqb op "EqToken" then
      match inner_expr x with
      | EAtom name => let '(v, s1) := ev y s in (v, assign name v s1)
      | _ => let '(a, s1) := ev x s in let '(b, s2) := ev y s1 in arith op a b s2
      end
    else
      let '(a, s1) := ev x s in
      let '(b, s2) := ev y s1 in
      if Nat.eqb (binp T op) OpEquals then
        if is_strict op then (vb (xorb (is_negated_eq op) (strict_eq a b)), s2)
        else let '(r, s3) := loose_eq a b s2 in (vb (xorb (is_negated_eq op) r), s3)
      else if Nat.eqb (binp T op) OpCompare then
        let '(r, s3) := compare op a b s2 in (vb r, s3)
      else arith op a b s2.
  Proof. reflexivity. Qed.

  Lemma eval_eqlevel : forall op x y s, binp T op = OpEquals -> ev (EBin op x y) s =
    let '(a, s1) := ev x s in
    let '(b, s2) := ev y s1 in
    if is_strict op then (vb (xorb (is_negated_eq op) (strict_eq a b)), s2)
    else let '(r, s3) := loose_eq a b s2 in (vb (xorb (is_negated_eq op) r), s3).
  Proof.
    intros op x y s H. destruct (level_not_special op (or_introl H)) as [H1 [H2 [H3 [H4 H5]]]].
    rewrite eval_bin, H1, H2, H3, H4, H5, H. reflexivity.
  Qed.
  Lemma eval_cmplevel : forall op x y s, binp T op = OpCompare -> ev (EBin op x y) s =
    let '(a, s1) := ev x s in
    let '(b, s2) := ev y s1 in
    let '(r, s3) := compare op a b s2 in (vb r, s3).
  Proof.
    intros op x y s H. destruct (level_not_special op (or_intror H)) as [H1 [H2 [H3 [H4 H5]]]].
    rewrite eval_bin, H1, H2, H3, H4, H5, H. reflexivity.
  Qed.

  (* ---------- boolean values ---------- *)
  Definition is_bool (v : V) : Prop := v = vtrue \/ v = vfalse.
  Lemma truthy_vb : forall b, truthy (vb b) = b.
  Proof. destruct b; simpl; assumption. Qed.
  Lemma vb_is_bool : forall b, is_bool (vb b).
  Proof. destruct b; [left|right]; reflexivity. Qed.
  Lemma vb_truthy : forall v, is_bool v -> vb (truthy v) = v.
  Proof. intros v [-> | ->]; [rewrite truthy_true|rewrite truthy_false]; reflexivity. Qed.

  Ltac red_pair := cbv beta iota delta [xorb negb fst snd vbool].

  Lemma inner_eval : forall e s, ev (inner_expr e) s = ev e s.
  Proof. induction e; intros; try reflexivity. simpl inner_expr. rewrite IHe. reflexivity. Qed.

  (* groupExpr only adds parentheses *)
  Theorem group_expr_eval : forall p e s, ev (group_expr T p e) s = ev e s.
  Proof.
    intros p e s. unfold group_expr. cbv zeta.
    destruct (negb (is_group e) && Nat.ltb (expr_prec T e) p && negb (Nat.eqb (expr_prec T e) OpCoalesce && Nat.eqb p OpBitOr)); reflexivity.
  Qed.

  (* isBooleanExpr: the value is true or false *)
  Theorem boolean_expr_value : forall e, is_boolean_expr T e = true -> forall s, fst (ev e s) = vtrue \/ fst (ev e s) = vfalse.
  Proof.
    induction e; intros Hb s; simpl in Hb; try discriminate Hb.
    - (* EBin *)
      destruct (Nat.eqb (binp T op) OpAnd || Nat.eqb (binp T op) OpOr) eqn:L.
      + apply andb_true_iff in Hb. destruct Hb as [Hx Hy].
        apply orb_true_iff in L. destruct L as [L|L]; apply Nat.eqb_eq in L.
        * apply binp_and_name in L. subst op. rewrite eval_and.
          specialize (IHe1 Hx s). destruct (ev e1 s) as [v s1]. destruct (truthy v); [apply IHe2; exact Hy|exact IHe1].
        * apply binp_or_name in L. subst op. rewrite eval_or.
          specialize (IHe1 Hx s). destruct (ev e1 s) as [v s1]. destruct (truthy v); [exact IHe1|apply IHe2; exact Hy].
      + apply orb_true_iff in Hb. destruct Hb as [L2|L2]; apply Nat.eqb_eq in L2.
        * rewrite (eval_cmplevel _ _ _ _ L2). destruct (ev e1 s) as [a s1]. destruct (ev e2 s1) as [b s2].
          destruct (compare op a b s2) as [r s3]. apply vb_is_bool.
        * rewrite (eval_eqlevel _ _ _ _ L2). destruct (ev e1 s) as [a s1]. destruct (ev e2 s1) as [b s2].
          destruct (is_strict op); [apply vb_is_bool|]. destruct (loose_eq a b s2) as [r s3]. apply vb_is_bool.
    - (* EPre *)
      unfold is_op in Hb. apply String.eqb_eq in Hb. subst op. rewrite eval_not. destruct (ev e s) as [v s1]. apply vb_is_bool.
    - (* EGroup *) rewrite eval_group. apply IHe. exact Hb.
    - (* EConst *) destruct k; try discriminate Hb; [left|right]; reflexivity.
  Qed.

  (* mayRunCode = false: no effect at all *)
  Theorem no_code_no_effect : forall e, may_run_code e = false -> forall s, snd (ev e s) = s.
  Proof.
    induction e; intros Hm s; simpl in Hm; try discriminate Hm; try reflexivity.
    - (* EBin *)
      destruct (is_op op "AndToken" || is_op op "OrToken" || is_op op "NullishToken" || is_op op "EqEqEqToken" || is_op op "NotEqEqToken") eqn:L;
        [|discriminate Hm].
      apply orb_false_iff in Hm. destruct Hm as [Hx Hy].
      specialize (IHe1 Hx s). unfold is_op in L.
      repeat (apply orb_true_iff in L; destruct L as [L|L]); apply String.eqb_eq in L; subst op.
      + rewrite eval_and. destruct (ev e1 s) as [v s1]. simpl in IHe1. subst s1. destruct (truthy v); [apply IHe2; exact Hy|reflexivity].
      + rewrite eval_or. destruct (ev e1 s) as [v s1]. simpl in IHe1. subst s1. destruct (truthy v); [reflexivity|apply IHe2; exact Hy].
      + rewrite eval_nullish. destruct (ev e1 s) as [v s1]. simpl in IHe1. subst s1. destruct (nullish v); [apply IHe2; exact Hy|reflexivity].
      + rewrite (eval_eqlevel _ _ _ _ binp_EqEqEq). destruct (ev e1 s) as [a s1]. simpl in IHe1. subst s1.
        specialize (IHe2 Hy s). destruct (ev e2 s) as [b s2]. simpl in IHe2. subst s2. reflexivity.
      + rewrite (eval_eqlevel _ _ _ _ binp_NotEqEq). destruct (ev e1 s) as [a s1]. simpl in IHe1. subst s1.
        specialize (IHe2 Hy s). destruct (ev e2 s) as [b s2]. simpl in IHe2. subst s2. reflexivity.
    - (* EPre *)
      apply orb_false_iff in Hm. destruct Hm as [Hop Hx]. apply negb_false_iff in Hop.
      specialize (IHe Hx s). rewrite eval_pre. destruct (ev e s) as [v s1]. simpl in IHe. subst s1.
      unfold is_op in Hop. destruct (String.eqb op "NotToken"); [reflexivity|].
      simpl in Hop. rewrite Hop. reflexivity.
    - (* ECond *)
      apply orb_false_iff in Hm. destruct Hm as [Hm Hy]. apply orb_false_iff in Hm. destruct Hm as [Hc Hx].
      rewrite eval_cond. specialize (IHe1 Hc s). destruct (ev e1 s) as [v s1]. simpl in IHe1. subst s1.
      destruct (truthy v); [apply IHe2; exact Hx|apply IHe3; exact Hy].
    - (* EGroup *) rewrite eval_group. apply IHe. exact Hm.
    - (* EConst *) destruct k; reflexivity.
  Qed.

  (* isFalsy / isTruthy answer only for effect-free constants, and correctly *)
  Lemma is_falsy_aux_sound : forall e negated b, is_falsy_aux negated e = Some b ->
    forall s, snd (ev e s) = s /\ truthy (fst (ev e s)) = xorb negated (negb b).
  Proof.
    induction e; intros negated b H s; simpl in H; try discriminate H.
    - (* EPre *)
      unfold is_op in H. destruct (String.eqb_spec op "NotToken") as [-> | N]; [|discriminate H].
      destruct (IHe _ _ H s) as [I1 I2]. rewrite eval_not. destruct (ev e s) as [v s1]. simpl in I1, I2. subst s1.
      split; [reflexivity|]. simpl fst. rewrite truthy_vb, I2. destruct negated, b; reflexivity.
    - (* EGroup *) rewrite eval_group. apply IHe. exact H.
    - (* EConst *)
      destruct k; try discriminate H; injection H as <-; (split; [reflexivity|]); simpl fst;
        rewrite ?truthy_true, ?truthy_false, ?truthy_undef; destruct negated; reflexivity.
  Qed.

  Theorem is_falsy_sound : forall e b, is_falsy e = Some b -> forall s, snd (ev e s) = s /\ truthy (fst (ev e s)) = negb b.
  Proof.
    intros e b H s. destruct (is_falsy_aux_sound e false b H s) as [H1 H2]. split; [exact H1|].
    rewrite H2. destruct b; reflexivity.
  Qed.

  (* ---------- optimizeUnaryExpr ---------- *)
  Lemma strip_nots_sound : forall x inv inv' e2, strip_nots inv x = (inv', e2) -> forall s,
    snd (ev x s) = snd (ev e2 s) /\ truthy (fst (ev x s)) = xorb (xorb inv inv') (truthy (fst (ev e2 s))).
  Proof.
    induction x; intros inv inv' e2 H s; simpl in H;
      try (injection H as <- <-; split; [reflexivity|rewrite xorb_nilpotent, xorb_false_l; reflexivity]).
    - (* EPre *)
      unfold is_op in H. destruct (String.eqb_spec op "NotToken") as [-> | N].
      + destruct (IHx _ _ _ H s) as [I1 I2]. rewrite eval_not. destruct (ev x s) as [v s1]. simpl fst in *. simpl snd in *.
        split; [exact I1|]. rewrite truthy_vb, I2. destruct inv, inv', (truthy (fst (ev e2 s))); reflexivity.
      + injection H as <- <-; split; [reflexivity|rewrite xorb_nilpotent, xorb_false_l; reflexivity].
    - (* EGroup *) rewrite eval_group. apply IHx. exact H.
  Qed.

  (* !x0, with x0 = (!|parentheses)* e2, is e2's truthiness, inverted an odd or even number of times *)
  Lemma not_strip_eval : forall x0 invert e2, strip_nots true x0 = (invert, e2) -> forall s,
    ev (EPre "NotToken" x0) s = let '(v2, s2) := ev e2 s in (vb (xorb invert (truthy v2)), s2).
  Proof.
    intros x0 invert e2 H s. destruct (strip_nots_sound _ _ _ _ H s) as [I1 I2]. rewrite eval_not.
    destruct (ev x0 s) as [v s1]. destruct (ev e2 s) as [v2 s2]. simpl fst in *. simpl snd in *. subst s1. rewrite I2.
    destruct invert, (truthy v2); reflexivity.
  Qed.

  Lemma invert_op_EqEq : invert_op "EqEqToken" = "NotEqToken". Proof. reflexivity. Qed.
  Lemma invert_op_NotEq : invert_op "NotEqToken" = "EqEqToken". Proof. reflexivity. Qed.
  Lemma invert_op_EqEqEq : invert_op "EqEqEqToken" = "NotEqEqToken". Proof. reflexivity. Qed.
  Lemma invert_op_NotEqEq : invert_op "NotEqEqToken" = "EqEqEqToken". Proof. reflexivity. Qed.

  (* == <-> != and === <-> !== : the same evaluation, the negated boolean *)
  Lemma invert_op_sound : forall op a b s, binp T op = OpEquals ->
    ev (EBin (invert_op op) a b) s = let '(v, s') := ev (EBin op a b) s in (vb (negb (truthy v)), s').
  Proof.
    intros op a b s H. destruct (four_eq_cases _ (binp_equals_four _ H)) as [-> | [-> | [-> | ->]]].
    - rewrite invert_op_EqEq, (eval_eqlevel _ _ _ _ binp_NotEq), (eval_eqlevel _ _ _ _ binp_EqEq).
      destruct (ev a s) as [va s1]. destruct (ev b s1) as [vb0 s2].
      change (is_strict "NotEqToken") with false. change (is_strict "EqEqToken") with false.
      change (is_negated_eq "NotEqToken") with true. change (is_negated_eq "EqEqToken") with false.
      destruct (loose_eq va vb0 s2) as [r s3]. rewrite truthy_vb. destruct r; reflexivity.
    - rewrite invert_op_NotEq, (eval_eqlevel _ _ _ _ binp_NotEq), (eval_eqlevel _ _ _ _ binp_EqEq).
      destruct (ev a s) as [va s1]. destruct (ev b s1) as [vb0 s2].
      change (is_strict "NotEqToken") with false. change (is_strict "EqEqToken") with false.
      change (is_negated_eq "NotEqToken") with true. change (is_negated_eq "EqEqToken") with false.
      destruct (loose_eq va vb0 s2) as [r s3]. rewrite truthy_vb. destruct r; reflexivity.
    - rewrite invert_op_EqEqEq, (eval_eqlevel _ _ _ _ binp_NotEqEq), (eval_eqlevel _ _ _ _ binp_EqEqEq).
      destruct (ev a s) as [va s1]. destruct (ev b s1) as [vb0 s2].
      change (is_strict "NotEqEqToken") with true. change (is_strict "EqEqEqToken") with true.
      change (is_negated_eq "NotEqEqToken") with true. change (is_negated_eq "EqEqEqToken") with false.
      cbv iota. rewrite truthy_vb. destruct (strict_eq va vb0); reflexivity.
    - rewrite invert_op_NotEqEq, (eval_eqlevel _ _ _ _ binp_NotEqEq), (eval_eqlevel _ _ _ _ binp_EqEqEq).
      destruct (ev a s) as [va s1]. destruct (ev b s1) as [vb0 s2].
      change (is_strict "NotEqEqToken") with true. change (is_strict "EqEqEqToken") with true.
      change (is_negated_eq "NotEqEqToken") with true. change (is_negated_eq "EqEqEqToken") with false.
      cbv iota. rewrite truthy_vb. destruct (strict_eq va vb0); reflexivity.
  Qed.

  Lemma flip_eq_sound : forall e s, is_equals_bin T e = true ->
    ev (flip_eq e) s = let '(v, s') := ev e s in (vb (negb (truthy v)), s').
  Proof.
    intros e s H. destruct e; try discriminate H. simpl in H. apply Nat.eqb_eq in H. apply invert_op_sound. exact H.
  Qed.

  (* an operand of the De Morgan form: flipped equality, or !a with optional parentheses *)
  Lemma neg_operand : forall a (gr : bool) s,
    ev (if is_equals_bin T a then flip_eq a else EPre "NotToken" (if gr then EGroup a else a)) s =
    let '(v, s') := ev a s in (vb (negb (truthy v)), s').
  Proof.
    intros a gr s. destruct (is_equals_bin T a) eqn:E.
    - apply flip_eq_sound. exact E.
    - rewrite eval_not. destruct gr; reflexivity.
  Qed.

  Lemma demorgan_and : forall a b x' y',
    (forall s, ev x' s = let '(v, s') := ev a s in (vb (negb (truthy v)), s')) ->
    (forall s, ev y' s = let '(v, s') := ev b s in (vb (negb (truthy v)), s')) ->
    forall s, ev (EBin "OrToken" x' y') s = let '(v, s') := ev (EBin "AndToken" a b) s in (vb (negb (truthy v)), s').
  Proof.
    intros a b x' y' Hx Hy s. rewrite eval_or, eval_and, Hx. destruct (ev a s) as [va s1]. rewrite truthy_vb.
    destruct (truthy va) eqn:E; cbn [negb].
    - apply Hy.
    - rewrite E. reflexivity.
  Qed.
  Lemma demorgan_or : forall a b x' y',
    (forall s, ev x' s = let '(v, s') := ev a s in (vb (negb (truthy v)), s')) ->
    (forall s, ev y' s = let '(v, s') := ev b s in (vb (negb (truthy v)), s')) ->
    forall s, ev (EBin "AndToken" x' y') s = let '(v, s') := ev (EBin "OrToken" a b) s in (vb (negb (truthy v)), s').
  Proof.
    intros a b x' y' Hx Hy s. rewrite eval_and, eval_or, Hx. destruct (ev a s) as [va s1]. rewrite truthy_vb.
    destruct (truthy va) eqn:E; cbn [negb].
    - rewrite E. reflexivity.
    - apply Hy.
  Qed.

  Theorem optimize_unary_sound : forall e prec s, ev (optimize_unary T e prec) s = ev e s.
  Proof.
    intros e prec s. unfold optimize_unary. destruct e as [ | | op0 x0 | | | | | | | ]; try reflexivity.
    unfold is_op at 1. destruct (String.eqb_spec op0 "NotToken") as [-> | N]; [|reflexivity]. cbn [negb].
    destruct (strip_nots true x0) as [invert e2] eqn:ES.
    pose proof (not_strip_eval _ _ _ ES s) as W.
    destruct (negb invert && is_boolean_expr T e2) eqn:B.
    - apply andb_true_iff in B. destruct B as [B1 B2]. apply negb_true_iff in B1. subst invert.
      rewrite group_expr_eval, W. pose proof (boolean_expr_value _ B2 s) as Hb.
      destruct (ev e2 s) as [v2 s2]. simpl fst in Hb. rewrite xorb_false_l, vb_truthy; [reflexivity|exact Hb].
    - destruct e2 as [ | op a b | | | | | | | | ]; try reflexivity.
      destruct invert; cbn [negb]; [|reflexivity].
      destruct (Nat.eqb (binp T op) OpEquals) eqn:L.
      + apply Nat.eqb_eq in L. rewrite group_expr_eval, W, (invert_op_sound _ _ _ _ L).
        destruct (ev (EBin op a b) s) as [v s']. destruct (truthy v); reflexivity.
      + destruct (is_op op "AndToken") eqn:EA.
        * cbv beta iota zeta. cbn [orb].
          match goal with |- ev (if ?t then _ else _) s = _ => destruct t end; [|reflexivity].
          match goal with |- ev (if ?g then EGroup ?r else ?r) s = _ => transitivity (ev r s); [destruct g; reflexivity|] end.
          apply String.eqb_eq in EA. subst op. rewrite W.
          rewrite (demorgan_and a b); [destruct (ev (EBin "AndToken" a b) s) as [v s']; destruct (truthy v); reflexivity| |];
            intro s0; apply neg_operand.
        * cbn [orb]. destruct (is_op op "OrToken") eqn:EO; [|reflexivity].
          cbv beta iota zeta.
          match goal with |- ev (if ?t then _ else _) s = _ => destruct t end; [|reflexivity].
          match goal with |- ev (if ?g then EGroup ?r else ?r) s = _ => transitivity (ev r s); [destruct g; reflexivity|] end.
          apply String.eqb_eq in EO. subst op. rewrite W.
          rewrite (demorgan_or a b); [destruct (ev (EBin "OrToken" a b) s) as [v s']; destruct (truthy v); reflexivity| |];
            intro s0; apply neg_operand.
  Qed.

  Theorem optimize_boolean_sound : forall e invert prec s,
    ev (optimize_boolean T e invert prec) s = let '(v, s') := ev e s in (vb (xorb invert (truthy v)), s').
  Proof.
    intros e invert prec s. unfold optimize_boolean. destruct invert.
    - destruct (is_equals_bin T e) eqn:E.
      + rewrite (flip_eq_sound _ _ E). destruct (ev e s) as [v s']. destruct (truthy v); reflexivity.
      + rewrite optimize_unary_sound, eval_not, group_expr_eval. destruct (ev e s) as [v s']. destruct (truthy v); reflexivity.
    - destruct (is_boolean_expr T e) eqn:B.
      + rewrite group_expr_eval. pose proof (boolean_expr_value _ B s) as Hb. destruct (ev e s) as [v s']. simpl fst in Hb.
        rewrite xorb_false_l, vb_truthy; [reflexivity|exact Hb].
      + rewrite !eval_not, group_expr_eval. destruct (ev e s) as [v s']. rewrite truthy_vb. destruct (truthy v); reflexivity.
  Qed.

  (* ---------- optimizeCondExpr ---------- *)
  Lemma equal_expr_read : forall a b, is_equal_expr a b = true -> forall s, ev a s = ev b s /\ snd (ev a s) = s.
  Proof.
    intros a b H s. unfold is_equal_expr in H. rewrite <- (inner_eval a), <- (inner_eval b).
    destruct (inner_expr a) as [n| | | | | | | | |k]; try discriminate H.
    - destruct (inner_expr b) as [m| | | | | | | | |k0]; try discriminate H.
      apply String.eqb_eq in H. subst m. split; reflexivity.
    - destruct k; try discriminate H; destruct (inner_expr b) as [m| | | | | | | | |k0]; try discriminate H;
        destruct k0; try discriminate H; split; reflexivity.
  Qed.

  Lemma truthy_known : forall c b, is_truthy c = Some b -> forall s, snd (ev c s) = s /\ truthy (fst (ev c s)) = b.
  Proof.
    intros c b H s. unfold is_truthy in H. destruct (is_falsy c) as [f|] eqn:F; [|discriminate H].
    simpl in H. injection H as <-. exact (is_falsy_sound c f F s).
  Qed.

  Lemma is_true_sound : forall x, is_true x = true -> forall s, ev x s = (vtrue, s).
  Proof.
    intros x H s. unfold is_true in H. rewrite <- inner_eval.
    destruct (inner_expr x) as [ | |op x'| | | | | | |k]; try discriminate H.
    - unfold is_op in H. destruct (String.eqb_spec op "NotToken") as [-> | N]; [|discriminate H].
      destruct (is_falsy x') as [f|] eqn:F; [|discriminate H]. subst f.
      destruct (is_falsy_sound _ _ F s) as [H1 H2]. rewrite eval_not. destruct (ev x' s) as [v s1].
      simpl in H1, H2. subst s1. rewrite H2. reflexivity.
    - destruct k; try discriminate H. reflexivity.
  Qed.
  Lemma is_false_sound : forall x, is_false x = true -> forall s, ev x s = (vfalse, s).
  Proof.
    intros x H s. unfold is_false in H. rewrite <- inner_eval.
    destruct (inner_expr x) as [ | |op x'| | | | | | |k]; try discriminate H.
    - unfold is_op in H. destruct (String.eqb_spec op "NotToken") as [-> | N]; [|discriminate H].
      destruct (is_truthy x') as [f|] eqn:F; [|discriminate H]. subst f.
      destruct (truthy_known _ _ F s) as [H1 H2]. rewrite eval_not. destruct (ev x' s) as [v s1].
      simpl in H1, H2. subst s1. rewrite H2. reflexivity.
    - destruct k; try discriminate H. reflexivity.
  Qed.
  Lemma true_false_excl : forall x, is_true x = true -> is_false x = true -> S -> False.
  Proof.
    intros x H1 H2 s. pose proof (is_true_sound _ H1 s) as E1. rewrite (is_false_sound _ H2 s) in E1.
    injection E1 as E1. pose proof truthy_true as Ht. rewrite <- E1, truthy_false in Ht. discriminate Ht.
  Qed.

  (* step 1: !!c with c boolean -> c ; !c -> c with the branches swapped *)
  Lemma cond_norm_sound : forall c0 x0 y0 c x y s, cond_norm T c0 x0 y0 = (c, x, y) -> ev (ECond c0 x0 y0) s = ev (ECond c x y) s.
  Proof.
    intros c0 x0 y0 c x y s H.
    assert (SW : forall u, ev (ECond (EPre "NotToken" u) x0 y0) s = ev (ECond u y0 x0) s).
    { intro u. rewrite !eval_cond, eval_not. destruct (ev u s) as [v s1]. rewrite truthy_vb. destruct (truthy v); reflexivity. }
    unfold cond_norm in H. destruct c0 as [ | |op1 u1| | | | | | | ]; try (injection H as <- <- <-; reflexivity).
    unfold is_op in H. destruct (String.eqb_spec op1 "NotToken") as [-> | N1]; [|injection H as <- <- <-; reflexivity].
    destruct u1 as [ | |op2 u2| | | | | | | ]; try (injection H as <- <- <-; apply SW).
    destruct (String.eqb_spec op2 "NotToken") as [-> | N2]; [|injection H as <- <- <-; apply SW].
    destruct (is_boolean_expr T u2) eqn:B; injection H as <- <- <-; [|reflexivity].
    rewrite !eval_cond, !eval_not. destruct (ev u2 s) as [v s1]. rewrite !truthy_vb. destruct (truthy v); reflexivity.
  Qed.

  (* finalExpr: the variable that holds the value of the condition once the condition has been evaluated *)
  Definition fin (t : expr) : expr := match t with EBin op x _ => if is_op op "EqToken" then x else t | _ => t end.
  Lemma final_expr_fin : forall c, final_expr c = fin (last_of c).
  Proof. reflexivity. Qed.

  Lemma fin_read : forall t x, targets_const t = false -> is_equal_expr (fin t) x = true ->
    forall s v s1, ev t s = (v, s1) -> ev x s1 = (v, s1).
  Proof.
    intros t x Hc He s v s1 Hev.
    assert (G : fin t = t -> ev x s1 = (v, s1)).
    { intro Ef. rewrite Ef in He. destruct (equal_expr_read _ _ He s) as [H1 H2]. rewrite Hev in H1, H2. simpl in H2. subst s1. symmetry. exact H1. }
    destruct t as [ |op a b| | | | | | | | ]; try (apply G; reflexivity).
    simpl in He, Hc. unfold is_op in He, Hc. destruct (String.eqb_spec op "EqToken") as [-> | N].
    - rewrite eval_assign in Hev. unfold is_equal_expr in He. cbn [andb] in Hc.
      destruct (inner_expr a) as [n| | | | | | | | |k] eqn:IA; try discriminate He; [|discriminate Hc].
      destruct (inner_expr x) as [m| | | | | | | | |k] eqn:IX; try discriminate He.
      apply String.eqb_eq in He. subst m. destruct (ev b s) as [vb0 s2]. injection Hev as <- <-.
      rewrite <- inner_eval, IX. cbn. rewrite var_assign_same. reflexivity.
    - unfold is_equal_expr in He. simpl in He. discriminate He.
  Qed.

  Lemma final_read : forall c x, assigns_const c = false -> is_equal_expr (final_expr c) x = true ->
    forall s v s1, ev c s = (v, s1) -> ev x s1 = (v, s1).
  Proof.
    intros c x Hc He s v s1 Hev. rewrite final_expr_fin in He. rewrite <- inner_eval in Hev.
    unfold assigns_const in Hc. unfold last_of in *. cbv zeta in *.
    destruct (inner_expr c) as [ |op l r| | | | | | | | ] eqn:IC; try (eapply fin_read; eassumption).
    unfold is_op in Hc, He. destruct (String.eqb_spec op "CommaToken") as [-> | N].
    - rewrite eval_comma in Hev. destruct (ev l s) as [vl sl]. eapply fin_read; eassumption.
    - eapply fin_read; eassumption.
  Qed.

  Lemma cond_to_or : forall c c' x y s, (forall s, ev c' s = ev c s) ->
    (forall v s1, ev c s = (v, s1) -> ev x s1 = (v, s1)) -> ev (EBin "OrToken" c' y) s = ev (ECond c x y) s.
  Proof.
    intros c c' x y s Hc' H. rewrite eval_or, eval_cond, Hc'. destruct (ev c s) as [v s1] eqn:E.
    destruct (truthy v); [symmetry; apply H; reflexivity|reflexivity].
  Qed.
  Lemma cond_to_and : forall c c' x y s, (forall s, ev c' s = ev c s) ->
    (forall v s1, ev c s = (v, s1) -> ev y s1 = (v, s1)) -> ev (EBin "AndToken" c' x) s = ev (ECond c x y) s.
  Proof.
    intros c c' x y s Hc' H. rewrite eval_and, eval_cond, Hc'. destruct (ev c s) as [v s1] eqn:E.
    destruct (truthy v); [reflexivity|symmetry; apply H; reflexivity].
  Qed.
  Lemma cond_same_branches : forall c x y s, is_equal_expr x y = true -> ev (EBin "CommaToken" c x) s = ev (ECond c x y) s.
  Proof.
    intros c x y s H. rewrite eval_comma, eval_cond. destruct (ev c s) as [v s1].
    destruct (truthy v); [reflexivity|apply equal_expr_read; exact H].
  Qed.
  (* c ? f(a) : f(b)  ->  f(c ? a : b) : f is read before c instead of after it, so c must not run code *)
  Lemma cond_call_merge : forall c f f' a b s, is_equal_expr f f' = true -> may_run_code c = false ->
    ev (ECall f (ECond c a b)) s = ev (ECond c (ECall f a) (ECall f' b)) s.
  Proof.
    intros c f f' a b s Hf Hc. destruct (equal_expr_read _ _ Hf s) as [Hff Hs]. pose proof (no_code_no_effect _ Hc s) as Hn.
    rewrite eval_call. destruct (ev f s) as [fv sf] eqn:Ef. simpl in Hs. subst sf. rewrite !eval_cond.
    destruct (ev c s) as [v sc]. simpl in Hn. subst sc.
    destruct (truthy v); rewrite eval_call; [rewrite Ef|rewrite <- Hff]; reflexivity.
  Qed.

  (* ((l, r)) ? x : y  ->  l, r ? x : y *)
  Definition hoist (c x y : expr) (prec : nat) : expr :=
    if Nat.leb prec OpExpr then
      match c with
      | EGroup (EBin opc l r) => if is_op opc "CommaToken" && Nat.leb OpCoalesce (expr_prec T r) then EBin "CommaToken" l (ECond r x y) else ECond c x y
      | _ => ECond c x y
      end
    else ECond c x y.
  Lemma hoist_sound : forall c x y prec s, ev (hoist c x y prec) s = ev (ECond c x y) s.
  Proof.
    intros c x y prec s. unfold hoist. destruct (Nat.leb prec OpExpr); [|reflexivity].
    destruct c as [ | | | | |c| | | | ]; try reflexivity. destruct c as [ |opc l r| | | | | | | | ]; try reflexivity.
    destruct (is_op opc "CommaToken" && Nat.leb OpCoalesce (expr_prec T r)) eqn:E; [|reflexivity].
    apply andb_true_iff in E. destruct E as [E _]. apply String.eqb_eq in E. subst opc.
    rewrite eval_comma, !eval_cond, eval_group, eval_comma. destruct (ev l s) as [vl sl]. reflexivity.
  Qed.

  (* c ? (c2 ? x2 : y) : y  ->  c && c2 ? x2 : y *)
  Lemma cond_nested : forall c c2 x2 y2 y p q s, is_equal_expr y y2 = true ->
    ev (ECond (EBin "AndToken" (group_expr T p c) (group_expr T q c2)) x2 y) s = ev (ECond c (ECond c2 x2 y2) y) s.
  Proof.
    intros c c2 x2 y2 y p q s H. rewrite !eval_cond, eval_and, group_expr_eval. destruct (ev c s) as [v s1].
    destruct (truthy v) eqn:E.
    - rewrite group_expr_eval, eval_cond. destruct (ev c2 s1) as [v2 s2].
      destruct (truthy v2); [reflexivity|apply equal_expr_read; exact H].
    - rewrite E. reflexivity.
  Qed.

  (* the part of the decision tree below the call case (the text of the `_, _` branch of optimize_cond) *)
  Definition cond_rest (c x y : expr) (prec : nat) : expr :=
    let tx := is_true x in let fx := is_false x in let ty := is_true y in let fy := is_false y in
    if (tx && fy) || (fx && ty) then optimize_boolean T c fx prec
    else if tx || ty then
      let cond := optimize_boolean T c ty (leftp T "OrToken") in
      if ty then EBin "OrToken" cond (group_expr T (rightp T "OrToken") x) else EBin "OrToken" cond (group_expr T (rightp T "OrToken") y)
    else if fx || fy then
      let cond := optimize_boolean T c fx (leftp T "AndToken") in
      if fx then EBin "AndToken" cond (group_expr T (rightp T "AndToken") y) else EBin "AndToken" cond (group_expr T (rightp T "AndToken") x)
    else
      match x with
      | ECond c2 x2 y2 =>
          if is_equal_expr y y2 then ECond (EBin "AndToken" (group_expr T (leftp T "AndToken") c) (group_expr T (rightp T "AndToken") c2)) x2 y
          else hoist c x y prec
      | _ => hoist c x y prec
      end.

  Ltac use_consts :=
    repeat match goal with
    | H : is_true ?z = true |- context [ev ?z ?st] => rewrite (is_true_sound z H st)
    | H : is_false ?z = true |- context [ev ?z ?st] => rewrite (is_false_sound z H st)
    end.
  Ltac bool_branch :=
    rewrite ?eval_or, ?eval_and, eval_cond, optimize_boolean_sound;
    match goal with |- context [ev ?c ?s] => destruct (ev c s) as [?v ?s1] end;
    rewrite ?truthy_vb;
    match goal with |- context [truthy ?v] => destruct (truthy v) end;
    red_pair; rewrite ?truthy_true, ?truthy_false; red_pair; rewrite ?group_expr_eval; use_consts; reflexivity.

  Lemma cond_rest_sound : forall c x y prec s, ev (cond_rest c x y prec) s = ev (ECond c x y) s.
  Proof.
    intros c x y prec s. unfold cond_rest. cbv zeta.
    destruct (is_true x) eqn:TX; destruct (is_false x) eqn:FX;
      try (exfalso; exact (true_false_excl _ TX FX s));
      destruct (is_true y) eqn:TY; destruct (is_false y) eqn:FY;
      try (exfalso; exact (true_false_excl _ TY FY s));
      cbn [andb orb].
    - bool_branch.
    - bool_branch.
    - bool_branch.
    - bool_branch.
    - bool_branch.
    - bool_branch.
    - bool_branch.
    - bool_branch.
    - destruct x as [ | | | |c2 x2 y2| | | | | ]; try apply hoist_sound.
      destruct (is_equal_expr y y2) eqn:E; [apply cond_nested; exact E|apply hoist_sound].
  Qed.

  (* MAIN: a ? b : c in all the forms optimizeCondExpr gives it *)
  Theorem optimize_cond_sound : forall e prec s, const_assign_hazard T e = false -> ev (optimize_cond T e prec) s = ev e s.
  Proof.
    intros e prec s Hz. unfold optimize_cond. destruct e as [ | | | |c0 x0 y0| | | | | ]; try reflexivity.
    unfold const_assign_hazard in Hz.
    match goal with |- ev (match ?n with _ => _ end) s = _ => change n with (cond_norm T c0 x0 y0) end.
    destruct (cond_norm T c0 x0 y0) as [[c x] y] eqn:En.
    rewrite (cond_norm_sound _ _ _ _ _ _ s En). cbv zeta in Hz. cbv zeta.
    destruct (is_truthy c) as [[|]|] eqn:Ht.
    - destruct (truthy_known _ _ Ht s) as [H1 H2]. rewrite eval_cond. destruct (ev c s) as [v s1]. simpl in H1, H2. subst s1. rewrite H2. reflexivity.
    - destruct (truthy_known _ _ Ht s) as [H1 H2]. rewrite eval_cond. destruct (ev c s) as [v s1]. simpl in H1, H2. subst s1. rewrite H2. reflexivity.
    - destruct (is_equal_expr (final_expr c) x && or_and_guard T "OrToken" (final_expr c) y) eqn:E1.
      { rewrite orb_true_l, andb_true_r in Hz. apply andb_true_iff in E1. destruct E1 as [E1 _].
        apply cond_to_or; [intro; apply group_expr_eval|]. intros v s1. apply final_read; assumption. }
      destruct (is_equal_expr (final_expr c) y && or_and_guard T "AndToken" (final_expr c) x) eqn:E2.
      { rewrite orb_true_r, andb_true_r in Hz. apply andb_true_iff in E2. destruct E2 as [E2 _].
        apply cond_to_and; [intro; apply group_expr_eval|]. intros v s1. apply final_read; assumption. }
      clear Hz E1 E2.
      destruct (is_equal_expr x y) eqn:E3.
      { rewrite group_expr_eval. apply cond_same_branches. exact E3. }
      destruct x as [ | | | | | |f a| | | ];
        try (match goal with |- _ = ev (ECond _ ?x' ?y') _ => exact (cond_rest_sound c x' y' prec s) end).
      destruct y as [ | | | | | |f' b| | | ];
        try (match goal with |- _ = ev (ECond _ ?x' ?y') _ => exact (cond_rest_sound c x' y' prec s) end).
      destruct (is_equal_expr f f' && negb (may_run_code c)) eqn:E4.
      + apply andb_true_iff in E4. destruct E4 as [E4 E5]. apply negb_true_iff in E5. apply cond_call_merge; assumption.
      + exact (hoist_sound c (ECall f a) (ECall f' b) prec s).
  Qed.

  Theorem rewrite_node_sound : forall e prec s, const_assign_hazard T e = false -> ev (rewrite_node T e prec) s = ev e s.
  Proof.
    intros e prec s Hz. destruct e; try reflexivity.
    - apply optimize_unary_sound.
    - apply optimize_cond_sound. exact Hz.
  Qed.

End Proofs.

(* ---------- the hypothesis of optimize_cond_sound is necessary: a concrete failing input ----------
   JavaScript (sloppy mode):   (undefined = a) ? undefined : b        with a = 5, b = 7
   The global `undefined` is a non-writable property: the assignment is silently ignored and its value is the right-hand
   side, 5 (truthy), so the conditional yields the value of `undefined`, i.e. undefined.  optimizeCondExpr sees
   finalExpr(cond) = the Var `undefined` = the true branch and rewrites to   (undefined = a) || b   which yields 5.
   (The same with Infinity.  In strict mode both versions throw the same TypeError.)
   Instance: V = nat (0 false, 1 true, 2 undefined, 3 Infinity), S = an association list, every abstract operator
   trivial except the "arithmetic" reading of an assignment to a non-identifier, which returns its right operand. *)
From MV Require Import Js.PrintGen.
Module ConstAssignCounterexample.
  Definition V := nat.
  Definition S := list (string * nat).
  Definition truthy (v : V) : bool := negb (Nat.eqb v 0) && negb (Nat.eqb v 2).
  Fixpoint var (x : string) (s : S) : V :=
    match s with [] => 0 | (k, v) :: r => if String.eqb k x then v else var x r end.
  Definition assign (x : string) (v : V) (s : S) : S := (x, v) :: s.
  Definition arith (op : string) (a b : V) (s : S) : V * S := if String.eqb op "EqToken" then (b, s) else (0, s).
  Definition ev : expr -> S -> V * S :=
    eval T_gen V S truthy 1 0 2 3 var assign (fun _ _ s => (0, s)) Nat.eqb (fun a b s => (Nat.eqb a b, s))
      (fun _ _ _ s => (false, s)) arith (fun _ _ => 0) (fun _ _ s => (0, s)) (fun _ _ s => (0, s)) (fun _ _ s => (0, s))
      (fun v => Nat.eqb v 2).
  Definition s0 : S := [("a", 5); ("b", 7)].
  Definition cex : expr := ECond (EBin "EqToken" (EConst CUndefined) (EAtom "a")) (EConst CUndefined) (EAtom "b").
  Definition cex_inf : expr := ECond (EBin "EqToken" (EConst CInfinity) (EAtom "a")) (EConst CInfinity) (EAtom "b").

  Example tables_ok : sem_tables_ok T_gen = true.
  Proof. vm_compute. reflexivity. Qed.
  Example interpretation_ok : truthy 1 = true /\ truthy 0 = false /\ truthy 2 = false /\ (forall x v s, var x (assign x v s) = v).
  Proof. repeat split. intros x v s. simpl. rewrite String.eqb_refl. reflexivity. Qed.
  Example hazard : const_assign_hazard T_gen cex = true /\ const_assign_hazard T_gen cex_inf = true.
  Proof. vm_compute. split; reflexivity. Qed.
  Example rewritten : optimize_cond T_gen cex OpExpr = EBin "OrToken" (EGroup (EBin "EqToken" (EConst CUndefined) (EAtom "a"))) (EAtom "b").
  Proof. vm_compute. reflexivity. Qed.
  Example const_assign_counterexample :
    ev cex s0 = (2, s0) /\ ev (optimize_cond T_gen cex OpExpr) s0 = (5, s0) /\
    ev cex_inf s0 = (3, s0) /\ ev (optimize_cond T_gen cex_inf OpExpr) s0 = (5, s0).
  Proof. vm_compute. repeat split; reflexivity. Qed.
  Example rewrite_not_sound_without_hypothesis : ~ (forall e prec s, ev (optimize_cond T_gen e prec) s = ev e s).
  Proof. intro H. specialize (H cex OpExpr s0). vm_compute in H. discriminate H. Qed.
End ConstAssignCounterexample.
