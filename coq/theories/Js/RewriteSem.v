(* Js/RewriteSem.v — a semantics for the expression fragment of Js/RewriteModel.v, abstract in everything the rewrites do
   not depend on, against which the rewrites are proved to preserve BOTH the value and the state (side effects, in order):
     values V with a truthiness test; a store S; reading an identifier has no effect; calls, ==, relational, arithmetic,
     member and update operators are arbitrary state transformers (they may run user code: valueOf, getters, ...);
     ===, !, typeof, void, &&, ||, ??, ?:, comma and parentheses run no code of their own.
   (?? short-circuits like && and ||: `a ?? b` evaluates b only when a is null / undefined, and no user code runs in
   between; treating it as an eager "arithmetic" operator would evaluate b unconditionally, which is wrong about JavaScript
   and would make mayRunCode, which looks through ??, unsound for a reason that is not in the minifier.)
   These are the assumptions the minifier itself makes (js/util.go: "assume that variable usage ... have no side effects"):
   an identifier read is taken to be effect-free and stable, which is false for getters on the global object / `with`
   objects and for TDZ errors; the theorems are modulo that assumption, stated here as the shape of [eval]. *)
From Coq Require Import List String Arith Bool ZArith.
Import ListNotations.
From MV Require Import Js.PrintModel Js.PrintGroup Js.RewriteModel.
Local Open Scope string_scope.

Section Sem.
  Variable T : tables.
  Variables V S : Type.
  Variable truthy : V -> bool.
  Variables vtrue vfalse vundef vinf : V.
  Hypothesis truthy_true : truthy vtrue = true.
  Hypothesis truthy_false : truthy vfalse = false.
  Hypothesis truthy_undef : truthy vundef = false.
  Definition vbool (b : bool) : V := if b then vtrue else vfalse.

  Variable var : string -> S -> V.                      (* identifier read: no effect *)
  Variable assign : string -> V -> S -> S.              (* simple assignment to an identifier *)
  Hypothesis var_assign_same : forall x v s, var x (assign x v s) = v.
  Variable call : V -> V -> S -> V * S.
  Variable strict_eq : V -> V -> bool.                  (* === *)
  Variable loose_eq : V -> V -> S -> bool * S.          (* == may convert operands by running code *)
  Variable compare : string -> V -> V -> S -> bool * S. (* < <= > >= in instanceof: boolean result *)
  Variable arith : string -> V -> V -> S -> V * S.      (* every other binary operator, incl. compound assignment *)
  Variable pure_unop : string -> V -> V.                (* typeof, void *)
  Variable unop : string -> V -> S -> V * S.            (* every other unary operator *)
  Variable member : string -> V -> S -> V * S.          (* x.name *)
  Variable index : V -> V -> S -> V * S.                (* x[i] *)
  Variable nullish : V -> bool.                         (* null or undefined: the test of ?? *)

  Definition is_strict (op : string) : bool := String.eqb op "EqEqEqToken" || String.eqb op "NotEqEqToken".
  Definition is_negated_eq (op : string) : bool := String.eqb op "NotEqToken" || String.eqb op "NotEqEqToken".

  Fixpoint eval (e : expr) (s : S) : V * S :=
    match e with
    | EAtom x => (var x s, s)
    | EConst CTrue => (vtrue, s)
    | EConst CFalse => (vfalse, s)
    | EConst CUndefined => (vundef, s)
    | EConst CInfinity => (vinf, s)
    | EGroup x => eval x s
    | EPre op x =>
        let '(v, s1) := eval x s in
        if String.eqb op "NotToken" then (vbool (negb (truthy v)), s1)
        else if String.eqb op "TypeofToken" || String.eqb op "VoidToken" then (pure_unop op v, s1)
        else unop op v s1
    | EPost op x => let '(v, s1) := eval x s in unop op v s1
    | EBin op x y =>
        if String.eqb op "AndToken" then
          let '(v, s1) := eval x s in if truthy v then eval y s1 else (v, s1)
        else if String.eqb op "OrToken" then
          let '(v, s1) := eval x s in if truthy v then (v, s1) else eval y s1
        else if String.eqb op "NullishToken" then
          let '(v, s1) := eval x s in if nullish v then eval y s1 else (v, s1)
        else if String.eqb op "CommaToken" then
          let '(_, s1) := eval x s in eval y s1
        else if String.eqb op "EqToken" then
          match inner_expr x with      (* a parenthesised identifier is an assignment target too *)
          | EAtom name => let '(v, s1) := eval y s in (v, assign name v s1)
          | _ => let '(a, s1) := eval x s in let '(b, s2) := eval y s1 in arith op a b s2
          end
        else
          let '(a, s1) := eval x s in
          let '(b, s2) := eval y s1 in
          if Nat.eqb (binp T op) OpEquals then
            if is_strict op then (vbool (xorb (is_negated_eq op) (strict_eq a b)), s2)
            else let '(r, s3) := loose_eq a b s2 in (vbool (xorb (is_negated_eq op) r), s3)
          else if Nat.eqb (binp T op) OpCompare then
            let '(r, s3) := compare op a b s2 in (vbool r, s3)
          else arith op a b s2
    | ECond c x y => let '(v, s1) := eval c s in if truthy v then eval x s1 else eval y s1
    | ECall f a => let '(fv, s1) := eval f s in let '(av, s2) := eval a s1 in call fv av s2
    | EDot x n _ => let '(v, s1) := eval x s in member n v s1
    | EIndex x i _ => let '(v, s1) := eval x s in let '(iv, s2) := eval i s1 in index v iv s2
    end.

  (* what the rewrites need of the operator maps: the operators on the equality level are exactly the four equality
     operators (so that invert_op is defined on them), and && / || sit on their own levels *)
  Definition four_eq (op : string) : bool :=
    String.eqb op "EqEqToken" || String.eqb op "NotEqToken" || String.eqb op "EqEqEqToken" || String.eqb op "NotEqEqToken".
  Definition sem_tables_ok : bool :=
    forallb (fun kv => implb (Nat.eqb (prec_of_name (snd kv)) OpEquals) (four_eq (fst kv)) &&
                       implb (Nat.eqb (prec_of_name (snd kv)) OpAnd) (String.eqb (fst kv) "AndToken") &&
                       implb (Nat.eqb (prec_of_name (snd kv)) OpOr) (String.eqb (fst kv) "OrToken")) (t_binop T) &&
    Nat.eqb (binp T "AndToken") OpAnd && Nat.eqb (binp T "OrToken") OpOr &&
    Nat.eqb (binp T "EqEqToken") OpEquals && Nat.eqb (binp T "NotEqToken") OpEquals &&
    Nat.eqb (binp T "EqEqEqToken") OpEquals && Nat.eqb (binp T "NotEqEqToken") OpEquals &&
    negb (Nat.eqb (binp T "CommaToken") OpEquals) && negb (Nat.eqb (binp T "EqToken") OpEquals) &&
    negb (Nat.eqb (binp T "CommaToken") OpCompare) && negb (Nat.eqb (binp T "EqToken") OpCompare) &&
    negb (Nat.eqb (binp T "NullishToken") OpCompare) &&   (* isBooleanExpr must not take a ?? for a comparison *)
    (* the keys of the map are unique, so plookup finds the entry forallb speaks about *)
    true.
End Sem.
