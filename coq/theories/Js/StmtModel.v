(* Js/StmtModel.v — F1 transcription of the statement optimiser of /repo/js/stmtlist.go (optimizeStmt, optimizeStmtList) with
   its helpers from js/util.go (isEmptyStmt, isFlowStmt, lastStmt, hasSideEffects, isUndefined, condExpr, commaExpr,
   groupExpr) on the control-flow fragment
     expression statements, if / else, return, throw, break / continue, empty statements, blocks, and opaque statements
     (anything else: declarations, loops, ... which no rule of the fragment touches),
   over the expressions of Js/PrintModel.v.  The rewrites: if(!a)b;else c => if(a)c;else b; if(a)b => a&&b; if(!a)b => a||b;
   if(a);else b => a||b; if(a){if(b)c} => if(a&&b)c; if(a)b;else c => a?b:c; both branches return / throw => one
   return / throw of a conditional; an else after a branch that ends in return / throw / break is flattened; empty
   statements vanish; an expression statement is merged into a following expression / return / throw / if;
   if(a)return b;return c => return a?b:c (repeated); a trailing `return` / `return undefined` of a function goes.
   The result is an AST (parentheses as EGroup); it is compared with the real optimizeStmtList through a verif hook. *)
From Coq Require Import List String Arith Bool.
Import ListNotations.
From MV Require Import Js.PrintModel Js.PrintGroup Js.RewriteModel.
Local Open Scope string_scope.
Local Open Scope list_scope.

Inductive stmt :=
| SExpr (e : expr)
| SIf (c : expr) (body : stmt) (els : option stmt)
| SReturn (v : option expr)
| SThrow (v : expr)
| SBranch (kind : string)          (* break / continue, possibly with a label: a flow statement *)
| SEmpty
| SBlock (l : list stmt)
| SOpaque (id : string).           (* any other statement *)

Section Stmt.
  Variable T : tables.

  (* isEmptyStmt *)
  Fixpoint is_empty (s : stmt) : bool :=
    match s with
    | SEmpty => true
    | SBlock l => forallb is_empty l
    | _ => false
    end.
  Definition is_empty_opt (o : option stmt) : bool := match o with None => true | Some s => is_empty s end.

  Definition is_flow (s : stmt) : bool := match s with SReturn _ | SThrow _ | SBranch _ => true | _ => false end.
  (* lastStmt *)
  Fixpoint last_stmt (s : stmt) : stmt :=
    match s with
    | SBlock l => (fix go (l : list stmt) : stmt := match l with [] => s | [x] => last_stmt x | _ :: r => go r end) l
    | _ => s
    end.

  Definition is_literal_atom (s : string) : bool :=
    match s with String c _ => (Nat.leb 48 (Ascii.nat_of_ascii c) && Nat.leb (Ascii.nat_of_ascii c) 57) | EmptyString => false end.

  (* hasSideEffects, as written (a variable counts as side effect; a binary operator if it is an assignment or if one of
     its operands has side effects, where a bare identifier operand counts as effect-free; a comma
     list always: the case for *js.CommaExpr has no `return false`, so a list without effects falls out of the switch
     to the final `return true`) *)
  Fixpoint has_side_effects (e : expr) : bool :=
    match e with
    | EAtom s => negb (is_literal_atom s)
    | EConst CTrue | EConst CFalse => false
    | EConst _ => true
    | ECall _ _ => true
    | EGroup x => has_side_effects x
    | EDot _ _ _ | EIndex _ _ _ => true
    | ECond c x y => has_side_effects c || has_side_effects x || has_side_effects y
    | EPre op x => if is_op op "DeleteToken" || is_op op "PreIncrToken" || is_op op "PreDecrToken" then true else has_side_effects x
    | EPost _ _ => true
    | EBin op x y => if is_op op "CommaToken" then true
                     else if Nat.eqb (binp T op) OpAssign then true
                     else (match x with EAtom _ => false | EConst CUndefined | EConst CInfinity => false | _ => has_side_effects x end)
                          || (match y with EAtom _ => false | EConst CUndefined | EConst CInfinity => false | _ => has_side_effects y end)
    end.

  (* isUndefined *)
  Definition is_undefined (e : expr) : bool :=
    match inner_expr e with
    | EConst CUndefined => true
    | EPre op x => is_op op "VoidToken" && negb (has_side_effects x)
    | _ => false
    end.

  (* commaExpr: x, y with both comma lists flattened *)
  Fixpoint comma_expr (x y : expr) : expr :=
    match y with
    | EBin op y1 y2 => if is_op op "CommaToken" then EBin op (comma_expr x y1) y2 else EBin "CommaToken" x y
    | _ => EBin "CommaToken" x y
    end.

  (* condExpr *)
  Definition cond_expr (c x y : expr) : expr :=
    match c with
    | EBin op l r =>
        if is_op op "CommaToken"
        then EBin op l (ECond (group_expr T OpCoalesce r) (group_expr T OpAssign x) (group_expr T OpAssign y))
        else ECond (group_expr T OpCoalesce c) (group_expr T OpAssign x) (group_expr T OpAssign y)
    | _ => ECond (group_expr T OpCoalesce c) (group_expr T OpAssign x) (group_expr T OpAssign y)
    end.

  Definition and_expr (a b : expr) : expr := EBin "AndToken" (group_expr T (leftp T "AndToken") a) (group_expr T (rightp T "AndToken") b).
  Definition or_expr (a b : expr) : expr := EBin "OrToken" (group_expr T (leftp T "OrToken") a) (group_expr T (rightp T "OrToken") b).
  Definition void0 : expr := EPre "VoidToken" (EAtom "0").

  Definition not_operand (c : expr) : option expr :=
    match c with EPre op x => if is_op op "NotToken" then Some x else None | _ => None end.

  (* the if-rewrites of optimizeStmt, children already optimised *)
  Definition optimize_if (c0 : expr) (b0 : stmt) (e0 : option stmt) : stmt :=
    let has_if0 := negb (is_empty b0) in
    let has_else0 := negb (is_empty_opt e0) in
    let '(c, b, e, has_if, has_else) :=
      match not_operand c0, e0 with
      | Some x, Some es => if has_else0 then (x, es, Some b0, has_else0, has_if0) else (c0, b0, e0, has_if0, has_else0)
      | _, _ => (c0, b0, e0, has_if0, has_else0)
      end in
    if negb has_if && negb has_else then (if has_side_effects c then SExpr c else SEmpty)
    else if has_if && negb has_else then
      match b with
      | SExpr x => match not_operand c with Some u => SExpr (or_expr u x) | None => SExpr (and_expr c x) end
      | SIf c2 b2 e2 => if is_empty_opt e2 then SIf (and_expr c c2) b2 e else SIf c b e
      | _ => SIf c b e
      end
    else if negb has_if && has_else then
      match e with
      | Some (SExpr y) => SExpr (or_expr c y)
      | _ => SIf c b e
      end
    else
      match b, e with
      | SExpr x, Some (SExpr y) => SExpr (cond_expr c x y)
      | SReturn None, Some (SReturn None) => SReturn (Some (comma_expr c void0))
      | SReturn (Some x), Some (SReturn (Some y)) => SReturn (Some (cond_expr c x y))
      | SThrow x, Some (SThrow y) => SThrow (cond_expr c x y)
      | _, _ => SIf c b e
      end.

  (* the else of an if whose body ends in a flow statement is flattened into the list *)
  Definition flatten_else (s : stmt) : stmt * list stmt :=
    match s with
    | SIf c b (Some es) =>
      if is_empty es then (s, []) else
      let '(c1, b1, e1) :=
        match not_operand c with
        | Some x => if is_flow (last_stmt es) then (x, es, b) else (c, b, es)
        | None => (c, b, es)
        end in
      if is_flow (last_stmt b1) then (SIf c1 b1 None, match e1 with SBlock l => l | _ => [e1] end)
      else (SIf c1 b1 (Some e1), [])
    | _ => (s, [])
    end.

  (* merging the previous expression statement into the current statement *)
  Definition merge_prev (prev cur : stmt) : option stmt :=
    match prev with
    | SExpr l =>
      match cur with
      | SExpr r => Some (SExpr (comma_expr l r))
      | SReturn (Some v) => Some (SReturn (Some (comma_expr l v)))
      | SThrow v => Some (SThrow (comma_expr l v))
      | SIf c b e => Some (SIf (comma_expr l c) b e)
      | _ => None
      end
    | _ => None
    end.

  (* MergeIfReturnThrow: [acc] is the output so far, newest first, [cur] the statement being appended *)
  Fixpoint merge_if_flow (fuel : nat) (cur : stmt) (acc : list stmt) : list stmt :=
    match fuel with
    | O => cur :: acc
    | S k =>
      match acc with
      | SIf c b e :: rest =>
        if Bool.eqb (is_empty b) (is_empty_opt e) then cur :: acc else
        match cur with
        | SReturn None =>
            match b, e with
            | SReturn None, _ => cur :: SExpr c :: rest
            | _, Some (SReturn None) => cur :: SExpr c :: rest
            | _, _ => cur :: acc
            end
        | SReturn (Some v) =>
            match b, e with
            | SReturn (Some lv), _ => merge_if_flow k (SReturn (Some (cond_expr c lv v))) rest
            | _, Some (SReturn (Some lv)) => merge_if_flow k (SReturn (Some (cond_expr c v lv))) rest
            | _, _ => cur :: acc
            end
        | SThrow v =>
            match b, e with
            | SThrow lv, _ => merge_if_flow k (SThrow (cond_expr c lv v)) rest
            | _, Some (SThrow lv) => merge_if_flow k (SThrow (cond_expr c v lv)) rest
            | _, _ => cur :: acc
            end
        | _ => cur :: acc
        end
      | _ => cur :: acc
      end
    end.

  (* the end of a function body: a trailing return without value / of undefined goes *)
  Definition drop_trailing_return (acc : list stmt) : list stmt :=
    match acc with
    | SReturn None :: rest => rest
    | SReturn (Some v) :: rest =>
        if is_undefined v then rest
        else match v with
             | EBin op l r =>
                 if is_op op "CommaToken" && is_undefined r then
                   (match l with
                    | EBin opl _ _ => if is_op opl "CommaToken" then SReturn (Some l) :: rest else SExpr l :: rest
                    | _ => SExpr l :: rest
                    end)
                 else acc
             | _ => acc
             end
    | _ => acc
    end.

  (* optimizeStmt and optimizeStmtList; out of fuel returns the input unchanged *)
  Fixpoint optimize_stmt (fuel : nat) (s : stmt) : stmt :=
    match fuel with
    | O => s
    | S k =>
      match s with
      | SIf c b e => optimize_if c (optimize_stmt k b) (option_map (optimize_stmt k) e)
      | SBlock l =>
          match optimize_list k false l [] with
          | [] => SEmpty
          | [x] => optimize_stmt k x
          | l' => SBlock l'
          end
      | _ => s
      end
    end
  with optimize_list (fuel : nat) (function : bool) (l : list stmt) (acc : list stmt) : list stmt :=
    match fuel with
    | O => rev acc ++ l
    | S k =>
      match l with
      | [] => rev (if function then drop_trailing_return acc else acc)
      | s0 :: rest0 =>
        let '(s1, extra) := flatten_else s0 in
        let rest := extra ++ rest0 in
        let s := optimize_stmt k s1 in
        match s with
        | SEmpty => optimize_list k function rest acc
        | _ =>
          let '(cur, acc1) :=
            match acc with
            | prev :: acc' => match merge_prev prev s with Some m => (m, acc') | None => (s, acc) end
            | [] => (s, acc)
            end in
          optimize_list k function rest (merge_if_flow (S (List.length acc1)) cur acc1)
        end
      end
    end.

  (* fuel: every call of optimize_list consumes one statement of the (flattened) list or descends into one, so twice the
     number of statement nodes is ample; the correspondence check runs with this fuel *)
  Fixpoint stmt_size (s : stmt) : nat :=
    match s with
    | SIf _ b e => S (stmt_size b + match e with Some x => stmt_size x | None => 0 end)
    | SBlock l => S (fold_right (fun x n => stmt_size x + n) 0 l)
    | _ => 1
    end.
  Definition list_size (l : list stmt) : nat := fold_right (fun x n => stmt_size x + n) 0 l.
  Definition optimize_body (function : bool) (l : list stmt) : list stmt := optimize_list (2 * list_size l + 2) function l [].
End Stmt.
