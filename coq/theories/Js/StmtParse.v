(* Js/StmtParse.v — the specification side for the statement printer: a recursive-descent parser of statement token
   sequences following ECMA-262 clause 14 on the fragment (IfStatement with the `else` bound to the nearest `if`, Block,
   ReturnStatement, ThrowStatement, BreakStatement / ContinueStatement, EmptyStatement, ExpressionStatement; automatic
   semicolon insertion only where the standard inserts one without a line terminator: before `}` and at the end of the
   input), the tree it builds ([pstmt], expressions kept as their token runs), the tree the printer means to write
   ([canon]), and the semantics of parsed trees over an abstract meaning of expression token runs.
   The theorems (Js/StmtPrintProofs.v): parsing what the printer wrote gives [canon], and [canon] has the behaviour of the
   statement list it was made from — so a missing pair of braces (dangling else) or a missing semicolon is a proof failure. *)
From Coq Require Import List String Arith Bool.
Import ListNotations.
From MV Require Import Js.PrintModel Js.PrintGroup Js.RewriteModel Js.StmtModel Js.StmtPrint.
Local Open Scope string_scope.
Local Open Scope list_scope.

Inductive pstmt :=
| PExpr (e : list tok)
| PIf (c : list tok) (body : pstmt) (els : option pstmt)
| PReturn (v : option (list tok))
| PThrow (v : list tok)
| PBranch (kind : string)
| PEmpty
| PBlock (l : list pstmt).

Definition is_sk (t : stok) (s : string) : bool := match t with SK k => String.eqb k s | SE _ => false end.

(* the end of a statement that needs one: an explicit `;` (consumed), or nothing before `}` / at the end of the input *)
Definition stmt_end (ts : list stok) : option (list stok) :=
  match ts with
  | [] => Some []
  | t :: r => if is_sk t ";" then Some r else if is_sk t "}" then Some ts else None
  end.

Fixpoint parse_stmt (fuel : nat) (ts : list stok) : option (pstmt * list stok) :=
  match fuel with
  | O => None
  | S k =>
    match ts with
    | [] => None
    | SE e :: r => match stmt_end r with Some r' => Some (PExpr e, r') | None => None end
    | SK kw :: r =>
      if String.eqb kw ";" then Some (PEmpty, r)
      else if String.eqb kw "{" then
        (fix items (n : nat) (ts : list stok) (acc : list pstmt) : option (pstmt * list stok) :=
           match n with
           | O => None
           | S n' =>
             match ts with
             | [] => None
             | t :: r' =>
               if is_sk t "}" then Some (PBlock (rev acc), r')
               else match parse_stmt k ts with
                    | Some (s, rest) => items n' rest (s :: acc)
                    | None => None
                    end
             end
           end) (S (List.length r)) r []
      else if String.eqb kw "if" then
        match r with
        | SK lp :: SE c :: SK rp :: r1 =>
          if String.eqb lp "(" && String.eqb rp ")" then
            match parse_stmt k r1 with
            | Some (b, r2) =>
              match r2 with
              | SK e :: r3 =>
                if String.eqb e "else" then
                  match parse_stmt k r3 with
                  | Some (x, r4) => Some (PIf c b (Some x), r4)
                  | None => None
                  end
                else Some (PIf c b None, r2)
              | _ => Some (PIf c b None, r2)
              end
            | None => None
            end
          else None
        | _ => None
        end
      else if String.eqb kw "return" then
        match r with
        | SE e :: r1 => match stmt_end r1 with Some r' => Some (PReturn (Some e), r') | None => None end
        | _ => match stmt_end r with Some r' => Some (PReturn None, r') | None => None end
        end
      else if String.eqb kw "throw" then
        match r with
        | SE e :: r1 => match stmt_end r1 with Some r' => Some (PThrow e, r') | None => None end
        | _ => None
        end
      else if String.eqb kw "break" || String.eqb kw "continue" then
        match stmt_end r with Some r' => Some (PBranch kw, r') | None => None end
      else None
    end
  end.

(* a whole statement list (function body without its braces) *)
Fixpoint parse_list (fuel : nat) (ts : list stok) : option (list pstmt) :=
  match fuel with
  | O => None
  | S k =>
    match ts with
    | [] => Some []
    | _ => match parse_stmt fuel ts with
           | Some (s, rest) => match parse_list k rest with Some l => Some (s :: l) | None => None end
           | None => None
           end
    end
  end.

Definition parse_program (ts : list stok) : option (list pstmt) := parse_list (S (List.length ts)) ts.

Section Canon.
  Variable T : tables.
  Variable efuel : nat.
  Definition etoks (e : expr) : list tok := print_rw T efuel OpExpr (devoid T e).

  (* the statements the printer writes for s: none for an empty statement or an if without branches *)
  Fixpoint canon (fuel : nat) (s : stmt) : list pstmt :=
    match fuel with
    | O => []
    | S k =>
      let one (s : stmt) : pstmt := match canon k s with [x] => x | _ => PEmpty end in
      match s with
      | SExpr e => [PExpr (etoks e)]
      | SIf c b e =>
          let has_if := negb (is_empty b) in
          let has_else := negb (is_empty_opt e) in
          if negb has_if && negb has_else then [] else
          let body :=
            if negb has_if then PEmpty
            else if has_else && ends_in_if T (S (stmt_size b)) b then PBlock (canon k b)
            else one b in
          [PIf (etoks c) body (if has_else then match e with Some x => Some (one x) | None => None end else None)]
      | SReturn None => [PReturn None]
      | SReturn (Some e) => [PReturn (Some (etoks e))]
      | SThrow e => [PThrow (etoks e)]
      | SBranch kind => [PBranch kind]
      | SEmpty => []
      | SBlock l => [PBlock (flat_map (canon k) l)]
      | SOpaque _ => []
      end
    end.
  Definition canon_list (l : list stmt) : list pstmt := flat_map (fun s => canon (S (stmt_size s)) s) l.

  (* what the printer can write and the parser can read back: branch kinds are plain break / continue, no opaque
     statement, every if has a non-empty branch (the statement optimiser leaves no other: it turns `if(c);` into `c;`),
     and a non-empty branch is written as exactly one statement *)
  Fixpoint printable (fuel : nat) (s : stmt) : bool :=
    match fuel with
    | O => false
    | S k =>
      match s with
      | SIf c b e =>
          let has_if := negb (is_empty b) in
          let has_else := negb (is_empty_opt e) in
          (has_if || has_else) &&   (* an if without branches is written as nothing: its condition would be lost *)
          ((if has_if then printable k b && Nat.eqb (List.length (canon k b)) 1 else true) &&
           (if has_else then match e with Some x => printable k x && Nat.eqb (List.length (canon k x)) 1 | None => false end else true))
      | SBlock l => forallb (printable k) l
      | SBranch kind => String.eqb kind "break" || String.eqb kind "continue"
      | SOpaque _ => false
      | _ => true
      end
    end.
  Definition printable_list (l : list stmt) : bool := forallb (fun s => printable (S (stmt_size s)) s) l.

  (* [open_if s]: what is written for s ends in an `if` that has no `else` (so an `else` written right after it would be
     taken by that inner if): purely syntactic — an if whose else is absent / empty, or the else-chain ends in one.
     A block is closed by its `}` and never open. *)
  Fixpoint open_if (s : stmt) : bool :=
    match s with
    | SIf _ _ e => if is_empty_opt e then true else match e with Some x => open_if x | None => false end
    | _ => false
    end.
  (* [else_safe s]: at every if of s that has both branches and whose body is written WITHOUT braces (ends_in_if says
     false), the body is not open.  ends_in_if answers the question for an else-less if by asking whether optimize_stmt
     would leave it an if, which is right on optimiser output (idempotence) but not on arbitrary trees: this is the
     hypothesis of parse_print that excludes the dangling else (StmtPrintProofs.PrintCounterexample). *)
  Fixpoint else_safe (s : stmt) : bool :=
    match s with
    | SIf c b e =>
        (if negb (is_empty b) && negb (is_empty_opt e) && negb (ends_in_if T (S (stmt_size b)) b)
         then negb (open_if b) else true)
        && else_safe b && match e with Some x => else_safe x | None => true end
    | SBlock l => forallb else_safe l
    | _ => true
    end.
  Definition else_safe_list (l : list stmt) : bool := forallb else_safe l.

End Canon.

(* ---- semantics of parsed trees over an abstract meaning of expression token runs ---- *)
Section PSem.
  Variables V S : Type.
  Variable truthy : V -> bool.
  Variable vundef : V.
  Variable evt : list tok -> S -> V * S.       (* the meaning of the token run of an expression *)
  Inductive pcompletion := PCNormal | PCReturn (v : V) | PCThrow (v : V) | PCBranch (k : string).

  Fixpoint pexec (st : pstmt) (s : S) : pcompletion * S :=
    match st with
    | PExpr e => (PCNormal, snd (evt e s))
    | PIf c b e =>
        let '(v, s1) := evt c s in
        if truthy v then pexec b s1
        else match e with Some x => pexec x s1 | None => (PCNormal, s1) end
    | PReturn None => (PCReturn vundef, s)
    | PReturn (Some e) => let '(v, s1) := evt e s in (PCReturn v, s1)
    | PThrow e => let '(v, s1) := evt e s in (PCThrow v, s1)
    | PBranch k => (PCBranch k, s)
    | PEmpty => (PCNormal, s)
    | PBlock l =>
        (fix go (l : list pstmt) (s : S) : pcompletion * S :=
           match l with
           | [] => (PCNormal, s)
           | x :: r => match pexec x s with (PCNormal, s1) => go r s1 | res => res end
           end) l s
    end.
  Fixpoint pexec_list (l : list pstmt) (s : S) : pcompletion * S :=
    match l with
    | [] => (PCNormal, s)
    | x :: r => match pexec x s with (PCNormal, s1) => pexec_list r s1 | res => res end
    end.
End PSem.
