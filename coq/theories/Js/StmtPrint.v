(* Js/StmtPrint.v — F1 transcription of the statement printer of /repo/js/js.go (minifyStmt: ExprStmt, IfStmt, BlockStmt,
   ReturnStmt, ThrowStmt, BranchStmt, EmptyStmt; minifyBlockStmt; the pending-semicolon flag needsSemicolon with
   requireSemicolon / writeSemicolon; endsInIf of js/util.go, which decides when the body of an if that has an else must
   keep its braces) on the statement fragment of Js/StmtModel.v, producing tokens: keywords / punctuation as [SK], and the
   tokens of an expression (Js/RewriteModel.print_rw at precedence OpExpr) as [SE].
   [print_body] composes it with the statement optimiser: what js.Minify writes for a function body. *)
From Coq Require Import List String Arith Bool.
Import ListNotations.
From MV Require Import Js.PrintModel Js.PrintGroup Js.RewriteModel Js.StmtModel.
Local Open Scope string_scope.
Local Open Scope list_scope.

Inductive stok := SK (s : string) | SE (e : list tok).

Section StmtPrint.
  Variable T : tables.
  Variable efuel : nat.                       (* fuel of the expression printer *)

  Definition pst := (list stok * bool)%type.  (* output so far, needsSemicolon *)
  Definition out (k : list stok) (st : pst) : pst := (fst st ++ k, snd st).
  Definition require_semi (st : pst) : pst := (fst st, true).
  Definition clear_semi (st : pst) : pst := (fst st, false).
  Definition write_semi (st : pst) : pst := if snd st then (fst st ++ [SK ";"], false) else st.
  (* minifyExpr writes `void x` as 0[0] when hasSideEffects x = false (js.go, case UnaryExpr); the expression printer model
     has no case for it, so the replacement is made on the tree first: the constant `undefined` prints the same bytes *)
  Fixpoint devoid (e : expr) : expr :=
    match e with
    | EPre op x => if is_op op "VoidToken" && negb (has_side_effects T x) then EConst CUndefined else EPre op (devoid x)
    | EPost op x => EPost op (devoid x)
    | EBin op x y => EBin op (devoid x) (devoid y)
    | ECond c x y => ECond (devoid c) (devoid x) (devoid y)
    | EGroup x => EGroup (devoid x)
    | ECall f a => ECall (devoid f) (devoid a)
    | EDot x n o => EDot (devoid x) n o
    | EIndex x i o => EIndex (devoid x) (devoid i) o
    | EAtom _ | EConst _ => e
    end.
  Definition expr_toks (e : expr) : list stok := [SE (print_rw T efuel OpExpr (devoid e))].

  (* endsInIf (after the repair: an empty else counts as no else); fuel for the nested call of optimizeStmt *)
  Fixpoint ends_in_if (fuel : nat) (s : stmt) : bool :=
    match fuel with
    | O => false
    | S k =>
      match s with
      | SIf c b e =>
          if is_empty_opt e then (match optimize_stmt T (S (stmt_size s)) s with SIf _ _ _ => true | _ => false end)
          else match e with Some x => ends_in_if k x | None => false end
      | SBlock l => match rev l with x :: _ => ends_in_if k x | [] => false end
      | _ => false
      end
    end.

  Fixpoint print_stmt (fuel : nat) (s : stmt) (st : pst) : pst :=
    match fuel with
    | O => st
    | S k =>
      match s with
      | SExpr e => require_semi (out (expr_toks e) st)
      | SIf c b e =>
          let has_if := negb (is_empty b) in
          let has_else := negb (is_empty_opt e) in
          if negb has_if && negb has_else then st else
          let st1 := out ([SK "if"; SK "("] ++ expr_toks c ++ [SK ")"]) st in
          let st2 :=
            if negb has_if then require_semi st1
            else if has_else && ends_in_if (S (stmt_size b)) b
                 then clear_semi (out [SK "}"] (print_stmt k b (out [SK "{"] st1)))
                 else print_stmt k b st1 in
          if has_else
          then match e with Some x => print_stmt k x (out [SK "else"] (write_semi st2)) | None => st2 end
          else st2
      | SBlock l =>
          clear_semi (out [SK "}"]
            (fold_left (fun acc x => print_stmt k x (write_semi acc)) l (clear_semi (out [SK "{"] st))))
      | SReturn None => require_semi (out [SK "return"] st)
      | SReturn (Some e) => require_semi (out (SK "return" :: expr_toks e) st)
      | SThrow e => require_semi (out (SK "throw" :: expr_toks e) st)
      | SBranch kind => require_semi (out [SK kind] st)
      | SEmpty => st
      | SOpaque i => require_semi (out [SK i] st)
      end
    end.

  (* minifyBlockStmt on the body of a function, after optimizeStmtList: without the braces *)
  Definition print_list (l : list stmt) : list stok :=
    fst (fold_left (fun acc x => print_stmt (S (stmt_size x)) x (write_semi acc)) l ([], false)).

  Definition print_body (function : bool) (l : list stmt) : list stok := print_list (optimize_body T function l).
End StmtPrint.
