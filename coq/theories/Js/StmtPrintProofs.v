(* Js/StmtPrintProofs.v — what the statement printer writes is read back, by the ECMA-262 statement grammar, as the tree
   it means (no dangling else, no missing semicolon), and that tree has the behaviour of the statement list. *)
From Coq Require Import List String Arith Bool Lia.
Import ListNotations.
From MV Require Import Js.PrintModel Js.PrintGroup Js.RewriteModel Js.RewriteSem Js.StmtModel Js.StmtSem Js.StmtPrint Js.StmtParse.
Local Open Scope string_scope.
Local Open Scope list_scope.

(* ------------------------------------------------------------------------------------------------------------------ *)
(* Parser side: unfolding equations, the block loop, sequences of statements                                           *)
(* ------------------------------------------------------------------------------------------------------------------ *)

(* the next token is not `else` *)
Definition no_else (ts : list stok) : bool :=
  match ts with SK k :: _ => negb (String.eqb k "else") | _ => true end.
(* the tokens begin like a statement: not empty, not `}` and not `else` *)
Definition startb (ts : list stok) : bool :=
  match ts with
  | SE _ :: _ => true
  | SK k :: _ => negb (String.eqb k "}") && negb (String.eqb k "else")
  | [] => false
  end.
(* what must follow a statement whose pending-semicolon flag is f, and what the parser leaves *)
Definition follow (f : bool) (ts : list stok) : option (list stok) := if f then stmt_end ts else Some ts.
(* the end of a statement list: end of input or the `}` of the enclosing block *)
Definition closer (ts : list stok) : Prop := ts = [] \/ exists r, ts = SK "}" :: r.

Lemma closer_follow : forall f ts, closer ts -> follow f ts = Some ts.
Proof. intros f ts [-> | [r ->]]; destruct f; reflexivity. Qed.
Lemma closer_no_else : forall ts, closer ts -> no_else ts = true.
Proof. intros ts [-> | [r ->]]; reflexivity. Qed.
Lemma stmt_end_len : forall ts r, stmt_end ts = Some r -> List.length r <= List.length ts.
Proof.
  intros [|t ts] r H; simpl in H.
  - injection H as <-. auto.
  - destruct (is_sk t ";").
    + injection H as <-. simpl. lia.
    + destruct (is_sk t "}"); [injection H as <-; auto | discriminate].
Qed.
Lemma follow_len : forall f ts r, follow f ts = Some r -> List.length r <= List.length ts.
Proof. intros [] ts r H; simpl in H; [apply stmt_end_len; exact H | injection H as <-; auto]. Qed.
Lemma startb_app : forall ts r, startb ts = true -> startb (ts ++ r) = true.
Proof. intros [|[k|e] ts] r H; simpl in *; auto; discriminate. Qed.
Lemma startb_no_else : forall ts, startb ts = true -> no_else ts = true.
Proof.
  intros [|[k|e] ts] H; simpl in *; auto.
  apply andb_true_iff in H. tauto.
Qed.
Lemma startb_len : forall ts, startb ts = true -> 1 <= List.length ts.
Proof. intros [|t ts] H; simpl in *; [discriminate | lia]. Qed.
Lemma startb_cons : forall ts, startb ts = true -> exists t r, ts = t :: r /\ is_sk t "}" = false.
Proof.
  intros [|[k|e] ts] H; simpl in *; try discriminate.
  - exists (SK k), ts. split; auto. simpl. apply andb_true_iff in H. destruct H as [H _].
    destruct (String.eqb k "}"); [discriminate | reflexivity].
  - exists (SE e), ts. split; auto.
Qed.

(* the loop over the items of a block, named *)
Definition items_loop (ps : list stok -> option (pstmt * list stok)) :=
  fix items (n : nat) (ts : list stok) (acc : list pstmt) : option (pstmt * list stok) :=
    match n with
    | O => None
    | S n' =>
      match ts with
      | [] => None
      | t :: r' =>
        if is_sk t "}" then Some (PBlock (rev acc), r')
        else match ps ts with
             | Some (s, rest) => items n' rest (s :: acc)
             | None => None
             end
      end
    end.

Lemma parse_block_eq : forall k r,
    parse_stmt (S k) (SK "{" :: r) = items_loop (parse_stmt k) (S (List.length r)) r [].
Proof. reflexivity. Qed.

Lemma parse_if_eq : forall k c r1,
    parse_stmt (S k) (SK "if" :: SK "(" :: SE c :: SK ")" :: r1) =
    match parse_stmt k r1 with
    | Some (b, r2) =>
      match r2 with
      | SK e :: r3 =>
        if String.eqb e "else" then
          match parse_stmt k r3 with
          | Some (x, r4) => Some (PIf c b (Some x), r4)
          | None => None
          end
        else Some (PIf c b None, r2)
      | _ => Some (PIf c b None, r2)
      end
    | None => None
    end.
Proof. reflexivity. Qed.

Lemma parse_if_noelse : forall k c r1 b r2,
    parse_stmt k r1 = Some (b, r2) -> no_else r2 = true ->
    parse_stmt (S k) (SK "if" :: SK "(" :: SE c :: SK ")" :: r1) = Some (PIf c b None, r2).
Proof.
  intros k c r1 b r2 Hb Hn. rewrite parse_if_eq, Hb.
  destruct r2 as [|[e|e] r3]; auto.
  simpl in Hn. destruct (String.eqb e "else"); [discriminate | reflexivity].
Qed.

Lemma parse_if_else : forall k c r1 b r3 x r4,
    parse_stmt k r1 = Some (b, SK "else" :: r3) -> parse_stmt k r3 = Some (x, r4) ->
    parse_stmt (S k) (SK "if" :: SK "(" :: SE c :: SK ")" :: r1) = Some (PIf c b (Some x), r4).
Proof. intros k c r1 b r3 x r4 Hb Hx. rewrite parse_if_eq, Hb. simpl. rewrite Hx. reflexivity. Qed.

Lemma parse_empty_eq : forall k r, parse_stmt (S k) (SK ";" :: r) = Some (PEmpty, r).
Proof. reflexivity. Qed.

Lemma parse_expr_eq : forall k e r, parse_stmt (S k) (SE e :: r) =
    match stmt_end r with Some r' => Some (PExpr e, r') | None => None end.
Proof. reflexivity. Qed.

(* a sequence of statements: ts is read as ps, leaving rest; every statement starts like one, consumes something, and
   needs no more fuel than the number of tokens up to rest *)
Fixpoint seq_parse (ps : list pstmt) (ts rest : list stok) : Prop :=
  match ps with
  | [] => ts = rest
  | p :: ps' =>
    exists mid, startb ts = true /\
                (forall pf, List.length ts - List.length rest <= pf -> parse_stmt pf ts = Some (p, mid)) /\
                List.length mid < List.length ts /\
                seq_parse ps' mid rest
  end.

Lemma seq_len : forall ps ts rest, seq_parse ps ts rest -> List.length ps + List.length rest <= List.length ts.
Proof.
  induction ps as [|p ps IH]; intros ts rest H; simpl in *.
  - subst. auto.
  - destruct H as (mid & _ & _ & Hlt & Hs). apply IH in Hs. lia.
Qed.

Lemma items_seq : forall ps n ts acc rest k,
    seq_parse ps ts (SK "}" :: rest) -> List.length ps < n -> List.length ts - S (List.length rest) <= k ->
    items_loop (parse_stmt k) n ts acc = Some (PBlock (rev acc ++ ps), rest).
Proof.
  induction ps as [|p ps IH]; intros n ts acc rest k Hs Hn Hk; simpl in Hs.
  - subst ts. destruct n as [|n]; [inversion Hn|]. simpl. rewrite app_nil_r. reflexivity.
  - destruct Hs as (mid & Hst & Hp & Hlt & Hs).
    destruct n as [|n]; [inversion Hn|].
    destruct (startb_cons _ Hst) as (t & r & -> & Ht).
    cbn [items_loop]. rewrite Ht.
    rewrite (Hp k) by (simpl in *; lia).
    rewrite (IH n mid (p :: acc) rest k Hs).
    + simpl. rewrite <- app_assoc. reflexivity.
    + simpl in Hn. lia.
    + simpl in *. lia.
Qed.

Lemma parse_list_seq : forall ps ts fuel,
    seq_parse ps ts [] -> List.length ts < fuel -> parse_list fuel ts = Some ps.
Proof.
  induction ps as [|p ps IH]; intros ts fuel Hs Hf; simpl in Hs.
  - subst ts. destruct fuel; [inversion Hf | reflexivity].
  - destruct Hs as (mid & Hst & Hp & Hlt & Hs).
    destruct fuel as [|k]; [inversion Hf|].
    destruct (startb_cons _ Hst) as (t & r & -> & _).
    cbn [parse_list]. rewrite (Hp (S k)) by (simpl in *; lia).
    rewrite (IH mid k Hs) by (simpl in *; lia). reflexivity.
Qed.

(* ------------------------------------------------------------------------------------------------------------------ *)
(* Printer against parser                                                                                              *)
(* ------------------------------------------------------------------------------------------------------------------ *)
Local Arguments ends_in_if : simpl never.

Section ParsePrint.
  Variable T : tables.
  Variable efuel : nat.

  Notation print_stmt := (print_stmt T efuel).
  Notation canon := (canon T efuel).
  Notation printable := (printable T efuel).
  Notation etoks := (etoks T efuel).

  (* s is written as the tokens ts (whatever the state) leaving the flag f, and ts followed by anything that can follow
     such a statement is read back as p; if s is open, provided no `else` comes next *)
  Definition stmt_ok (k : nat) (s : stmt) (p : pstmt) : Prop :=
    exists ts f,
      (forall o f0, print_stmt k s (o, f0) = (o ++ ts, f)) /\
      startb ts = true /\
      (forall pf suffix rest',
          List.length ts <= pf -> follow f suffix = Some rest' ->
          (open_if s = true -> no_else rest' = true) ->
          parse_stmt pf (ts ++ suffix) = Some (p, rest')).

  Lemma ok_expr : forall k e, stmt_ok (S k) (SExpr e) (PExpr (etoks e)).
  Proof.
    intros k e. exists [SE (etoks e)], true. split; [|split].
    - intros o f0. reflexivity.
    - reflexivity.
    - intros pf suffix rest' Hpf Hf _. destruct pf as [|pf]; [simpl in Hpf; lia|].
      simpl app. rewrite parse_expr_eq. simpl in Hf. rewrite Hf. reflexivity.
  Qed.

  Lemma stmt_end_not_se : forall e r r', stmt_end (SE e :: r) = Some r' -> False.
  Proof. intros e r r' H. simpl in H. discriminate. Qed.

  Lemma ok_return_none : forall k, stmt_ok (S k) (SReturn None) (PReturn None).
  Proof.
    intros k. exists [SK "return"], true. split; [|split].
    - intros o f0. reflexivity.
    - reflexivity.
    - intros pf suffix rest' Hpf Hf _. destruct pf as [|pf]; [simpl in Hpf; lia|].
      simpl in Hf. simpl app.
      destruct suffix as [|[kw|e] r].
      + simpl in *. injection Hf as <-. reflexivity.
      + cbn [parse_stmt]. simpl String.eqb. cbv iota. rewrite Hf. reflexivity.
      + exfalso. eapply stmt_end_not_se; eauto.
  Qed.

  Lemma ok_return_some : forall k e, stmt_ok (S k) (SReturn (Some e)) (PReturn (Some (etoks e))).
  Proof.
    intros k e. exists [SK "return"; SE (etoks e)], true. split; [|split].
    - intros o f0. reflexivity.
    - reflexivity.
    - intros pf suffix rest' Hpf Hf _. destruct pf as [|pf]; [simpl in Hpf; lia|].
      simpl in Hf. simpl app. cbn [parse_stmt]. simpl String.eqb. cbv iota. rewrite Hf. reflexivity.
  Qed.

  Lemma ok_throw : forall k e, stmt_ok (S k) (SThrow e) (PThrow (etoks e)).
  Proof.
    intros k e. exists [SK "throw"; SE (etoks e)], true. split; [|split].
    - intros o f0. reflexivity.
    - reflexivity.
    - intros pf suffix rest' Hpf Hf _. destruct pf as [|pf]; [simpl in Hpf; lia|].
      simpl in Hf. simpl app. cbn [parse_stmt]. simpl String.eqb. cbv iota. rewrite Hf. reflexivity.
  Qed.

  Lemma ok_branch : forall k kind,
      String.eqb kind "break" || String.eqb kind "continue" = true -> stmt_ok (S k) (SBranch kind) (PBranch kind).
  Proof.
    intros k kind Hk. exists [SK kind], true. split; [|split].
    - intros o f0. reflexivity.
    - apply orb_true_iff in Hk. destruct Hk as [Hk | Hk]; apply String.eqb_eq in Hk; subst; reflexivity.
    - intros pf suffix rest' Hpf Hf _. destruct pf as [|pf]; [simpl in Hpf; lia|].
      simpl in Hf. simpl app.
      apply orb_true_iff in Hk. destruct Hk as [Hk | Hk]; apply String.eqb_eq in Hk; subst;
        cbn [parse_stmt]; simpl String.eqb; cbv iota; simpl orb; cbv iota; rewrite Hf; reflexivity.
  Qed.

  (* ---- if ---- *)
  Definition IFt (c : expr) : list stok := [SK "if"; SK "("; SE (etoks c); SK ")"].

  Lemma print_if_eq : forall k c b e st,
      print_stmt (S k) (SIf c b e) st =
      (let has_if := negb (is_empty b) in
       let has_else := negb (is_empty_opt e) in
       if negb has_if && negb has_else then st else
       let st1 := out (IFt c) st in
       let st2 :=
         if negb has_if then require_semi st1
         else if has_else && ends_in_if T (S (stmt_size b)) b
              then clear_semi (out [SK "}"] (print_stmt k b (out [SK "{"] st1)))
              else print_stmt k b st1 in
       if has_else
       then match e with Some x => print_stmt k x (out [SK "else"] (write_semi st2)) | None => st2 end
       else st2).
  Proof. reflexivity. Qed.

  Lemma ok_if_noelse : forall k c b e pb,
      is_empty b = false -> is_empty_opt e = true -> stmt_ok k b pb ->
      stmt_ok (S k) (SIf c b e) (PIf (etoks c) pb None).
  Proof.
    intros k c b e pb Hb He (tsb & fb & Hpr & Hst & Hpa).
    exists (IFt c ++ tsb), fb. split; [|split].
    - intros o f0. rewrite print_if_eq, Hb, He. simpl.
      destruct e; unfold out; simpl; rewrite Hpr, <- app_assoc; reflexivity.
    - reflexivity.
    - intros pf suffix rest' Hpf Hf Hd. destruct pf as [|pf]; [simpl in Hpf; lia|].
      assert (Hopen : open_if (SIf c b e) = true) by (simpl; rewrite He; reflexivity).
      specialize (Hd Hopen).
      unfold IFt. simpl app. apply parse_if_noelse; [|exact Hd].
      apply Hpa; [simpl in Hpf; lia | exact Hf | intros _; exact Hd].
  Qed.

  Lemma ok_if_nobody : forall k c b x px,
      is_empty b = true -> is_empty x = false -> stmt_ok k x px ->
      stmt_ok (S k) (SIf c b (Some x)) (PIf (etoks c) PEmpty (Some px)).
  Proof.
    intros k c b x px Hb Hx (tsx & fx & Hpr & Hst & Hpa).
    exists (IFt c ++ [SK ";"; SK "else"] ++ tsx), fx. split; [|split].
    - intros o f0. rewrite print_if_eq, Hb. simpl is_empty_opt. rewrite Hx. simpl.
      unfold out; simpl. rewrite Hpr. rewrite <- !app_assoc. reflexivity.
    - reflexivity.
    - intros pf suffix rest' Hpf Hf Hd. destruct pf as [|pf]; [simpl in Hpf; lia|].
      unfold IFt. simpl app.
      destruct pf as [|pf]; [simpl in Hpf; lia|].
      eapply parse_if_else; [apply parse_empty_eq|].
      apply Hpa; [simpl in Hpf; rewrite ?app_length in Hpf; simpl in Hpf; lia | exact Hf |].
      intros Ho. apply Hd. simpl. rewrite Hx. exact Ho.
  Qed.

  Lemma ok_if_plain : forall k c b x pb px,
      is_empty b = false -> is_empty x = false ->
      ends_in_if T (S (stmt_size b)) b = false -> open_if b = false ->
      stmt_ok k b pb -> stmt_ok k x px ->
      stmt_ok (S k) (SIf c b (Some x)) (PIf (etoks c) pb (Some px)).
  Proof.
    intros k c b x pb px Hb Hx He Ho (tsb & fb & Hprb & Hstb & Hpab) (tsx & fx & Hprx & Hstx & Hpax).
    exists (IFt c ++ tsb ++ (if fb then [SK ";"] else []) ++ [SK "else"] ++ tsx), fx. split; [|split].
    - intros o f0. rewrite print_if_eq, Hb. simpl is_empty_opt. rewrite Hx, He. simpl.
      unfold out; simpl. rewrite Hprb. unfold write_semi. simpl.
      destruct fb; simpl; rewrite Hprx; rewrite <- !app_assoc; reflexivity.
    - reflexivity.
    - intros pf suffix rest' Hpf Hf Hd. destruct pf as [|pf]; [simpl in Hpf; lia|].
      simpl in Hpf. rewrite ?app_length in Hpf. simpl in Hpf. rewrite ?app_length in Hpf. simpl in Hpf.
      unfold IFt. simpl app. rewrite <- !app_assoc.
      eapply parse_if_else.
      + apply Hpab with (rest' := SK "else" :: tsx ++ suffix); [lia | | rewrite Ho; discriminate].
        destruct fb; reflexivity.
      + apply Hpax; [lia | exact Hf |].
        intros Hox. apply Hd. simpl. rewrite Hx. exact Hox.
  Qed.

  Lemma ok_if_braces : forall k c b x pb px,
      is_empty b = false -> is_empty x = false ->
      ends_in_if T (S (stmt_size b)) b = true ->
      stmt_ok k b pb -> stmt_ok k x px ->
      stmt_ok (S k) (SIf c b (Some x)) (PIf (etoks c) (PBlock [pb]) (Some px)).
  Proof.
    intros k c b x pb px Hb Hx He (tsb & fb & Hprb & Hstb & Hpab) (tsx & fx & Hprx & Hstx & Hpax).
    exists (IFt c ++ [SK "{"] ++ tsb ++ [SK "}"; SK "else"] ++ tsx), fx. split; [|split].
    - intros o f0. rewrite print_if_eq, Hb. simpl is_empty_opt. rewrite Hx, He. simpl.
      unfold out; simpl. rewrite Hprb. unfold write_semi. simpl.
      rewrite Hprx; rewrite <- !app_assoc; reflexivity.
    - reflexivity.
    - intros pf suffix rest' Hpf Hf Hd. destruct pf as [|pf]; [simpl in Hpf; lia|].
      simpl in Hpf. rewrite ?app_length in Hpf. simpl in Hpf. rewrite ?app_length in Hpf. simpl in Hpf.
      unfold IFt. simpl app. rewrite <- !app_assoc. simpl app.
      destruct pf as [|pf]; [lia|].
      eapply parse_if_else.
      + rewrite parse_block_eq.
        set (rest0 := SK "else" :: tsx ++ suffix).
        apply (items_seq [pb] _ _ [] rest0 pf).
        * simpl. exists (SK "}" :: rest0). split; [apply startb_app; exact Hstb|]. split; [|split].
          -- intros pf' Hpf'. apply Hpab.
             ++ rewrite app_length in Hpf'. simpl in Hpf'. lia.
             ++ destruct fb; reflexivity.
             ++ intros _. reflexivity.
          -- rewrite app_length. apply startb_len in Hstb. simpl. lia.
          -- reflexivity.
        * rewrite app_length. simpl. lia.
        * rewrite app_length. simpl. lia.
      + apply Hpax; [lia | exact Hf |].
        intros Hox. apply Hd. simpl. rewrite Hx. exact Hox.
  Qed.

  (* ---- statement lists ---- *)
  Lemma canon_cases : forall k s, canon k s = [] \/ exists p, canon k s = [p].
  Proof.
    intros [|k] s; [left; reflexivity|].
    destruct s as [e|c b e|[v|]|v|kind| |l|i]; simpl; eauto.
    destruct (negb (negb (is_empty b)) && negb (negb (is_empty_opt e))); eauto.
  Qed.

  Lemma len1 : forall (A : Type) (l : list A), Nat.eqb (List.length l) 1 = true -> exists x, l = [x].
  Proof. intros A [|x [|y l]] H; simpl in H; try discriminate. eauto. Qed.

  Lemma invisible_print : forall k s st, printable k s = true -> canon k s = [] -> print_stmt k s st = st.
  Proof.
    intros [|k] s st Hp Hc; [reflexivity|].
    destruct s as [e|c b e|[v|]|v|kind| |l|i]; simpl in Hc; try discriminate; try reflexivity.
    simpl in Hp. rewrite print_if_eq.
    destruct (is_empty b), (is_empty_opt e); simpl in *; discriminate.
  Qed.

  Definition pfold (fu : stmt -> nat) (l : list stmt) (st : pst) : pst :=
    fold_left (fun acc x => print_stmt (fu x) x (write_semi acc)) l st.

  Lemma pfold_cons : forall fu x l st, pfold fu (x :: l) st = pfold fu l (print_stmt (fu x) x (write_semi st)).
  Proof. reflexivity. Qed.
  Lemma write_semi_true : forall o, write_semi (o, true) = (o ++ [SK ";"], false).
  Proof. reflexivity. Qed.
  Lemma write_semi_false : forall o, write_semi (o, false) = (o, false).
  Proof. reflexivity. Qed.

  Definition list_ok (fu : stmt -> nat) (l : list stmt) : Prop :=
    forall f0, exists ts f1,
      (forall o, pfold fu l (o, f0) = (o ++ ts, f1)) /\
      (forall suffix, closer suffix -> exists mid,
          follow f0 (ts ++ suffix) = Some mid /\ no_else mid = true /\
          seq_parse (flat_map (fun s => canon (fu s) s) l) mid suffix).

  Lemma list_lemma : forall fu l,
      (forall s, In s l -> printable (fu s) s = true -> forall p, canon (fu s) s = [p] -> stmt_ok (fu s) s p) ->
      forallb (fun s => printable (fu s) s) l = true ->
      list_ok fu l.
  Proof.
    intros fu l. induction l as [|x l IH]; intros Hall Hp f0.
    - exists [], f0. split.
      + intros o. simpl. rewrite app_nil_r. reflexivity.
      + intros suffix Hc. exists suffix. simpl. split; [apply closer_follow; exact Hc|].
        split; [apply closer_no_else; exact Hc | reflexivity].
    - simpl in Hp. apply andb_true_iff in Hp. destruct Hp as [Hpx Hpl].
      assert (IHl : list_ok fu l).
      { apply IH; [|exact Hpl]. intros s Hin. apply Hall. right. exact Hin. }
      clear IH.
      destruct (canon_cases (fu x) x) as [Hnil | [p Hcx]].
      + (* x writes nothing *)
        destruct f0.
        * destruct (IHl false) as (ts & f1 & Hpr & Hpa).
          exists (SK ";" :: ts), f1. split.
          -- intros o. rewrite pfold_cons, write_semi_true, invisible_print by assumption.
             rewrite Hpr, <- app_assoc. reflexivity.
          -- intros suffix Hc. destruct (Hpa suffix Hc) as (mid & Hf & Hn & Hs).
             simpl in Hf. injection Hf as <-.
             exists (ts ++ suffix). simpl. rewrite Hnil. simpl. auto.
        * destruct (IHl false) as (ts & f1 & Hpr & Hpa).
          exists ts, f1. split.
          -- intros o. rewrite pfold_cons, write_semi_false, invisible_print by assumption.
             apply Hpr.
          -- intros suffix Hc. destruct (Hpa suffix Hc) as (mid & Hf & Hn & Hs).
             exists mid. simpl. rewrite Hnil. simpl. auto.
      + (* x writes one statement *)
        destruct (Hall x (or_introl eq_refl) Hpx p Hcx) as (tsx & fx & Hprx & Hstx & Hpax).
        destruct (IHl fx) as (ts & f1 & Hpr & Hpa).
        exists ((if f0 then [SK ";"] else []) ++ tsx ++ ts), f1. split.
        * intros o. rewrite pfold_cons.
          destruct f0; [rewrite write_semi_true | rewrite write_semi_false];
            rewrite Hprx, Hpr, <- ?app_assoc; reflexivity.
        * intros suffix Hc. destruct (Hpa suffix Hc) as (midr & Hf & Hn & Hs).
          exists (tsx ++ ts ++ suffix). split; [|split].
          -- destruct f0; simpl; rewrite <- !app_assoc; reflexivity.
          -- apply startb_no_else, startb_app, Hstx.
          -- simpl. rewrite Hcx. simpl. exists midr. split; [apply startb_app, Hstx|]. split; [|split].
             ++ intros pf Hpf. apply Hpax; [rewrite !app_length in Hpf; lia | exact Hf | intros _; exact Hn].
             ++ apply follow_len in Hf. apply startb_len in Hstx. rewrite !app_length in *. lia.
             ++ exact Hs.
  Qed.

  Lemma print_block_eq : forall k l st,
      print_stmt (S k) (SBlock l) st =
      clear_semi (out [SK "}"] (pfold (fun _ => k) l (clear_semi (out [SK "{"] st)))).
  Proof. reflexivity. Qed.

  Lemma ok_block : forall k l,
      list_ok (fun _ => k) l -> stmt_ok (S k) (SBlock l) (PBlock (flat_map (canon k) l)).
  Proof.
    intros k l Hl. destruct (Hl false) as (ts & f1 & Hpr & Hpa).
    exists (SK "{" :: ts ++ [SK "}"]), false. split; [|split].
    - intros o f0. rewrite print_block_eq. unfold out, clear_semi. simpl.
      rewrite Hpr. simpl. rewrite <- !app_assoc. reflexivity.
    - reflexivity.
    - intros pf suffix rest' Hpf Hf _. simpl in Hf. injection Hf as <-.
      destruct pf as [|pf]; [simpl in Hpf; lia|].
      simpl in Hpf. rewrite app_length in Hpf. simpl in Hpf.
      simpl app. rewrite <- app_assoc. simpl app. rewrite parse_block_eq.
      destruct (Hpa (SK "}" :: suffix)) as (mid & Hfm & _ & Hs); [right; eauto|].
      simpl in Hfm. injection Hfm as <-.
      apply (items_seq _ _ _ [] suffix pf Hs).
      + apply seq_len in Hs. simpl in Hs. lia.
      + rewrite app_length. simpl. lia.
  Qed.

  (* ---- the induction ---- *)
  Lemma printable_if_eq : forall k c b e,
      printable (S k) (SIf c b e) =
      ((negb (is_empty b) || negb (is_empty_opt e)) &&
       ((if negb (is_empty b) then printable k b && Nat.eqb (List.length (canon k b)) 1 else true) &&
        (if negb (is_empty_opt e)
         then match e with Some x => printable k x && Nat.eqb (List.length (canon k x)) 1 | None => false end
         else true))).
  Proof. reflexivity. Qed.

  Lemma canon_if_eq : forall k c b e,
      canon (S k) (SIf c b e) =
      (let one (s : stmt) : pstmt := match canon k s with [x] => x | _ => PEmpty end in
       let has_if := negb (is_empty b) in
       let has_else := negb (is_empty_opt e) in
       if negb has_if && negb has_else then [] else
       let body :=
         if negb has_if then PEmpty
         else if has_else && ends_in_if T (S (stmt_size b)) b then PBlock (canon k b)
         else one b in
       [PIf (etoks c) body (if has_else then match e with Some x => Some (one x) | None => None end else None)]).
  Proof. reflexivity. Qed.

  Lemma else_safe_if_eq : forall c b e,
      else_safe T (SIf c b e) =
      ((if negb (is_empty b) && negb (is_empty_opt e) && negb (ends_in_if T (S (stmt_size b)) b)
        then negb (open_if b) else true)
       && else_safe T b && match e with Some x => else_safe T x | None => true end).
  Proof. reflexivity. Qed.

  Lemma stmt_main : forall k s p,
      printable k s = true -> else_safe T s = true -> canon k s = [p] -> stmt_ok k s p.
  Proof.
    induction k as [|k IH]; intros s p Hp Hs Hc; [discriminate|].
    destruct s as [e|c b e|[v|]|v|kind| |l|i].
    - simpl in Hc. injection Hc as <-. apply ok_expr.
    - (* if *)
      rewrite printable_if_eq in Hp. rewrite canon_if_eq in Hc. rewrite else_safe_if_eq in Hs.
      apply andb_true_iff in Hs. destruct Hs as [Hs Hse].
      apply andb_true_iff in Hs. destruct Hs as [Hsafe Hsb].
      apply andb_true_iff in Hp. destruct Hp as [_ Hp].
      apply andb_true_iff in Hp. destruct Hp as [Hpb Hpe].
      destruct (is_empty b) eqn:Hb; simpl in Hpb, Hc, Hsafe.
      + (* no body *)
        destruct e as [x|]; simpl in Hpe, Hc; [|discriminate].
        destruct (is_empty x) eqn:Hx; simpl in Hpe, Hc; [discriminate|].
        apply andb_true_iff in Hpe. destruct Hpe as [Hpx Hlx].
        destruct (len1 _ _ Hlx) as [px Hcx]. rewrite Hcx in Hc. injection Hc as <-.
        apply ok_if_nobody; auto.
      + apply andb_true_iff in Hpb. destruct Hpb as [Hpb Hlb].
        destruct (len1 _ _ Hlb) as [pb Hcb]. rewrite Hcb in Hc.
        destruct (is_empty_opt e) eqn:He; simpl in Hpe, Hc, Hsafe.
        * injection Hc as <-. apply ok_if_noelse; auto.
        * destruct e as [x|]; [|discriminate]. simpl in He.
          apply andb_true_iff in Hpe. destruct Hpe as [Hpx Hlx].
          destruct (len1 _ _ Hlx) as [px Hcx]. rewrite Hcx in Hc.
          destruct (ends_in_if T (S (stmt_size b)) b) eqn:Hends; simpl in Hc, Hsafe; injection Hc as <-.
          -- apply ok_if_braces; auto.
          -- apply ok_if_plain; auto. destruct (open_if b); [discriminate | reflexivity].
    - simpl in Hc. injection Hc as <-. apply ok_return_some.
    - simpl in Hc. injection Hc as <-. apply ok_return_none.
    - simpl in Hc. injection Hc as <-. apply ok_throw.
    - simpl in Hc. injection Hc as <-. apply ok_branch. exact Hp.
    - discriminate.
    - (* block *)
      simpl in Hc. injection Hc as <-. apply ok_block.
      simpl in Hp. simpl in Hs.
      apply list_lemma; [|exact Hp].
      intros s Hin Hps q Hq. apply IH; auto.
      rewrite forallb_forall in Hs. apply Hs. exact Hin.
    - discriminate.
  Qed.

  (* TARGET 1: for EVERY printable statement list (not only optimiser output) in which no if-with-else has an open body
     written without braces (else_safe_list: see PrintCounterexample below for why it is needed) *)
  Theorem parse_print : forall l,
      printable_list T efuel l = true ->
      else_safe_list T l = true ->
      parse_program (print_list T efuel l) = Some (canon_list T efuel l).
  Proof.
    intros l Hp Hs.
    assert (Hl : list_ok (fun s => S (stmt_size s)) l).
    { apply list_lemma; [|exact Hp].
      intros s Hin Hps q Hq. apply stmt_main; auto.
      unfold else_safe_list in Hs. rewrite forallb_forall in Hs. apply Hs. exact Hin. }
    destruct (Hl false) as (ts & f1 & Hpr & Hpa).
    destruct (Hpa [] (or_introl eq_refl)) as (mid & Hf & _ & Hsq).
    simpl in Hf. injection Hf as <-. rewrite app_nil_r in Hsq.
    unfold print_list. fold (pfold (fun s => S (stmt_size s)) l ([], false)).
    rewrite Hpr. simpl fst. unfold parse_program.
    apply parse_list_seq; [exact Hsq | lia].
  Qed.
End ParsePrint.

(* ------------------------------------------------------------------------------------------------------------------ *)
(* The tree the printer means has the behaviour of the statement list                                                  *)
(* ------------------------------------------------------------------------------------------------------------------ *)
Lemma stmt_size_in : forall x l, In x l -> stmt_size x <= fold_right (fun x n => stmt_size x + n) 0 l.
Proof.
  intros x l. induction l as [|y l IH]; intros Hin; simpl in *; [contradiction|].
  destruct Hin as [-> | Hin]; [lia | apply IH in Hin; lia].
Qed.

Section CanonSem.
  Variable T : tables.
  Variable efuel : nat.
  Variables V S : Type.
  Variable truthy : V -> bool.
  Variables vtrue vfalse vundef vinf : V.
  Variable var : string -> S -> V.
  Variable assign : string -> V -> S -> S.
  Variable call : V -> V -> S -> V * S.
  Variable strict_eq : V -> V -> bool.
  Variable loose_eq : V -> V -> S -> bool * S.
  Variable compare : string -> V -> V -> S -> bool * S.
  Variable arith : string -> V -> V -> S -> V * S.
  Variable pure_unop : string -> V -> V.
  Variable unop : string -> V -> S -> V * S.
  Variable member : string -> V -> S -> V * S.
  Variable index : V -> V -> S -> V * S.
  Variable nullish : V -> bool.
  Variable opaque : string -> S -> completion V * S.
  Variable evt : list tok -> S -> V * S.

  Notation ev := (eval T V S truthy vtrue vfalse vundef vinf var assign call strict_eq loose_eq compare arith pure_unop unop member index nullish).
  Notation exec := (exec T V S truthy vtrue vfalse vundef vinf var assign call strict_eq loose_eq compare arith pure_unop unop member index nullish opaque).
  Notation exec_list := (exec_list T V S truthy vtrue vfalse vundef vinf var assign call strict_eq loose_eq compare arith pure_unop unop member index nullish opaque).
  Notation pexec := (pexec V S truthy vundef evt).
  Notation pexec_list := (pexec_list V S truthy vundef evt).

  (* the expression printer is meaning-preserving: proved separately for the expression fragment (RewritePipeProofs);
     here the interface between the two levels *)
  Hypothesis evt_etoks : forall e s, evt (etoks T efuel e) s = ev e s.

  Definition same_completion (a : pcompletion V * S) (b : completion V * S) : Prop :=
    snd a = snd b /\
    match fst a, fst b with
    | PCNormal _, CNormal _ => True
    | PCReturn _ x, CReturn _ y => x = y
    | PCThrow _ x, CThrow _ y => x = y
    | PCBranch _ x, CBranch _ y => x = y
    | _, _ => False
    end.

  Lemma same_normal : forall s, same_completion (PCNormal V, s) (CNormal V, s).
  Proof. intros s. split; simpl; auto. Qed.

  Lemma pexec_block : forall l s, pexec (PBlock l) s = pexec_list l s.
  Proof.
    induction l as [|x l IH]; intros s; [reflexivity|].
    simpl. destruct (pexec x s) as [[| | |] s1]; auto.
  Qed.
  Lemma exec_block : forall l s, exec (SBlock l) s = exec_list l s.
  Proof.
    induction l as [|x l IH]; intros s; [reflexivity|].
    simpl. destruct (exec x s) as [[| | |] s1]; auto.
  Qed.
  Lemma pexec_list_one : forall p s, pexec_list [p] s = pexec p s.
  Proof. intros p s. simpl. destruct (pexec p s) as [[| | |] s1]; reflexivity. Qed.
  Lemma pexec_list_app : forall a b s,
      pexec_list (a ++ b) s = match pexec_list a s with (PCNormal _, s1) => pexec_list b s1 | res => res end.
  Proof.
    induction a as [|x a IH]; intros b s; [reflexivity|].
    simpl. destruct (pexec x s) as [[| | |] s1]; auto.
  Qed.

  Lemma same_seq : forall a b (fa : S -> pcompletion V * S) (fb : S -> completion V * S),
      same_completion a b -> (forall s, same_completion (fa s) (fb s)) ->
      same_completion (let (p, s1) := a in
                       match p with
                       | PCNormal _ => fa s1
                       | PCReturn _ v => (PCReturn V v, s1)
                       | PCThrow _ v => (PCThrow V v, s1)
                       | PCBranch _ k => (PCBranch V k, s1)
                       end)
                      (let (c, s1) := b in
                       match c with
                       | CNormal _ => fb s1
                       | CReturn _ v => (CReturn V v, s1)
                       | CThrow _ v => (CThrow V v, s1)
                       | CBranch _ k => (CBranch V k, s1)
                       end).
  Proof.
    intros [[| | |] sa] [[| | |] sb] fa fb [Hs Hc] Hf; simpl in *; subst; try contradiction;
      try (split; simpl; auto; fail). apply Hf.
  Qed.

  (* an empty statement does nothing *)
  Lemma empty_exec_sized : forall n s st, stmt_size s <= n -> is_empty s = true -> exec s st = (CNormal V, st).
  Proof.
    induction n as [|n IH]; intros s st Hn He.
    - destruct s; simpl in Hn; lia.
    - destruct s as [e|c b e|v|v|kind| |l|i]; simpl in He; try discriminate; [reflexivity|].
      rewrite exec_block. simpl in Hn.
      assert (Hl : forall x, In x l -> stmt_size x <= n).
      { intros x Hin. apply stmt_size_in in Hin. lia. }
      clear Hn. revert st. induction l as [|x l IHl]; intros st; [reflexivity|].
      simpl in He. apply andb_true_iff in He. destruct He as [Hx Hl'].
      simpl. rewrite (IH x st) by (auto; apply Hl; left; reflexivity).
      apply IHl; auto. intros y Hy. apply Hl. right. exact Hy.
  Qed.
  Lemma empty_exec : forall s st, is_empty s = true -> exec s st = (CNormal V, st).
  Proof. intros s st. apply (empty_exec_sized (stmt_size s)). auto. Qed.

  Lemma canon_sem_list : forall fu l,
      (forall x, In x l -> printable T efuel (fu x) x = true ->
                 forall st, same_completion (pexec_list (canon T efuel (fu x) x) st) (exec x st)) ->
      forallb (fun s => printable T efuel (fu s) s) l = true ->
      forall st, same_completion (pexec_list (flat_map (fun s => canon T efuel (fu s) s) l) st) (exec_list l st).
  Proof.
    intros fu l. induction l as [|x l IH]; intros Hall Hp st.
    - apply same_normal.
    - simpl in Hp. apply andb_true_iff in Hp. destruct Hp as [Hpx Hpl].
      simpl. rewrite pexec_list_app.
      apply (same_seq (pexec_list (canon T efuel (fu x) x) st) (exec x st)
                      (fun s => pexec_list (flat_map (fun s => canon T efuel (fu s) s) l) s)
                      (fun s => exec_list l s)).
      + apply Hall; [left; reflexivity | exact Hpx].
      + apply IH; [|exact Hpl]. intros y Hy. apply Hall. right. exact Hy.
  Qed.

  Lemma canon_sem_stmt : forall k s st,
      printable T efuel k s = true ->
      same_completion (pexec_list (canon T efuel k s) st) (exec s st).
  Proof.
    induction k as [|k IH]; intros s st Hp; [discriminate|].
    destruct s as [e|c b e|[v|]|v|kind| |l|i].
    - simpl. rewrite evt_etoks. apply same_normal.
    - (* if *)
      rewrite printable_if_eq in Hp. rewrite canon_if_eq.
      apply andb_true_iff in Hp. destruct Hp as [Hor Hp].
      apply andb_true_iff in Hp. destruct Hp as [Hpb Hpe].
      (* the two branches, as they are run *)
      assert (Hbody : forall s1,
                 same_completion
                   (pexec (if negb (negb (is_empty b)) then PEmpty
                           else if negb (is_empty_opt e) && ends_in_if T (Datatypes.S (stmt_size b)) b then PBlock (canon T efuel k b)
                           else match canon T efuel k b with [x] => x | _ => PEmpty end) s1)
                   (exec b s1)).
      { intros s1. destruct (is_empty b) eqn:Hb; simpl negb; cbv iota.
        - rewrite empty_exec by exact Hb. apply same_normal.
        - simpl in Hpb. apply andb_true_iff in Hpb. destruct Hpb as [Hpb Hlb].
          destruct (len1 _ _ Hlb) as [pb Hcb].
          specialize (IH b s1 Hpb). rewrite Hcb, pexec_list_one in IH. rewrite Hcb.
          destruct (negb (is_empty_opt e) && ends_in_if T (Datatypes.S (stmt_size b)) b).
          + rewrite pexec_block, pexec_list_one. exact IH.
          + exact IH. }
      assert (Hels : forall s1,
                 same_completion
                   (match (if negb (is_empty_opt e)
                           then match e with
                                | Some x => Some (match canon T efuel k x with [y] => y | _ => PEmpty end)
                                | None => None
                                end
                           else None) with
                    | Some x => pexec x s1
                    | None => (PCNormal V, s1)
                    end)
                   (match e with Some x => exec x s1 | None => (CNormal V, s1) end)).
      { intros s1. destruct e as [x|]; simpl is_empty_opt in *.
        - destruct (is_empty x) eqn:Hx; simpl negb in *; cbv iota in *.
          + rewrite empty_exec by exact Hx. apply same_normal.
          + apply andb_true_iff in Hpe. destruct Hpe as [Hpx Hlx].
            destruct (len1 _ _ Hlx) as [px Hcx].
            specialize (IH x s1 Hpx). rewrite Hcx, pexec_list_one in IH. rewrite Hcx. exact IH.
        - simpl. apply same_normal. }
      cbv zeta.
      destruct (negb (negb (is_empty b)) && negb (negb (is_empty_opt e))) eqn:Hnone.
      { exfalso. destruct (is_empty b), (is_empty_opt e); simpl in *; discriminate. }
      rewrite pexec_list_one. cbn [StmtParse.pexec StmtSem.exec].
      rewrite evt_etoks. unfold StmtSem.ev.
      destruct (ev c st) as [v s1]. destruct (truthy v); [apply Hbody | apply Hels].
    - simpl. rewrite evt_etoks. unfold StmtSem.ev. destruct (ev v st) as [x s1]. split; reflexivity.
    - simpl. split; reflexivity.
    - simpl. rewrite evt_etoks. unfold StmtSem.ev. destruct (ev v st) as [x s1]. split; reflexivity.
    - simpl. split; reflexivity.
    - apply same_normal.
    - (* block *)
      simpl canon. rewrite pexec_list_one, pexec_block, exec_block.
      simpl in Hp.
      apply (canon_sem_list (fun _ => k)); [|exact Hp].
      intros x _ Hpx st'. apply IH. exact Hpx.
    - discriminate.
  Qed.

  (* TARGET 2 *)
  Theorem canon_sem : forall l s,
      printable_list T efuel l = true ->
      same_completion (pexec_list (canon_list T efuel l) s) (exec_list l s).
  Proof.
    intros l s Hp. unfold canon_list.
    apply (canon_sem_list (fun x => Datatypes.S (stmt_size x))); [|exact Hp].
    intros x _ Hpx st. apply canon_sem_stmt. exact Hpx.
  Qed.

  (* TARGET 3: the two together *)
  Theorem printed_program_behaves : forall l s,
      printable_list T efuel l = true ->
      else_safe_list T l = true ->
      exists p, parse_program (print_list T efuel l) = Some p /\
                same_completion (pexec_list p s) (exec_list l s).
  Proof.
    intros l s Hp Hs. exists (canon_list T efuel l). split.
    - apply parse_print; assumption.
    - apply canon_sem. exact Hp.
  Qed.
End CanonSem.

(* ------------------------------------------------------------------------------------------------------------------ *)
(* Why parse_print needs else_safe_list: on a tree that is NOT optimiser output, ends_in_if can answer "no" for a body *)
(* that is an else-less if (because optimize_stmt would turn that if into an expression), the braces are left out,     *)
(* and the `else` is read with the inner if.                                                                            *)
(*   source tree   if(a){ if(b) x } else y      written   if(a)if(b)x;else y      read   if(a){ if(b) x; else y }        *)
(* ------------------------------------------------------------------------------------------------------------------ *)
Module PrintCounterexample.
  Definition T0 : tables := PrintGen.T_gen.
  Definition a := EAtom "a".  Definition b := EAtom "b".  Definition x := EAtom "x".  Definition y := EAtom "y".
  Definition l0 : list stmt := [SIf a (SIf b (SExpr x) None) (Some (SExpr y))].
  Definition tk (e : expr) : list tok := etoks T0 0 e.

  Example l0_printable : printable_list T0 0 l0 = true.
  Proof. vm_compute. reflexivity. Qed.
  Example l0_not_else_safe : else_safe_list T0 l0 = false.
  Proof. vm_compute. reflexivity. Qed.
  Example l0_written :
    print_list T0 0 l0 =
    [SK "if"; SK "("; SE (tk a); SK ")"; SK "if"; SK "("; SE (tk b); SK ")"; SE (tk x); SK ";"; SK "else"; SE (tk y)].
  Proof. vm_compute. reflexivity. Qed.
  Example l0_meant :
    canon_list T0 0 l0 = [PIf (tk a) (PIf (tk b) (PExpr (tk x)) None) (Some (PExpr (tk y)))].
  Proof. vm_compute. reflexivity. Qed.
  Example l0_read :
    parse_program (print_list T0 0 l0) = Some [PIf (tk a) (PIf (tk b) (PExpr (tk x)) (Some (PExpr (tk y)))) None].
  Proof. vm_compute. reflexivity. Qed.
  Example dangling_else : parse_program (print_list T0 0 l0) <> Some (canon_list T0 0 l0).
  Proof. vm_compute. intros H. discriminate H. Qed.

  (* the same under a block whose last statement is the else-less if: ends_in_if looks through the block, but SBlock
     always writes its own braces, so this one is harmless (read back as meant) *)
  Definition l1 : list stmt := [SIf a (SBlock [SExpr x; SIf b (SExpr x) None]) (Some (SExpr y))].
  Example l1_fine : parse_program (print_list T0 0 l1) = Some (canon_list T0 0 l1).
  Proof. vm_compute. reflexivity. Qed.

  (* what the optimiser makes of l0 is else_safe: the inner if has become an expression *)
  Example l0_optimised_safe : else_safe_list T0 (optimize_body T0 true l0) = true.
  Proof. vm_compute. reflexivity. Qed.
End PrintCounterexample.

Print Assumptions parse_print.
Print Assumptions printed_program_behaves.
